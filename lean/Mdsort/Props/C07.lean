import Mdsort.Proofs.Safety
import Mdsort.Proofs.L0Decode
import Mdsort.Proofs.L0Message
import Mdsort.Proofs.L0Mime
import Mdsort.Proofs.L0Util
import Mdsort.Proofs.L0Unfold
import Mdsort.Proofs.L0RefineHeader
import Mdsort.Proofs.L0RefineSearch
import Mdsort.Proofs.L0RefineMime
import Mdsort.Proofs.L0RefineUtil
import Mdsort.Proofs.L0RefineAttach
import Mdsort.Proofs.L0Buffer

/-!
# C07 - hostile message content cannot corrupt memory, crash or hang mdsort

What a theorem about the model can carry, and what it cannot: the model works on byte lists, where a read
beyond the terminator is not expressible - that the C code's pointers stay where the model's suffixes are
is decided by running the real code on the same inputs under AddressSanitizer/UndefinedBehaviorSanitizer
and comparing its results with the model's (the check).  The theorems below are the arithmetic and
progress facts the C code's safety rests on: every decoder's output fits the buffer its caller
allocated, every table index read is inside the table, every scanner returns pieces of the text it was
given, and every loop that the model bounds with fuel terminates by itself (the fuel is irrelevant), for
every byte string.  All model functions are total (structural or well-founded recursion accepted by the
kernel), so "terminates with match, non-match or error" holds of the model by construction.
-/

namespace Mdsort.Props
open Mdsort Mdsort.Model

/-- Bounded decoders: `dec[n] = '\0'` in `base64_decode` is inside the `strlen + 1` bytes allocated, `b64_pton`
never reports more than the target holds, and the quoted-printable and RFC 2047 decoders never produce more
than they read. -/
theorem C07_decoders_fit :
    (∀ s out : Bytes, base64DecodeRaw s = some out → out.length ≤ s.length) ∧
    (∀ (s out : Bytes) (n : Nat), b64pton s n = some out → out.length ≤ n) ∧
    (∀ s : Bytes, (qpDecodeRaw s).length ≤ s.length) ∧
    (∀ s : Bytes, (rfc2047DecodeRaw s).length ≤ s.length) :=
  ⟨Proofs.b64_fits, Proofs.b64pton_fits, Proofs.qp_fits, Proofs.rfc2047_fits⟩

/-- Header table: every probe of the binary search is inside the table, the search terminates by itself, and
the slice handed to callers is inside the table - for every table, sorted or not, and every name.
NOTE (audit au2): the first clause is about `Proofs.bsearchProbes`, a ghost copy of `Model.bsearch` that lists the
indices `mi` (the list-level `bsearch` reads with the totalised `hs[mi]!`, on which "in bounds" cannot be stated);
no theorem links the ghost to `bsearch`, and the probes of the `beg` / `end` scans are not listed.  The statement that
carries weight is `C07_L0_search` below (checked accessor on every probe, `beg - 1` and `end` included). -/
theorem C07_search_in_bounds (hs : List Hdr) (key : Bytes) :
    (hs ≠ [] → ∀ i ∈ Proofs.bsearchProbes hs.toArray key 0 (hs.length - 1) (hs.length + 1), i < hs.length) ∧
    (hs ≠ [] → ∀ f, hs.length + 1 ≤ f → bsearch hs.toArray key 0 (hs.length - 1) f = bsearch hs.toArray key 0 (hs.length - 1) (hs.length + 1)) ∧
    (∀ i n, searchHeader hs key = some (i, n) → 0 < n ∧ i + n ≤ hs.length) := by
  refine ⟨?_, ?_, ?_⟩
  · intro hne i hi
    have hlen : 0 < hs.length := List.length_pos_iff.mpr hne
    have := Proofs.bsearch_probes_in_bounds hs.toArray key 0 (hs.length - 1) (hs.length + 1) (by simp; omega) i hi
    simpa using this
  · intro hne f hf
    have hlen : 0 < hs.length := List.length_pos_iff.mpr hne
    exact Proofs.bsearch_fuel_irrelevant hs.toArray key 0 (hs.length - 1) f (hs.length + 1) (by omega) (by omega)
  · intro i n h
    exact Proofs.searchHeader_in_bounds hs key i n h

/-- Scanners: what `findheader`, `skipline` and `findboundary` return are pieces of the text they were given. -/
theorem C07_scanners_inside :
    (∀ s key val rest : Bytes, findHeader s = .ok key val rest → ∃ gap : Bytes, s = key ++ [58] ++ gap ++ val ++ [10] ++ rest) ∧
    (∀ s : Bytes, ∃ pre, s = pre ++ skipLine s) ∧
    (∀ (bnd s pre rest : Bytes) (term : Bool), findBoundary bnd s = some (pre, term, rest) → s = pre ++ rest ∧ rest ≠ []) :=
  ⟨Proofs.findHeader_inside, Proofs.skipLine_suffix, Proofs.findBoundary_split⟩

/-- The `for (;;)` of `findboundary` that the (structurally recursive) list model stands for, one round: at the end of
the text NULL; a delimiter line at `s` is returned; otherwise the loop goes on with the line `skipline` finds from
where the comparisons stopped (`continueAt`: after `--`, after `--` boundary, or after `--` boundary `--` - not from the
beginning of the line compared), which is a proper suffix of the text - the loop makes progress on every round. -/
theorem C07_findBoundary_round (bnd s : Bytes) :
    (findBoundary bnd s =
      match s, delimiterLine bnd s with
      | [], _ => none
      | _ :: _, some term => some ([], term, s)
      | _ :: _, none =>
        (findBoundary bnd (skipLine (continueAt bnd s))).map fun x => (s.take (nextLineDist bnd s) ++ x.1, x.2.1, x.2.2)) ∧
    (s ≠ [] → (skipLine (continueAt bnd s)).length < s.length) :=
  ⟨Proofs.findBoundaryAux_round bnd s, fun h => Proofs.nextLine_length_lt bnd h⟩

/-- A text with a line that begins inside a compared boundary: boundary `"a\n"`, text `"--a\n--a\n\n"`; the line at
offset 4 is a delimiter line, yet it is never examined. -/
example : delimiterLine [97, 10] [45, 45, 97, 10, 10] = some false ∧
    findBoundary [97, 10] [45, 45, 97, 10, 45, 45, 97, 10, 10] = none := by decide

/-- Multipart parsing terminates by itself and its table is bounded by the text, for every message: hundreds of
parts, nesting beyond the limit (an error, by the depth fuel), unterminated or repeated delimiters. -/
theorem C07_multipart_terminates :
    (∀ (sub : Msg → Option (List Msg)) (bnd text : Bytes) (f1 f2 : Nat), text.length < f1 → text.length < f2 →
      partsLoop sub bnd f1 text = partsLoop sub bnd f2 text) ∧
    (∀ (m : Msg) (ps : List Msg), getAttachments m = some ps → ps.length ≤ m.body.length) ∧
    (∀ m : Msg, parseAttachments 0 m = none) :=
  ⟨Proofs.partsLoop_fuel_irrelevant, Proofs.attachments_bounded, fun _ => rfl⟩

/-!
## Index level (L0)

`Model/L0/*.lean` transcribes the same C functions over `L0.Buf` (an array of bytes with a size): every C read is
`Buf.get?`, every write into a sized object `Buf.set`, both failing with `Fault.oob` outside `[0, size)`; pointers
into a libks vector carry the generation of the vector (`Fault.uaf` after a reallocation).  "No invalid access" is
`= .ok _`.  The hypothesis is the one `buffer_str`/`strdup`/`strndup` establish: the last byte of the object is NUL
(`b.bytes.back? = some 0`); the start index is any index inside the object (`i < b.size`); nothing is assumed about
other NULs.  `b.view i` is what a C reader sees from `i` (the bytes up to the next NUL) - the list the L1 models
take; for a buffer made from a byte string `s` it is `cstr s`, and `s` itself when `s` has no NUL.
-/

open L0 in
/-- The view of the buffer the harness and `message_parse` build from a byte string. -/
theorem C07_L0_view (s : Bytes) :
    (Buf.ofBytes s).bytes.back? = some 0 ∧ (Buf.ofBytes s).view 0 = cstr s ∧
    ((∀ x ∈ s, x ≠ 0) → (Buf.ofBytes s).view 0 = s) :=
  ⟨Buf.ofBytes_terminated s, Buf.view_ofBytes s, Buf.view_ofBytes_of_no_nul⟩

open L0 in
/-- Decoders, index level: for every NUL-terminated buffer and every start index inside it, `base64_decode`
(including its `dec[n] = '\0'` into the `strlen + 1` bytes allocated), `b64_pton` into any target of at least
`targsize` bytes, `quoted_printable_decode` (with its reads at `i + 1`, `i + 2`) and `rfc2047_decode` (with
`strchr`/`strstr`/`strndup` and both payload decoders) make no access outside their objects, and compute exactly
what the list model computes on the view - so every C16 theorem about the list model holds of the index-level code. -/
theorem C07_L0_decoders_refine (b : Buf) (hb : b.bytes.back? = some 0) (i : Nat) (hi : i < b.size) :
    (∃ r, base64Decode b i = .ok r ∧
        r.map (fun p => p.1.slice 0 p.2) = base64DecodeRaw (b.view i) ∧
        r.map (fun p => p.1.view 0) = Model.base64Decode (b.view i) ∧
        ∀ p, r = some p → p.1.get? p.2 = .ok 0) ∧
    (∀ (target : Buf) (n : Nat), n ≤ target.size →
      ∃ r, L0.b64pton b i target n = .ok r ∧ r.map (fun p => p.2.slice 0 p.1) = Model.b64pton (b.view i) n ∧
        ∀ p, r = some p → p.1 ≤ n ∧ p.2.size = target.size) ∧
    quotedPrintableDecode b i = .ok (qpDecodeRaw (b.view i)) ∧
    rfc2047Decode b i = .ok (rfc2047DecodeRaw (b.view i)) :=
  decoders_refine_ok b hb i hi

open L0 in
/-- The quoted-printable loop on any window `[base, base + len)` inside any object (no NUL needed): the guards
`i + 1 == len` make the reads at `i + 1` and `i + 2` stay inside the window. -/
theorem C07_L0_qp_window (dospace : Bool) (b : Buf) (base len : Nat) (h : base + len ≤ b.size) :
    L0.qpLoop dospace b base len 0 [] = .ok (Model.qpLoop dospace (b.slice base (base + len)) []) :=
  qp_window_ok dospace b base len h

open L0 in
/-- Header scanners, index level: `skipseparator`, `findheader` (both in-place NUL writes are inside the buffer and
keep every NUL, in particular the terminator), `unfoldheader` (every write into the `strlen + 1` bytes of the copy,
including the final `dec[i] = '\0'`), and `strcasecmp` as `cmpheaderkey` uses it. -/
theorem C07_L0_header_scanners (b : Buf) (hb : b.bytes.back? = some 0) (i : Nat) (hi : i < b.size) :
    (∃ j, skipSeparator b i = .ok j ∧ i ≤ j ∧ j < b.size ∧ b.view j = Model.skipSeparator (b.view i)) ∧
    (∃ r, findHeader b i = .ok r ∧ r.Post b i) ∧
    (∃ d, unfoldHeader b i = .ok d ∧ d.HasNul 0 ∧ d.size = (b.view i).length + 1) ∧
    (∀ (a : Buf) (j : Nat), a.bytes.back? = some 0 → j < a.size →
      L0.strcasecmp b i a j = .ok (Mdsort.strcasecmp (b.view i) (a.view j))) :=
  header_scanners_ok b hb i hi

open L0 in
/-- `message_parse_headers`, index level: for every NUL-terminated `me_buf` no access is outside it and no write
into the header vector is outside its capacity or through a stale pointer; afterwards the buffer is still
terminated and `me_body` and every `key`/`val` of the table point at C strings inside it. -/
theorem C07_L0_parse_headers (b : Buf) (hb : b.bytes.back? = some 0) :
    ∃ b' hdrs body, parseHeaders b = .ok (b', hdrs, body) ∧ b'.bytes.back? = some 0 ∧ b'.size = b.size ∧
      b'.HasNul body ∧ HdrsIn b' hdrs.items :=
  parseHeaders_ok b hb

open L0 in
/-- `searchheader`, index level: for every table whose keys point at C strings of `buf` (as
`C07_L0_parse_headers` establishes), every `nmemb` up to the table's length and every key string, the probes
`headers + mi`, `headers + beg - 1`, `headers + end` are inside the table, the comparisons stay inside their
strings, and the slice reported is inside the table and non-empty. -/
theorem C07_L0_search (kb : Buf) (k : Nat) (buf : Buf) (hs : Array Hdr0) (nmemb : Nat)
    (hk : kb.HasNul k) (hin : HdrsIn buf hs) (hn : nmemb ≤ hs.size) :
    ∃ r, L0.searchHeader kb k buf hs nmemb = .ok r ∧ ∀ beg n, r = some (beg, n) → 0 < n ∧ beg + n ≤ nmemb :=
  searchHeader_ok hk hin hn

open L0 in
/-- MIME scanners, index level: `skipline`, `parseboundary` (the `str += len` after each successful `strncmp`, both
scans, `strndup`) on any C string, and `findboundary` with any C-string boundary (its `s += 2`, `s += len`,
`s += 2` and the final `*s == '\n'` test): no access outside the buffer; the delimiter line reported is inside it. -/
theorem C07_L0_mime_scanners (b : Buf) (hb : b.bytes.back? = some 0) (i : Nat) (hi : i < b.size) :
    (∃ j, skipLine b i = .ok j ∧ i ≤ j ∧ j < b.size ∧ b.view j = Model.skipLine (b.view i)) ∧
    (∃ r, parseBoundary b i = .ok r ∧ ∀ bnd, r = .ok bnd → bnd.bytes.back? = some 0) ∧
    (∀ bnd : Buf, bnd.bytes.back? = some 0 →
      ∃ r, findBoundary bnd b i = .ok r ∧ ∀ p t, r = some (p, t) → i ≤ p ∧ p < b.size) :=
  mime_scanners_ok b hb i hi

open L0 in
/-- libks vector: `VECTOR_CALLOC` on any vector (any length, capacity, generation) writes its zeroed slot inside
the capacity `vector_reserve1` left, and the pointer it returns is valid for the vector it returns. -/
theorem C07_L0_vector_calloc {α : Type} (v : Vec α) (z : α) :
    ∃ v' p, v.calloc z = .ok (v', p) ∧ v'.items = v.items.push z ∧ p.gen = v'.gen ∧ p.idx = v.items.size :=
  Vec.calloc_ok v z

open L0 in
/-- `parseattachments`, index level, at every depth: for every well-formed top-level message, every attachment
table whose elements are well formed (any length, capacity and generation - in particular tables that are
reallocated while the loop runs) and every `msg` that is the top-level message or a pointer taken in the table's
current generation: no access outside a `me_buf`, no write outside the table's capacity, and no use of `msg` or
`attach` after `VECTOR_CALLOC` moved the table (`Fault.uaf` is not returned). -/
theorem C07_L0_no_stale_pointer (root : Att) (hr : AttOk root) (fuel : Nat) (v : Vec Att) (msg : MsgRef)
    (hv : VecOk v) (hm : RefOk v msg) :
    ∃ v' e, parseAttachments fuel root v msg = .ok (v', e) ∧ VecOk v' :=
  parseAttachments_ok root hr fuel v msg hv hm

open L0 in
/-- A whole message: `message_parse_headers` (with `VECTOR_SORT`) followed by `message_get_attachments`
(`message_get_header1`, `decodeheader`, `parseboundary`, `findboundary`, `strndup`, recursive
`parseattachments`) returns without a fault for every NUL-terminated buffer - any number of parts, any nesting,
unterminated or repeated delimiters, NUL bytes anywhere. -/
theorem C07_L0_message (b : Buf) (hb : b.bytes.back? = some 0) (path : Bytes) :
    ∃ b' hs body, messageParseHeaders b = .ok (b', hs, body) ∧
      ∃ r, getAttachments { buf := b', headers := hs, body := body, path := path } = .ok r :=
  message_attachments_ok b hb path

open L0 in
/-- util.c `nspaces` and `pathslice` (every write into a destination of at least `bufsiz` bytes, including the
final `*bp = '\0'`), macro.c `ismacro`, match.c `isbackref` (`s[1]` only after `s[0]`, both `strtoul` calls). -/
theorem C07_L0_util (b : Buf) (hb : b.bytes.back? = some 0) (i : Nat) (hi : i < b.size) :
    L0.nspaces b i = .ok (Mdsort.nspaces (b.view i)) ∧
    (∃ r, L0.isMacro b i = .ok r) ∧
    (∃ r, L0.isBackref b i = .ok r) ∧
    (∀ (buf : Buf) (bufsiz : Nat) (beg end_ : Int), bufsiz ≤ buf.size → ∃ r, L0.pathslice b buf bufsiz beg end_ = .ok r) :=
  util_ok b hb i hi

open L0 in
/-- `unfoldheader` refines the list model as well: the C string left in the `strlen + 1` bytes of the copy is
`Model.unfoldHeader` of the view (so C10's statements about unfolding hold of the index-level code). -/
theorem C07_L0_unfold_refines (b : Buf) (hb : b.bytes.back? = some 0) (i : Nat) (hi : i < b.size) :
    ∃ d, unfoldHeader b i = .ok d ∧ d.HasNul 0 ∧ d.view 0 = Model.unfoldHeader (b.view i) :=
  unfoldHeader_refines b (Buf.Terminated.hasNul hb hi)

open L0 in
/-- The fault that `C07_L0_no_stale_pointer` excludes is expressible: whenever `VECTOR_CALLOC` has to reallocate
(`vc_len + 1 < vc_siz` fails: lengths 0, 15, 16, 31, 32, ...), dereferencing any pointer taken before it is
`Fault.uaf` - what `parseattachments` did with `msg` at the pinned commit (finding F7). -/
theorem C07_L0_stale_pointer_is_a_fault {α : Type} (v : Vec α) (z : α) (p : Ptr) (hp : p.gen = v.gen)
    (hfull : ¬ v.items.size + 1 < v.siz) :
    ∃ v' q, v.calloc z = .ok (v', q) ∧ v'.deref p = .error .uaf :=
  Vec.deref_stale v z p hp hfull

/-! Non-vacuity: concrete inputs satisfying the hypotheses. -/

/-- A full table of 16 elements and a pointer to its first element. -/
example : ∃ (v : L0.Vec Nat) (p : L0.Ptr), p.gen = v.gen ∧ ¬ v.items.size + 1 < v.siz ∧ p.idx < v.items.size :=
  ⟨{ items := Array.replicate 16 0, siz := 16, gen := 3 }, { gen := 3, idx := 0 }, rfl, by decide, by decide⟩

/-- A top-level message `"\n"` (no headers), a table holding one such part, and a valid pointer to it. -/
example : ∃ (root : L0.Att) (v : L0.Vec L0.Att) (msg : L0.MsgRef), L0.AttOk root ∧ L0.VecOk v ∧ L0.RefOk v msg ∧
    v.items.size = 1 := by
  have hok : L0.AttOk { buf := ⟨#[10, 0]⟩, headers := #[], body := 0, path := [] } :=
    ⟨⟨1, by decide, rfl⟩, by intro h hh; simp at hh⟩
  refine ⟨{ buf := ⟨#[10, 0]⟩, headers := #[], body := 0, path := [] },
    { items := #[{ buf := ⟨#[10, 0]⟩, headers := #[], body := 0, path := [] }], siz := 16, gen := 1 },
    .att { gen := 1, idx := 0 }, hok, ?_, ⟨rfl, by decide⟩, rfl⟩
  intro a ha
  simp only [Array.mem_def, List.mem_cons, List.not_mem_nil, or_false] at ha
  subst ha; exact hok

/-- `"=?x?B?Zm9v?= =41"` as `buffer_str` hands it out, and an index inside it. -/
example : (L0.Buf.ofBytes [61, 63, 120, 63, 66, 63, 90, 109, 57, 118, 63, 61, 32, 61, 52, 49]).bytes.back? = some 0 ∧
    7 < (L0.Buf.ofBytes [61, 63, 120, 63, 66, 63, 90, 109, 57, 118, 63, 61, 32, 61, 52, 49]).size := by decide

/-- The window `"=4=41"` inside `"ab=4=41"`. -/
example : (2 : Nat) + 5 ≤ (L0.Buf.ofBytes [97, 98, 61, 52, 61, 52, 49]).size := by decide

/-- A table of two headers inside `"To\0a\0Cc\0b\0"` and the key string `"cc"`. -/
example : ∃ (kb buf : L0.Buf) (hs : Array L0.Hdr0), kb.HasNul 0 ∧ L0.HdrsIn buf hs ∧ 2 ≤ hs.size := by
  refine ⟨⟨#[99, 99, 0]⟩, ⟨#[84, 111, 0, 97, 0, 67, 99, 0, 98, 0]⟩,
    #[{ id := 2, key := 5, val := 8 }, { id := 1, key := 0, val := 3 }], ⟨2, by decide, rfl⟩, ?_, by decide⟩
  intro h hh
  simp only [Array.mem_def, List.mem_cons, List.not_mem_nil, or_false] at hh
  rcases hh with rfl | rfl
  · exact ⟨⟨7, by decide, rfl⟩, ⟨9, by decide, rfl⟩⟩
  · exact ⟨⟨2, by decide, rfl⟩, ⟨4, by decide, rfl⟩⟩

/-!
## Index level (L0): functional refinement

Every L0 function computes what the list model computes on the view, so the functional theorems about the list
model (C08, C10, C11, C12, C16) hold of the index-level code.  Vocabulary (Proofs/L0Refine*.lean):
`l0r_readHdr b h` is the L1 header a table entry stands for (`key`/`val` read as C strings of `me_buf`);
`l0r_table buf hs nmemb` the L1 table of the first `nmemb` entries; `l0r_readAtt a` the L1 message a
`struct message` stands for; `l0r_shift s (before, term, rest) = (s + |before|, term)`; `l0r_lineLen` the length of the
first line including its newline.
-/

open L0 in
/-- `findheader`: the same outcome as the list model; the key slice is `[i, colon)`, the value slice ends at the
newline that ends the value, the buffer handed back is `b` after the two in-place NUL writes, and read as C strings
(and as slices) key and value are the list model's key and value, the text after the value its rest
(`l0r_FindHdrRel`). -/
theorem C07_L0_refines_findHeader (b : Buf) (hb : b.bytes.back? = some 0) (i : Nat) (hi : i < b.size) :
    ∃ r, findHeader b i = .ok r ∧ l0r_FindHdrRel b i r (Model.findHeader (b.view i)) :=
  l0r_findHeader_refines b (Buf.Terminated.hasNul hb hi)

open L0 in
/-- `message_parse_headers`: before `VECTOR_SORT` the table read back is the list model's loop result in file order
and `me_body` points at the list model's body; after `VECTOR_SORT` the table read back and the body are
`Model.parseHeaders` of the view (whose table is `sortByKey` of the former) - for a buffer made from a file,
`Model.parseMessage` of the file. -/
theorem C07_L0_refines_parse_headers (b : Buf) (hb : b.bytes.back? = some 0) :
    (∃ b' hdrs body, parseHeaders b = .ok (b', hdrs, body) ∧
      hdrs.items.toList.map (l0r_readHdr b') = (Model.parseLoop (Model.skipSeparator (b.view 0)) 0 []).1 ∧
      b'.view body = (Model.parseHeaders (b.view 0)).body ∧
      (Model.parseHeaders (b.view 0)).headers = Model.sortByKey (hdrs.items.toList.map (l0r_readHdr b'))) ∧
    (∃ b' hs body, messageParseHeaders b = .ok (b', hs, body) ∧
      Model.parseHeaders (b.view 0) = { headers := hs.toList.map (l0r_readHdr b'), body := b'.view body }) := by
  refine ⟨?_, ?_⟩
  · obtain ⟨b', hdrs, body, h, _, _, _, _, h1, h2⟩ := l0r_parseHeaders_refines b hb
    exact ⟨b', hdrs, body, h, h1, h2, by rw [h1]; rfl⟩
  · obtain ⟨b', hs, body, h, _, _, _, _, h1⟩ := l0r_messageParseHeaders_refines b hb
    exact ⟨b', hs, body, h, h1⟩

open L0 in
/-- `message_parse` on the bytes of a file: what the index-level code leaves in the header table and `me_body` is
`Model.parseMessage` of the file. -/
theorem C07_L0_refines_parse_message (file : Bytes) :
    ∃ b' hs body, messageParseHeaders (Buf.ofBytes file) = .ok (b', hs, body) ∧
      Model.parseMessage file = { headers := hs.toList.map (l0r_readHdr b'), body := b'.view body } := by
  obtain ⟨b', hs, body, h, _, _, _, _, h1⟩ := l0r_messageParseHeaders_refines _ (Buf.ofBytes_terminated file)
  rw [Buf.view_ofBytes] at h1
  exact ⟨b', hs, body, h, h1⟩

open L0 in
/-- `searchheader`: `(beg, nfound)` is the list model's result on the table read back (so `C10_binary_search`
applies to the index-level code). -/
theorem C07_L0_refines_search (kb : Buf) (k : Nat) (buf : Buf) (hs : Array Hdr0) (nmemb : Nat)
    (hk : kb.HasNul k) (hin : HdrsIn buf hs) (hn : nmemb ≤ hs.size) :
    L0.searchHeader kb k buf hs nmemb = .ok (Model.searchHeader (l0r_table buf hs nmemb) (kb.view k)) :=
  l0r_searchHeader_refines hk hin hn

open L0 in
/-- `skipline` (the exact index), `parseboundary` (the same outcome; the `strndup`ed boundary is the C string of the
list model's boundary), and `findboundary` for EVERY boundary (a boundary that contains a newline included - the list
model resumes, like message.c, after the text compared): the line it returns is at `i + |before|`, with the list
model's terminator flag, the text before it is `before` and the view at it `rest`. -/
theorem C07_L0_refines_mime_scanners (b : Buf) (hb : b.bytes.back? = some 0) (i : Nat) (hi : i < b.size) :
    (skipLine b i = .ok (i + l0r_lineLen (b.view i)) ∧
      b.view (i + l0r_lineLen (b.view i)) = Model.skipLine (b.view i)) ∧
    (∃ r, parseBoundary b i = .ok r ∧ l0r_BoundaryRel r (Model.parseBoundary (b.view i))) ∧
    (∀ bnd : Buf, bnd.bytes.back? = some 0 →
      findBoundary bnd b i = .ok ((Model.findBoundary (bnd.view 0) (b.view i)).map (l0r_shift i)) ∧
      ∀ before term rest, Model.findBoundary (bnd.view 0) (b.view i) = some (before, term, rest) →
        b.view (i + before.length) = rest ∧ b.slice i (i + before.length) = before) := by
  have h : b.HasNul i := Buf.Terminated.hasNul hb hi
  refine ⟨⟨l0r_skipLine_spec h, ?_⟩, l0r_parseBoundary_refines b h, ?_⟩
  · rw [l0r_skipLine_drop]
    exact (h.add _ (l0r_lineLen_le _)).2
  · intro bnd hbnd
    refine ⟨l0r_findBoundary_refines bnd b (Buf.Terminated.hasNul0 hbnd) h, ?_⟩
    intro before term rest hf
    obtain ⟨_, h2, h3, _⟩ := l0r_findBoundary_pos h hf
    exact ⟨h2, h3⟩

open L0 in
/-- The input that separated the former list model from message.c: with boundary `"a\n"` and text `"--a\n--a\n\n"`
the C code (and its index-level transcription) returns NULL - after comparing `"--a\n--"` from offset 0 it resumes with
`skipline` from offset 6 and never examines the line at offset 4.  The list model now does the same (it used to report
the delimiter line at offset 4). -/
theorem C07_L0_refines_findBoundary_newline_example :
    10 ∈ l0r_witBnd.view 0 ∧
    findBoundary l0r_witBnd l0r_witText 0 = .ok none ∧
    Model.findBoundary (l0r_witBnd.view 0) (l0r_witText.view 0) = none :=
  ⟨l0r_findBoundary_newline_example.1, l0r_witness_L0, l0r_witness_L1⟩

open L0 in
/-- `message_get_header1`: the C string returned is the list model's value. -/
theorem C07_L0_refines_getHeader1 (m : Att) (hm : AttOk m) (name : Bytes) (hname : ∀ x ∈ name, x ≠ 0) :
    ∃ r, getHeader1 m name = .ok r ∧ r.map (fun t => t.view 0) = Model.getHeader1 (l0r_readAtt m) name := by
  obtain ⟨r, h1, _, h2⟩ := l0r_getHeader1_refines m hm.2 name hname
  exact ⟨r, h1, h2⟩

open L0 in
/-- `parseattachments(msg, parent, depth)` at every depth (`fuel = 5 - depth`), for every well-formed top-level
message, every attachment table and every valid `msg`: the error return is the list model's `none`; otherwise the
elements appended to the parent's table, read back, are the list model's parts in the same (pre-)order
(`l0r_AttRel`).  No hypothesis on the boundaries (a newline in a boundary included). -/
theorem C07_L0_refines_parseAttachments (root : Att) (hr : AttOk root) (fuel : Nat) (v : Vec Att) (msg : MsgRef)
    (m : Att) (hv : VecOk v) (hm : RefOk v msg) (hd : derefMsg root v msg = .ok m) :
    ∃ v' e, parseAttachments fuel root v msg = .ok (v', e) ∧ VecOk v' ∧
      l0r_AttRel v v' e (Model.parseAttachments fuel (l0r_readAtt m)) :=
  l0r_parseAttachments_refines root hr fuel v msg m hv hm hd

open L0 in
/-- `message_get_attachments`: NULL exactly when the list model says `none`, otherwise the attachment vector read
back is `Model.getAttachments` - so C11 (parts, bodies, attachment conditions) holds of the index-level code. -/
theorem C07_L0_refines_attachments (root : Att) (hr : AttOk root) :
    ∃ r, getAttachments root = .ok r ∧
      r.map (fun a => a.toList.map l0r_readAtt) = Model.getAttachments (l0r_readAtt root) :=
  l0r_getAttachments_refines root hr

open L0 in
/-- A whole message from its NUL-terminated buffer: `message_parse_headers` leaves the list model's message and
`message_get_attachments` returns the list model's attachments. -/
theorem C07_L0_refines_message (b : Buf) (hb : b.bytes.back? = some 0) (path : Bytes) :
    ∃ b' hs body r, messageParseHeaders b = .ok (b', hs, body) ∧
      l0r_readAtt { buf := b', headers := hs, body := body, path := path } = Model.parseHeaders (b.view 0) ∧
      getAttachments { buf := b', headers := hs, body := body, path := path } = .ok r ∧
      r.map (fun a => a.toList.map l0r_readAtt) = Model.getAttachments (Model.parseHeaders (b.view 0)) :=
  l0r_message_refines b hb path

open L0 in
/-- The same for EVERY file (`message_parse` of its bytes, then `message_get_attachments`) - the statement package PG2
refuted for the former list model (`l0r_message_refines_unrestricted`), now a theorem without hypotheses. -/
theorem C07_L0_refines_file (file : Bytes) :
    ∃ b' hs body r, messageParseHeaders (Buf.ofBytes file) = .ok (b', hs, body) ∧
      getAttachments { buf := b', headers := hs, body := body, path := [] } = .ok r ∧
      r.map (fun a => a.toList.map l0r_readAtt) = Model.getAttachments (Model.parseMessage file) :=
  l0r_file_refines file

open L0 in
/-- The message that separated the former list model from message.c: in the file
`Content-Type: multipart/mixed; boundary="=?UTF-8?Q?a=0A?="\n\n--a\n--a\n\nX: y\n\nfound\n--a\n--\n` (boundary `"a\n"`)
the index-level code, like message.c (checked on the real binary), finds no part and no error - and so does the list
model (it used to find one part). -/
theorem C07_L0_refines_message_newline_example :
    (Model.getHeader1 (Model.parseMessage l0r_witMsg) Model.contentTypeName).map Model.parseBoundary =
      some (.ok [97, 10]) ∧
    l0r_partsCount l0r_witMsg = some 0 ∧
    Model.getAttachments (Model.parseMessage l0r_witMsg) = some [] :=
  ⟨l0r_witMsg_boundary, l0r_witMsg_L0, l0r_witMsg_L1⟩

open L0 in
/-- `ismacro` (length and `strndup`ed name), `isbackref` (length and both indices, through both `strtoul` calls with
the `INT_MAX` test) and `pathslice` (the C string left in a destination of at least `bufsiz` bytes) compute what the
list models compute on the view. -/
theorem C07_L0_refines_util (b : Buf) (hb : b.bytes.back? = some 0) (i : Nat) (hi : i < b.size) :
    L0.isMacro b i = .ok (l0r_macroAbs (Model.isMacro (b.view i))) ∧
    L0.isBackref b i = .ok (l0r_backrefAbs (Model.isBackref (b.view i))) ∧
    (∀ (buf : Buf) (bufsiz : Nat) (beg end_ : Int), bufsiz ≤ buf.size →
      ∃ r, L0.pathslice b buf bufsiz beg end_ = .ok r ∧
        r.map (fun d => d.view 0) = Model.pathslice (b.view 0) bufsiz beg end_) := by
  have h : b.HasNul i := Buf.Terminated.hasNul hb hi
  exact ⟨l0r_isMacro_refines b h, l0r_isBackref_refines b h,
    fun buf bufsiz beg end_ hle => l0r_pathslice_refines b (Buf.Terminated.hasNul0 hb) buf bufsiz hle beg end_⟩

/-!
## The growable buffer (libks/buffer.c) at index level

`Model/L0/Buffer.lean`: the buffer is the object `bf_ptr` points to (bounds-checked), `bf_siz` and `bf_len`.  Every
string mdsort builds piecewise (interpolation, labels, macro expansion, decoders, the message read from a
descriptor) is built by these operations; the list-level models take "the bytes appended so far" for granted, which
is `C07_L0_buffer_contents` below.  Allocation failure and `size_t` overflow are not modelled.
-/

open L0 in
/-- No sequence of `buffer_puts` / `buffer_putc` / `buffer_printf` on a buffer obtained from `buffer_alloc` (any
size hint, 0 included) ever writes outside the object `bf_ptr` points to: the run returns without `Fault.oob`, and
afterwards the object still has exactly `bf_siz` bytes of which `bf_len <= bf_siz` are in use.  (Induction over the
operation list with that invariant; `buffer_reserve`'s doubling from 16 is what makes each write fit.) -/
theorem C07_L0_buffer_in_bounds (sizhint : Nat) (ops : List BufOp) :
    ∃ bf rcs, (LBuf.alloc sizhint).run ops = .ok (bf, rcs) ∧ bf.store.size = bf.cap ∧ bf.len ≤ bf.cap ∧ sizhint ≤ bf.cap := by
  obtain ⟨hwf, _, hcap, _⟩ := LBuf.alloc_wf sizhint
  obtain ⟨bf, hr, hwf', _, hc⟩ := LBuf.run_spec ops (LBuf.alloc sizhint) hwf
  exact ⟨bf, _, hr, hwf'.size, hwf'.le, by omega⟩

open L0 in
/-- Refinement to list append: after any sequence of operations every return value is 0 and the bytes in use are the
concatenation of the pieces, in order - a piece is never dropped, truncated or written twice, whatever its length
and wherever it ends relative to the capacity (64, 128, 256, ... included). -/
theorem C07_L0_buffer_contents (sizhint : Nat) (ops : List BufOp) :
    ∃ bf, (LBuf.alloc sizhint).run ops = .ok (bf, List.replicate ops.length 0) ∧
      bf.contents = ops.flatMap BufOp.piece ∧ bf.getLen = (ops.flatMap BufOp.piece).length := by
  obtain ⟨hwf, _, _, hc0⟩ := LBuf.alloc_wf sizhint
  obtain ⟨bf, hr, hwf', hc, _⟩ := LBuf.run_spec ops (LBuf.alloc sizhint) hwf
  rw [hc0, List.nil_append] at hc
  refine ⟨bf, hr, hc, ?_⟩
  have := congrArg List.length hc
  unfold LBuf.contents at this
  simp only [List.length_take, Array.length_toList] at this
  have h1 := hwf'.size
  have h2 := hwf'.le
  unfold Buf.size at h1
  unfold LBuf.getLen
  omega

open L0 in
/-- `buffer_str` after any sequence of operations (what `message_parse`, `interpolate` - by `buffer_putc(bf, 0)` and
`buffer_release` - and the decoders hand out): no access out of bounds; the object returned contains a NUL, and a C
reader sees the concatenation of the pieces up to its first NUL - the premise (`HasNul`, `view`) of every other
`C07_L0_*` theorem. -/
theorem C07_L0_buffer_str (sizhint : Nat) (ops : List BufOp) :
    ∃ bf rcs b, (LBuf.alloc sizhint).run ops = .ok (bf, rcs) ∧ bf.str = .ok (b, LBuf.empty) ∧
      b.view 0 = cstr (ops.flatMap BufOp.piece) ∧ b.HasNul 0 := by
  obtain ⟨hwf, _, _, hc0⟩ := LBuf.alloc_wf sizhint
  obtain ⟨bf, hr, hwf', hc, _⟩ := LBuf.run_spec ops (LBuf.alloc sizhint) hwf
  rw [hc0, List.nil_append] at hc
  obtain ⟨b, hs, hv, hn⟩ := LBuf.str_spec bf hwf'
  exact ⟨bf, _, b, hr, hs, by rw [hv, hc], hn⟩

open L0 in
/-- `buffer_read_fd` (8192 bytes, `read` into the free space, `buffer_reserve(bf, bf_siz / 2)` after every read):
for every content and every pattern of short reads the kernel is never handed space outside the object, there is
always room for at least one byte when `read` is called (so a `read` result of 0 means end of file), and the buffer
ends up holding exactly the bytes delivered - also at 8192, 12288, 16384, ... bytes. -/
theorem C07_L0_buffer_read_fd (data : Bytes) (short : List Nat) :
    ∃ bf, LBuf.readFd data short = .ok bf ∧ bf.store.size = bf.cap ∧ bf.len ≤ bf.cap ∧ bf.contents = data := by
  obtain ⟨bf, hr, hwf, hc⟩ := LBuf.readFd_spec data short
  exact ⟨bf, hr, hwf.size, hwf.le, hc⟩

open L0 in
/-- Why `buffer_vprintf` reserves `n + 1` bytes for `n` formatted bytes.  Any reservation of at least one byte more
than the string keeps both theorems above (first clause: for the guarded and for the unguarded `vsnprintf`).  With
exactly `n` reserved, for EVERY buffer and every non-empty string that ends exactly at the capacity: the code as it
stands (`vsnprintf` told the space really left) returns 1 and appends NOTHING - the contents theorem is false, the
piece is lost, and no caller in mdsort looks at the return value; and a `vsnprintf` told `n + 1` writes its NUL at
index `bf_siz`, outside the object - the in-bounds theorem is false. -/
theorem C07_L0_buffer_needs_room_for_nul :
    (∀ (extra : Nat) (guarded : Bool) (sizhint : Nat) (ops : List BufOp), 1 ≤ extra →
      ∃ bf, (LBuf.alloc sizhint).runWith extra guarded ops = .ok (bf, List.replicate ops.length 0) ∧
        bf.store.size = bf.cap ∧ bf.len ≤ bf.cap ∧ bf.contents = ops.flatMap BufOp.piece) ∧
    (∀ (bf : LBuf) (s : Bytes), bf.store.size = bf.cap → bf.len ≤ bf.cap → s ≠ [] → bf.len + s.length = bf.cap →
      ∃ bf', bf.vprintfWith 0 true s = .ok (1, bf') ∧ bf'.contents = bf.contents ∧ bf'.len = bf.len) ∧
    (∀ (bf : LBuf) (s : Bytes), bf.store.size = bf.cap → bf.len ≤ bf.cap → bf.len + s.length = bf.cap →
      bf.vprintfWith 0 false s = .error (.oob bf.cap)) := by
  refine ⟨?_, ?_, ?_⟩
  · intro extra guarded sizhint ops hx
    obtain ⟨hwf, _, _, hc0⟩ := LBuf.alloc_wf sizhint
    obtain ⟨bf, hr, hwf', hc⟩ := LBuf.runWith_spec extra guarded hx ops (LBuf.alloc sizhint) hwf
    rw [hc0, List.nil_append] at hc
    exact ⟨bf, hr, hwf'.size, hwf'.le, hc⟩
  · intro bf s h1 h2 hs hend
    exact LBuf.vprintf_without_room_drops bf s ⟨h1, h2⟩ hs hend
  · intro bf s h1 h2 hend
    exact LBuf.vprintf_without_room_unguarded_faults bf s ⟨h1, h2⟩ hend

/-- The data of the witness below: `buffer_alloc(16)`, `buffer_puts` of 6 bytes, `buffer_printf` of a 10-byte string. -/
def bufWitnessPre : Bytes := [97, 98, 99, 100, 101, 102]
def bufWitnessPiece : Bytes := [48, 49, 50, 51, 52, 53, 54, 55, 56, 57]
/-- What a run left: contents, capacity and return values, or the fault. -/
def bufOutcome (r : L0.M (L0.LBuf × List Nat)) : Except L0.Fault (Bytes × Nat × List Nat) :=
  match r with
  | .ok (bf, rcs) => .ok (bf.contents, bf.cap, rcs)
  | .error e => .error e

instance : DecidableEq (Except L0.Fault (Bytes × Nat × List Nat)) := fun a b =>
  match a, b with
  | .ok x, .ok y => if h : x = y then isTrue (by rw [h]) else isFalse (fun e => h (Except.ok.inj e))
  | .error x, .error y => if h : x = y then isTrue (by rw [h]) else isFalse (fun e => h (Except.error.inj e))
  | .ok _, .error _ => isFalse (fun e => by cases e)
  | .error _, .ok _ => isFalse (fun e => by cases e)

/-- The capacity boundary on a concrete run, by evaluation: 6 + 10 = 16 = `bf_siz`.  As the code stands: all 16
bytes in the buffer (which grew to 32).  Reserving `n` only: return value 1 and the 10 bytes are missing (guarded),
or a write at index 16 of a 16-byte object (unguarded).  One byte less or one more and the variants agree. -/
theorem C07_L0_buffer_needs_room_for_nul_witness :
    bufOutcome ((L0.LBuf.alloc 16).run [.puts bufWitnessPre, .printf bufWitnessPiece]) =
      .ok (bufWitnessPre ++ bufWitnessPiece, 32, [0, 0]) ∧
    bufOutcome ((L0.LBuf.alloc 16).runWith 0 true [.puts bufWitnessPre, .printf bufWitnessPiece]) =
      .ok (bufWitnessPre, 16, [0, 1]) ∧
    bufOutcome ((L0.LBuf.alloc 16).runWith 0 false [.puts bufWitnessPre, .printf bufWitnessPiece]) = .error (.oob 16) ∧
    bufOutcome ((L0.LBuf.alloc 16).runWith 0 true [.puts bufWitnessPre, .printf (bufWitnessPiece.take 9)]) =
      .ok (bufWitnessPre ++ bufWitnessPiece.take 9, 16, [0, 0]) ∧
    bufOutcome ((L0.LBuf.alloc 16).runWith 0 true [.puts bufWitnessPre, .printf (bufWitnessPiece ++ [33])]) =
      .ok (bufWitnessPre ++ bufWitnessPiece ++ [33], 32, [0, 0]) := by
  decide +kernel

/-- Non-vacuity of the second and third clause of `C07_L0_buffer_needs_room_for_nul`: the buffer of the witness
after its `buffer_puts` satisfies their hypotheses with the 10-byte string. -/
example : (((L0.LBuf.alloc 16).puts bufWitnessPre).toOption.map fun r =>
    (r.1, decide (r.2.store.size = r.2.cap), decide (r.2.len ≤ r.2.cap), decide (r.2.len + bufWitnessPiece.length = r.2.cap))) =
    some (0, true, true, true) := by decide +kernel

/-! Non-vacuity of the refinement theorems. -/

/-- `"To: a\n b\nCc: c\n\nx"` as `buffer_str` hands it out, and an index inside it (`findheader`, the MIME scanners,
`ismacro`/`isbackref`/`pathslice`). -/
example : (L0.Buf.ofBytes (ofString "To: a\n b\nCc: c\n\nx")).bytes.back? = some 0 ∧
    0 < (L0.Buf.ofBytes (ofString "To: a\n b\nCc: c\n\nx")).size := by decide +kernel

/-- A boundary `"a\n"` as `strndup` hands it out: terminated (and with a newline). -/
example : (L0.Buf.ofBytes [97, 10]).bytes.back? = some 0 ∧ 10 ∈ (L0.Buf.ofBytes [97, 10]).view 0 := by decide +kernel

/-- A header name without NUL. -/
example : ∀ x ∈ L0.contentTypeName, x ≠ 0 := by decide

/-- The message `Content-Type: multipart/mixed; boundary="b"` with body `--b\nA: 1\n\nx\n--b--\n` after
`message_parse_headers` (NULs at offsets 12 and 43, one table entry, `me_body` at offset 45): well formed, and it has
one part. -/
def l0rExampleRoot : L0.Att :=
  { buf := ⟨#[67, 111, 110, 116, 101, 110, 116, 45, 84, 121, 112, 101, 0, 32,
      109, 117, 108, 116, 105, 112, 97, 114, 116, 47, 109, 105, 120, 101, 100, 59, 32,
      98, 111, 117, 110, 100, 97, 114, 121, 61, 34, 98, 34, 0, 10,
      45, 45, 98, 10, 65, 58, 32, 49, 10, 10, 120, 10, 45, 45, 98, 45, 45, 10, 0]⟩,
    headers := #[{ id := 1, key := 0, val := 14 }], body := 45, path := [] }

example : L0.AttOk l0rExampleRoot ∧
    Model.getAttachments (L0.l0r_readAtt l0rExampleRoot) =
      some [{ headers := [{ id := 1, key := [65], val := [49] }], body := [120, 10] }] := by
  refine ⟨⟨⟨63, by decide, rfl⟩, ?_⟩, by decide +kernel⟩
  intro h hh
  simp only [l0rExampleRoot, Array.mem_def, List.mem_cons, List.not_mem_nil, or_false] at hh
  subst hh
  exact ⟨⟨12, by decide, rfl⟩, ⟨43, by decide, rfl⟩⟩

/-- The same message as a file: terminated buffer. -/
example : (L0.Buf.ofBytes (ofString "Content-Type: multipart/mixed; boundary=\"b\"\n\n--b\nA: 1\n\nx\n--b--\n")).bytes.back? = some 0 := by
  decide +kernel

/-- The top-level message, an empty table and `msg = root` for `C07_L0_refines_parseAttachments`. -/
example : ∃ (v : L0.Vec L0.Att) (msg : L0.MsgRef) (m : L0.Att), L0.VecOk v ∧ L0.RefOk v msg ∧
    L0.derefMsg l0rExampleRoot v msg = .ok m :=
  ⟨L0.Vec.init, .root, l0rExampleRoot, by intro a ha; simp [L0.Vec.init] at ha, trivial, rfl⟩

end Mdsort.Props
