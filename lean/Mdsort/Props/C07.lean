import Mdsort.Proofs.Safety
import Mdsort.Proofs.L0Decode
import Mdsort.Proofs.L0Message
import Mdsort.Proofs.L0Mime
import Mdsort.Proofs.L0Util
import Mdsort.Proofs.L0Unfold

/-!
# C07 - hostile message content cannot corrupt memory, crash or hang mdsort

What a theorem about the model can carry, and what it cannot: the model works on byte lists, where a read
beyond the terminator is not expressible - that the C code's pointers stay where the model's suffixes are
is decided by running the real code on the same inputs under AddressSanitizer/UndefinedBehaviorSanitizer
and comparing its results with the model's (the check).  The theorems below are the arithmetic and
progress facts the C code's safety rests on: every decoder's output fits the buffer its caller
allocated, every table index read is inside the table, every scanner returns pieces of the text it was
given, and every loop that the model bounds with fuel terminates by itself (the fuel is irrelevant), for
every byte string.  All model functions are total (structural or well-founded recursion accepted by the
kernel), so "terminates with match, non-match or error" holds of the model by construction.
-/

namespace Mdsort.Props
open Mdsort Mdsort.Model

/-- Bounded decoders: `dec[n] = '\0'` in `base64_decode` is inside the `strlen + 1` bytes allocated, `b64_pton`
never reports more than the target holds, and the quoted-printable and RFC 2047 decoders never produce more
than they read. -/
theorem C07_decoders_fit :
    (∀ s out : Bytes, base64DecodeRaw s = some out → out.length ≤ s.length) ∧
    (∀ (s out : Bytes) (n : Nat), b64pton s n = some out → out.length ≤ n) ∧
    (∀ s : Bytes, (qpDecodeRaw s).length ≤ s.length) ∧
    (∀ s : Bytes, (rfc2047DecodeRaw s).length ≤ s.length) :=
  ⟨Proofs.b64_fits, Proofs.b64pton_fits, Proofs.qp_fits, Proofs.rfc2047_fits⟩

/-- Header table: every probe of the binary search is inside the table, the search terminates by itself, and
the slice handed to callers is inside the table - for every table, sorted or not, and every name. -/
theorem C07_search_in_bounds (hs : List Hdr) (key : Bytes) :
    (hs ≠ [] → ∀ i ∈ Proofs.bsearchProbes hs.toArray key 0 (hs.length - 1) (hs.length + 1), i < hs.length) ∧
    (hs ≠ [] → ∀ f, hs.length + 1 ≤ f → bsearch hs.toArray key 0 (hs.length - 1) f = bsearch hs.toArray key 0 (hs.length - 1) (hs.length + 1)) ∧
    (∀ i n, searchHeader hs key = some (i, n) → 0 < n ∧ i + n ≤ hs.length) := by
  refine ⟨?_, ?_, ?_⟩
  · intro hne i hi
    have hlen : 0 < hs.length := List.length_pos_iff.mpr hne
    have := Proofs.bsearch_probes_in_bounds hs.toArray key 0 (hs.length - 1) (hs.length + 1) (by simp; omega) i hi
    simpa using this
  · intro hne f hf
    have hlen : 0 < hs.length := List.length_pos_iff.mpr hne
    exact Proofs.bsearch_fuel_irrelevant hs.toArray key 0 (hs.length - 1) f (hs.length + 1) (by omega) (by omega)
  · intro i n h
    exact Proofs.searchHeader_in_bounds hs key i n h

/-- Scanners: what `findheader`, `skipline` and `findboundary` return are pieces of the text they were given. -/
theorem C07_scanners_inside :
    (∀ s key val rest : Bytes, findHeader s = .ok key val rest → ∃ gap : Bytes, s = key ++ [58] ++ gap ++ val ++ [10] ++ rest) ∧
    (∀ s : Bytes, ∃ pre, s = pre ++ skipLine s) ∧
    (∀ (bnd s pre rest : Bytes) (term : Bool), findBoundary bnd s = some (pre, term, rest) → s = pre ++ rest ∧ rest ≠ []) :=
  ⟨Proofs.findHeader_inside, Proofs.skipLine_suffix, Proofs.findBoundary_split⟩

/-- Multipart parsing terminates by itself and its table is bounded by the text, for every message: hundreds of
parts, nesting beyond the limit (an error, by the depth fuel), unterminated or repeated delimiters. -/
theorem C07_multipart_terminates :
    (∀ (sub : Msg → Option (List Msg)) (bnd text : Bytes) (f1 f2 : Nat), text.length < f1 → text.length < f2 →
      partsLoop sub bnd f1 text = partsLoop sub bnd f2 text) ∧
    (∀ (m : Msg) (ps : List Msg), getAttachments m = some ps → ps.length ≤ m.body.length) ∧
    (∀ m : Msg, parseAttachments 0 m = none) :=
  ⟨Proofs.partsLoop_fuel_irrelevant, Proofs.attachments_bounded, fun _ => rfl⟩

/-!
## Index level (L0)

`Model/L0/*.lean` transcribes the same C functions over `L0.Buf` (an array of bytes with a size): every C read is
`Buf.get?`, every write into a sized object `Buf.set`, both failing with `Fault.oob` outside `[0, size)`; pointers
into a libks vector carry the generation of the vector (`Fault.uaf` after a reallocation).  "No invalid access" is
`= .ok _`.  The hypothesis is the one `buffer_str`/`strdup`/`strndup` establish: the last byte of the object is NUL
(`b.bytes.back? = some 0`); the start index is any index inside the object (`i < b.size`); nothing is assumed about
other NULs.  `b.view i` is what a C reader sees from `i` (the bytes up to the next NUL) - the list the L1 models
take; for a buffer made from a byte string `s` it is `cstr s`, and `s` itself when `s` has no NUL.
-/

open L0 in
/-- The view of the buffer the harness and `message_parse` build from a byte string. -/
theorem C07_L0_view (s : Bytes) :
    (Buf.ofBytes s).bytes.back? = some 0 ∧ (Buf.ofBytes s).view 0 = cstr s ∧
    ((∀ x ∈ s, x ≠ 0) → (Buf.ofBytes s).view 0 = s) :=
  ⟨Buf.ofBytes_terminated s, Buf.view_ofBytes s, Buf.view_ofBytes_of_no_nul⟩

open L0 in
/-- Decoders, index level: for every NUL-terminated buffer and every start index inside it, `base64_decode`
(including its `dec[n] = '\0'` into the `strlen + 1` bytes allocated), `b64_pton` into any target of at least
`targsize` bytes, `quoted_printable_decode` (with its reads at `i + 1`, `i + 2`) and `rfc2047_decode` (with
`strchr`/`strstr`/`strndup` and both payload decoders) make no access outside their objects, and compute exactly
what the list model computes on the view - so every C16 theorem about the list model holds of the index-level code. -/
theorem C07_L0_decoders_refine (b : Buf) (hb : b.bytes.back? = some 0) (i : Nat) (hi : i < b.size) :
    (∃ r, base64Decode b i = .ok r ∧
        r.map (fun p => p.1.slice 0 p.2) = base64DecodeRaw (b.view i) ∧
        r.map (fun p => p.1.view 0) = Model.base64Decode (b.view i) ∧
        ∀ p, r = some p → p.1.get? p.2 = .ok 0) ∧
    (∀ (target : Buf) (n : Nat), n ≤ target.size →
      ∃ r, L0.b64pton b i target n = .ok r ∧ r.map (fun p => p.2.slice 0 p.1) = Model.b64pton (b.view i) n ∧
        ∀ p, r = some p → p.1 ≤ n ∧ p.2.size = target.size) ∧
    quotedPrintableDecode b i = .ok (qpDecodeRaw (b.view i)) ∧
    rfc2047Decode b i = .ok (rfc2047DecodeRaw (b.view i)) :=
  decoders_refine_ok b hb i hi

open L0 in
/-- The quoted-printable loop on any window `[base, base + len)` inside any object (no NUL needed): the guards
`i + 1 == len` make the reads at `i + 1` and `i + 2` stay inside the window. -/
theorem C07_L0_qp_window (dospace : Bool) (b : Buf) (base len : Nat) (h : base + len ≤ b.size) :
    L0.qpLoop dospace b base len 0 [] = .ok (Model.qpLoop dospace (b.slice base (base + len)) []) :=
  qp_window_ok dospace b base len h

open L0 in
/-- Header scanners, index level: `skipseparator`, `findheader` (both in-place NUL writes are inside the buffer and
keep every NUL, in particular the terminator), `unfoldheader` (every write into the `strlen + 1` bytes of the copy,
including the final `dec[i] = '\0'`), and `strcasecmp` as `cmpheaderkey` uses it. -/
theorem C07_L0_header_scanners (b : Buf) (hb : b.bytes.back? = some 0) (i : Nat) (hi : i < b.size) :
    (∃ j, skipSeparator b i = .ok j ∧ i ≤ j ∧ j < b.size ∧ b.view j = Model.skipSeparator (b.view i)) ∧
    (∃ r, findHeader b i = .ok r ∧ r.Post b i) ∧
    (∃ d, unfoldHeader b i = .ok d ∧ d.HasNul 0 ∧ d.size = (b.view i).length + 1) ∧
    (∀ (a : Buf) (j : Nat), a.bytes.back? = some 0 → j < a.size →
      L0.strcasecmp b i a j = .ok (Mdsort.strcasecmp (b.view i) (a.view j))) :=
  header_scanners_ok b hb i hi

open L0 in
/-- `message_parse_headers`, index level: for every NUL-terminated `me_buf` no access is outside it and no write
into the header vector is outside its capacity or through a stale pointer; afterwards the buffer is still
terminated and `me_body` and every `key`/`val` of the table point at C strings inside it. -/
theorem C07_L0_parse_headers (b : Buf) (hb : b.bytes.back? = some 0) :
    ∃ b' hdrs body, parseHeaders b = .ok (b', hdrs, body) ∧ b'.bytes.back? = some 0 ∧ b'.size = b.size ∧
      b'.HasNul body ∧ HdrsIn b' hdrs.items :=
  parseHeaders_ok b hb

open L0 in
/-- `searchheader`, index level: for every table whose keys point at C strings of `buf` (as
`C07_L0_parse_headers` establishes), every `nmemb` up to the table's length and every key string, the probes
`headers + mi`, `headers + beg - 1`, `headers + end` are inside the table, the comparisons stay inside their
strings, and the slice reported is inside the table and non-empty. -/
theorem C07_L0_search (kb : Buf) (k : Nat) (buf : Buf) (hs : Array Hdr0) (nmemb : Nat)
    (hk : kb.HasNul k) (hin : HdrsIn buf hs) (hn : nmemb ≤ hs.size) :
    ∃ r, L0.searchHeader kb k buf hs nmemb = .ok r ∧ ∀ beg n, r = some (beg, n) → 0 < n ∧ beg + n ≤ nmemb :=
  searchHeader_ok hk hin hn

open L0 in
/-- MIME scanners, index level: `skipline`, `parseboundary` (the `str += len` after each successful `strncmp`, both
scans, `strndup`) on any C string, and `findboundary` with any C-string boundary (its `s += 2`, `s += len`,
`s += 2` and the final `*s == '\n'` test): no access outside the buffer; the delimiter line reported is inside it. -/
theorem C07_L0_mime_scanners (b : Buf) (hb : b.bytes.back? = some 0) (i : Nat) (hi : i < b.size) :
    (∃ j, skipLine b i = .ok j ∧ i ≤ j ∧ j < b.size ∧ b.view j = Model.skipLine (b.view i)) ∧
    (∃ r, parseBoundary b i = .ok r ∧ ∀ bnd, r = .ok bnd → bnd.bytes.back? = some 0) ∧
    (∀ bnd : Buf, bnd.bytes.back? = some 0 →
      ∃ r, findBoundary bnd b i = .ok r ∧ ∀ p t, r = some (p, t) → i ≤ p ∧ p < b.size) :=
  mime_scanners_ok b hb i hi

open L0 in
/-- libks vector: `VECTOR_CALLOC` on any vector (any length, capacity, generation) writes its zeroed slot inside
the capacity `vector_reserve1` left, and the pointer it returns is valid for the vector it returns. -/
theorem C07_L0_vector_calloc {α : Type} (v : Vec α) (z : α) :
    ∃ v' p, v.calloc z = .ok (v', p) ∧ v'.items = v.items.push z ∧ p.gen = v'.gen ∧ p.idx = v.items.size :=
  Vec.calloc_ok v z

open L0 in
/-- `parseattachments`, index level, at every depth: for every well-formed top-level message, every attachment
table whose elements are well formed (any length, capacity and generation - in particular tables that are
reallocated while the loop runs) and every `msg` that is the top-level message or a pointer taken in the table's
current generation: no access outside a `me_buf`, no write outside the table's capacity, and no use of `msg` or
`attach` after `VECTOR_CALLOC` moved the table (`Fault.uaf` is not returned). -/
theorem C07_L0_no_stale_pointer (root : Att) (hr : AttOk root) (fuel : Nat) (v : Vec Att) (msg : MsgRef)
    (hv : VecOk v) (hm : RefOk v msg) :
    ∃ v' e, parseAttachments fuel root v msg = .ok (v', e) ∧ VecOk v' :=
  parseAttachments_ok root hr fuel v msg hv hm

open L0 in
/-- A whole message: `message_parse_headers` (with `VECTOR_SORT`) followed by `message_get_attachments`
(`message_get_header1`, `decodeheader`, `parseboundary`, `findboundary`, `strndup`, recursive
`parseattachments`) returns without a fault for every NUL-terminated buffer - any number of parts, any nesting,
unterminated or repeated delimiters, NUL bytes anywhere. -/
theorem C07_L0_message (b : Buf) (hb : b.bytes.back? = some 0) (path : Bytes) :
    ∃ b' hs body, messageParseHeaders b = .ok (b', hs, body) ∧
      ∃ r, getAttachments { buf := b', headers := hs, body := body, path := path } = .ok r :=
  message_attachments_ok b hb path

open L0 in
/-- util.c `nspaces` and `pathslice` (every write into a destination of at least `bufsiz` bytes, including the
final `*bp = '\0'`), macro.c `ismacro`, match.c `isbackref` (`s[1]` only after `s[0]`, both `strtoul` calls). -/
theorem C07_L0_util (b : Buf) (hb : b.bytes.back? = some 0) (i : Nat) (hi : i < b.size) :
    L0.nspaces b i = .ok (Mdsort.nspaces (b.view i)) ∧
    (∃ r, L0.isMacro b i = .ok r) ∧
    (∃ r, L0.isBackref b i = .ok r) ∧
    (∀ (buf : Buf) (bufsiz : Nat) (beg end_ : Int), bufsiz ≤ buf.size → ∃ r, L0.pathslice b buf bufsiz beg end_ = .ok r) :=
  util_ok b hb i hi

open L0 in
/-- `unfoldheader` refines the list model as well: the C string left in the `strlen + 1` bytes of the copy is
`Model.unfoldHeader` of the view (so C10's statements about unfolding hold of the index-level code). -/
theorem C07_L0_unfold_refines (b : Buf) (hb : b.bytes.back? = some 0) (i : Nat) (hi : i < b.size) :
    ∃ d, unfoldHeader b i = .ok d ∧ d.HasNul 0 ∧ d.view 0 = Model.unfoldHeader (b.view i) :=
  unfoldHeader_refines b (Buf.Terminated.hasNul hb hi)

open L0 in
/-- The fault that `C07_L0_no_stale_pointer` excludes is expressible: whenever `VECTOR_CALLOC` has to reallocate
(`vc_len + 1 < vc_siz` fails: lengths 0, 15, 16, 31, 32, ...), dereferencing any pointer taken before it is
`Fault.uaf` - what `parseattachments` did with `msg` at the pinned commit (finding F7). -/
theorem C07_L0_stale_pointer_is_a_fault {α : Type} (v : Vec α) (z : α) (p : Ptr) (hp : p.gen = v.gen)
    (hfull : ¬ v.items.size + 1 < v.siz) :
    ∃ v' q, v.calloc z = .ok (v', q) ∧ v'.deref p = .error .uaf :=
  Vec.deref_stale v z p hp hfull

/-! Non-vacuity: concrete inputs satisfying the hypotheses. -/

/-- A full table of 16 elements and a pointer to its first element. -/
example : ∃ (v : L0.Vec Nat) (p : L0.Ptr), p.gen = v.gen ∧ ¬ v.items.size + 1 < v.siz ∧ p.idx < v.items.size :=
  ⟨{ items := Array.replicate 16 0, siz := 16, gen := 3 }, { gen := 3, idx := 0 }, rfl, by decide, by decide⟩

/-- A top-level message `"\n"` (no headers), a table holding one such part, and a valid pointer to it. -/
example : ∃ (root : L0.Att) (v : L0.Vec L0.Att) (msg : L0.MsgRef), L0.AttOk root ∧ L0.VecOk v ∧ L0.RefOk v msg ∧
    v.items.size = 1 := by
  have hok : L0.AttOk { buf := ⟨#[10, 0]⟩, headers := #[], body := 0, path := [] } :=
    ⟨⟨1, by decide, rfl⟩, by intro h hh; simp at hh⟩
  refine ⟨{ buf := ⟨#[10, 0]⟩, headers := #[], body := 0, path := [] },
    { items := #[{ buf := ⟨#[10, 0]⟩, headers := #[], body := 0, path := [] }], siz := 16, gen := 1 },
    .att { gen := 1, idx := 0 }, hok, ?_, ⟨rfl, by decide⟩, rfl⟩
  intro a ha
  simp only [Array.mem_def, List.mem_cons, List.not_mem_nil, or_false] at ha
  subst ha; exact hok

/-- `"=?x?B?Zm9v?= =41"` as `buffer_str` hands it out, and an index inside it. -/
example : (L0.Buf.ofBytes [61, 63, 120, 63, 66, 63, 90, 109, 57, 118, 63, 61, 32, 61, 52, 49]).bytes.back? = some 0 ∧
    7 < (L0.Buf.ofBytes [61, 63, 120, 63, 66, 63, 90, 109, 57, 118, 63, 61, 32, 61, 52, 49]).size := by decide

/-- The window `"=4=41"` inside `"ab=4=41"`. -/
example : (2 : Nat) + 5 ≤ (L0.Buf.ofBytes [97, 98, 61, 52, 61, 52, 49]).size := by decide

/-- A table of two headers inside `"To\0a\0Cc\0b\0"` and the key string `"cc"`. -/
example : ∃ (kb buf : L0.Buf) (hs : Array L0.Hdr0), kb.HasNul 0 ∧ L0.HdrsIn buf hs ∧ 2 ≤ hs.size := by
  refine ⟨⟨#[99, 99, 0]⟩, ⟨#[84, 111, 0, 97, 0, 67, 99, 0, 98, 0]⟩,
    #[{ id := 2, key := 5, val := 8 }, { id := 1, key := 0, val := 3 }], ⟨2, by decide, rfl⟩, ?_, by decide⟩
  intro h hh
  simp only [Array.mem_def, List.mem_cons, List.not_mem_nil, or_false] at hh
  rcases hh with rfl | rfl
  · exact ⟨⟨7, by decide, rfl⟩, ⟨9, by decide, rfl⟩⟩
  · exact ⟨⟨2, by decide, rfl⟩, ⟨4, by decide, rfl⟩⟩

end Mdsort.Props
