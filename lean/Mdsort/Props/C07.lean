import Mdsort.Proofs.Safety

/-!
# C07 - hostile message content cannot corrupt memory, crash or hang mdsort

What a theorem about the model can carry, and what it cannot: the model works on byte lists, where a read
beyond the terminator is not expressible - that the C code's pointers stay where the model's suffixes are
is decided by running the real code on the same inputs under AddressSanitizer/UndefinedBehaviorSanitizer
and comparing its results with the model's (the check).  The theorems below are the arithmetic and
progress facts the C code's safety rests on: every decoder's output fits the buffer its caller
allocated, every table index read is inside the table, every scanner returns pieces of the text it was
given, and every loop that the model bounds with fuel terminates by itself (the fuel is irrelevant), for
every byte string.  All model functions are total (structural or well-founded recursion accepted by the
kernel), so "terminates with match, non-match or error" holds of the model by construction.
-/

namespace Mdsort.Props
open Mdsort Mdsort.Model

/-- Bounded decoders: `dec[n] = '\0'` in `base64_decode` is inside the `strlen + 1` bytes allocated, `b64_pton`
never reports more than the target holds, and the quoted-printable and RFC 2047 decoders never produce more
than they read. -/
theorem C07_decoders_fit :
    (∀ s out : Bytes, base64DecodeRaw s = some out → out.length ≤ s.length) ∧
    (∀ (s out : Bytes) (n : Nat), b64pton s n = some out → out.length ≤ n) ∧
    (∀ s : Bytes, (qpDecodeRaw s).length ≤ s.length) ∧
    (∀ s : Bytes, (rfc2047DecodeRaw s).length ≤ s.length) :=
  ⟨Proofs.b64_fits, Proofs.b64pton_fits, Proofs.qp_fits, Proofs.rfc2047_fits⟩

/-- Header table: every probe of the binary search is inside the table, the search terminates by itself, and
the slice handed to callers is inside the table - for every table, sorted or not, and every name. -/
theorem C07_search_in_bounds (hs : List Hdr) (key : Bytes) :
    (hs ≠ [] → ∀ i ∈ Proofs.bsearchProbes hs.toArray key 0 (hs.length - 1) (hs.length + 1), i < hs.length) ∧
    (hs ≠ [] → ∀ f, hs.length + 1 ≤ f → bsearch hs.toArray key 0 (hs.length - 1) f = bsearch hs.toArray key 0 (hs.length - 1) (hs.length + 1)) ∧
    (∀ i n, searchHeader hs key = some (i, n) → 0 < n ∧ i + n ≤ hs.length) := by
  refine ⟨?_, ?_, ?_⟩
  · intro hne i hi
    have hlen : 0 < hs.length := List.length_pos_iff.mpr hne
    have := Proofs.bsearch_probes_in_bounds hs.toArray key 0 (hs.length - 1) (hs.length + 1) (by simp; omega) i hi
    simpa using this
  · intro hne f hf
    have hlen : 0 < hs.length := List.length_pos_iff.mpr hne
    exact Proofs.bsearch_fuel_irrelevant hs.toArray key 0 (hs.length - 1) f (hs.length + 1) (by omega) (by omega)
  · intro i n h
    exact Proofs.searchHeader_in_bounds hs key i n h

/-- Scanners: what `findheader`, `skipline` and `findboundary` return are pieces of the text they were given. -/
theorem C07_scanners_inside :
    (∀ s key val rest : Bytes, findHeader s = .ok key val rest → ∃ gap : Bytes, s = key ++ [58] ++ gap ++ val ++ [10] ++ rest) ∧
    (∀ s : Bytes, ∃ pre, s = pre ++ skipLine s) ∧
    (∀ (bnd s pre rest : Bytes) (term : Bool), findBoundary bnd s = some (pre, term, rest) → s = pre ++ rest ∧ rest ≠ []) :=
  ⟨Proofs.findHeader_inside, Proofs.skipLine_suffix, Proofs.findBoundary_split⟩

/-- Multipart parsing terminates by itself and its table is bounded by the text, for every message: hundreds of
parts, nesting beyond the limit (an error, by the depth fuel), unterminated or repeated delimiters. -/
theorem C07_multipart_terminates :
    (∀ (sub : Msg → Option (List Msg)) (bnd text : Bytes) (f1 f2 : Nat), text.length < f1 → text.length < f2 →
      partsLoop sub bnd f1 text = partsLoop sub bnd f2 text) ∧
    (∀ (m : Msg) (ps : List Msg), getAttachments m = some ps → ps.length ≤ m.body.length) ∧
    (∀ m : Msg, parseAttachments 0 m = none) :=
  ⟨Proofs.partsLoop_fuel_irrelevant, Proofs.attachments_bounded, fun _ => rfl⟩

end Mdsort.Props
