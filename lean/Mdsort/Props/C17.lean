import Mdsort.Proofs.WorldOwn

/-!
# C17 - concurrent runs on the same maildirs neither lose nor duplicate messages

Other parties (another mdsort, a mail client) influence a run only through the results of its
calls.  `runOracle` gives every call an ARBITRARY result, so a statement proved for every result
function holds under every interleaving with any number of parties.
-/

namespace Mdsort.Props
open Mdsort Mdsort.Model

/-- A run never removes and never renames a name that is not its own - the name of the message it
was given, or a name it created itself with O_CREAT|O_EXCL - and never renames ONTO a name it did
not create itself: it never replaces a file created by another party and never removes the
winner's copy. -/
theorem C17_never_touches_foreign (env : PEnv) (ml : MatchList) (st : ExecSt) (orc : Nat → Call → Res) :
    let tr := (runOracle orc (matchesExec env ml st) 0 []).2
    ∀ i c r, tr[i]? = some (c, r) →
      (∀ d n, c = .unlinkat d n → n ∈ Proofs.ownNames st.ms.name tr i) ∧
      (∀ d1 n1 d2 n2, c = .renameat d1 n1 d2 n2 → n1 ∈ Proofs.ownNames st.ms.name tr i ∧ n2 ∈ createdNames (tr.take i)) :=
  Proofs.exec_touches_only_own env ml st orc

/-- A party that loses the race for a message (its rename finds the source gone) reports an error
for that message; it is never reported as delivered. -/
theorem C17_loser_reports_error (env : PEnv) (mh : Match) (st : ExecSt) (orc : Nat → Call → Res)
    (hty : mh.ty = .move ∨ mh.ty = .flag ∨ mh.ty = .flags)
    (hlost : ∀ i d1 n1 d2 n2, orc i (.renameat d1 n1 d2 n2) = .err "ENOENT") :
    (runOracle orc (execOne env mh st) 0 []).1.2 = true :=
  Proofs.lost_race_is_error env mh st orc hty hlost

end Mdsort.Props
