import Mdsort.Proofs.World
namespace Mdsort.Props
end Mdsort.Props
