import Mdsort.Proofs.WorldOwn
import Mdsort.Proofs.PartiesWinner
import Mdsort.Proofs.PartiesExactly
import Mdsort.Proofs.PartiesWitness
import Mdsort.Proofs.PartiesCopyWitness
import Mdsort.Proofs.PartiesClient
import Mdsort.Proofs.PartiesReaddirWitness
import Mdsort.Proofs.PartiesCopyLoser

/-!
# C17 - concurrent runs on the same maildirs neither lose nor duplicate messages

Other parties (another mdsort, a mail client) influence a run only through the results of its
calls.  `runOracle` gives every call an ARBITRARY result, so a statement proved for every result
function holds under every interleaving with any number of parties (first part).

The second part states the property on the explicit model of several parties interleaving on ONE
abstract file system (`Model/Parties.lean`): `runSched s0 sched` executes, for each index in the
schedule, the next call of that party on the shared file system as it is at that moment.

Audit notes.  A schedule is an arbitrary `List Nat`: any order, any repetition, unfair ones, indices of parties
that have finished or do not exist (such a step does nothing).  The parties are an arbitrary list.  The exactly-once
theorems conclude at QUIESCENCE only (`hq`: every party has finished): a schedule that starves a party satisfies no
hypothesis `hq` and nothing is said about it, nor about intermediate states (one party killed at any point: C02).
The steps are whole system calls answered by `predict` on the shared state - no fault is injected inside a concurrent
run.  `Hiso` is a hypothesis on (initial state, schedule), decidable by running the schedule; it excludes exactly the
schedules in which a party removes or replaces a name another party has created and not yet committed or rolled back
- the listings behind F13 / F14; races for the ORIGINAL name of a message between any number of parties are inside it.
`C17_never_touches_foreign` and `C17_parties_never_touch_foreign` speak of NAMES (the last component): the directory
handle of the `unlinkat` / `renameat` is not constrained by them.
-/

namespace Mdsort.Props
open Mdsort Mdsort.Model

/-- A run never removes and never renames a name that is not its own - the name of the message it
was given, or a name it created itself with O_CREAT|O_EXCL - and never renames ONTO a name it did
not create itself: it never replaces a file created by another party and never removes the
winner's copy. -/
theorem C17_never_touches_foreign (env : PEnv) (ml : MatchList) (st : ExecSt) (orc : Nat → Call → Res) :
    let tr := (runOracle orc (matchesExec env ml st) 0 []).2
    ∀ i c r, tr[i]? = some (c, r) →
      (∀ d n, c = .unlinkat d n → n ∈ Proofs.ownNames st.ms.name tr i) ∧
      (∀ d1 n1 d2 n2, c = .renameat d1 n1 d2 n2 → n1 ∈ Proofs.ownNames st.ms.name tr i ∧ n2 ∈ createdNames (tr.take i)) :=
  Proofs.exec_touches_only_own env ml st orc

/-- A party that loses the race for a message (its rename finds the source gone) reports an error
for that message; it is never reported as delivered. -/
theorem C17_loser_reports_error (env : PEnv) (mh : Match) (st : ExecSt) (orc : Nat → Call → Res)
    (hty : mh.ty = .move ∨ mh.ty = .flag ∨ mh.ty = .flags)
    (hlost : ∀ i d1 n1 d2 n2, orc i (.renameat d1 n1 d2 n2) = .err "ENOENT") :
    (runOracle orc (execOne env mh st) 0 []).1.2 = true :=
  Proofs.lost_race_is_error env mh st orc hty hlost

/-- ... for the copying actions too: a move / flag / flags (also across devices: `EXDEV`, copy, `unlinkat` of the
source) / label / add-header action all of whose renames fail and all of whose `unlinkat` of the message's own name
fail (the source is gone) returns error = true. -/
theorem C17_copy_loser_reports_error (env : PEnv) (mh : Match) (st : ExecSt) (orc : Nat → Call → Res)
    (hty : mh.ty = .move ∨ mh.ty = .flag ∨ mh.ty = .flags ∨ mh.ty = .label ∨ mh.ty = .addHeader)
    (hren : ∀ i d1 n1 d2 n2, ∃ e, orc i (.renameat d1 n1 d2 n2) = .err e)
    (hunl : ∀ i d, ∃ e, orc i (.unlinkat d st.ms.name) = .err e) :
    (runOracle orc (execOne env mh st) 0 []).1.2 = true :=
  Proofs.lost_race_is_error_all env mh st orc hty hren hunl

open Proofs.Parties.W in
/-- Non-vacuity of `C17_loser_reports_error` and `C17_copy_loser_reports_error`: a file system on which every `renameat`
and every `unlinkat` finds its source gone (`ENOENT`) and every other call succeeds; the `move` of the message `a` (one
`renameat`, lost) and the `label` of it (copy written, `unlinkat` of the original lost) both end with error = true. -/
example :
    let orc : Nat → Call → Res := fun _ c => match c with
      | .renameat .. => .err "ENOENT" | .unlinkat .. => .err "ENOENT" | _ => .ok 9
    (runOracle orc (execOne (env 2) moveAct (stOf (ofString "a") msg)) 0 []).1.2 = true ∧
    (runOracle orc (execOne (env 1) labelAct (stOf (ofString "a") labelled)) 0 []).1.2 = true ∧
    ((runOracle orc (execOne (env 2) moveAct (stOf (ofString "a") msg)) 0 []).2.filter fun x => x.1.isRename).length = 1 :=
  ⟨C17_loser_reports_error (env 2) moveAct (stOf (ofString "a") msg) _ (.inl rfl) (fun _ _ _ _ _ => rfl),
   C17_copy_loser_reports_error (env 1) labelAct (stOf (ofString "a") labelled) _ (.inr (.inr (.inr (.inl rfl))))
     (fun _ _ _ _ _ => ⟨_, rfl⟩) (fun _ _ => ⟨_, rfl⟩), by decide +kernel⟩

/-! ## several parties on one file system, all schedules -/

/-- Single winner.  For every entry `x` (directory, name) - in particular the source name of a
message - and every schedule of any parties: as long as nobody binds `x` anew in the run, at most
one call in the whole history removes `x` successfully (the `renameat` away from it or the
`unlinkat` of it), and every attempt after it is a lost race (`ENOENT`; a `renameat` may report
`EXDEV`/`EBADF` about its target first). -/
theorem C17_single_winner (s0 : Shared) (h0 : s0.log = []) (sched : List Nat) (x : Bytes × Bytes)
    (hnr : ∀ e ∈ (runSched s0 sched).log, e.binds x = false) :
    (∀ (i j : Nat) (e1 e2 : Event), (runSched s0 sched).log[i]? = some e1 → (runSched s0 sched).log[j]? = some e2 →
      e1.removes x = true → e2.removes x = true → i = j) ∧
    (∀ (i j : Nat) (e1 e2 : Event), i < j → (runSched s0 sched).log[i]? = some e1 → (runSched s0 sched).log[j]? = some e2 →
      e1.removes x = true → e2.attempts x = true → e2.lost = true) :=
  ⟨(Proofs.Parties.single_winner s0 h0 sched x hnr).2,
   fun i j e1 e2 hij h1 h2 hr ha =>
     Proofs.Parties.winnerFirst_get (Proofs.Parties.single_winner s0 h0 sched x hnr).1 i j e1 e2 hij h1 h2 hr ha⟩

/-- ... and the loser reports it: an mdsort party in a schedule whose action list starts with a
move/flag/flags action and all of whose renames found the source gone finishes with error = true
(`C17_loser_reports_error` transported to the schedule). -/
theorem C17_loser_in_schedule_reports_error (s0 : Shared) (hf : Proofs.Parties.Fresh s0) (sched : List Nat) (a : Nat)
    (p0 ps : PState) (env : PEnv) (mh : Match) (rest : MatchList) (st : ExecSt)
    (h0 : s0.parties[a]? = some p0) (hp : p0.prog = errOf (matchesExec env (mh :: rest) st))
    (hty : mh.ty = .move ∨ mh.ty = .flag ∨ mh.ty = .flags)
    (hs : (runSched s0 sched).parties[a]? = some ps)
    (hlost : ∀ (i : Nat) (d1 : Handle) (n1 : Bytes) (d2 : Handle) (n2 : Bytes) (r : Res),
      ps.trace[i]? = some (Call.renameat d1 n1 d2 n2, r) → r = Res.err "ENOENT")
    (e : Bool) (hfin : ps.prog = .ret e) : e = true :=
  Proofs.Parties.loser_reports_error s0 hf sched a p0 ps env mh rest st h0 hp hty hs hlost e hfin

/-- The same for every delivering first action, the copying ones included: all renames of the party failed and all
its `unlinkat` of the message's name failed => it finishes with error = true. -/
theorem C17_copy_loser_in_schedule_reports_error (s0 : Shared) (hf : Proofs.Parties.Fresh s0) (sched : List Nat) (a : Nat)
    (p0 ps : PState) (env : PEnv) (mh : Match) (rest : MatchList) (st : ExecSt)
    (h0 : s0.parties[a]? = some p0) (hp : p0.prog = errOf (matchesExec env (mh :: rest) st))
    (hty : mh.ty = .move ∨ mh.ty = .flag ∨ mh.ty = .flags ∨ mh.ty = .label ∨ mh.ty = .addHeader)
    (hs : (runSched s0 sched).parties[a]? = some ps)
    (hren : ∀ (i : Nat) (d1 : Handle) (n1 : Bytes) (d2 : Handle) (n2 : Bytes) (r : Res),
      ps.trace[i]? = some (Call.renameat d1 n1 d2 n2, r) → ∃ e, r = Res.err e)
    (hunl : ∀ (i : Nat) (d : Handle) (r : Res), ps.trace[i]? = some (Call.unlinkat d st.ms.name, r) → ∃ e, r = Res.err e)
    (e : Bool) (hfin : ps.prog = .ret e) : e = true :=
  Proofs.Parties.loser_reports_error_all s0 hf sched a p0 ps env mh rest st h0 hp hty hs hren hunl e hfin

open Proofs.Parties.W in
/-- Non-vacuity: in the round-robin run of `label` against `move` (below), the `label` party is such a loser (its
`unlinkat` of `a` failed, it has no rename) and finished with error = true; the mover is not. -/
example : ((runSched c0 schedRR).parties.map fun ps => (lostTrace (ofString "a") ps.trace, ps.result)) =
    [(true, some true), (false, some false)] := rr_loser

/-- `C17_never_touches_foreign` on schedules: whatever the other parties and the client do in
between, every `unlinkat` argument and `renameat` source of an mdsort party is the name of the
message it was given or a name it created itself, and every `renameat` target is a name it
created itself. -/
theorem C17_parties_never_touch_foreign (s0 : Shared) (hf : Proofs.Parties.Fresh s0) (sched : List Nat) (a : Nat)
    (p0 ps : PState) (env : PEnv) (ml : MatchList) (st : ExecSt)
    (h0 : s0.parties[a]? = some p0) (hp : p0.prog = errOf (matchesExec env ml st))
    (hs : (runSched s0 sched).parties[a]? = some ps) :
    ∀ i c r, ps.trace[i]? = some (c, r) →
      (∀ d n, c = .unlinkat d n → n ∈ Proofs.ownNames st.ms.name ps.trace i) ∧
      (∀ d1 n1 d2 n2, c = .renameat d1 n1 d2 n2 →
        n1 ∈ Proofs.ownNames st.ms.name ps.trace i ∧ n2 ∈ createdNames (ps.trace.take i)) :=
  Proofs.Parties.parties_never_touch_foreign s0 hf sched a p0 ps env ml st h0 hp hs

/-- Exactly once under `H_iso`, for ANY number of parties each of which is a mover (an mdsort
run on one message whose actions are all move / flag / flags: rename-based, one device, no copy)
or the external client, on EVERY complete schedule that respects `H_iso` (`Hiso`: no call removes
or binds an entry another party created and has neither committed nor rolled back, and no party
renames such an entry of its own as if it were a message):
every initial file that was not removed outright (`Event.destroys`: the client's delete, or a
rename onto it) is bound to exactly one entry, and every entry is bound to an initial file with its
initial content - no placeholder, no empty or partial file remains. -/
theorem C17_exactly_once_partial_movers (s0 : Shared) (h0 : Proofs.Parties.StartOK s0) (sched : List Nat)
    (hiso : Hiso s0 sched = true) (hq : (runSched s0 sched).quiescent = true) :
    (∀ p0 n0 f, s0.fs.lookup p0 n0 = some f → (∀ e ∈ (runSched s0 sched).log, e.destroys f = false) →
      ∃ p n, (runSched s0 sched).fs.lookup p n = some f ∧
        ∀ p' n', (runSched s0 sched).fs.lookup p' n' = some f → p' = p ∧ n' = n) ∧
    (∀ p n f, (runSched s0 sched).fs.lookup p n = some f →
      (∃ p0 n0, s0.fs.lookup p0 n0 = some f) ∧ (runSched s0 sched).fs.file f = s0.fs.file f) :=
  Proofs.Parties.exactly_once_movers s0 h0 sched hiso hq

/-! ### non-vacuity: two movers racing for the message `a` and the client renaming `b`, round robin -/

open Proofs.Parties.W in
example : Proofs.Parties.StartOK m0 ∧ Hiso m0 schedM = true ∧ (runSched m0 schedM).quiescent = true ∧
    (runSched m0 schedM).parties.map (·.result) = [some false, some true, some false] ∧
    (runSched m0 schedM).fs.entries =
      [(ofString "/m/cur", ofString "b:2,S", 1), (ofString "/d/new", ofString "7.1_1.h:2,", 0)] :=
  ⟨m_startOK, m_iso, m_quiescent, m_results, m_final⟩

open Proofs.Parties.W in
/-- In that run nobody re-creates `new/a`, party 0 wins it and party 1 gets `ENOENT`. -/
example : (∀ e ∈ (runSched m0 schedM).log, e.binds (ofString "/m/new", ofString "a") = false) ∧
    ((runSched m0 schedM).log.filter (fun e => e.attempts (ofString "/m/new", ofString "a"))).map
      (fun e => (e.party, e.res)) = [(0, .ok 0), (1, .err "ENOENT")] := by
  refine ⟨?_, m_removals⟩
  intro e he
  have := List.all_eq_true.1 m_norebind e he
  simpa using this

/-! ## exactly once for EVERY action kind and for listing parties, under `H_iso` -/

/-- Exactly once under `H_iso`, for ANY number of parties, each of which is
* an mdsort run executing ANY action list of the sequential model on one message (`errOf (matchesExec ..)`:
  move on one device, move across devices (copy + unlink), flag, flags, label, add-header, discard, exec with or
  without a temporary file), or
* an mdsort run that lists a directory and executes the action list its rules give for every name (`scanExec`), or
* the external client (renames and unlinks),
on EVERY complete schedule that respects `H_iso` (`Hiso`: no `unlinkat` and no `renameat` removes or replaces an
entry another party created and has neither committed nor rolled back, and no party renames such an entry of
its own as if it were a message; nothing is asked of exclusive creates, `readdir`, or any other call).
`M` is any set of messages containing the ones the parties hold (`StartOKc`).  `origin g` is the initial file
`g` descends from through the copy commits of the history (`originIn`).  Then at quiescence:
1. every initial file `f0`, unless a version of it was removed outright (`Event.destroysRoot`: a successful
   `discard` or delete by a party with no copy in flight, or another file renamed onto it), has EXACTLY ONE
   entry holding a version of it;
2. every entry descends from an initial file and holds either that very file with its initial content, or a
   file created during the run whose content is a COMPLETE message `(messageWrite m).1` of some `m ∈ M` written
   by a party (no placeholder, no empty or partial file remains in any directory);
3. no file is bound to two entries. -/
theorem C17_exactly_once_partial (M : Msg → Prop) (s0 : Shared) (h0 : Proofs.Parties.StartOKc M s0) (sched : List Nat)
    (hiso : Hiso s0 sched = true) (hq : (runSched s0 sched).quiescent = true) :
    (∀ p0 n0 f0, s0.fs.lookup p0 n0 = some f0 → (∀ e ∈ (runSched s0 sched).log, e.destroysRoot f0 = false) →
      ∃ p n g, (runSched s0 sched).fs.lookup p n = some g ∧ (runSched s0 sched).origin g = f0 ∧
        ∀ p' n' g', (runSched s0 sched).fs.lookup p' n' = some g' → (runSched s0 sched).origin g' = f0 → p' = p ∧ n' = n) ∧
    (∀ p n g, (runSched s0 sched).fs.lookup p n = some g →
      (∃ p0 n0, s0.fs.lookup p0 n0 = some ((runSched s0 sched).origin g)) ∧
      ((g = (runSched s0 sched).origin g ∧ (runSched s0 sched).fs.file g = s0.fs.file g) ∨
       (s0.fs.nextFid ≤ g ∧ ∃ m f, M m ∧ (runSched s0 sched).fs.file g = some f ∧ f.data = (messageWrite m).1))) ∧
    (∀ p n p' n' g, (runSched s0 sched).fs.lookup p n = some g → (runSched s0 sched).fs.lookup p' n' = some g → p = p' ∧ n = n') :=
  Proofs.Parties.exactly_once_copy s0 h0 sched hiso hq

/-! ### non-vacuity: `label` against `move` on the same message, interleaved call by call -/

open Proofs.Parties.W in
/-- Round robin: B's `renameat` comes first, B wins; A's `unlinkat` of the original gets `ENOENT`, A removes its
complete copy again and reports an error.  The message is in `/d/new`, once, with its initial content. -/
example : Proofs.Parties.StartOKc MW c0 ∧ Hiso c0 schedRR = true ∧ (runSched c0 schedRR).quiescent = true ∧
    (runSched c0 schedRR).parties.map (·.result) = [some true, some false] ∧
    (runSched c0 schedRR).fs.entries = [(ofString "/d/new", ofString "7.2_1.h:2,", 0)] ∧
    (runSched c0 schedRR).fs.content 0 = content :=
  ⟨c_startOK, rr_facts⟩

open Proofs.Parties.W in
/-- A is ahead and commits before B's `renameat`: A wins, B gets `ENOENT`, removes its placeholder and reports
an error.  The only entry is A's new name; it holds the complete labelled message and descends from file 0. -/
example : Proofs.Parties.StartOKc MW c0 ∧ Hiso c0 schedAB = true ∧ (runSched c0 schedAB).quiescent = true ∧
    (runSched c0 schedAB).parties.map (·.result) = [some false, some true] ∧
    (runSched c0 schedAB).fs.entries = [(ofString "/m/new", nameA, 1)] ∧
    (runSched c0 schedAB).fs.content 1 = labelledBytes ∧
    (runSched c0 schedAB).origin 1 = 0 :=
  ⟨c_startOK, ab_facts⟩

/-! ## the external client needs no isolation hypothesis -/

/-- The external client interleaved anywhere: `H_iso` is asked of the steps of the mdsort parties only
(`HisoExcept cl`), nothing of the steps of the parties `cl`, provided these are clients whose operations
mention no name of `N`, where `N` contains every name the mdsort processes of the run can generate
(`GenNames N env`: `now.pid_count.host` + flags, for every counter value).  Then the conclusion of
`C17_exactly_once_partial` holds. -/
theorem C17_external_client (M : Msg → Prop) (N : Bytes → Prop) (cl : List Nat) (s0 : Shared)
    (h0 : Proofs.Parties.StartOKc M s0)
    (hgen : ∀ (i : Nat) (ps : PState), s0.parties[i]? = some ps → i ∉ cl →
      (∃ env ml st, Proofs.Parties.GenNames N env ∧ ps.prog = errOf (matchesExec env ml st)) ∨
      (∃ env md rule fuel e, Proofs.Parties.GenNames N env ∧ ps.prog = scanExec env md rule fuel e))
    (hcl : ∀ (i : Nat) (ps : PState), i ∈ cl → s0.parties[i]? = some ps → ∃ ops, ps.prog = clientProg ops ∧ ∀ op ∈ ops, op.avoids N)
    (sched : List Nat) (hiso : HisoExcept cl s0 sched = true) (hq : (runSched s0 sched).quiescent = true) :
    Hiso s0 sched = true ∧
    (∀ p0 n0 f0, s0.fs.lookup p0 n0 = some f0 → (∀ e ∈ (runSched s0 sched).log, e.destroysRoot f0 = false) →
      ∃ p n g, (runSched s0 sched).fs.lookup p n = some g ∧ (runSched s0 sched).origin g = f0 ∧
        ∀ p' n' g', (runSched s0 sched).fs.lookup p' n' = some g' → (runSched s0 sched).origin g' = f0 → p' = p ∧ n' = n) ∧
    (∀ p n g, (runSched s0 sched).fs.lookup p n = some g →
      (∃ p0 n0, s0.fs.lookup p0 n0 = some ((runSched s0 sched).origin g)) ∧
      ((g = (runSched s0 sched).origin g ∧ (runSched s0 sched).fs.file g = s0.fs.file g) ∨
       (s0.fs.nextFid ≤ g ∧ ∃ m f, M m ∧ (runSched s0 sched).fs.file g = some f ∧ f.data = (messageWrite m).1))) ∧
    (∀ p n p' n' g, (runSched s0 sched).fs.lookup p n = some g → (runSched s0 sched).fs.lookup p' n' = some g → p = p' ∧ n = n') := by
  have hH : Hiso s0 sched = true := by
    refine Proofs.Parties.hiso_of_except (N := N) cl s0 h0.fresh ?_ hcl sched hiso
    intro i ps hp
    by_cases hi : i ∈ cl
    · obtain ⟨ops, hprog, _⟩ := hcl i ps hi hp
      rw [hprog]; exact Proofs.Parties.nq_clientProg ops
    · rcases hgen i ps hp hi with ⟨env, ml, st, hN, hprog⟩ | ⟨env, md, rule, fuel, e, hN, hprog⟩
      · rw [hprog]; exact Proofs.Parties.nq_errOf _ (Proofs.Parties.nq_matchesExec env hN ml st)
      · rw [hprog]; exact Proofs.Parties.nq_scanExec env hN md rule fuel e
  exact ⟨hH, Proofs.Parties.exactly_once_copy s0 h0 sched hH hq⟩

open Proofs.Parties.W in
/-- Non-vacuity: the two movers racing for `a` and the client renaming `b` (party 2), round robin; isolation is
asked of the movers only, the client's names `b`, `b:2,S` are outside the generated names `7.<pid>_<count>.h...`. -/
example : Proofs.Parties.StartOKc MW m0 ∧ HisoExcept [2] m0 schedM = true ∧ (runSched m0 schedM).quiescent = true ∧
    (∀ (i : Nat) (ps : PState), m0.parties[i]? = some ps → i ∉ [2] →
      (∃ env ml st, Proofs.Parties.GenNames NW env ∧ ps.prog = errOf (matchesExec env ml st)) ∨
      (∃ env md rule fuel e, Proofs.Parties.GenNames NW env ∧ ps.prog = scanExec env md rule fuel e)) ∧
    (∀ (i : Nat) (ps : PState), i ∈ [2] → m0.parties[i]? = some ps → ∃ ops, ps.prog = clientProg ops ∧ ∀ op ∈ ops, op.avoids NW) :=
  ⟨m_startOKc, m_isoExcept, m_quiescent, m_gen, m_client⟩

/-! ## the full statement, without `H_iso`, is false (F14) -/

/-- An mdsort party: an action list on one message, or a directory listing followed by the action
list on every name found. -/
def IsMdsortParty (ps : PState) : Prop :=
  (∃ env ml st, ps.prog = errOf (matchesExec env ml st)) ∨
  (∃ env md rule fuel e, ps.prog = scanExec env md rule fuel e)

/-- The initial state of a system of mdsort parties and the client: nobody has started, the
messages are pairwise different (different bodies), directory handles are valid. -/
structure C17Start (s0 : Shared) : Prop where
  fresh : Proofs.Parties.Fresh s0
  parties : ∀ ps ∈ s0.parties, IsMdsortParty ps ∨ Proofs.Parties.IsClientParty ps
  distinct : s0.fs.entries.Pairwise fun e1 e2 => isStage (s0.fs.content e1.2.2) (s0.fs.content e2.2.2) = false
  dirsOk : ∀ ps ∈ s0.parties, ∀ (d : Handle) (p : Bytes), handlesDirPath ps.handles d = some p → (s0.fs.dir p).isSome

/-- Exactly once, by content: every initial message has at most one entry holding a stage of it
(a complete message with the same body), has one unless an entry holding a stage of it was removed
outright, and every entry holds a stage of some initial message. -/
def ExactlyOnce (s0 s : Shared) : Prop :=
  (∀ e ∈ s0.fs.entries,
    (stageEntries s.fs (s0.fs.content e.2.2)).length ≤ 1 ∧
    ((stageEntries s.fs (s0.fs.content e.2.2)).length = 0 →
      ∃ ev ∈ s.log, ∃ g, ev.destroys g = true ∧ isStage (s0.fs.content e.2.2) (s.fs.content g) = true)) ∧
  (∀ e ∈ s.fs.entries, ∃ e0 ∈ s0.fs.entries, isStage (s0.fs.content e0.2.2) (s.fs.content e.2.2) = true)

/-- The full-strength statement: exactly once on every complete schedule, without `H_iso`. -/
def C17_exactly_once : Prop :=
  ∀ (s0 : Shared) (sched : List Nat), C17Start s0 → (runSched s0 sched).quiescent = true →
    ExactlyOnce s0 (runSched s0 sched)

theorem c17start_witness : C17Start Proofs.Parties.W.s0 := by
  open Proofs.Parties.W in
  refine ⟨Proofs.Parties.fresh_init _ _, ?_, ?_, ?_⟩
  · intro ps hps
    simp only [s0, Shared.init, List.map_cons, List.map_nil, List.mem_cons, List.not_mem_nil, or_false] at hps
    rcases hps with rfl | rfl | rfl <;> exact .inl (.inl ⟨_, _, _, rfl⟩)
  · show (fs.shared.entries).Pairwise _
    decide +kernel
  · intro ps hps d p hd
    simp only [s0, Shared.init, List.map_cons, List.map_nil, List.mem_cons, List.not_mem_nil, or_false] at hps
    have hh : ps.handles = dirH := by rcases hps with rfl | rfl | rfl <;> rfl
    rw [hh] at hd
    have hp : p = ofString "/m/new" := by
      match d, hd with
      | 0, hd => simpa [handlesDirPath, dirH] using hd.symm
      | d + 1, hd => simp [handlesDirPath, dirH] at hd
    subst hp
    decide +kernel

open Proofs.Parties.W in
/-- F14: A = `label` on the message `new/a`, B1 = `move` of `a`, B2 = `move` of the name A created
(what a listing of `new/` shows while A is at work); A runs up to and including its `fsync`, then
B2 and B1 run to completion, then A resumes (its `unlinkat` of `a` gets `ENOENT`, it reports an
error).  Both the original and A's labelled copy end up in `/d/new`: the message exists twice.
The parties are the scripts themselves (`matchesExec`), evaluated by the kernel. -/
theorem C17_exactly_once_false : ¬ C17_exactly_once := by
  intro h
  have hstart : C17Start s0 := c17start_witness
  have hone := ((h s0 sched hstart run_quiescent).1 (ofString "/m/new", ofString "a", 0) (by decide +kernel)).1
  have hc : s0.fs.content 0 = content := by decide +kernel
  rw [show ((ofString "/m/new", ofString "a", 0) : Bytes × Bytes × Nat).2.2 = 0 from rfl, hc, run_dup] at hone
  exact absurd hone (by decide)

open Proofs.Parties.W in
/-- F14 as the design describes it, with a listing party: A = `label` on `new/a`, B = list `/m/new`
and `move "/d"` every name found (`scanExec`); A runs up to and including its `fsync`, B lists the
directory (sees the original and A's complete copy) and runs to completion, A resumes.  The run is
complete and two entries hold a stage of the message. -/
theorem C17_F14_listing :
    (runSched t0 schedL).quiescent = true ∧ (stageEntries (runSched t0 schedL).fs content).length = 2 :=
  ⟨runL_quiescent, runL_dup⟩

open Proofs.Parties.W in
/-- F13 on the model: A = `move "/d"` of `new/a` is preempted after the exclusive create of its
placeholder in `/d/new`; C lists `/d/new` and moves what it finds to `/x`; A resumes.  Both report
success; the message is in `/d/new` and an EMPTY file remains as a message in `/x/new`.  (C's first
`readdir` is not isolated: `H_iso` excludes this schedule.) -/
theorem C17_F13_empty_stray :
    Hiso u0 schedU = false ∧
    (runSched u0 schedU).quiescent = true ∧
    (runSched u0 schedU).parties.map (·.result) = [some false, some false] ∧
    (runSched u0 schedU).fs.entries = [(ofString "/d/new", nameA, 0), (ofString "/x/new", ofString "7.2_1.h:2,", 1)] ∧
    (runSched u0 schedU).fs.content 1 = [] :=
  ⟨runU_not_iso, runU_facts⟩

open Proofs.Parties.W in
/-- `H_iso` is what the counterexample of `C17_exactly_once_false` violates. -/
theorem C17_F14_not_isolated : Hiso s0 sched = false := run_not_iso

/-! ## `H_iso` from what directory listings return -/

/-- The implication without side conditions: if no `readdir` returns a name another party has in flight, the
schedule respects `H_iso`. -/
def C17_hisoReaddir_implies_hiso_unrestricted : Prop :=
  ∀ (s0 : Shared) (sched : List Nat), C17Start s0 → HisoReaddir s0 sched = true → Hiso s0 sched = true

open Proofs.Parties.W in
/-- It is false: a party need not have its names from a listing.  In the F14 schedule of `C17_exactly_once_false`
the three parties are handed their names (one of them the name another has in flight) and nobody calls
`readdir` at all. -/
theorem C17_hisoReaddir_implies_hiso_unrestricted_false : ¬ C17_hisoReaddir_implies_hiso_unrestricted := by
  intro h
  have := h s0 sched c17start_witness run_readdir_iso
  rw [run_not_iso] at this
  cases this

/-- `H_iso` from the results of `readdir`, with name spaces.  `N i` contains every name party `i` can generate
(`GenNames`), the name spaces are pairwise disjoint (the processes differ in pid or host), and every party is
* a listing run (`scanExec`) whose rules name the message after the directory entry, or
* a run on one message whose given name is in no other party's name space, or
* a client that mentions no name of any name space.
If no `readdir` of a party returns a name of ANOTHER party's name space (`HisoReaddirNS`) and no party renames
a name it has in flight itself (`HisoOwn`, the purely local clause of `H_iso`: `maildir_genname` regenerating the
very name of the message being moved), then the schedule respects `H_iso`; and `HisoReaddirNS` implies the
isolation stated on names in flight (`HisoReaddir`). -/
theorem C17_hisoReaddir_implies_hiso (N : Nat → Bytes → Prop) (hdisj : ∀ i j n, i ≠ j → N i n → ¬ N j n) (s0 : Shared)
    (hf : Proofs.Parties.Fresh s0)
    (hp : ∀ (i : Nat) (ps : PState), s0.parties[i]? = some ps → Proofs.Parties.ReaddirParty N i ps)
    (sched : List Nat) (hrd : HisoReaddirNS N s0 sched) (hown : HisoOwn s0 sched = true) :
    Hiso s0 sched = true ∧ HisoReaddir s0 sched = true :=
  ⟨Proofs.Parties.hiso_of_readdirNS N hdisj s0 hf hp sched hrd hown, Proofs.Parties.hisoReaddir_of_NS N s0 hf hp sched hrd⟩

open Proofs.Parties.W in
/-- Non-vacuity: A = `label` on `a` (handed the name), B = LISTS `/m/new` and moves every name to `/d`; B takes
its listing first, then the two alternate call by call; B's `renameat` precedes A's `unlinkat`: B wins, A rolls
its complete copy back and reports an error. -/
example : (∀ i j n, i ≠ j → NS i n → ¬ NS j n) ∧ Proofs.Parties.Fresh r0 ∧
    (∀ (i : Nat) (ps : PState), r0.parties[i]? = some ps → Proofs.Parties.ReaddirParty NS i ps) ∧
    HisoReaddirNS NS r0 schedR ∧ HisoOwn r0 schedR = true ∧ (runSched r0 schedR).quiescent = true ∧
    (runSched r0 schedR).parties.map (·.result) = [some true, some false] ∧
    (runSched r0 schedR).fs.entries = [(ofString "/d/new", ofString "7.2_1.h:2,", 0)] :=
  ⟨ns_disj, Proofs.Parties.fresh_init _ _, r_parties, r_ns0, r_own0, r_facts⟩

end Mdsort.Props
