import Mdsort.Proofs.World
import Mdsort.Proofs.WorldSingleEx

/-!
# C01 - no message is lost or duplicated when an I/O operation fails

The file-system code of mdsort is transcribed as programs over libc calls
(Model/Scripts.lean, Model/Main.lean); `runPlan` executes them on an abstract file system
under an arbitrary fault plan (any number of faults, any errno, short transfers).  The real
binary is tied to these programs call by call on every run of the check (`Model.conform`).
-/

namespace Mdsort.Props
open Mdsort Mdsort.Model

/-- Loss-freedom under EVERY fault plan (any number of faults): whatever fails while an action
list (move on one device or across devices, flag, flags, label, add-header, exec, in any order
and number) is executed, after every single call some directory entry is bound to a complete
version of the message - the bytes it had, or the completely written new version. -/
theorem C01_no_loss (env : PEnv) (ml : MatchList) (st : ExecSt) (w : World) (orig : Bytes) (plan : Plan)
    (hs : Proofs.Start w st orig) (hd : Proofs.NoDiscard ml) :
    ∀ w' ∈ (runPlan plan (matchesExec env ml st) w 0 []).2.2, Proofs.Intact w' (Proofs.stages st.ms orig) :=
  Proofs.exec_always_intact env ml st w orig plan hs hd

/-- The exit status is a function of the error and reject flags only (so a failure that sets the
error flag is always reported). -/
theorem C01_exit_reports_error (env : PEnv) (orc : EvalOracles) (ok : Bool) (conf : List ConfBlock) (files : Files) (input : Bytes)
    (w : World) (plan : Plan) :
    let r := (runPlan plan (mainP env orc ok conf files input) w 0 []).1
    r.1 = exitStatus env r.2 :=
  Proofs.exit_status_table env orc ok conf files input w plan

/-! ## at most one fault

`Proofs.World.SingleFault plan`: at most one call index carries a fault (implied by
`Plan.count plan n ≤ 1` for all `n`, and true of `singlePlan i f`).  `Proofs.StartAt` is `Start`
plus: the source maildir's path is the join of its root and subdirectory, the ghost location and
content of the message are those of its entry, the message's descriptor is an existing handle
other than the source directory's.  Entries are compared through `World.lookup` (for the
name-unique directory lists of `Start` this determines the lists up to order). -/

/-- The restriction on plans, in the terms of `Plan.count`. -/
theorem C01_single_fault_of_count (plan : Plan) (h : ∀ n, Plan.count plan n ≤ 1) : Proofs.World.SingleFault plan :=
  Proofs.World.singleFault_of_count plan h

/-- Exactly once, under at most one fault (action lists without discard: move on one device or
across devices, flag, flags, label, add-header, exec, in any order and number): after the run
the message is bound at the entry its ghost location names, to a file whose visible and durable
content is a complete version; that entry is the original one, or it was free before and the
original entry is free now; every other entry of every directory is bound as before.  So there is
exactly one entry for the message - no loss, no duplicate - whether or not an error is returned. -/
theorem C01_single_fault_exactly_once (env : PEnv) (ml : MatchList) (st : ExecSt) (w : World) (orig : Bytes) (plan : Plan)
    (hs : Proofs.StartAt w st orig) (hd : Proofs.NoDiscard ml) (hp : Proofs.World.SingleFault plan) :
    let r := runPlan plan (matchesExec env ml st) w 0 []
    ∃ p n fid, r.1.1.ms.loc = some (p, n) ∧ r.2.1.lookup p n = some fid ∧
      r.2.1.file fid = some ⟨r.1.1.ms.content, r.1.1.ms.content⟩ ∧ r.1.1.ms.content ∈ Proofs.stages st.ms orig ∧
      ((p, n) = (st.src.path, st.ms.name) ∨ (w.lookup p n = none ∧ r.2.1.lookup st.src.path st.ms.name = none)) ∧
      ∀ q m, (q, m) ≠ (p, n) → (q, m) ≠ (st.src.path, st.ms.name) → r.2.1.lookup q m = w.lookup q m :=
  Proofs.exec_single_fault_exactly_once env ml st w orig plan hs hd hp

/-- Counting form: if no OTHER entry of the initial world is bound to a file that holds a version
of the message, then after the run (at most one fault) the only entry, over all directories, bound
to a file whose data is a stage of the message is the message's own entry. -/
theorem C01_single_fault_unique (env : PEnv) (ml : MatchList) (st : ExecSt) (w : World) (orig : Bytes) (plan : Plan)
    (hs : Proofs.StartAt w st orig) (hd : Proofs.NoDiscard ml) (hp : Proofs.World.SingleFault plan)
    (hu : ∀ q m fid, w.lookup q m = some fid → (q, m) ≠ (st.src.path, st.ms.name) →
      fid < w.nextFid ∧ ∀ f, w.file fid = some f → f.data ∉ Proofs.stages st.ms orig) :
    let r := runPlan plan (matchesExec env ml st) w 0 []
    ∀ q m fid f, r.2.1.lookup q m = some fid → r.2.1.file fid = some f → f.data ∈ Proofs.stages st.ms orig →
      r.1.1.ms.loc = some (q, m) :=
  Proofs.exec_single_fault_unique env ml st w orig plan hs hd hp hu

/-- No stray file, under at most one fault: every entry that exists after the run - in
particular every name the run created - is the message's entry (complete, by the previous
theorem) or an entry that existed before, bound to the same file with unchanged content.  No
empty placeholder and no partial copy remains in any directory. -/
theorem C01_single_fault_no_stray (env : PEnv) (ml : MatchList) (st : ExecSt) (w : World) (orig : Bytes) (plan : Plan)
    (hs : Proofs.StartAt w st orig) (hd : Proofs.NoDiscard ml) (hp : Proofs.World.SingleFault plan) :
    let r := runPlan plan (matchesExec env ml st) w 0 []
    ∀ q m fid, r.2.1.lookup q m = some fid →
      r.1.1.ms.loc = some (q, m) ∨
      (w.lookup q m = some fid ∧ (fid < w.nextFid → r.2.1.file fid = w.file fid)) :=
  Proofs.exec_single_fault_no_stray env ml st w orig plan hs hd hp

/-- A failure is reported - for EVERY fault plan, any number of faults: if any call of the
execution of an action list fails (injected or genuine) and the call is not an ignored site
(`ignoredSite`: every `close`, every `closedir`, the `fstatat` of `maildir_move` - the known
findings) and the errno is not one mdsort recovers from (`handledErr`: `EEXIST` of the exclusive
create is retried under the next name, `EXDEV` of the rename falls back to copying), then
`matches_exec` returns an error. -/
theorem C01_fault_reported (env : PEnv) (ml : MatchList) (st : ExecSt) (w : World) (plan : Plan) (c : Call) (e : String)
    (hmem : (c, Res.err e) ∈ (runPlan plan (matchesExec env ml st) w 0 []).2.1.trace.drop w.trace.length)
    (hsite : Proofs.World.ignoredSite c = false) (herr : Proofs.World.handledErr c e = false) :
    (runPlan plan (matchesExec env ml st) w 0 []).1.2 = true :=
  Proofs.exec_failure_reported' env ml st w plan c e hmem hsite herr

/-- The same in the terms of the plan: the failure injected at call number `i` of
`matches_exec` is reported. -/
theorem C01_fault_reported_at (env : PEnv) (ml : MatchList) (st : ExecSt) (w : World) (plan : Plan)
    (i : Nat) (c : Call) (r : Res) (e : String)
    (hget : ((runPlan plan (matchesExec env ml st) w 0 []).2.1.trace.drop w.trace.length)[i]? = some (c, r))
    (hp : plan i = some (.fail e))
    (hsite : Proofs.World.ignoredSite c = false) (herr : Proofs.World.handledErr c e = false) :
    (runPlan plan (matchesExec env ml st) w 0 []).1.2 = true :=
  Proofs.exec_fault_reported' env ml st w plan i c r e hget hp hsite herr

/-- Exit 0 means final place, under at most one fault: if `matches_exec` returns no error the
message is bound in the directory of the last move/flag/flags action (`finalDir`; the source
directory if there is none) to a file that holds the rewritten message if the list contains a
label or add-header (and in any case the original or the rewritten bytes), and the original
entry is free unless it is the final one. -/
theorem C01_exit0_final (env : PEnv) (ml : MatchList) (st : ExecSt) (w : World) (orig : Bytes) (plan : Plan)
    (hs : Proofs.StartAt w st orig) (hd : Proofs.NoDiscard ml) (hp : Proofs.World.SingleFault plan)
    (he : (runPlan plan (matchesExec env ml st) w 0 []).1.2 = false) :
    let r := runPlan plan (matchesExec env ml st) w 0 []
    ∃ n fid, r.1.1.ms.loc = some (Proofs.World.finalDir ml st.src.path, n) ∧
      r.2.1.lookup (Proofs.World.finalDir ml st.src.path) n = some fid ∧
      r.2.1.file fid = some ⟨r.1.1.ms.content, r.1.1.ms.content⟩ ∧
      (Proofs.World.rewrites ml = true → r.1.1.ms.content = (messageWrite st.ms.msg).1) ∧
      (r.1.1.ms.content = orig ∨ r.1.1.ms.content = (messageWrite st.ms.msg).1) ∧
      ((Proofs.World.finalDir ml st.src.path, n) ≠ (st.src.path, st.ms.name) →
        r.2.1.lookup st.src.path st.ms.name = none) :=
  Proofs.exec_exit0_final env ml st w orig plan hs hd hp he

/-- With discard (a list that ends in a discard; the grammar makes discard exclusive), under at
most one fault: without error the message's entry is gone and nothing else has changed; with an
error the message is intact exactly once, as above. -/
theorem C01_single_fault_discard (env : PEnv) (pre : MatchList) (md : Match) (st : ExecSt) (w : World) (orig : Bytes)
    (plan : Plan) (hs : Proofs.StartAt w st orig) (hd : Proofs.NoDiscard pre) (hty : md.ty = .discard)
    (hp : Proofs.World.SingleFault plan) :
    let r := runPlan plan (matchesExec env (pre ++ [md]) st) w 0 []
    (r.1.2 = false → r.1.1.ms.loc = none ∧ r.2.1.lookup st.src.path st.ms.name = none ∧
      (∀ q m, (q, m) ≠ (st.src.path, st.ms.name) → r.2.1.lookup q m = w.lookup q m) ∧
      ∀ g, g < w.nextFid → r.2.1.file g = w.file g) ∧
    (r.1.2 = true → ∃ p n fid, r.1.1.ms.loc = some (p, n) ∧ r.2.1.lookup p n = some fid ∧
      r.2.1.file fid = some ⟨r.1.1.ms.content, r.1.1.ms.content⟩ ∧ r.1.1.ms.content ∈ Proofs.stages st.ms orig ∧
      ((p, n) = (st.src.path, st.ms.name) ∨ (w.lookup p n = none ∧ r.2.1.lookup st.src.path st.ms.name = none)) ∧
      ∀ q m, (q, m) ≠ (p, n) → (q, m) ≠ (st.src.path, st.ms.name) → r.2.1.lookup q m = w.lookup q m) :=
  Proofs.exec_single_fault_discard env pre md st w orig plan hs hd hty hp

/-! Non-vacuity: maildir `/m`, message `new/1.h` = `A: b\n\nx` open at handle 4, source directory
at handle 3; the list moves it to `/m/cur` and labels it; the plan fails call 7 with `EIO`. -/
example : Proofs.StartAt Proofs.exWorld Proofs.exSt Proofs.exOrig ∧ Proofs.NoDiscard Proofs.exList ∧
    Proofs.World.SingleFault (Proofs.World.singlePlan 7 (.fail "EIO")) ∧ Proofs.exDiscard.ty = .discard :=
  ⟨Proofs.ex_startAt, Proofs.ex_noDiscard, Proofs.World.singleFault_single _ _, rfl⟩

/-- Non-vacuity of `C01_exit0_final`, and witness that the exclusions of `C01_fault_reported` are
necessary (the known findings F17b-d): in the example, failing the `fstatat` (call 1), the `close`
of the placeholder (call 4) or a `closedir` (call 18) with `EIO`, the exclusive create (call 2)
with `EEXIST` or the rename (call 3) with `EXDEV` leaves the error flag clear. -/
example :
    [(1, "EIO"), (4, "EIO"), (18, "EIO"), (2, "EEXIST"), (3, "EXDEV")].all (fun (ie : Nat × String) =>
      let r := runPlan (Proofs.World.singlePlan ie.1 (.fail ie.2)) (matchesExec Proofs.exEnv Proofs.exList Proofs.exSt)
        Proofs.exWorld 0 []
      (r.2.1.trace[ie.1]?.map fun x =>
          (Proofs.World.ignoredSite x.1 || Proofs.World.handledErr x.1 ie.2) && x.2 == .err ie.2) == some true
        && r.1.2 == false) = true :=
  Proofs.ex_ignored_sites

/-- `rename` failing with `EIO` is neither ignored nor handled; `close` is ignored; `EXDEV` of `rename` is handled. -/
example : Proofs.World.ignoredSite (.renameat 3 [49] 5 [50]) = false ∧ Proofs.World.handledErr (.renameat 3 [49] 5 [50]) "EIO" = false ∧
    Proofs.World.ignoredSite (.close 6) = true ∧ Proofs.World.handledErr (.renameat 3 [49] 5 [50]) "EXDEV" = true := by
  decide

end Mdsort.Props
