import Mdsort.Proofs.World

/-!
# C01 - no message is lost or duplicated when an I/O operation fails

The file-system code of mdsort is transcribed as programs over libc calls
(Model/Scripts.lean, Model/Main.lean); `runPlan` executes them on an abstract file system
under an arbitrary fault plan (any number of faults, any errno, short transfers).  The real
binary is tied to these programs call by call on every run of the check (`Model.conform`).
-/

namespace Mdsort.Props
open Mdsort Mdsort.Model

/-- Loss-freedom under EVERY fault plan (any number of faults): whatever fails while an action
list (move on one device or across devices, flag, flags, label, add-header, exec, in any order
and number) is executed, after every single call some directory entry is bound to a complete
version of the message - the bytes it had, or the completely written new version. -/
theorem C01_no_loss (env : PEnv) (ml : MatchList) (st : ExecSt) (w : World) (orig : Bytes) (plan : Plan)
    (hs : Proofs.Start w st orig) (hd : Proofs.NoDiscard ml) :
    ∀ w' ∈ (runPlan plan (matchesExec env ml st) w 0 []).2.2, Proofs.Intact w' (Proofs.stages st.ms orig) :=
  Proofs.exec_always_intact env ml st w orig plan hs hd

/-- The exit status is a function of the error and reject flags only (so a failure that sets the
error flag is always reported). -/
theorem C01_exit_reports_error (env : PEnv) (orc : EvalOracles) (ok : Bool) (conf : List ConfBlock) (files : Files) (input : Bytes)
    (w : World) (plan : Plan) :
    let r := (runPlan plan (mainP env orc ok conf files input) w 0 []).1
    r.1 = exitStatus env r.2 :=
  Proofs.exit_status_table env orc ok conf files input w plan

end Mdsort.Props
