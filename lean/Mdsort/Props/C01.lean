import Mdsort.Proofs.World
import Mdsort.Proofs.WorldSingleEx
import Mdsort.Proofs.WorldWholeEx
import Mdsort.Proofs.WorldWholeExit
import Mdsort.Proofs.WorldExitTop
import Mdsort.Proofs.WorldExitEx
import Mdsort.Proofs.WorldDryF21
import Mdsort.Proofs.WorldLinTop
import Mdsort.Proofs.WorldLinEx
import Mdsort.Proofs.WorldFuelEx

/-!
# C01 - no message is lost or duplicated when an I/O operation fails

The file-system code of mdsort is transcribed as programs over libc calls
(Model/Scripts.lean, Model/Main.lean); `runPlan` executes them on an abstract file system
under an arbitrary fault plan (any number of faults, any errno, short transfers).  The real
binary is tied to these programs call by call on every run of the check (`Model.conform`).
-/

namespace Mdsort.Props
open Mdsort Mdsort.Model

/-- Loss-freedom under EVERY fault plan (any number of faults): whatever fails while an action
list (move on one device or across devices, flag, flags, label, add-header, exec, in any order
and number) is executed, after every single call some directory entry is bound to a complete
version of the message - the bytes it had, or the completely written new version.

What is proved, exactly (audit au1): `Proofs.Intact w' cs` is `∃ d n fid f, w'.lookup d n = some fid ∧ w'.file fid = some f ∧
f.data ∈ cs` - SOME entry of SOME directory holds the bytes.  The entry is not tied to the message's own lineage: in a
world that holds another file with the same bytes (a byte-identical duplicate) the statement is satisfied by that file
whatever happens to the message.  The proof does track one entry (`World.GoodAt`: a file that existed at the start or that
this run wrote completely), but the statement exported here does not say which; the lineage-exact statements are the
single-fault ones below (`C01_single_fault_exactly_once`, `_unique`). -/
theorem C01_no_loss (env : PEnv) (ml : MatchList) (st : ExecSt) (w : World) (orig : Bytes) (plan : Plan)
    (hs : Proofs.Start w st orig) (hd : Proofs.NoDiscard ml) :
    ∀ w' ∈ (runPlan plan (matchesExec env ml st) w 0 []).2.2, Proofs.Intact w' (Proofs.stages st.ms orig) :=
  Proofs.exec_always_intact env ml st w orig plan hs hd

/-- Non-vacuity of `C01_no_loss` (the start situation and the list of the example described below: `/m/new/1.h`, move to
`/m/cur` then label). -/
example : Proofs.Start Proofs.exWorld Proofs.exSt Proofs.exOrig ∧ Proofs.NoDiscard Proofs.exList :=
  ⟨Proofs.ex_startAt.start, Proofs.ex_noDiscard⟩

/-- The exit status is a function of the error and reject flags only (so a failure that sets the
error flag is always reported).

(Audit au1: this is the last line of `mainP` - every path ends in `finish st = (exitStatus env st, st)` - read off the model.
It says nothing about WHICH failures set the flag: that is `C01_fault_reported` for one action list and
`C04_error_iff_partial` for the loops.  Same statement as the first conjunct of `C04_status_table`.) -/
theorem C01_exit_reports_error (env : PEnv) (orc : EvalOracles) (ok : Bool) (conf : List ConfBlock) (files : Files) (input : Bytes)
    (w : World) (plan : Plan) :
    let r := (runPlan plan (mainP env orc ok conf files input) w 0 []).1
    r.1 = exitStatus env r.2 :=
  Proofs.exit_status_table env orc ok conf files input w plan

/-! ## at most one fault

`Proofs.World.SingleFault plan`: at most one call index carries a fault (implied by
`Plan.count plan n ≤ 1` for all `n`, and true of `singlePlan i f`).  `Proofs.StartAt` is `Start`
plus: the source maildir's path is the join of its root and subdirectory, the ghost location and
content of the message are those of its entry, the message's descriptor is an existing handle
other than the source directory's.  Entries are compared through `World.lookup` (for the
name-unique directory lists of `Start` this determines the lists up to order). -/

/-- The restriction on plans, in the terms of `Plan.count`. -/
theorem C01_single_fault_of_count (plan : Plan) (h : ∀ n, Plan.count plan n ≤ 1) : Proofs.World.SingleFault plan :=
  Proofs.World.singleFault_of_count plan h

/-- Non-vacuity: the plan that fails call 7 with `EIO` injects at most one fault among the first `n` calls, for every `n`. -/
example : ∀ n, Plan.count (Proofs.World.singlePlan 7 (.fail "EIO")) n ≤ 1 := by
  intro n
  induction n with
  | zero => decide
  | succ n ih =>
    rw [Proofs.World.count_succ]
    by_cases h : n = 7
    · subst h; decide
    · have : (Proofs.World.singlePlan 7 (.fail "EIO") n).isSome = false := by simp [Proofs.World.singlePlan, h]
      simp [this]; exact ih

/-- Exactly once, under at most one fault (action lists without discard: move on one device or
across devices, flag, flags, label, add-header, exec, in any order and number): after the run
the message is bound at the entry its ghost location names, to a file whose visible and durable
content is a complete version; that entry is the original one, or it was free before and the
original entry is free now; every other entry of every directory is bound as before.  So there is
exactly one entry for the message - no loss, no duplicate - whether or not an error is returned. -/
theorem C01_single_fault_exactly_once (env : PEnv) (ml : MatchList) (st : ExecSt) (w : World) (orig : Bytes) (plan : Plan)
    (hs : Proofs.StartAt w st orig) (hd : Proofs.NoDiscard ml) (hp : Proofs.World.SingleFault plan) :
    let r := runPlan plan (matchesExec env ml st) w 0 []
    ∃ p n fid, r.1.1.ms.loc = some (p, n) ∧ r.2.1.lookup p n = some fid ∧
      r.2.1.file fid = some ⟨r.1.1.ms.content, r.1.1.ms.content⟩ ∧ r.1.1.ms.content ∈ Proofs.stages st.ms orig ∧
      ((p, n) = (st.src.path, st.ms.name) ∨ (w.lookup p n = none ∧ r.2.1.lookup st.src.path st.ms.name = none)) ∧
      ∀ q m, (q, m) ≠ (p, n) → (q, m) ≠ (st.src.path, st.ms.name) → r.2.1.lookup q m = w.lookup q m :=
  Proofs.exec_single_fault_exactly_once env ml st w orig plan hs hd hp

/-- Counting form: if no OTHER entry of the initial world is bound to a file that holds a version
of the message, then after the run (at most one fault) the only entry, over all directories, bound
to a file whose data is a stage of the message is the message's own entry. -/
theorem C01_single_fault_unique (env : PEnv) (ml : MatchList) (st : ExecSt) (w : World) (orig : Bytes) (plan : Plan)
    (hs : Proofs.StartAt w st orig) (hd : Proofs.NoDiscard ml) (hp : Proofs.World.SingleFault plan)
    (hu : ∀ q m fid, w.lookup q m = some fid → (q, m) ≠ (st.src.path, st.ms.name) →
      fid < w.nextFid ∧ ∀ f, w.file fid = some f → f.data ∉ Proofs.stages st.ms orig) :
    let r := runPlan plan (matchesExec env ml st) w 0 []
    ∀ q m fid f, r.2.1.lookup q m = some fid → r.2.1.file fid = some f → f.data ∈ Proofs.stages st.ms orig →
      r.1.1.ms.loc = some (q, m) :=
  Proofs.exec_single_fault_unique env ml st w orig plan hs hd hp hu

/-! Non-vacuity of the hypothesis `hu` on a world with a SECOND message (added by audit au1; in the one-message world
`Proofs.exWorld` used below `hu` holds for the trivial reason that there is no other entry): the two-message world
`Proofs.wholeExWorldW` (`/m/new/1.h` = `A: b\n\nx`, `/m/new/2.h` = `A: c\n\ny`, `/m/new` open at handle 3), the first
message being processed (no descriptor of its own). -/

/-- The start state for the first message of the two-message world. -/
def c01ex2_st : ExecSt := { Proofs.exSt with ms := { Proofs.exMs with fd := none } }

theorem c01ex2_startAt : Proofs.StartAt Proofs.wholeExWorldW c01ex2_st Proofs.exOrig :=
  ⟨⟨⟨3, rfl, by decide⟩, ⟨0, by decide, by decide⟩, Proofs.wholeEx_clean.noWriters, Proofs.wholeEx_clean.noStreams,
     Proofs.wholeEx_clean.freshIds, Proofs.wholeEx_clean.uniqueNames⟩, by decide, rfl, rfl, fun _ h => by cases h⟩

/-- `hu` there: the only other entry, `/m/new/2.h`, is bound to file 1 < 2, whose bytes are no version of the first message. -/
theorem c01ex2_unique_hyp : ∀ q m fid, Proofs.wholeExWorldW.lookup q m = some fid →
      (q, m) ≠ (c01ex2_st.src.path, c01ex2_st.ms.name) →
      fid < Proofs.wholeExWorldW.nextFid ∧
      ∀ f, Proofs.wholeExWorldW.file fid = some f → f.data ∉ Proofs.stages c01ex2_st.ms Proofs.exOrig := by
  intro q m fid hl hne
  have hmem : (q, m, fid) ∈ [(Proofs.exNew, Proofs.exName, 0), (Proofs.exNew, Proofs.wholeExName2, 1)] := by
    unfold World.lookup World.dir at hl
    simp only [Option.bind_eq_some_iff, Option.map_eq_some_iff] at hl
    obtain ⟨es, ⟨d, hd, rfl⟩, e, he, rfl⟩ := hl
    have hd1 := List.find?_some hd
    have hdm := List.mem_of_find?_eq_some hd
    have he1 := List.find?_some he
    have hem := List.mem_of_find?_eq_some he
    simp only [beq_iff_eq] at hd1 he1
    subst hd1 he1
    simp only [Proofs.wholeExWorldW, Proofs.wholeExWorld, List.mem_cons, List.not_mem_nil, or_false] at hdm
    rcases hdm with rfl | rfl
    · simp only [List.mem_cons, List.not_mem_nil, or_false] at hem
      rcases hem with rfl | rfl <;> simp
    · cases hem
  simp only [List.mem_cons, List.not_mem_nil, or_false, Prod.mk.injEq] at hmem
  rcases hmem with ⟨rfl, rfl, rfl⟩ | ⟨rfl, rfl, rfl⟩
  · exact absurd rfl hne
  · refine ⟨by decide, ?_⟩
    intro f hf
    have : f = ⟨Proofs.wholeExOrig2, Proofs.wholeExOrig2⟩ := by
      have h' : Proofs.wholeExWorldW.file 1 = some ⟨Proofs.wholeExOrig2, Proofs.wholeExOrig2⟩ := by decide
      rw [h'] at hf; cases hf; rfl
    subst this
    decide +kernel

/-- All hypotheses of `C01_single_fault_unique` at once (the list of the example, `rename` failing with `EIO`). -/
example := C01_single_fault_unique Proofs.exEnv Proofs.exList c01ex2_st Proofs.wholeExWorldW Proofs.exOrig
  (Proofs.World.singlePlan 3 (.fail "EIO")) c01ex2_startAt Proofs.ex_noDiscard (Proofs.World.singleFault_single _ _)
  c01ex2_unique_hyp

/-- No stray file, under at most one fault: every entry that exists after the run - in
particular every name the run created - is the message's entry (complete, by the previous
theorem) or an entry that existed before, bound to the same file with unchanged content.  No
empty placeholder and no partial copy remains in any directory. -/
theorem C01_single_fault_no_stray (env : PEnv) (ml : MatchList) (st : ExecSt) (w : World) (orig : Bytes) (plan : Plan)
    (hs : Proofs.StartAt w st orig) (hd : Proofs.NoDiscard ml) (hp : Proofs.World.SingleFault plan) :
    let r := runPlan plan (matchesExec env ml st) w 0 []
    ∀ q m fid, r.2.1.lookup q m = some fid →
      r.1.1.ms.loc = some (q, m) ∨
      (w.lookup q m = some fid ∧ (fid < w.nextFid → r.2.1.file fid = w.file fid)) :=
  Proofs.exec_single_fault_no_stray env ml st w orig plan hs hd hp

/-- A failure is reported - for EVERY fault plan, any number of faults: if any call of the
execution of an action list fails (injected or genuine) and the call is not an ignored site
(`ignoredSite`: every `close`, every `closedir`, the `fstatat` of `maildir_move` - the known
findings) and the errno is not one mdsort recovers from (`handledErr`: `EEXIST` of the exclusive
create is retried under the next name, `EXDEV` of the rename falls back to copying), then
`matches_exec` returns an error. -/
theorem C01_fault_reported (env : PEnv) (ml : MatchList) (st : ExecSt) (w : World) (plan : Plan) (c : Call) (e : String)
    (hmem : (c, Res.err e) ∈ (runPlan plan (matchesExec env ml st) w 0 []).2.1.trace.drop w.trace.length)
    (hsite : Proofs.World.ignoredSite c = false) (herr : Proofs.World.handledErr c e = false) :
    (runPlan plan (matchesExec env ml st) w 0 []).1.2 = true :=
  Proofs.exec_failure_reported' env ml st w plan c e hmem hsite herr

/-- The same in the terms of the plan: the failure injected at call number `i` of
`matches_exec` is reported. -/
theorem C01_fault_reported_at (env : PEnv) (ml : MatchList) (st : ExecSt) (w : World) (plan : Plan)
    (i : Nat) (c : Call) (r : Res) (e : String)
    (hget : ((runPlan plan (matchesExec env ml st) w 0 []).2.1.trace.drop w.trace.length)[i]? = some (c, r))
    (hp : plan i = some (.fail e))
    (hsite : Proofs.World.ignoredSite c = false) (herr : Proofs.World.handledErr c e = false) :
    (runPlan plan (matchesExec env ml st) w 0 []).1.2 = true :=
  Proofs.exec_fault_reported' env ml st w plan i c r e hget hp hsite herr

/-- Exit 0 means final place, under at most one fault: if `matches_exec` returns no error the
message is bound in the directory of the last move/flag/flags action (`finalDir`; the source
directory if there is none) to a file that holds the rewritten message if the list contains a
label or add-header (and in any case the original or the rewritten bytes), and the original
entry is free unless it is the final one. -/
theorem C01_exit0_final (env : PEnv) (ml : MatchList) (st : ExecSt) (w : World) (orig : Bytes) (plan : Plan)
    (hs : Proofs.StartAt w st orig) (hd : Proofs.NoDiscard ml) (hp : Proofs.World.SingleFault plan)
    (he : (runPlan plan (matchesExec env ml st) w 0 []).1.2 = false) :
    let r := runPlan plan (matchesExec env ml st) w 0 []
    ∃ n fid, r.1.1.ms.loc = some (Proofs.World.finalDir ml st.src.path, n) ∧
      r.2.1.lookup (Proofs.World.finalDir ml st.src.path) n = some fid ∧
      r.2.1.file fid = some ⟨r.1.1.ms.content, r.1.1.ms.content⟩ ∧
      (Proofs.World.rewrites ml = true → r.1.1.ms.content = (messageWrite st.ms.msg).1) ∧
      (r.1.1.ms.content = orig ∨ r.1.1.ms.content = (messageWrite st.ms.msg).1) ∧
      ((Proofs.World.finalDir ml st.src.path, n) ≠ (st.src.path, st.ms.name) →
        r.2.1.lookup st.src.path st.ms.name = none) :=
  Proofs.exec_exit0_final env ml st w orig plan hs hd hp he

/-- With discard (a list that ends in a discard; the grammar makes discard exclusive), under at
most one fault: without error the message's entry is gone and nothing else has changed; with an
error the message is intact exactly once, as above. -/
theorem C01_single_fault_discard (env : PEnv) (pre : MatchList) (md : Match) (st : ExecSt) (w : World) (orig : Bytes)
    (plan : Plan) (hs : Proofs.StartAt w st orig) (hd : Proofs.NoDiscard pre) (hty : md.ty = .discard)
    (hp : Proofs.World.SingleFault plan) :
    let r := runPlan plan (matchesExec env (pre ++ [md]) st) w 0 []
    (r.1.2 = false → r.1.1.ms.loc = none ∧ r.2.1.lookup st.src.path st.ms.name = none ∧
      (∀ q m, (q, m) ≠ (st.src.path, st.ms.name) → r.2.1.lookup q m = w.lookup q m) ∧
      ∀ g, g < w.nextFid → r.2.1.file g = w.file g) ∧
    (r.1.2 = true → ∃ p n fid, r.1.1.ms.loc = some (p, n) ∧ r.2.1.lookup p n = some fid ∧
      r.2.1.file fid = some ⟨r.1.1.ms.content, r.1.1.ms.content⟩ ∧ r.1.1.ms.content ∈ Proofs.stages st.ms orig ∧
      ((p, n) = (st.src.path, st.ms.name) ∨ (w.lookup p n = none ∧ r.2.1.lookup st.src.path st.ms.name = none)) ∧
      ∀ q m, (q, m) ≠ (p, n) → (q, m) ≠ (st.src.path, st.ms.name) → r.2.1.lookup q m = w.lookup q m) :=
  Proofs.exec_single_fault_discard env pre md st w orig plan hs hd hty hp

/-! Non-vacuity: maildir `/m`, message `new/1.h` = `A: b\n\nx` open at handle 4, source directory
at handle 3; the list moves it to `/m/cur` and labels it; the plan fails call 7 with `EIO`. -/
example : Proofs.StartAt Proofs.exWorld Proofs.exSt Proofs.exOrig ∧ Proofs.NoDiscard Proofs.exList ∧
    Proofs.World.SingleFault (Proofs.World.singlePlan 7 (.fail "EIO")) ∧ Proofs.exDiscard.ty = .discard :=
  ⟨Proofs.ex_startAt, Proofs.ex_noDiscard, Proofs.World.singleFault_single _ _, rfl⟩

/-- Non-vacuity of `C01_exit0_final`, and witness that the exclusions of `C01_fault_reported` are
necessary (the known findings F17b-d): in the example, failing the `fstatat` (call 1), the `close`
of the placeholder (call 4) or a `closedir` (call 18) with `EIO`, the exclusive create (call 2)
with `EEXIST` or the rename (call 3) with `EXDEV` leaves the error flag clear. -/
example :
    [(1, "EIO"), (4, "EIO"), (18, "EIO"), (2, "EEXIST"), (3, "EXDEV")].all (fun (ie : Nat × String) =>
      let r := runPlan (Proofs.World.singlePlan ie.1 (.fail ie.2)) (matchesExec Proofs.exEnv Proofs.exList Proofs.exSt)
        Proofs.exWorld 0 []
      (r.2.1.trace[ie.1]?.map fun x =>
          (Proofs.World.ignoredSite x.1 || Proofs.World.handledErr x.1 ie.2) && x.2 == .err ie.2) == some true
        && r.1.2 == false) = true :=
  Proofs.ex_ignored_sites

/-- Non-vacuity of `C01_fault_reported` / `_at` (added by audit au1; the example above only shows the EXCLUDED sites): in the
same run, call 3 is the `renameat` of `maildir_move`; failing it with `EIO` puts a failed call that is neither an ignored site
nor a handled errno into the trace, and `matches_exec` returns the error. -/
example :
    let r := runPlan (Proofs.World.singlePlan 3 (.fail "EIO")) (matchesExec Proofs.exEnv Proofs.exList Proofs.exSt)
      Proofs.exWorld 0 []
    (r.2.1.trace.drop Proofs.exWorld.trace.length)[3]?.map (fun x =>
        (!Proofs.World.ignoredSite x.1 && !Proofs.World.handledErr x.1 "EIO") && x.2 == .err "EIO") = some true ∧
      Proofs.World.singlePlan 3 (.fail "EIO") 3 = some (.fail "EIO") ∧ r.1.2 = true := by
  decide +kernel

/-- `rename` failing with `EIO` is neither ignored nor handled; `close` is ignored; `EXDEV` of `rename` is handled. -/
example : Proofs.World.ignoredSite (.renameat 3 [49] 5 [50]) = false ∧ Proofs.World.handledErr (.renameat 3 [49] 5 [50]) "EIO" = false ∧
    Proofs.World.ignoredSite (.close 6) = true ∧ Proofs.World.handledErr (.renameat 3 [49] 5 [50]) "EXDEV" = true := by
  decide

/-! ## the whole run: `processMessage`, `walk`, `mainP` under EVERY fault plan

The theorems above are about ONE action list started in a `Start` world.  The following lift them
through the main loop (Proofs/WorldWhole*.lean).

* `Proofs.WholeReg w files`: the registry `files` of the main loop (directory, name -> content; the
  parameter of `mainP`) is consistent with the world: every registered message is bound under its
  name to a file (id below `nextFid`) whose visible and durable content is the registered content
  (decidable form: `Proofs.wholeRegOk`, `C01_registry_check`).
* `Proofs.WholeNoDiscard env orc expr`: the rules never produce a discard action
  (`C01_noDiscard_of_syntax`: true of every rule tree that contains no `discard`).  Discard is
  excluded over the whole configuration; lists that end in a discard are treated, per message and for
  at most one fault, by `C01_single_fault_discard`.
* `Proofs.wholeRewrite env orc expr dir name c as`: what `message_write` renders for the file `name` of
  `dir` with content `c` once the actions of `expr` (label, add-header) have been interpolated - `c`
  itself when the rules do not act - when the operating system answers the questions of evaluation (`command`,
  `isdirectory`, file-time `date` conditions: they are evaluated inside the run, `Model.evalP`) with `as`; for a rule
  tree without such conditions `as` is irrelevant (`Proofs.wholeRewrite_asksFree`).
  `Proofs.WholeVersion env orc exprs c c'`: `c'` is `c` after zero or
  more such complete rewrites by rules of `exprs`, each for some answers (a message that is moved into a maildir walked
  later is processed again).
* Scope of "any configuration": audit au1 noted that `processMessage` evaluated the rules with the constant oracles
  `command := fun _ => -1`, `isDir := fun _ => false`, `fileTime := fun _ => none`.  Since package p4 these three fields are not
  consulted: a `command` / `isdirectory` / file-date condition issues its calls inside the run (`Model.evalP`) and the theorems
  quantify over their results (the fault plan / the answers `as`); `orc : EvalOracles` quantifies over the regex engine,
  `strptime`, zone names and `time_format`.
* "Every registered message has an entry ..." is a statement by CONTENT (`∃ d n fid f, ... WholeVersion .. c f.data`), not by
  identity: two registered messages with the same bytes can be witnessed by one and the same entry.  The counting statements
  are the single-fault ones above.
* Fuel (package p12): `mainP` walks a maildir with fuel `2n+8+env.extraFuel` (`n` = registered files of its `new` and `cur`).  A
  walk that runs out of fuel is FLAGGED (`MainSt.fuelOut`), never silent.  For the loss-freedom statements a shorter walk is
  harmless (`C01_walk_no_loss` holds for every fuel).  `C01_walk_fuel_suffices`: a run that ends without the error flag (at
  most one fault, `exit0_Good`) never ran out of fuel; `C01_walk_fuel_suffices_conform`: along an observed trace an allowance
  of the length of the trace suffices; `C01_fuel_can_run_out`: with an incomplete registry (or enough faults to leave stray
  placeholders) the standard allowance does run out - and the flag says so.
* The model-internal registry stays consistent with the world under EVERY fault plan (it is updated
  from the ghost location, which the proof shows to be exact); entries the world has and the registry
  has not (a stray copy after a failed roll-back) only set `error` (`processMessage_unknown`). -/

/-- **start_of_parse.**  From a world whose handles cannot be written through (`Proofs.WholeClean`)
and in which `(md.path, name)` is bound to a file that holds `content` visibly and durably: whatever
fails while `message_parse` runs, if it returns a message then the world after it, together with
the state `processMessage` hands to `matches_exec` (for any interpolated message and flag set),
satisfies `StartAt` and `Start` with `orig = content`. -/
theorem C01_start_of_parse (md : Maildir) (d : Handle) (name content : Bytes) (w : World) (fid : Nat) (plan : Plan)
    (hd : md.dirH = some d) (hp : w.dirPath d = some md.path)
    (hwf : pathjoin PATH_MAX md.root (subdirName md.subdir) = some md.path)
    (hl : w.lookup md.path name = some fid) (hf : w.file fid = some ⟨content, content⟩) (hc : Proofs.WholeClean w)
    (ms : MsgSt) (hr : (runPlan plan (messageParseP d md.path name content) w 0 []).1 = some ms) (m : Msg) (fl : MFlags) :
    Proofs.StartAt (runPlan plan (messageParseP d md.path name content) w 0 []).2.1
      { src := md, chsrc := false, ms := { ms with msg := m, flags := fl }, reject := false } content ∧
    Proofs.Start (runPlan plan (messageParseP d md.path name content) w 0 []).2.1
      { src := md, chsrc := false, ms := { ms with msg := m, flags := fl }, reject := false } content :=
  ⟨Proofs.whole_start_of_parse md d name content w fid plan 0 [] hd hp hwf hl hf hc ms hr m fl,
   (Proofs.whole_start_of_parse md d name content w fid plan 0 [] hd hp hwf hl hf hc ms hr m fl).start⟩

/-- **One message.**  `processMessage` under EVERY fault plan (faults may also hit the calls of evaluation: `fork`,
`waitpid`, `stat`, ...), started in a world where the
message's entry is bound to a complete file: after every call some entry is bound to a file whose
visible content is the message or its complete rewrite (for some answers `as` of the operating system to the questions
of evaluation), and every OTHER entry that existed is bound
to the same file, with the same content. -/
theorem C01_message_no_loss (env : PEnv) (orc : EvalOracles) (expr : Expr) (md : Maildir) (name : Bytes) (st : MainSt)
    (w : World) (plan : Plan) (d : Handle) (content : Bytes) (fid : Nat)
    (hd : md.dirH = some d) (hp : w.dirPath d = some md.path)
    (hwf : pathjoin PATH_MAX md.root (subdirName md.subdir) = some md.path)
    (hfc : st.files.get md.path name = some content)
    (hl : w.lookup md.path name = some fid) (hlt : fid < w.nextFid) (hf : w.file fid = some ⟨content, content⟩)
    (hnd : Proofs.WholeNoDiscard env orc expr) :
    ∀ w' ∈ (runPlan plan (processMessage env orc expr md name st) w 0 []).2.2,
      (∃ as, Proofs.Intact w' [content, Proofs.wholeRewrite env orc expr md.path name content as]) ∧
      ∀ q m g, (q, m) ≠ (md.path, name) → w.lookup q m = some g →
        w'.lookup q m = some g ∧ (g < w.nextFid → w'.file g = w.file g) := fun w' hw' => by
  obtain ⟨⟨as, h1, _⟩, h2⟩ := Proofs.whole_message_no_loss env orc expr md name st w plan hd hp hwf hfc hl hlt hf hnd w' hw'
  exact ⟨⟨as, h1⟩, h2⟩

/-- **One maildir.**  `walk` under EVERY fault plan, from a world with which the registry is
consistent and in which the maildir's handle is open on its path (`Proofs.WholeMdOk`): after EVERY
call every registered message has an entry bound to a file whose visible content is a complete
version of it. -/
theorem C01_walk_no_loss (env : PEnv) (orc : EvalOracles) (expr : Expr) (fuel : Nat) (md : Maildir) (st : MainSt)
    (w : World) (plan : Plan) (hnd : Proofs.WholeNoDiscard env orc expr) (hreg : Proofs.WholeReg w st.files)
    (hmd : Proofs.WholeMdOk w md) :
    ∀ w' ∈ (runPlan plan (walk env orc expr fuel md st) w 0 []).2.2,
      ∀ dir name c, st.files.get dir name = some c →
        ∃ d n fid f, w'.lookup d n = some fid ∧ w'.file fid = some f ∧ Proofs.WholeVersion env orc [expr] c f.data := by
  intro w' hw' dir name c hc
  obtain ⟨d, n, fid, f, h1, _, h3, h4, _⟩ := Proofs.whole_walk_no_loss env orc expr fuel md st w plan hnd hreg hmd w' hw' dir name c hc
  exact ⟨d, n, fid, f, h1, h3, h4⟩

/-- **A whole run** in maildir mode (`-` not given), any configuration without discard, any
population: under EVERY fault plan, after EVERY call, every message of the registry (= every message
that was in a configured maildir initially, when the registry lists them) has an entry bound to a
file whose visible content is a complete version of it. -/
theorem C01_main_no_loss (env : PEnv) (orc : EvalOracles) (confOk : Bool) (conf : List ConfBlock) (files : Files) (input : Bytes)
    (w : World) (plan : Plan) (hm : env.stdinMode = false) (hnd : ∀ b ∈ conf, Proofs.WholeNoDiscard env orc b.expr)
    (hreg : Proofs.WholeReg w files) :
    ∀ w' ∈ (runPlan plan (mainP env orc confOk conf files input) w 0 []).2.2,
      ∀ dir name c, files.get dir name = some c →
        ∃ d n fid f, w'.lookup d n = some fid ∧ w'.file fid = some f ∧
          Proofs.WholeVersion env orc (conf.map (·.expr)) c f.data := by
  intro w' hw' dir name c hc
  obtain ⟨d, n, fid, f, h1, _, h3, h4, _⟩ :=
    Proofs.whole_main_no_loss env orc confOk conf files input w plan hm hnd hreg w' hw' dir name c hc
  exact ⟨d, n, fid, f, h1, h3, h4⟩

/-- The restriction on the rules, decidably: a rule tree that contains no `discard` never discards. -/
theorem C01_noDiscard_of_syntax (env : PEnv) (orc : EvalOracles) (expr : Expr) (h : Proofs.wholeHasDiscard expr = false) :
    Proofs.WholeNoDiscard env orc expr :=
  Proofs.whole_noDiscard_of_syntax env orc expr h

/-- The consistency of the registry with the world, decidably. -/
theorem C01_registry_check (w : World) (files : Files) (h : Proofs.wholeRegOk w files = true) : Proofs.WholeReg w files :=
  Proofs.whole_reg_of_ok h

/-- Non-vacuity of `C01_registry_check`: the two-message world and its registry. -/
example : Proofs.wholeRegOk Proofs.wholeExWorld Proofs.wholeExFiles = true := by decide

/-! Non-vacuity on a two-message world (Proofs/WorldWholeEx.lean): `/m/new/1.h` = `A: b\n\nx`,
`/m/new/2.h` = `A: c\n\ny`, configuration `maildir "/m" { match all flag "cur" label "x" }`. -/

/-- `C01_main_no_loss`: maildir mode, no discard, the registry is consistent with the world. -/
example : Proofs.exEnv.stdinMode = false ∧
    (∀ b ∈ Proofs.wholeExConf, Proofs.WholeNoDiscard Proofs.exEnv Proofs.wholeExOrc b.expr) ∧
    Proofs.WholeReg Proofs.wholeExWorld Proofs.wholeExFiles ∧ Proofs.wholeExFiles.length = 2 :=
  ⟨rfl, Proofs.wholeEx_nd, Proofs.wholeEx_reg, rfl⟩

/-- `C01_walk_no_loss`: `/m/new` open at handle 3. -/
example : Proofs.WholeNoDiscard Proofs.exEnv Proofs.wholeExOrc Proofs.wholeExExpr ∧
    Proofs.WholeReg Proofs.wholeExWorldW Proofs.wholeExSt.files ∧ Proofs.WholeMdOk Proofs.wholeExWorldW Proofs.exMd :=
  ⟨Proofs.whole_noDiscard_of_syntax _ _ _ (by decide), Proofs.wholeEx_regW, Proofs.wholeEx_mdOk⟩

/-- `C01_message_no_loss` and `C01_start_of_parse`: the first message, bound to file 0. -/
example : Proofs.exMd.dirH = some 3 ∧ Proofs.wholeExWorldW.dirPath 3 = some Proofs.exMd.path ∧
    pathjoin PATH_MAX Proofs.exMd.root (subdirName Proofs.exMd.subdir) = some Proofs.exMd.path ∧
    Proofs.wholeExSt.files.get Proofs.exMd.path Proofs.exName = some Proofs.exOrig ∧
    Proofs.wholeExWorldW.lookup Proofs.exMd.path Proofs.exName = some 0 ∧ 0 < Proofs.wholeExWorldW.nextFid ∧
    Proofs.wholeExWorldW.file 0 = some ⟨Proofs.exOrig, Proofs.exOrig⟩ ∧ Proofs.WholeClean Proofs.wholeExWorldW :=
  ⟨rfl, by decide, by decide, by decide, by decide, by decide, by decide, Proofs.wholeEx_clean⟩

/-- The parse of the first message succeeds when nothing fails (the hypothesis `hr` of `C01_start_of_parse`). -/
example : ((runPlan Plan.none (messageParseP 3 Proofs.exMd.path Proofs.exName Proofs.exOrig) Proofs.wholeExWorldW 0 []).1).isSome = true := by
  decide +kernel

/-- **No error bit means final place** (at most one fault), one message through `processMessage`
(parse, execution, `message_free`, registry update): if the rules act on a registered, completely
stored message (list `ml` without discard, not a dry run) and the state `processMessage` returns does
not have the error flag, then (`Proofs.WholeFinalPlace`) the registry and the world have the message
in the directory of the last move/flag/flags action, under its own or a formerly free name, bound to a
file that holds the rewritten message if `ml` contains a label or add-header (in any case the
original or the rewritten bytes); the original entry is free unless it is the final one; every other
entry of every directory is bound as before.  The rules are evaluated inside the run (the one fault may hit a call of
evaluation): the statement is for the verdict `Proofs.verdictA … as` of SOME answers `as` of the operating system (those of
the run), `Proofs.WholeExit0V`: not an error verdict; an action list - final place; no match - the registry is unchanged.  For
a rule tree without `command` / `isdirectory` / file-time `date` conditions this is the pure verdict (`C01_message_exit0_pure`).

With `C04_error_iff_partial` (exit status 0 iff no cause of the error flag occurred, in particular no
message's error bit) this is `C01_main_exit0` message by message: "final place" is a notion of one
processing step - a message moved into a maildir that is walked later is processed again - so the
statement is made per step and not once for the run. -/
theorem C01_message_exit0 (env : PEnv) (orc : EvalOracles) (expr : Expr) (md : Maildir) (name : Bytes) (st : MainSt)
    (w : World) (plan : Plan) (d : Handle) (content : Bytes) (fid : Nat)
    (hd : md.dirH = some d) (hp : w.dirPath d = some md.path)
    (hwf : pathjoin PATH_MAX md.root (subdirName md.subdir) = some md.path)
    (hfc : st.files.get md.path name = some content)
    (hl : w.lookup md.path name = some fid) (hf : w.file fid = some ⟨content, content⟩) (hc : Proofs.WholeClean w)
    (hnd : Proofs.WholeNoDiscard env orc expr)
    (hdry : env.dryrun = false) (hpl : Proofs.World.SingleFault plan)
    (he : (runPlan plan (processMessage env orc expr md name st) w 0 []).1.1.error = false) :
    ∃ as, Proofs.WholeExit0V w md name content st (runPlan plan (processMessage env orc expr md name st) w 0 []).1
      (runPlan plan (processMessage env orc expr md name st) w 0 []).2.1 (Proofs.verdictA env orc expr md.path name content as) :=
  Proofs.whole_message_exit0 env orc expr md name st w plan hd hp hwf hfc hl hf hc hnd hdry hpl he

/-- The same for a rule tree that asks the operating system nothing, in terms of the pure verdict: if the rules act on the
message (list `ml`), it is at its final place. -/
theorem C01_message_exit0_pure (env : PEnv) (orc : EvalOracles) (expr : Expr) (md : Maildir) (name : Bytes) (st : MainSt)
    (w : World) (plan : Plan) (d : Handle) (content : Bytes) (fid : Nat) (ml : MatchList) (msgs : Nat → Msg) (fl : MFlags)
    (hd : md.dirH = some d) (hp : w.dirPath d = some md.path)
    (hwf : pathjoin PATH_MAX md.root (subdirName md.subdir) = some md.path)
    (hfc : st.files.get md.path name = some content)
    (hl : w.lookup md.path name = some fid) (hf : w.file fid = some ⟨content, content⟩) (hc : Proofs.WholeClean w)
    (hfree : Proofs.asksFree expr = true) (hnd : Proofs.WholeNoDiscard env orc expr)
    (hvd : Proofs.verdict env orc expr md.path name content = .act ml msgs fl)
    (hdry : env.dryrun = false) (hpl : Proofs.World.SingleFault plan)
    (he : (runPlan plan (processMessage env orc expr md name st) w 0 []).1.1.error = false) :
    Proofs.WholeFinalPlace w md name content ml (msgs 0) (runPlan plan (processMessage env orc expr md name st) w 0 []).1
      (runPlan plan (processMessage env orc expr md name st) w 0 []).2.1 := by
  obtain ⟨as, h⟩ := C01_message_exit0 env orc expr md name st w plan d content fid hd hp hwf hfc hl hf hc hnd hdry hpl he
  rw [Proofs.verdictA_asksFree env orc expr hfree, hvd] at h
  exact h

/-- Non-vacuity: the rules of the example act on its first message, without discard; not a dry run;
the plan that fails call 5 with `EIO` has at most one fault. -/
example : (∃ ml msgs fl, Proofs.verdict Proofs.exEnv Proofs.wholeExOrc Proofs.wholeExExpr Proofs.exMd.path Proofs.exName Proofs.exOrig =
      .act ml msgs fl ∧ Proofs.NoDiscard ml) ∧ Proofs.asksFree Proofs.wholeExExpr = true ∧
    Proofs.WholeNoDiscard Proofs.exEnv Proofs.wholeExOrc Proofs.wholeExExpr ∧
    Proofs.exEnv.dryrun = false ∧ Proofs.World.SingleFault (Proofs.World.singlePlan 5 (.fail "EIO")) := by
  refine ⟨?_, by decide, Proofs.whole_noDiscard_of_syntax _ _ _ (by decide), rfl, Proofs.World.singleFault_single _ _⟩
  have hacts : (Proofs.verdict Proofs.exEnv Proofs.wholeExOrc Proofs.wholeExExpr Proofs.exMd.path Proofs.exName Proofs.exOrig).acts = true := by
    unfold Proofs.verdict Proofs.msVerdict Proofs.wholeExExpr
    simp only [eval]
    decide +kernel
  cases h : Proofs.verdict Proofs.exEnv Proofs.wholeExOrc Proofs.wholeExExpr Proofs.exMd.path Proofs.exName Proofs.exOrig with
  | act ml msgs fl =>
    exact ⟨ml, msgs, fl, rfl, Proofs.whole_noDiscard_of_syntax _ _ Proofs.wholeExExpr (by decide) _ _ _ [] _ _ _
      (by rw [Proofs.verdictA_asksFree _ _ _ (by decide)]; exact h)⟩
  | unparsable => rw [h] at hacts; cases hacts
  | «nomatch» => rw [h] at hacts; cases hacts
  | error => rw [h] at hacts; cases hacts
  | interpFail => rw [h] at hacts; cases hacts

/-- The remaining hypothesis `he` of `C01_message_exit0` (added by audit au1; evaluated for the rule `match all flag "cur"`,
whose verdict on the first message is an action list as well): without a fault, and with the `fstatat` of `maildir_move`
(call 4, an ignored site: F17d) failing, `processMessage` returns without the error flag; with the `renameat` failing it
returns WITH it - so `he` separates runs. -/
example :
    (runPlan Plan.none (processMessage Proofs.exEnv Proofs.wholeExOrc
      (.mtch 1 (.all 1) (.flag 1 [99, 117, 114])) Proofs.exMd Proofs.exName Proofs.wholeExSt) Proofs.wholeExWorldW 0 []).1.1.error = false ∧
    (runPlan (Proofs.World.singlePlan 4 (.fail "EIO")) (processMessage Proofs.exEnv Proofs.wholeExOrc
      (.mtch 1 (.all 1) (.flag 1 [99, 117, 114])) Proofs.exMd Proofs.exName Proofs.wholeExSt) Proofs.wholeExWorldW 0 []).1.1.error = false ∧
    ((runPlan (Proofs.World.singlePlan 4 (.fail "EIO")) (processMessage Proofs.exEnv Proofs.wholeExOrc
      (.mtch 1 (.all 1) (.flag 1 [99, 117, 114])) Proofs.exMd Proofs.exName Proofs.wholeExSt) Proofs.wholeExWorldW 0 []).2.1.trace[4]?.map
        fun x => x.2 == .err "EIO") = some true ∧
    (runPlan (Proofs.World.singlePlan 6 (.fail "EIO")) (processMessage Proofs.exEnv Proofs.wholeExOrc
      (.mtch 1 (.all 1) (.flag 1 [99, 117, 114])) Proofs.exMd Proofs.exName Proofs.wholeExSt) Proofs.wholeExWorldW 0 []).1.1.error = true := by
  simp only [processMessage, evalP, evalTop, evalT, eval]
  decide +kernel

/-- Why "exactly once" / "no stray" / "final place" are single-fault statements while loss-freedom is
not: with TWO faults - `match all flag "cur"` on the first message of the example, the `renameat`
(call 6) and the roll-back `unlinkat` of the placeholder (call 7) both failing with `EIO` - the run sets
the error flag, the message is intact under its original name (file 0, still in the registry), and
`/m/cur` holds one entry: the EMPTY placeholder (file 2).  The model has no content for that name - a
later walk that meets it only sets `error` - whereas the C program would parse the empty file as a
message.  (With `label`, calls 13 and 14 failing leave a complete labelled duplicate the same way.) -/
example :
    let r := runPlan (fun k => if k = 6 ∨ k = 7 then some (.fail "EIO") else none)
      (processMessage Proofs.exEnv Proofs.wholeExOrc (.mtch 1 (.all 1) (.flag 1 [99, 117, 114])) Proofs.exMd Proofs.exName
        Proofs.wholeExSt) Proofs.wholeExWorldW 0 []
    r.1.1.error = true ∧ r.2.1.lookup Proofs.exNew Proofs.exName = some 0 ∧
      r.1.1.files.get Proofs.exNew Proofs.exName = some Proofs.exOrig ∧
      (r.2.1.dir Proofs.exCur).map (·.map (·.2)) = some [2] ∧ r.2.1.file 2 = some ⟨[], []⟩ := by
  simp only [processMessage, evalP, evalTop, evalT, eval]
  decide +kernel

/-! ## exit status 0 of a whole run (maildir mode, at most one fault)

`C01_message_exit0` is a statement about one processing step.  For a configuration in which no message
is processed twice it becomes a statement about the run (Proofs/WorldExit*.lean):

* `Proofs.exit0_dirsOf conf`: the directories the run walks, in order, each with the rules of its block -
  for every block and every path `p` of it (other than `/dev/stdin`): `p/new`, then `p/cur`.
* `Proofs.exit0_Good C` for `C = ⟨env, orc, exit0_dirsOf conf, files, w⟩` (Boolean form:
  `Proofs.exit0_goodOk`, `C01_good_check`):
  - `nodup`: no directory is walked twice (no maildir is configured twice);
  - `uniq0`: in every directory of the initial world the names are pairwise distinct;
  - `listed`: the registry lists the configured maildirs completely - every name bound in a walked directory is
    registered and is not `.` or `..`;
  - `norev` - **the side condition on the rules**: for every walked directory `D` with rules `e` and every
    message `n` (content `c`) registered in `D`, the directory the rules send it to
    (`Proofs.exit0_dest env orc e D n c`: `finalDir` of the action list of its verdict, `D` itself if the rules
    do not act) is not among the directories walked AFTER `D`.  It may be `D` itself (label, add-header, exec,
    a flag action that keeps the subdirectory), a directory walked earlier, or a directory that is not
    configured.  This is exactly what known finding F21 violates: `match new ... flag !new` takes a message from
    `p/new` to `p/cur`, which is walked next - the message is found and processed a second time (witness:
    `C06_F21_witness`), so "the place its verdict names" is not where it ends up.
* `Proofs.exit0_Placed env orc e D n c st w'`: the verdict of the rules `e` on the file is no match and `(D, n)` is
  bound (and registered) as before to a file that holds `c` visibly and durably; or it is an action list `ml` and
  some entry of `finalDir ml D` is bound to a file that holds, visibly and durably, the rewritten message if `ml`
  contains a label/add-header, and in any case the original or the rewritten bytes.  An error verdict does not
  occur. -/

/-- **Exit status 0 means every message is at its final place**: maildir mode, real run (no `-d`, no `-n`),
rules without discard that ask the operating system nothing (`Proofs.asksFree`: `exit0_Placed` speaks about the pure
verdict), a plan with at most one fault, no message processed twice (`exit0_Good`): if `main`
returns 0 then EVERY message of the initial registry that lies in a configured maildir is placed as the rules
say, in the world and in the registry `main` ends with - composed from `C01_message_exit0` through `walk`,
the loops over paths and blocks, with the stickiness of the error flag (`C04_error_flag_inert`). -/
theorem C01_main_exit0_partial (env : PEnv) (orc : EvalOracles) (confOk : Bool) (conf : List ConfBlock) (files : Files)
    (input : Bytes) (w : World) (plan : Plan)
    (hm : env.stdinMode = false) (hsyn : env.syntaxOnly = false) (hdry : env.dryrun = false)
    (hfree : ∀ b ∈ conf, Proofs.asksFree b.expr = true)
    (hnd : ∀ b ∈ conf, Proofs.WholeNoDiscard env orc b.expr) (hreg : Proofs.WholeReg w files)
    (hgood : Proofs.exit0_Good ⟨env, orc, Proofs.exit0_dirsOf conf, files, w⟩)
    (hpl : Proofs.World.SingleFault plan)
    (h0 : (runPlan plan (mainP env orc confOk conf files input) w 0 []).1.1 = 0) :
    ∀ D e n c, (D, e) ∈ Proofs.exit0_dirsOf conf → files.get D n = some c →
      Proofs.exit0_Placed env orc e D n c (runPlan plan (mainP env orc confOk conf files input) w 0 []).1.2
        (runPlan plan (mainP env orc confOk conf files input) w 0 []).2.1 :=
  (Proofs.exit0_main_exit0 env orc confOk conf files input w plan hm hsyn hdry hfree hnd hreg hgood hpl h0).1

/-- The hypotheses on configuration, registry and world, decidably. -/
theorem C01_good_check (C : Proofs.exit0_Ctx) (h : Proofs.exit0_goodOk C = true) : Proofs.exit0_Good C :=
  Proofs.exit0_good_of_ok h


/-- Non-vacuity of `C01_good_check`: `/m/cur` of the example (empty), nothing registered. -/
example : Proofs.exit0_goodOk ⟨Proofs.exEnv, Proofs.wholeExOrc, [(Proofs.exCur, Proofs.exit0_exExpr)], [], Proofs.wholeExWorld⟩ = true := by
  decide +kernel

/-- A simple sufficient form of the side condition: every registered message of a configured maildir stays in
its directory or is sent to a directory that is not configured at all. -/
theorem C01_good_of_outside (C : Proofs.exit0_Ctx) (h1 : (C.dirs.map (·.1)).Nodup) (h2 : Proofs.exit0_uniqueOk C.w0 = true)
    (h3 : Proofs.exit0_listedOk C = true)
    (h4 : ∀ D e n c, (D, e) ∈ C.dirs → C.files0.get D n = some c →
      Proofs.exit0_dest C.env C.orc e D n c = D ∨ Proofs.exit0_dest C.env C.orc e D n c ∉ C.dirs.map (·.1)) :
    Proofs.exit0_Good C :=
  Proofs.exit0_good_of_outside h1 h2 h3 h4

/-- Non-vacuity of `C01_good_of_outside`: `Proofs.exit0_ex_good` (Proofs/WorldExitEx.lean) is proved through it - the four
hypotheses hold for `maildir "/m" { match all move "/y" }` on the two-message registry (`h4`: both verdicts evaluated,
destination `/y/new`, which is not configured). -/
example : Proofs.exit0_Good ⟨Proofs.exEnv, Proofs.wholeExOrc, Proofs.exit0_dirsOf Proofs.exit0_exConf, Proofs.wholeExFiles,
    Proofs.wholeExWorld⟩ := Proofs.exit0_ex_good

/-- Non-vacuity of `C01_main_exit0_partial`: the two-message example with `maildir "/m" { match all move "/y" }`
(both messages are sent to `/y/new`, which is not configured): maildir mode, real run, no discard, consistent
registry, `exit0_Good`; the fault-free plan has at most one fault. -/
example : Proofs.exEnv.stdinMode = false ∧ Proofs.exEnv.syntaxOnly = false ∧ Proofs.exEnv.dryrun = false ∧
    (∀ b ∈ Proofs.exit0_exConf, Proofs.asksFree b.expr = true) ∧
    (∀ b ∈ Proofs.exit0_exConf, Proofs.WholeNoDiscard Proofs.exEnv Proofs.wholeExOrc b.expr) ∧
    Proofs.WholeReg Proofs.wholeExWorld Proofs.wholeExFiles ∧
    Proofs.exit0_Good ⟨Proofs.exEnv, Proofs.wholeExOrc, Proofs.exit0_dirsOf Proofs.exit0_exConf, Proofs.wholeExFiles,
      Proofs.wholeExWorld⟩ ∧
    Proofs.World.SingleFault Plan.none :=
  ⟨rfl, rfl, rfl, by decide, Proofs.exit0_ex_nd, Proofs.wholeEx_reg, Proofs.exit0_ex_good, Proofs.World.singleFault_none⟩

/-- **Audit au1: the example above does NOT satisfy the remaining hypothesis `h0`.**  In `Proofs.wholeExWorld` the
destination `/y/new` does not exist, so the fault-free run of that configuration fails to open it and ends with exit
status 1 (evaluated) - on that world the theorem is vacuous. -/
example : (runPlan Plan.none (mainP Proofs.exEnv Proofs.wholeExOrc true Proofs.exit0_exConf Proofs.wholeExFiles [])
    Proofs.wholeExWorld 0 []).1.1 = 1 := by
  rw [(Proofs.dry_runNone_eq (mainP Proofs.exEnv Proofs.wholeExOrc true Proofs.exit0_exConf Proofs.wholeExFiles [])
    Proofs.wholeExWorld 0 []).1, Proofs.Own.mainP_eq]
  unfold Proofs.Own.mainK
  simp only [Proofs.exit0_exConf, Proofs.Own.blocks_cons, Proofs.Own.blocks_nil, Proofs.Own.paths_cons, Proofs.Own.paths_nil,
    Proofs.dry_walk_G _ _ Proofs.exit0_exExpr (by decide)]
  simp only [Proofs.exit0_exExpr, eval]
  decide +kernel

/-- Complete non-vacuity of `C01_main_exit0_partial`, exit status included: the same configuration and registry on
`Proofs.dry_f21World2` (the two-message world WITH `/y/new` and `/y/cur`): every hypothesis holds (`Proofs.dry_ex_runs.1`
is the evaluated exit status 0), so both messages are placed in `/y/new`. -/
example := C01_main_exit0_partial Proofs.exEnv Proofs.wholeExOrc true Proofs.exit0_exConf Proofs.wholeExFiles []
    Proofs.dry_f21World2 Plan.none rfl rfl rfl (by decide) Proofs.exit0_ex_nd Proofs.dry_f21_reg2 Proofs.dry_ex_good
    Proofs.World.singleFault_none Proofs.dry_ex_runs.1

/-- The full statement without the side condition on the rules (`norev`) - kept as a named proposition:
exit status 0 of a real run with at most one fault, rules without discard, implies that every registered
message of a configured maildir is placed as its verdict says.  It is FALSE (F21): in
`C06_F21_witness` the run ends with status 0 and each message has been processed twice. -/
def C01_main_exit0 : Prop :=
  ∀ (env : PEnv) (orc : EvalOracles) (confOk : Bool) (conf : List ConfBlock) (files : Files) (input : Bytes) (w : World) (plan : Plan),
    env.stdinMode = false → env.syntaxOnly = false → env.dryrun = false →
    (∀ b ∈ conf, Proofs.WholeNoDiscard env orc b.expr) → Proofs.WholeReg w files → Proofs.World.SingleFault plan →
    (runPlan plan (mainP env orc confOk conf files input) w 0 []).1.1 = 0 →
    ∀ D e n c, (D, e) ∈ Proofs.exit0_dirsOf conf → files.get D n = some c →
      Proofs.exit0_Placed env orc e D n c (runPlan plan (mainP env orc confOk conf files input) w 0 []).1.2
        (runPlan plan (mainP env orc confOk conf files input) w 0 []).2.1

/-- ... refuted on a concrete run (evaluated): `maildir "/m" { match new flag "cur"  match !new move "/y" }` on the
two-message example with `/y` present.  The verdict on `/m/new/1.h` is `flag cur` (`finalDir = /m/cur`); the
fault-free real run ends with exit status 0, but it found the message again in `/m/cur`, where the second rule
sent it on to `/y/cur`: no message is registered in `/m/cur` at the end. -/
theorem C01_main_exit0_false : ¬ C01_main_exit0 := Proofs.dry_exit0_general_false

/-! ## loss-freedom and no-duplication BY LINEAGE (package p12; audit au1, weakness W1)

The theorems `C01_no_loss`, `C01_message_no_loss`, `C01_walk_no_loss`, `C01_main_no_loss` above are statements by CONTENT:
"some entry is bound to a file with these bytes".  A byte-identical other message satisfies them whatever happens to the
message itself (`Proofs.twin_by_content_is_weaker`: a world from which message 1 has been removed still satisfies `Intact`
for its bytes, through message 2).  The theorems of this section follow the IDENTITY of the message.

`Model/Lineage.lean`: a file of the abstract file system has an identity that `rename` preserves; new files are made by
`openat(O_CREAT|O_EXCL)` and `mkostemp` only.  Reading a trace from the left, `cur` is the file the most recent successful
`openat(O_RDONLY)` opened (`message_parse`: the message being processed), and a new file descends from what `cur` descended
from at the moment of its creation; a file that existed initially is its own origin.  `origin w tr g` / `originAt w w' g` is
the initial file of `w` that `g` descends from after the trace `tr` (the part of the trace of `w'` issued since `w`).  The
definition reads the trace only - not the program.

Since the origin of a file is a function of the file, the witnesses of two messages that were bound to different files
are different files, hence different entries (`C01_lineage_witnesses_distinct`): what the audit asked of `WholeInv.track`
("injective") holds by construction.  The old theorems are corollaries (`C01_no_loss_of_exact`,
`C01_main_no_loss_of_exact`). -/

/-- **Loss-freedom by lineage, one action list, EVERY fault plan** (any number of faults, any errno, short transfers; lists
without discard: move on one device or across devices, flag, flags, label, add-header, exec, any order and number).  The
message's entry is bound to the file `fid`; the lineage starts with "every file is its own origin, `fid` is the message
that has been opened".  After EVERY call some entry is bound to a file `g` that DESCENDS FROM `fid` and whose visible and
durable contents are both complete stages of the message. -/
theorem C01_no_loss_exact (env : PEnv) (ml : MatchList) (st : ExecSt) (w : World) (orig : Bytes) (plan : Plan)
    (hs : Proofs.Start w st orig) (hd : Proofs.NoDiscard ml) (fid : Nat)
    (hfid : w.lookup st.src.path st.ms.name = some fid) :
    ∀ w' ∈ (runPlan plan (matchesExec env ml st) w 0 []).2.2,
      ∃ p n g f, w'.lookup p n = some g ∧ (lineage w { cur := some fid, org := id } (traceSince w w')).org g = fid ∧
        w'.file g = some f ∧ f.data ∈ Proofs.stages st.ms orig ∧ f.durable ∈ Proofs.stages st.ms orig :=
  Proofs.exec_no_loss_exact env ml st w orig plan hs hd { cur := some fid, org := id } fid fid hfid rfl rfl

/-- The by-content theorem is a corollary of the by-lineage one. -/
theorem C01_no_loss_of_exact (env : PEnv) (ml : MatchList) (st : ExecSt) (w : World) (orig : Bytes) (plan : Plan)
    (hs : Proofs.Start w st orig) (hd : Proofs.NoDiscard ml) :
    ∀ w' ∈ (runPlan plan (matchesExec env ml st) w 0 []).2.2, Proofs.Intact w' (Proofs.stages st.ms orig) := by
  intro w' hw'
  obtain ⟨fid, hl, _⟩ := hs.bound
  obtain ⟨p, n, g, f, h1, _, h3, h4, _⟩ := C01_no_loss_exact env ml st w orig plan hs hd fid hl w' hw'
  exact ⟨p, n, g, f, h1, h3, h4⟩

/-- Non-vacuity on a world with TWO BYTE-IDENTICAL messages (`Proofs.twinExecWorld`: `/m/new/1.h` = file 0 and
`/m/new/2.h` = file 1 hold the same bytes; message 1 is being processed, list "move to `/m/cur`, then label"). -/
example : Proofs.Start Proofs.twinExecWorld Proofs.exSt Proofs.exOrig ∧ Proofs.NoDiscard Proofs.exList ∧
    Proofs.twinExecWorld.lookup Proofs.exSt.src.path Proofs.exSt.ms.name = some 0 ∧
    Proofs.twinExecWorld.file 0 = Proofs.twinExecWorld.file 1 :=
  ⟨Proofs.twin_start, Proofs.ex_noDiscard, by decide, by decide⟩

/-- ... evaluated there, under fault plans: without a fault the labelled copy (file 3) descends from file 0 and message 2
(file 1, same bytes) is under its own lineage; with the unlink of the original failing (one fault) the roll-back works and
ONE entry descends from file 0; with the roll-back failing as well (two faults) TWO entries descend from file 0. -/
example :
    Proofs.entryOrigins Proofs.twinExecWorld ⟨some 0, id⟩
        (runPlan Plan.none (matchesExec Proofs.exEnv Proofs.exList Proofs.exSt) Proofs.twinExecWorld 0 []).2.1 =
      [(Proofs.exNew, Proofs.wholeExName2, 1, 1), (Proofs.exCur, Proofs.twinName 9, 3, 0)] ∧
    Proofs.entryOrigins Proofs.twinExecWorld ⟨some 0, id⟩
        (runPlan (Proofs.failAt [16]) (matchesExec Proofs.exEnv Proofs.exList Proofs.exSt) Proofs.twinExecWorld 0 []).2.1 =
      [(Proofs.exNew, Proofs.wholeExName2, 1, 1), (Proofs.exCur, Proofs.twinName 8, 0, 0)] ∧
    Proofs.entryOrigins Proofs.twinExecWorld ⟨some 0, id⟩
        (runPlan (Proofs.failAt [16, 17]) (matchesExec Proofs.exEnv Proofs.exList Proofs.exSt) Proofs.twinExecWorld 0 []).2.1 =
      [(Proofs.exNew, Proofs.wholeExName2, 1, 1), (Proofs.exCur, Proofs.twinName 8, 0, 0), (Proofs.exCur, Proofs.twinName 9, 3, 0)] :=
  Proofs.twin_exec_runs

/-- **No duplicate by lineage, at most one fault.**  In a world whose entries are bound to existing files (`hwf`) and in
which the message's file has no second link (`hnl`), after the run of an action list without discard under a plan with at
most one fault EXACTLY ONE entry is bound to a file that descends from the message's file: there is one (`p`, `n`, `g`),
and every entry bound to a descendant is that entry.  (With two faults the statement fails: the example above.) -/
theorem C01_no_duplicate_lineage_single_fault (env : PEnv) (ml : MatchList) (st : ExecSt) (w : World) (orig : Bytes) (plan : Plan)
    (hs : Proofs.StartAt w st orig) (hd : Proofs.NoDiscard ml) (hp : Proofs.World.SingleFault plan) (fid : Nat)
    (hfid : w.lookup st.src.path st.ms.name = some fid)
    (hwf : ∀ q m g, w.lookup q m = some g → g < w.nextFid)
    (hnl : ∀ q m, w.lookup q m = some fid → (q, m) = (st.src.path, st.ms.name)) :
    let r := runPlan plan (matchesExec env ml st) w 0 []
    ∃ p n g, r.2.1.lookup p n = some g ∧ (lineage w { cur := some fid, org := id } (traceSince w r.2.1)).org g = fid ∧
      ∀ q m g', r.2.1.lookup q m = some g' →
        (lineage w { cur := some fid, org := id } (traceSince w r.2.1)).org g' = fid → (q, m) = (p, n) :=
  Proofs.exec_no_duplicate_lineage_single_fault env ml st w orig plan hs hd hp fid hfid hwf hnl

/-- Non-vacuity on the world with two byte-identical messages: all hypotheses, the plan failing call 16 (the unlink of the
original in `maildir_write`) with `EIO`. -/
example := C01_no_duplicate_lineage_single_fault Proofs.exEnv Proofs.exList Proofs.exSt Proofs.twinExecWorld Proofs.exOrig
  (Proofs.World.singlePlan 16 (.fail "EIO")) Proofs.twin_startAt Proofs.ex_noDiscard (Proofs.World.singleFault_single _ _) 0
  (by decide) Proofs.twin_wf.1 Proofs.twin_wf.2

/-- **One maildir, by lineage**: `walk` under EVERY fault plan, every fuel, registry consistent with the world, maildir's
handle open on its path, rules without discard: after EVERY call, every registered message, bound initially to the file
`f0`, has an entry bound to a file that descends from `f0` and whose visible and durable contents are complete versions
of it. -/
theorem C01_walk_no_loss_exact (env : PEnv) (orc : EvalOracles) (expr : Expr) (fuel : Nat) (md : Maildir) (st : MainSt)
    (w : World) (plan : Plan) (hnd : Proofs.WholeNoDiscard env orc expr) (hreg : Proofs.WholeReg w st.files)
    (hmd : Proofs.WholeMdOk w md) :
    ∀ w' ∈ (runPlan plan (walk env orc expr fuel md st) w 0 []).2.2,
      ∀ dir name c f0, st.files.get dir name = some c → w.lookup dir name = some f0 →
        ∃ d n g f, w'.lookup d n = some g ∧ originAt w w' g = f0 ∧ w'.file g = some f ∧
          Proofs.WholeVersion env orc [expr] c f.data ∧ Proofs.WholeVersion env orc [expr] c f.durable := by
  intro w' hw' dir name c f0 hc hl
  obtain ⟨d, n, g, f, h1, _, h3, h4, h5, h6⟩ :=
    Proofs.lin_walk_no_loss env orc expr fuel md st w plan hnd hreg hmd w' hw' dir name c f0 hc hl
  exact ⟨d, n, g, f, h1, h3, h4, h5, h6⟩

/-- **A whole run, by lineage**: maildir mode (`-` not given), any configuration without discard, any population
consistent with the registry, EVERY fault plan, after EVERY call: every message of the registry, bound initially to the
file `f0`, has an entry bound to a file `g` that DESCENDS FROM `f0` (`originAt w w' g = f0`) and whose visible content and
content on stable storage are complete versions of it.  Two messages bound to different files never share a witness
(`C01_lineage_witnesses_distinct`).  Scope of "any configuration": as for `C01_main_no_loss` (conditions `command`,
`isdirectory`, file dates are constants of the world model). -/
theorem C01_main_no_loss_exact (env : PEnv) (orc : EvalOracles) (confOk : Bool) (conf : List ConfBlock) (files : Files) (input : Bytes)
    (w : World) (plan : Plan) (hm : env.stdinMode = false) (hnd : ∀ b ∈ conf, Proofs.WholeNoDiscard env orc b.expr)
    (hreg : Proofs.WholeReg w files) :
    ∀ w' ∈ (runPlan plan (mainP env orc confOk conf files input) w 0 []).2.2,
      ∀ dir name c f0, files.get dir name = some c → w.lookup dir name = some f0 →
        ∃ d n g f, w'.lookup d n = some g ∧ originAt w w' g = f0 ∧ w'.file g = some f ∧
          Proofs.WholeVersion env orc (conf.map (·.expr)) c f.data ∧
          Proofs.WholeVersion env orc (conf.map (·.expr)) c f.durable := by
  intro w' hw' dir name c f0 hc hl
  obtain ⟨d, n, g, f, h1, _, h3, h4, h5, h6⟩ :=
    Proofs.lin_main_no_loss env orc confOk conf files input w plan hm hnd hreg w' hw' dir name c f0 hc hl
  exact ⟨d, n, g, f, h1, h3, h4, h5, h6⟩

/-- The witnesses are distinct: in any world, entries bound to files of different origin are different entries, bound to
different files.  So `C01_main_no_loss_exact` gives every registered message (distinct initial files) an entry of its own. -/
theorem C01_lineage_witnesses_distinct (w w' : World) (d n d' n' : Bytes) (g g' f0 f0' : Nat)
    (h1 : w'.lookup d n = some g) (ho : originAt w w' g = f0) (h2 : w'.lookup d' n' = some g') (ho' : originAt w w' g' = f0')
    (hne : f0 ≠ f0') : g ≠ g' ∧ (d, n) ≠ (d', n') :=
  Proofs.WholeSafeL.injective (env := Proofs.exEnv) (orc := Proofs.wholeExOrc) (exprs := []) (c := []) (c' := [])
    (w0 := w) (l0 := Lin.init) h1 ho h2 ho' hne

/-- `C01_main_no_loss` is a corollary of `C01_main_no_loss_exact`. -/
theorem C01_main_no_loss_of_exact (env : PEnv) (orc : EvalOracles) (confOk : Bool) (conf : List ConfBlock) (files : Files) (input : Bytes)
    (w : World) (plan : Plan) (hm : env.stdinMode = false) (hnd : ∀ b ∈ conf, Proofs.WholeNoDiscard env orc b.expr)
    (hreg : Proofs.WholeReg w files) :
    ∀ w' ∈ (runPlan plan (mainP env orc confOk conf files input) w 0 []).2.2,
      ∀ dir name c, files.get dir name = some c →
        ∃ d n fid f, w'.lookup d n = some fid ∧ w'.file fid = some f ∧
          Proofs.WholeVersion env orc (conf.map (·.expr)) c f.data := by
  intro w' hw' dir name c hc
  obtain ⟨f0, hl, _, _⟩ := hreg dir name c hc
  obtain ⟨d, n, g, f, h1, _, h3, h4, _⟩ := C01_main_no_loss_exact env orc confOk conf files input w plan hm hnd hreg w' hw' dir name c f0 hc hl
  exact ⟨d, n, g, f, h1, h3, h4⟩

/-- Non-vacuity of `C01_main_no_loss_exact` / `C01_walk_no_loss_exact` on the world with two byte-identical messages
(`Proofs.twinWorld`, registry `Proofs.twinFiles`, `maildir "/m" { match all flag "cur" label "x" }`): maildir mode, no
discard, the registry is consistent; the two registered messages have the SAME content and are bound to DIFFERENT files
(0 and 1), so the by-content theorem can be satisfied by one entry for both while this one demands two. -/
example : Proofs.exEnv.stdinMode = false ∧
    (∀ b ∈ Proofs.wholeExConf, Proofs.WholeNoDiscard Proofs.exEnv Proofs.wholeExOrc b.expr) ∧
    Proofs.WholeReg Proofs.twinWorld Proofs.twinFiles ∧
    Proofs.twinFiles.get Proofs.exNew Proofs.exName = Proofs.twinFiles.get Proofs.exNew Proofs.wholeExName2 ∧
    Proofs.twinWorld.lookup Proofs.exNew Proofs.exName = some 0 ∧
    Proofs.twinWorld.lookup Proofs.exNew Proofs.wholeExName2 = some 1 :=
  ⟨rfl, Proofs.wholeEx_nd, Proofs.twin_reg, by decide, by decide, by decide⟩

/-! ## the fuel of the walk (package p12; audit au1, W4)

See the section "the fuel of the model's `readdir` loops" of `Props/C04.lean` for the general statements
(`C04_fuel_irrelevant*`, `C04_fuel_suffices_conform`). -/

/-- **The standard fuel suffices for a run that ends without the error flag**: maildir mode, real run, rules without
discard and without conditions that ask the operating system (`asksFree`), registry consistent, at most one fault,
`exit0_Good` (no directory walked twice, distinct names, EVERY name of a walked directory registered, no message sent to a
directory still to be walked - the hypotheses of `C01_main_exit0_partial`): if the run ends with the error flag clear, then `fuelOut = false` - no walk stopped for lack of
fuel, for every value of `env.extraFuel` (in particular 0: the allowance `2n+8`).  Bound used by the proof: the walk of `new`
makes `a+3` iterations (`a` names, `.`, `..`, end), the walk of `cur` at most `a+b+3` (`b` names it had, plus those that
arrived from `new`), and `2a+b+6 ≤ 2n+8` for `n = a+b` registered files. -/
theorem C01_walk_fuel_suffices (env : PEnv) (orc : EvalOracles) (confOk : Bool) (conf : List ConfBlock) (files : Files)
    (input : Bytes) (w : World) (plan : Plan)
    (hm : env.stdinMode = false) (hsyn : env.syntaxOnly = false) (hdry : env.dryrun = false)
    (hfree : ∀ b ∈ conf, Proofs.asksFree b.expr = true)
    (hnd : ∀ b ∈ conf, Proofs.WholeNoDiscard env orc b.expr) (hreg : Proofs.WholeReg w files)
    (hgood : Proofs.exit0_Good ⟨env, orc, Proofs.exit0_dirsOf conf, files, w⟩)
    (hpl : Proofs.World.SingleFault plan)
    (he : (runPlan plan (mainP env orc confOk conf files input) w 0 []).1.2.error = false) :
    (runPlan plan (mainP env orc confOk conf files input) w 0 []).1.2.fuelOut = false :=
  Proofs.exit0_main_fuel ⟨env, orc, Proofs.exit0_dirsOf conf, files, w⟩ hgood hm hsyn confOk conf input rfl
    (fun b hb => Proofs.exit0_step_real env orc b.expr (hfree b hb) hdry (hnd b hb)) hreg plan hpl he

/-- Non-vacuity: the hypotheses of `C01_main_exit0_partial` on `Proofs.dry_f21World2` (see there), the error flag of that run
is clear because its exit status is 0. -/
example := C01_walk_fuel_suffices Proofs.exEnv Proofs.wholeExOrc true Proofs.exit0_exConf Proofs.wholeExFiles []
    Proofs.dry_f21World2 Plan.none rfl rfl rfl (by decide) Proofs.exit0_ex_nd Proofs.dry_f21_reg2 Proofs.dry_ex_good
    Proofs.World.singleFault_none
    (Proofs.exit0_status_zero Proofs.exEnv Proofs.wholeExOrc true Proofs.exit0_exConf Proofs.wholeExFiles []
      Proofs.dry_f21World2 Plan.none rfl Proofs.dry_ex_runs.1)

/-- **Along an observed trace** (`Model.conform`: the next call of the program must be the next call of the trace, the
observed result must be possible in the abstract file system): with `env.extraFuel ≥ |tr|` a `done` answer never has
`fuelOut`.  This is the allowance the driver uses for the conformance check. -/
theorem C01_walk_fuel_suffices_conform (env : PEnv) (orc : EvalOracles) (confOk : Bool) (conf : List ConfBlock) (files : Files)
    (input : Bytes) (w : World) (tr : List (Call × Res)) (hlen : tr.length ≤ env.extraFuel)
    (a : Nat × MainSt) (w' : World) (rest : List (Call × Res))
    (hd : conform (mainP env orc confOk conf files input) w tr 0 = .done a w' rest) : a.2.fuelOut = false :=
  Proofs.Fuel.fuel_suffices_conform env orc confOk conf files input w tr hlen hd

/-- **The standard fuel CAN run out** (evaluated, fault-free): `/m/new` holds seven files the registry does not list
(`WholeReg` holds: nothing is registered); the walk gets `2·0+8` iterations, `.`, `..` and six names use them up, the seventh
name is never seen, `/m/cur` is never opened - and the run ends with `fuelOut = true`.  With an allowance of 5 more
iterations the run is complete and ends with `fuelOut = false`.  So the hypotheses of `C01_walk_fuel_suffices` (`listed`:
every name of a walked directory is registered) are not decoration; with a complete registry several faults are needed to
get there (each stray placeholder of a failed roll-back costs two). -/
theorem C01_fuel_can_run_out :
    Proofs.WholeReg Proofs.fuelExWorld [] ∧
    (runPlan Plan.none (mainP Proofs.exEnv Proofs.wholeExOrc true Proofs.dry_f21Conf [] []) Proofs.fuelExWorld 0 []).1.2.fuelOut = true ∧
    (runPlan Plan.none (mainP (Proofs.Fuel.withFuel Proofs.exEnv 5) Proofs.wholeExOrc true Proofs.dry_f21Conf [] [])
      Proofs.fuelExWorld 0 []).1.2.fuelOut = false :=
  ⟨Proofs.fuelEx_reg, Proofs.fuelEx_runs.1, Proofs.fuelEx_runs.2⟩

end Mdsort.Props
