import Mdsort.Proofs.Opts
import Mdsort.Proofs.Interp
import Mdsort.Proofs.Captures
import Mdsort.Proofs.MainTextMacros

import Mdsort.Proofs.WorldFrame
/-!
# C12 - interpolation is exact and single-pass: message content is data, never template

`Model.interpolate` transcribes `interpolate`, `isbackref` (with `strtoul`), `ismacro` and
`match_backref` of match.c.  `Spec.interp` reads the template once into tokens (literal byte,
`\#`, `\#.#`, `\#\.`, `${macro}`), replaces each token, and concatenates: by construction
nothing that was substituted is scanned again.
-/

namespace Mdsort.Props
open Mdsort Mdsort.Model

/-- `match_backref` is a double list lookup in `Proofs.ruleCaps before`.  NOTE (audit au2): `ruleCaps`
(Proofs/Interp.lean) is defined by the same walk as `Model.matchBackref` (reverse, `findIdx?` of the last `match`
sentinel, `take`, `filter isInterp`), so this statement only repackages the model; it is the bridge that lets
`C12_interpolate` speak about capture lists.  That the lookup means "the N-th capture of the M-th interpolating
pattern of the SAME rule, never another rule's, an error if absent" is `C12_backref_rule_local`,
`C12_backref_ignores_other_rules` and `C12_backref_needs_sentinel` below, which are stated on an explicit
decomposition `pre ++ [sentinel] ++ entries` of the match list. -/
theorem C12_backref_lookup (before : MatchList) (br : Backref) :
    matchBackref before br = ((Proofs.ruleCaps before)[br.mi]?).bind (fun gs => gs[br.si]?) :=
  Proofs.matchBackref_eq before br

/-- For every match list, macro table and template of the documented syntax, the C loop
computes exactly the one-pass token substitution (including which templates are errors).
Hypotheses: `hdom` - the template is not of the form `\N.` followed by a non-digit (there `isbackref` hands
the rest to `strtoul`, which accepts white space and a sign: `\1. 2`, `\1.-0`; such templates are interpolated
by the code but nothing is proved about them); `hn` - captured texts and macro values hold no NUL (captures are
slices of C strings, so this always holds of what `regexec` can return on a C string; `interpolate.go`'s fuel is
the template length and is sufficient - implied by this equation, the specification has no fuel). -/
theorem C12_interpolate (before : MatchList) (macros : Option (List (Bytes × Bytes))) (t : Bytes)
    (hdom : Spec.itokens t ≠ .undefined) (hn : Proofs.NulFree before macros) :
    Spec.interp (Proofs.ruleCaps before) macros t = some (interpolate before macros t) :=
  Proofs.interpolate_eq_spec before macros t hdom hn

/-- Existing message content cannot make a label rule fail (or succeed): whether `match_interpolate` of a
`label` entry succeeds does not depend on the message.  (Only success / failure is compared here; WHAT value is
set - the existing labels joined in verbatim - is `C12_label_value` below.) -/
theorem C12_label_ignores_message (macros : Option (List (Bytes × Bytes))) (ml : MatchList) (i : Nat)
    (mh : Match) (hty : mh.ty = .label) (msgs1 msgs2 : Nat → Msg) :
    (matchInterpolate macros ml i mh msgs1).isSome = (matchInterpolate macros ml i mh msgs2).isSome :=
  Proofs.label_interpolation_ignores_message macros ml i mh hty msgs1 msgs2

/-- The existing labels as `match_interpolate` copies them (line breaks of a decoded value become a space). -/
def C12_existingLabels (m : Msg) : Bytes :=
  match getHeader m (ofString "X-Label") with
  | none => []
  | some ls => ((ls.map labelSafe).intersperse [32]).flatten

/-- (audit au2) What a `label "s"` entry sets: the existing `X-Label` values AS `message_get_header` RETURNS THEM
(all occurrences, each unfolded and RFC 2047-decoded; since /repo 71eba6c with every `\n` / `\r` of a decoded value
turned into a space, `Model.labelSafe`), joined by one space, one space, and the interpolation `v` of the configured
string - the existing text is appended to, never interpolated; the whole is cut at its first NUL.  That the value is
safe to write back is `C08_label_rewrite_preserves` (`message_set_header` itself replaces line breaks since /repo 4ac7c48: `Model.setHeader`). -/
theorem C12_label_value (macros : Option (List (Bytes × Bytes))) (ml : MatchList) (i : Nat) (mh : Match)
    (msgs : Nat → Msg) (hty : mh.ty = .label) (s v : Bytes) (hs : mh.strings = [s])
    (hv : interpolate (ml.take i) macros s = some v) :
    matchInterpolate macros ml i mh msgs =
      some (mh, some (mh.part, setHeader (msgs mh.part) (ofString "X-Label")
        (cstr ((if (C12_existingLabels (msgs mh.part)).isEmpty then C12_existingLabels (msgs mh.part)
          else C12_existingLabels (msgs mh.part) ++ [32]) ++ v)))) := by
  unfold matchInterpolate C12_existingLabels
  simp only [hty, hs, matchInterpolate.add, hv]
  split <;> simp_all

/-! ## Non-vacuity -/

/-- A rule whose header pattern captured `["user@x", "user"]`, macro `path` = `/m/new/1`: the
template `\1-${path}\0\.` denotes `user-` ++ `/m/new/1` ++ `user@x` ++ `.` (byte lists below). -/
example :
    Spec.interp
      (Proofs.ruleCaps
        [{ ty := .mtch, lno := 1, part := 0 },
         { ty := .header, lno := 1, part := 0,
           subs := [⟨[117, 115, 101, 114, 64, 120], some (0, 6)⟩, ⟨[117, 115, 101, 114], some (0, 4)⟩] }])
      (some [([112, 97, 116, 104], [47, 109, 47, 110, 101, 119, 47, 49])])
      [92, 49, 45, 36, 123, 112, 97, 116, 104, 125, 92, 48, 92, 46]
    = some (some [117, 115, 101, 114, 45, 47, 109, 47, 110, 101, 119, 47, 49,
                  117, 115, 101, 114, 64, 120, 46]) := by
  decide +kernel

/-- (audit au2) The match list of the example above, by name. -/
def C12_before : MatchList :=
  [{ ty := .mtch, lno := 1, part := 0 },
   { ty := .header, lno := 1, part := 0,
     subs := [⟨[117, 115, 101, 114, 64, 120], some (0, 6)⟩, ⟨[117, 115, 101, 114], some (0, 4)⟩] }]

/-- Both hypotheses of `C12_interpolate` on it (`NulFree`, template inside the documented syntax) ... -/
example : Proofs.NulFree C12_before (some [(ofString "path", ofString "/m/new/1")]) ∧
    Spec.itokens (ofString "\\1-${path}\\0\\.") ≠ .undefined := by
  refine ⟨⟨by decide +kernel, ?_⟩, by decide +kernel⟩
  intro ms h; cases h; decide +kernel

/-- ... and the model side of its equation. -/
example : interpolate C12_before (some [(ofString "path", ofString "/m/new/1")]) (ofString "\\1-${path}\\0\\.") =
    some (ofString "user-/m/new/1user@x.") := by decide +kernel

/-- Hypotheses and conclusions of the three `_is_error` theorems on concrete templates: `a-\2/b` (the pattern has
groups 0 and 1 only), `a-${nosuch}/b`, `${path}` where no macro table exists, and the unterminated `a-${path`. -/
example :
    Proofs.Plain (ofString "a-") ∧ Proofs.CleanStart (ofString "/b") ∧ matchBackref C12_before ⟨0, 2⟩ = none ∧
    interpolate C12_before none (ofString "a-\\2/b") = none ∧
    (∀ c ∈ ofString "nosuch", c ≠ 125) ∧
    interpolate C12_before (some [(ofString "path", [47])]) (ofString "a-${nosuch}/b") = none ∧
    interpolate C12_before none (ofString "a-${path}") = none ∧
    interpolate C12_before (some [(ofString "path", [47])]) (ofString "a-${path") = none := by
  decide +kernel

/-- The template `\1.x` is outside the documented syntax. -/
example : Spec.itokens [92, 49, 46, 120] = .undefined := by
  decide +kernel

/-! ## Captures are exact; back-references are local to a rule -/

/-- A header / body / date pattern that matched (`regexec` reported `groups` on the subject `val`)
appends exactly one entry.  Its i-th captured text is, for a set group `[so, eo)`, the bytes
`val[so], ..., val[eo-1]` in order - lower-cased iff the pattern has flag `l`, upper-cased iff it
has `u` (`Spec.capture`, `Spec.caseFold`; both flags together are rejected by the parser, the
implementation would then uppercase) - and the empty string for an unset group. -/
theorem C12_captures_exact (env : Env) (ty : MType) (lno part : Nat) (p : Pat) (key val : Bytes) (st : St)
    (groups : List (Option (Nat × Nat))) (hty : ty = .header ∨ ty = .body ∨ ty = .date)
    (hrx : env.rx p val = .ok groups) :
    ∃ e : Match, exprRegexec env ty lno part p key val st = (.match, { st with ml := st.ml ++ [e] }) ∧
      e.ty = ty ∧ e.part = part ∧
      e.subs = groups.map fun g => { str := Spec.capture p.lcase p.ucase val g, off := g } :=
  ⟨_, Proofs.exprRegexec_ok env ty lno part p key val st groups hty hrx, rfl, rfl, rfl⟩

/-- For offsets inside the subject the specified capture is the corresponding part of the subject. -/
theorem C12_capture_is_slice (l u : Bool) (a m b : Bytes) :
    Spec.capture l u (a ++ m ++ b) (some (a.length, a.length + m.length)) = m.map (Spec.caseFold l u) :=
  Proofs.capture_split l u a m b

/-- `\M.N` looks at the entries AFTER the last `match` sentinel only: it is the N-th capture of the
M-th interpolating (header / body) entry among them. -/
theorem C12_backref_rule_local (pre entries : MatchList) (sentinel : Match) (hs : sentinel.ty = .mtch)
    (hent : ∀ m ∈ entries, m.ty ≠ .mtch) (br : Backref) :
    matchBackref (pre ++ [sentinel] ++ entries) br =
      ((entries.filter (·.ty.isInterp))[br.mi]?).bind fun m => (m.subs[br.si]?).map (·.str) :=
  Proofs.matchBackref_rule_local pre entries sentinel hs hent br

/-- Captures of other rules are never used: what precedes the rule's sentinel is irrelevant. -/
theorem C12_backref_ignores_other_rules (pre pre' entries : MatchList) (sentinel sentinel' : Match)
    (hs : sentinel.ty = .mtch) (hs' : sentinel'.ty = .mtch) (hent : ∀ m ∈ entries, m.ty ≠ .mtch) (br : Backref) :
    matchBackref (pre ++ [sentinel] ++ entries) br = matchBackref (pre' ++ [sentinel'] ++ entries) br :=
  Proofs.matchBackref_pre_irrelevant pre pre' entries sentinel sentinel' hs hs' hent br

/-- With no sentinel before it an entry can refer to nothing. -/
theorem C12_backref_needs_sentinel (before : MatchList) (h : ∀ m ∈ before, m.ty ≠ .mtch) (br : Backref) :
    matchBackref before br = none :=
  Proofs.matchBackref_no_sentinel before h br

/-- End to end, for `match header ... /re/ ... move "\N"`: after the rule's sentinel the pattern
matched with `groups`; whatever other rules left before the sentinel (`pre`) and whatever follows
in this rule (`post`: further conditions, the actions), `\N` is the specified capture of group N
of that match, and an error if the pattern has no group N. -/
theorem C12_capture_end_to_end (env : Env) (ty : MType) (lno part : Nat) (p : Pat) (key val : Bytes) (f : MFlags)
    (groups : List (Option (Nat × Nat))) (pre post : MatchList) (sentinel : Match) (hs : sentinel.ty = .mtch)
    (hty : ty = .header ∨ ty = .body) (hpost : ∀ m ∈ post, m.ty ≠ .mtch)
    (hrx : env.rx p val = .ok groups) (N : Nat) :
    matchBackref ((exprRegexec env ty lno part p key val { ml := pre ++ [sentinel], flags := f }).2.ml ++ post) ⟨0, N⟩ =
      (groups[N]?).map (Spec.capture p.lcase p.ucase val) :=
  Proofs.capture_end_to_end env ty lno part p key val f groups pre post sentinel hs hty hpost hrx N

/-! ## Single pass -/

/-- `lit1 \1 lit2` with literal parts free of `\` and `$` (and `lit2` not continuing the
back-reference): the result is `lit1 ++ capture ++ lit2` for EVERY captured text - there is no
hypothesis on `cap1`, which may contain `\2`, `${path}`, `${`: it is copied, never scanned. -/
theorem C12_single_pass (before : MatchList) (macros : Option (List (Bytes × Bytes))) (lit1 lit2 cap1 : Bytes)
    (h1 : Proofs.Plain lit1) (h2 : Proofs.Plain lit2) (hc : Proofs.CleanStart lit2)
    (hm : matchBackref before ⟨0, 1⟩ = some cap1) :
    interpolate before macros (lit1 ++ [92, 49] ++ lit2) = some (lit1 ++ cstr cap1 ++ lit2) :=
  Proofs.interpolate_one_ref before macros lit1 lit2 cap1 h1 h2 hc hm

/-- A template without `\` and `$` is its own value. -/
theorem C12_literal (before : MatchList) (macros : Option (List (Bytes × Bytes))) (t : Bytes) (h : Proofs.Plain t) :
    interpolate before macros t = some t :=
  Proofs.interpolate_plain before macros t h

/-! ## An interpolation error has no effect -/

/-- Missing group: the template is an error. -/
theorem C12_missing_group_is_error (before : MatchList) (macros : Option (List (Bytes × Bytes))) (lit1 lit2 : Bytes)
    (h1 : Proofs.Plain lit1) (hc : Proofs.CleanStart lit2) (hm : matchBackref before ⟨0, 1⟩ = none) :
    interpolate before macros (lit1 ++ [92, 49] ++ lit2) = none :=
  Proofs.interpolate_missing_group before macros lit1 lit2 h1 hc hm

/-- Unknown macro (or a macro where no macro table exists): the template is an error. -/
theorem C12_unknown_macro_is_error (before : MatchList) (macros : Option (List (Bytes × Bytes)))
    (lit1 name rest : Bytes) (h1 : Proofs.Plain lit1) (hn : ∀ c ∈ name, c ≠ 125)
    (hm : ∀ ms, macros = some ms → ms.find? (·.1 == name) = none) :
    interpolate before macros (lit1 ++ [36, 123] ++ name ++ [125] ++ rest) = none :=
  Proofs.interpolate_unknown_macro before macros lit1 name rest h1 hn hm

/-- Unterminated `${`: the template is an error. -/
theorem C12_unterminated_macro_is_error (before : MatchList) (macros : Option (List (Bytes × Bytes)))
    (lit1 r : Bytes) (h1 : Proofs.Plain lit1) (hr : ∀ c ∈ r, c ≠ 125) :
    interpolate before macros (lit1 ++ [36, 123] ++ r) = none :=
  Proofs.interpolate_unterminated before macros lit1 r h1 hr

/-- One failing template of one entry (`Proofs.templates`: the path of move / isdirectory, each
string of label / exec / command, the value of add-header) makes `matches_interpolate` fail as a
whole: no partially interpolated list is ever handed on. -/
theorem C12_failed_template_fails_all (env : Env) (ml : MatchList) (msgs : Nat → Msg) (i : Nat) (mh : Match)
    (t : Bytes) (hi : ml[i]? = some mh) (ht : t ∈ Proofs.templates mh)
    (hf : interpolate (ml.take i) (some [(ofString "path", env.path)]) t = none) :
    matchesInterpolate env ml msgs = none :=
  Proofs.matchesInterpolate_none_of_template env ml msgs i mh t hi ht hf

/-- ... and then, whatever the calls return, `processMessage` issues no mutating call for that message: if IN THIS RUN
evaluation matches (`ev` = the value of `evalP` on the results `orcl` gives from the call after the parse phase on) and
the interpolation of the list it produced fails, every call is `openat(O_RDONLY)` / `read` / `close` or a call of
evaluation (`open("/dev/null")`, `fork`, `waitpid`, `close` for `command` conditions, `stat` for `isdirectory` and
file-time `date` conditions), after evaluation only `close`; the outcome is the error flag, the files, the log and the
maildir unchanged. -/
theorem C12_error_no_effect (env : PEnv) (orc : EvalOracles) (expr : Expr) (md : Maildir) (name : Bytes)
    (st : MainSt) (d : Handle) (content p n : Bytes) (mf : MFlags)
    (hd : md.dirH = some d) (hf : st.files.get md.path name = some content)
    (hp : pathjoin PATH_MAX md.path name = some p) (hn : strlcpyFits NAME_MAX1 name = some n)
    (hmf : flagsParse n = some mf)
    (orcl : Nat → Call → Res) (ev : Tri × St)
    (hrun : (Proofs.Own.runO orcl (evalP (Proofs.msgEnv env orc p) expr (parseMessage content) mf)
      (Proofs.Own.runO orcl (messageParseP d md.path name content) 0).2.2).1 = ev)
    (hev : ev.1 = .match)
    (hint : (matchesInterpolate (Proofs.msgEnv env orc p) ev.2.ml
      (partMsg (parseMessage content) ((getAttachments (parseMessage content)).getD []))).isNone = true) :
    (runOracle orcl (processMessage env orc expr md name st) 0 []).1 = ({ st with error := true }, md) ∧
    (∀ x ∈ (runOracle orcl (processMessage env orc expr md name st) 0 []).2,
      Proofs.ParseEvalCall d expr x.1 ∧ x.1.mutating = false) ∧
    ∃ E L, (runOracle orcl (processMessage env orc expr md name st) 0 []).2 =
        (runOracle orcl (messageParseP d md.path name content) 0 []).2 ++ E ++ L ∧
        (∀ x ∈ E, Proofs.EvalCallOf expr x.1) ∧ ∀ x ∈ L, ∃ fd, x.1 = .close fd := by
  obtain ⟨h1, h2, h3⟩ := Proofs.processMessage_noMatch_run env orc expr md name st d content p n mf hd hf hp hn hmf orcl ev hrun
    (.inr (.inr ⟨hev, hint⟩))
  refine ⟨?_, h1, h2⟩
  rw [h3, hev]
  simp

/-- For a rule tree without `command`, `isdirectory` and file-time `date` conditions: the statement in terms of the pure
evaluator - only the calls of parsing, no `fork`. -/
theorem C12_error_no_effect_pure (env : PEnv) (orc : EvalOracles) (expr : Expr) (md : Maildir) (name : Bytes)
    (st : MainSt) (d : Handle) (content p n : Bytes) (mf : MFlags)
    (hd : md.dirH = some d) (hf : st.files.get md.path name = some content)
    (hp : pathjoin PATH_MAX md.path name = some p) (hn : strlcpyFits NAME_MAX1 name = some n)
    (hmf : flagsParse n = some mf) (hfree : Proofs.asksFree expr = true)
    (hev : (eval (Proofs.msgEnv env orc p) (parseMessage content) expr 0 (parseMessage content)
      { ml := [], flags := mf }).1 = .match)
    (hint : (matchesInterpolate (Proofs.msgEnv env orc p)
      (eval (Proofs.msgEnv env orc p) (parseMessage content) expr 0 (parseMessage content) { ml := [], flags := mf }).2.ml
      (partMsg (parseMessage content) ((getAttachments (parseMessage content)).getD []))).isNone = true)
    (orcl : Nat → Call → Res) :
    (runOracle orcl (processMessage env orc expr md name st) 0 []).1 = ({ st with error := true }, md) ∧
    (∀ x ∈ (runOracle orcl (processMessage env orc expr md name st) 0 []).2,
      ((∃ nm, x.1 = .openRd d nm) ∨ (∃ fd, x.1 = .read fd) ∨ ∃ fd, x.1 = .close fd) ∧
        x.1.mutating = false ∧ x.1.isFork = false) ∧
    ∃ L, (runOracle orcl (processMessage env orc expr md name st) 0 []).2 =
        (runOracle orcl (messageParseP d md.path name content) 0 []).2 ++ L ∧ ∀ x ∈ L, ∃ fd, x.1 = .close fd := by
  obtain ⟨h1, h2, h3⟩ := Proofs.processMessage_noMatch_run_pure env orc expr md name st d content p n mf hd hf hp hn hmf hfree
    (.inr (.inr ⟨hev, hint⟩)) orcl
  refine ⟨?_, h1, h2⟩
  rw [h3, hev]
  simp

/-! ## Non-vacuity (captures, single pass, error) -/

/-- Subject `User@x.org`, flag `l`, groups `[0,6)`, `[0,4)` and an unset one: the entry carries
`user@x`, `user` and the empty string. -/
example :
    (exprRegexec Proofs.exampleEnv .header 3 0 { src := [46], lcase := true } [70, 114, 111, 109]
      [85, 115, 101, 114, 64, 120, 46, 111, 114, 103]
      { ml := [{ ty := .mtch, lno := 3, part := 0 }], flags := MFlags.empty }).2.ml =
    [{ ty := .mtch, lno := 3, part := 0 },
     { ty := .header, lno := 3, part := 0, pat := some { src := [46], lcase := true },
       subs := [⟨[117, 115, 101, 114, 64, 120], some (0, 6)⟩, ⟨[117, 115, 101, 114], some (0, 4)⟩, ⟨[], none⟩] }] := by
  decide +kernel

/-- Another rule captured `o`; this rule captured `ab`, `b`: `\1` is `b`. -/
example :
    matchBackref
      ([{ ty := .mtch, lno := 1, part := 0 },
        { ty := .header, lno := 1, part := 0, subs := [⟨[111], some (0, 1)⟩, ⟨[111], some (0, 1)⟩] }] ++
       [{ ty := .mtch, lno := 2, part := 0 }] ++
       [{ ty := .header, lno := 2, part := 0, subs := [⟨[97, 98], some (0, 2)⟩, ⟨[98], some (1, 2)⟩] },
        { ty := .move, lno := 2, part := 0 }]) ⟨0, 1⟩ = some [98] := by
  decide +kernel

/-- The captured text is `\2${path}${`; the template `a-\1/b` yields `a-\2${path}${/b`. -/
example :
    Proofs.Plain [97, 45] ∧ Proofs.Plain [47, 98] ∧ Proofs.CleanStart [47, 98] ∧
    interpolate
      [{ ty := .mtch, lno := 1, part := 0 },
       { ty := .header, lno := 1, part := 0,
         subs := [⟨[120], some (0, 1)⟩, ⟨[92, 50, 36, 123, 112, 97, 116, 104, 125, 36, 123], some (0, 11)⟩] }]
      (some [([112, 97, 116, 104], [47, 109])]) ([97, 45] ++ [92, 49] ++ [47, 98]) =
    some ([97, 45] ++ [92, 50, 36, 123, 112, 97, 116, 104, 125, 36, 123] ++ [47, 98]) := by
  decide +kernel

/-- Message `/m/new/1` (`Subject: x`), rule `match all move "\1"`: evaluation matches, there is
no group 1, interpolation fails - the hypotheses of `C12_error_no_effect` hold. -/
example :
    pathjoin PATH_MAX [47, 109, 47, 110, 101, 119] [49] = some [47, 109, 47, 110, 101, 119, 47, 49] ∧
    strlcpyFits NAME_MAX1 [49] = some [49] ∧ flagsParse [49] = some MFlags.empty ∧
    (eval (Proofs.msgEnv Proofs.examplePEnv Proofs.exampleOracles [47, 109, 47, 110, 101, 119, 47, 49])
      (parseMessage [83, 117, 98, 106, 101, 99, 116, 58, 32, 120, 10, 10, 98, 10])
      (.mtch 1 (.all 1) (.move 1 [92, 49])) 0
      (parseMessage [83, 117, 98, 106, 101, 99, 116, 58, 32, 120, 10, 10, 98, 10])
      { ml := [], flags := MFlags.empty }).1 = .match ∧
    (matchesInterpolate (Proofs.msgEnv Proofs.examplePEnv Proofs.exampleOracles [47, 109, 47, 110, 101, 119, 47, 49])
      (eval (Proofs.msgEnv Proofs.examplePEnv Proofs.exampleOracles [47, 109, 47, 110, 101, 119, 47, 49])
        (parseMessage [83, 117, 98, 106, 101, 99, 116, 58, 32, 120, 10, 10, 98, 10])
        (.mtch 1 (.all 1) (.move 1 [92, 49])) 0
        (parseMessage [83, 117, 98, 106, 101, 99, 116, 58, 32, 120, 10, 10, 98, 10])
        { ml := [], flags := MFlags.empty }).2.ml
      (partMsg (parseMessage [83, 117, 98, 106, 101, 99, 116, 58, 32, 120, 10, 10, 98, 10])
        ((getAttachments (parseMessage [83, 117, 98, 106, 101, 99, 116, 58, 32, 120, 10, 10, 98, 10])).getD []))).isNone
      = true := by
  simp only [eval]
  decide +kernel

/-! ## C12_macros - parse-time macro expansion (mdsort.conf(5), MACROS)

`expandMacros` (Model/Conf.lean) transcribes `expandmacros` of parse.y, the macro table `macrosInsert` /
`macrosUse` transcribes macro.c; both are part of the parser model that is compared with the real parser
(C14).  `Spec.mexpand` (Spec/Macro.lean) is the documented reading: one left-to-right pass into tokens
(`${name}` up to the first `}`, an unterminated `${`, or one byte), each token replaced on its own, the
results concatenated. -/

/-- For EVERY string, context (`action`: the string belongs to `move`, `label`, `exec`, or is the value of
`add-header`) and macro table, the loop of `expandmacros` yields exactly the token-wise substitution: each
`${name}` is replaced by the value the table holds for `name`, `${path}` stays in place in an action
context (it is replaced when the action runs) and is an error elsewhere, an undefined name and an
unterminated `${` are errors - and nothing that was substituted is read again (the result is the
concatenation).  Expanding only counts references: no name changes its value. -/
theorem C12_macros (action : Bool) (ms : List Macro) (s : Bytes) :
    (expandMacros action (s.length + 1) s ms []).map (·.1) = Spec.mexpand action (Spec.macroValue ms) s ∧
    (∀ out ms', expandMacros action (s.length + 1) s ms [] = some (out, ms') → Spec.macroValue ms' = Spec.macroValue ms) :=
  Proofs.MainText.mt_expandMacros_value action ms s

/-- (a)-(d) What the specification says about `pre ${name} post` (`pre` without `$`, `name` without `}`):
`pre`, then the value of `name` VERBATIM - whatever bytes it holds, `${other}` included, it is not expanded
again - or `${path}` itself in an action context, then the expansion of `post`; an error when `name` is
`path` outside an action, when `name` has no value, or when `post` is an error. -/
theorem C12_macros_reference (action : Bool) (value : Bytes → Option Bytes) (pre name post : Bytes)
    (hpre : (36 : UInt8) ∉ pre) (hname : (125 : UInt8) ∉ name) :
    Spec.mexpand action value (pre ++ 36 :: 123 :: (name ++ 125 :: post)) =
      match (if name = Spec.pathName then (if action then some Spec.pathRef else none) else value name),
            Spec.mexpand action value post with
      | some v, some rest => some (pre ++ v ++ rest)
      | _, _ => none :=
  Proofs.MainText.mt_mexpand_ref action value pre name post hpre hname

/-- (d) An unterminated `${` is an error, in every context. -/
theorem C12_macros_unterminated (action : Bool) (value : Bytes → Option Bytes) (pre tail : Bytes)
    (hpre : (36 : UInt8) ∉ pre) (htail : (125 : UInt8) ∉ tail) :
    Spec.mexpand action value (pre ++ 36 :: 123 :: tail) = none :=
  Proofs.MainText.mt_mexpand_unterminated action value pre tail hpre htail

/-- (e) A string without `$` is its own expansion, in every context and with every table (which it
leaves as it is). -/
theorem C12_macros_plain (action : Bool) (ms : List Macro) (s : Bytes) (h : (36 : UInt8) ∉ s) :
    Spec.mexpand action (Spec.macroValue ms) s = some s ∧ expandMacros action (s.length + 1) s ms [] = some (s, ms) :=
  ⟨Proofs.MainText.mt_mexpand_plain action _ s h, Proofs.MainText.mt_expandMacros_plain action ms s h⟩

/-- (a) Where the values come from (`macros_insert`).  A definition `name = "v"` in the file of a name the
table does not hold gives `${name}` the value `v` and changes no other name.  When the name was given with
`-D` (the entry is sticky and not yet shadowed) the definition in the file is accepted and DROPPED: every
name, this one included, keeps its value - the command line wins.  A further definition of a name that is
not such a fresh `-D` entry (a second one in the file, a second `-D`) is refused. -/
theorem C12_macro_definitions (ms : List Macro) (name v : Bytes) (lno : Nat) :
    (∀ sticky, isPathMacro name = false → Spec.macroValue ms name = none →
      ∃ ms', macrosInsert ms name v lno sticky = some ms' ∧ Spec.macroValue ms' name = some v ∧
        ∀ n, n ≠ name → Spec.macroValue ms' n = Spec.macroValue ms n) ∧
    (∀ m, ms.find? (fun x => x.name == name) = some m → m.sticky = true → m.defs = 0 → isPathMacro name = false →
      ∃ ms', macrosInsert ms name v lno false = some ms' ∧ Spec.macroValue ms' = Spec.macroValue ms) ∧
    (∀ sticky, (ms.any fun x => x.name == name) = true →
      (∀ x ∈ ms, x.name = name → x.sticky = false ∨ sticky = true ∨ x.defs ≠ 0) →
      macrosInsert ms name v lno sticky = none) :=
  ⟨fun sticky hp hn => Proofs.MainText.mt_insert_new ms name v lno sticky hp hn,
   fun m hf hs hd hp => Proofs.MainText.mt_insert_sticky ms name v lno m hf hs hd hp,
   fun sticky hex hno => Proofs.MainText.mt_insert_twice ms name v lno sticky hex hno⟩

/-! ## `-D name=value` on the command line (package ce13) -/

/-- The `-D` options of an accepted command line (`Model.parseArgs`, Model/Opts.lean) always form a macro table
(`macrosOfDefs` - the table `parseConfig` starts from - does not fail: the run from `argv` never meets `invalidDefs`
after the option loop), and in it every `-D name=value` is the value of `${name}` and OVERRIDES the file: a definition
`name = "v2"` on any line of the configuration is accepted and dropped, every name keeps its value
(`C12_macro_definitions`, second part, instantiated for every name given with `-D`). -/
theorem C12_D_overrides (permute : Bool) (args : List Bytes) (o : Opts) (h : parseArgs permute args = .ok o) :
    ∃ ms, macrosOfDefs o.defs [] = some ms ∧
      ∀ n v, (n, v) ∈ o.defs →
        Spec.macroValue ms n = some v ∧
        ∀ v2 lno, ∃ ms', macrosInsert ms n v2 lno false = some ms' ∧ Spec.macroValue ms' = Spec.macroValue ms := by
  obtain ⟨ms, hms⟩ := Proofs.Opts.parseArgs_defs_table permute args o h
  refine ⟨ms, hms, fun n v hm => ?_⟩
  obtain ⟨_, hp, hf⟩ := Proofs.Opts.macrosOfDefs_find o.defs [] ms hms n v hm
  refine ⟨by simp only [Spec.macroValue, hf]; rfl, fun v2 lno => ?_⟩
  exact Proofs.MainText.mt_insert_sticky ms n v2 lno _ hf rfl rfl hp

open Proofs.MainText in
/-- Non-vacuity, from `argv` to the strings of the tree: `mdsort -D a=D` over a file that also defines `a`. -/
example :
    (match parseArgs true ["-n".toUTF8.toList, "-D".toUTF8.toList, "a=D".toUTF8.toList] with
     | .ok o => mt_strings (parseConfig [] o.defs (fun _ => true)
         "a = \"1\"\nmaildir \"q\" { match all move \"${a}\" }".toUTF8.toList) == some [(["q".toUTF8.toList], ["D".toUTF8.toList])]
     | .error _ => false) = true := by
  decide +kernel

/-! Non-vacuity and witnesses, on whole configuration files through `parseConfig` (the strings of the
accepted trees are read with `mt_strings`: per block the maildir paths and the strings of its rules). -/

open Proofs.MainText in
/-- `-D a=D` wins over `a = "1"` in the file (sticky override); without `-D` the file's value is used. -/
example :
    mt_strings (parseConfig [] [([97], [68])] (fun _ => true)
      "a = \"1\"\nmaildir \"q\" { match all move \"${a}\" }".toUTF8.toList) = some [(["q".toUTF8.toList], ["D".toUTF8.toList])] ∧
    mt_strings (parseConfig [] [] (fun _ => true)
      "a = \"1\"\nmaildir \"q\" { match all move \"${a}\" }".toUTF8.toList) = some [(["q".toUTF8.toList], ["1".toUTF8.toList])] := by
  decide +kernel

open Proofs.MainText in
/-- (b) Single pass: a value that spells a macro reference is not expanded again - neither a value built
in the file from two macros (`d` = `${c}`), nor a `-D` value (`a` = `${b}`). -/
example :
    mt_strings (parseConfig [] [] (fun _ => true)
      "a = \"$\"\nb = \"{c}\"\nc = \"x\"\nd = \"${a}${b}\"\nmaildir \"${c}\" { match all label \"${d}\" }".toUTF8.toList) =
        some [(["x".toUTF8.toList], ["${c}".toUTF8.toList])] ∧
    mt_strings (parseConfig [] [([97], "${b}".toUTF8.toList)] (fun _ => true)
      "b = \"x\"\nmaildir \"${b}\" { match all label \"${a}\" }".toUTF8.toList) =
        some [(["x".toUTF8.toList], ["${b}".toUTF8.toList])] := by
  decide +kernel

open Proofs.MainText in
/-- (c) `${path}` is left in place in the action contexts - `move`, `label`, `exec`, the value of
`add-header` - and rejects the file everywhere else: maildir path, header name, `isdirectory`, `command`,
`flags`, the name of `add-header`, the value of a macro. -/
example :
    mt_strings (parseConfig [] [] (fun _ => true)
      "maildir \"q\" { match all move \"${path}\" label \"a${path}\" exec \"${path}b\" add-header \"k\" \"${path}\" }".toUTF8.toList) =
        some [(["q".toUTF8.toList], ["${path}".toUTF8.toList, "a${path}".toUTF8.toList, "${path}b".toUTF8.toList,
                                     "k".toUTF8.toList, "${path}".toUTF8.toList])] ∧
    mt_isError (parseConfig [] [] (fun _ => true) "maildir \"${path}\" { match all break }".toUTF8.toList) = true ∧
    mt_isError (parseConfig [] [] (fun _ => true) "maildir \"q\" { match header \"${path}\" /x/ break }".toUTF8.toList) = true ∧
    mt_isError (parseConfig [] [] (fun _ => true) "maildir \"q\" { match isdirectory \"${path}\" break }".toUTF8.toList) = true ∧
    mt_isError (parseConfig [] [] (fun _ => true) "maildir \"q\" { match command \"${path}\" break }".toUTF8.toList) = true ∧
    mt_isError (parseConfig [] [] (fun _ => true) "maildir \"q\" { match all flags \"${path}\" }".toUTF8.toList) = true ∧
    mt_isError (parseConfig [] [] (fun _ => true) "maildir \"q\" { match all add-header \"${path}\" \"v\" }".toUTF8.toList) = true ∧
    mt_isError (parseConfig [] [] (fun _ => true) "a = \"${path}\"\nmaildir \"${a}\" { match all break }".toUTF8.toList) = true := by
  decide +kernel

open Proofs.MainText in
/-- (d) An unknown macro and an unterminated `${` reject the file; `-D path=x` and the same `-D` twice are
refused before the file is read. -/
example :
    mt_isError (parseConfig [] [] (fun _ => true) "maildir \"q\" { match all move \"${nosuch}\" }".toUTF8.toList) = true ∧
    mt_isError (parseConfig [] [] (fun _ => true) "maildir \"q\" { match all move \"x${\" }".toUTF8.toList) = true ∧
    mt_isInvalidDefs (parseConfig [] [("path".toUTF8.toList, [120])] (fun _ => true) "maildir \"q\" { match all break }".toUTF8.toList) = true ∧
    mt_isInvalidDefs (parseConfig [] [([97], [49]), ([97], [50])] (fun _ => true) "maildir \"q\" { match all move \"${a}\" }".toUTF8.toList) = true := by
  decide +kernel

open Proofs.MainText in
/-- The observation recorded in DESIGN.md (C12): values are substituted at parse time and the RESULT takes
part in the action-time pass.  With `a = "$"` and `b = "{path}"` the string `${a}${b}` of a `move` becomes
`${path}` while parsing (not expanded again then: single pass) - and that string is what `interpolate`
reads when the action runs, where `${path}` is the path of the message. -/
theorem C12_macros_value_reaches_action_pass (before : MatchList) (p : Bytes) :
    mt_strings (parseConfig [] [] (fun _ => true)
      "a = \"$\"\nb = \"{path}\"\nmaildir \"q\" { match all move \"${a}${b}\" }".toUTF8.toList) =
        some [(["q".toUTF8.toList], ["${path}".toUTF8.toList])] ∧
    interpolate before (some [(Spec.pathName, p)]) Spec.pathRef = some p :=
  ⟨by decide +kernel, Proofs.MainText.mt_interpolate_path before p⟩

/-- Hypotheses of `C12_macros_reference` / `C12_macro_definitions` on concrete data: the string
`x/${dir}/y` with `dir` = `${z}` (not read again) and with `dir` = `path` in an action context. -/
example :
    Spec.mexpand false (Spec.macroValue [{ name := [100], value := "${z}".toUTF8.toList }]) "x/${d}/y".toUTF8.toList =
      some "x/${z}/y".toUTF8.toList ∧
    Spec.mexpand true (fun _ => none) "x/${path}/y".toUTF8.toList = some "x/${path}/y".toUTF8.toList ∧
    Spec.mexpand false (fun _ => none) "x/${path}/y".toUTF8.toList = none ∧
    Spec.macroValue [{ name := [100], value := [49], sticky := true }] [100] = some [49] := by
  decide +kernel

/-- (audit au2) `C12_label_ignores_message` / `C12_label_value` on hostile content: the existing label reads
`\9 ${nosuch} ${path}`; `label "new"` succeeds and the text is written back as it is. -/
def C12_hostileLabels : Msg := parseMessage (ofString "X-Label: \\9 ${nosuch} ${path}\n\nb\n")

example :
    (matchInterpolate (some [(ofString "path", [47])]) [{ ty := .mtch, lno := 1, part := 0 }, { ty := .label, lno := 1, part := 0, strings := [ofString "new"] }] 1
      { ty := .label, lno := 1, part := 0, strings := [ofString "new"] } (fun _ => C12_hostileLabels)).map
      (fun r => r.2.map fun p => (messageWrite p.2).1) =
    some (some (ofString "X-Label: \\9 ${nosuch} ${path} new\n\nb\n")) := by decide +kernel

end Mdsort.Props
