import Mdsort.Proofs.Interp

/-!
# C12 - interpolation is exact and single-pass: message content is data, never template

`Model.interpolate` transcribes `interpolate`, `isbackref` (with `strtoul`), `ismacro` and
`match_backref` of match.c.  `Spec.interp` reads the template once into tokens (literal byte,
`\#`, `\#.#`, `\#\.`, `${macro}`), replaces each token, and concatenates: by construction
nothing that was substituted is scanned again.
-/

namespace Mdsort.Props
open Mdsort Mdsort.Model

/-- A back-reference `\M.N` (or `\N` = `\0.N`) denotes exactly the N-th capture of the M-th
interpolating pattern recorded for the same rule - found from the rule's `match` sentinel,
never from another rule - and is an error if that pattern or group does not exist. -/
theorem C12_backref_lookup (before : MatchList) (br : Backref) :
    matchBackref before br = ((Proofs.ruleCaps before)[br.mi]?).bind (fun gs => gs[br.si]?) :=
  Proofs.matchBackref_eq before br

/-- For every match list, macro table and template of the documented syntax, the C loop
computes exactly the one-pass token substitution (including which templates are errors). -/
theorem C12_interpolate (before : MatchList) (macros : Option (List (Bytes × Bytes))) (t : Bytes)
    (hdom : Spec.itokens t ≠ .undefined) (hn : Proofs.NulFree before macros) :
    Spec.interp (Proofs.ruleCaps before) macros t = some (interpolate before macros t) :=
  Proofs.interpolate_eq_spec before macros t hdom hn

/-- Existing message content cannot make a label rule fail (or succeed): the existing
X-Label value is joined in verbatim, only the configured strings are templates. -/
theorem C12_label_ignores_message (macros : Option (List (Bytes × Bytes))) (ml : MatchList) (i : Nat)
    (mh : Match) (hty : mh.ty = .label) (msgs1 msgs2 : Nat → Msg) :
    (matchInterpolate macros ml i mh msgs1).isSome = (matchInterpolate macros ml i mh msgs2).isSome :=
  Proofs.label_interpolation_ignores_message macros ml i mh hty msgs1 msgs2

/-! ## Non-vacuity -/

/-- A rule whose header pattern captured `["user@x", "user"]`, macro `path` = `/m/new/1`: the
template `\1-${path}\0\.` denotes `user-` ++ `/m/new/1` ++ `user@x` ++ `.` (byte lists below). -/
example :
    Spec.interp
      (Proofs.ruleCaps
        [{ ty := .mtch, lno := 1, part := 0 },
         { ty := .header, lno := 1, part := 0,
           subs := [⟨[117, 115, 101, 114, 64, 120], some (0, 6)⟩, ⟨[117, 115, 101, 114], some (0, 4)⟩] }])
      (some [([112, 97, 116, 104], [47, 109, 47, 110, 101, 119, 47, 49])])
      [92, 49, 45, 36, 123, 112, 97, 116, 104, 125, 92, 48, 92, 46]
    = some (some [117, 115, 101, 114, 45, 47, 109, 47, 110, 101, 119, 47, 49,
                  117, 115, 101, 114, 64, 120, 46]) := by
  decide +kernel

/-- The template `\1.x` is outside the documented syntax. -/
example : Spec.itokens [92, 49, 46, 120] = .undefined := by
  decide +kernel

end Mdsort.Props
