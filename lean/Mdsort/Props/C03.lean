import Mdsort.Proofs.Eval

/-!
# C03 - rules are evaluated with the documented first-match semantics

`Model.eval` transcribes `expr_eval_*` and the match-list primitives of match.c
(including the sentinel entries, `matches_merge`, the whole-list PASS/BREAK lookup of
`expr_eval_block`).  `Spec.evalBlock` is the documented reading of mdsort.conf(5) on the
rule tree the grammar builds (`Spec.parseBlock`).  The valuation of the matchers is whatever
the environment (regex engine, clock, commands, file system) makes it.
-/

namespace Mdsort.Props
open Mdsort Mdsort.Model

/-- For every environment, message and rule tree in the domain, whenever the documented
evaluation is not decided by a pass or action pending from an enclosing block
(`crosses = false`: the complement is the pinned finding F11), the evaluator returns the
documented result and, on a match, the documented actions: the same actions other than
move/flag in the same order, and the same last move-or-flag. -/
theorem C03_eval_refines_spec (env : Env) (root : Msg) (f : MFlags) (e : Expr) (rules : List Spec.Rule)
    (hp : Spec.parseBlock e = some rules) (hd : Proofs.InDomain env e = true)
    (hl : (Spec.evalBlock (Proofs.valuation env root f) Proofs.actionErr rules).crosses = false) :
    let o := Spec.evalBlock (Proofs.valuation env root f) Proofs.actionErr rules
    let r := eval env root e 0 root { ml := [], flags := f }
    r.1 = o.res ∧ (o.res = .match → Spec.planOf (Proofs.mlKeys r.2.ml) = Spec.planOf (o.actions.filterMap Spec.actKey)) :=
  Proofs.eval_refines_spec env root f e rules hp hd hl

end Mdsort.Props
