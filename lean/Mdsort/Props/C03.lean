import Mdsort.Proofs.GenBridge
import Mdsort.Proofs.Eval
import Mdsort.Proofs.EvalAtt
import Mdsort.Proofs.EvalAttBridge
import Mdsort.Proofs.EvalAttMeaning
import Mdsort.Proofs.BlockSelect
import Mdsort.Proofs.WorldFrame

/-!
# C03 - rules are evaluated with the documented first-match semantics

`Model.eval` transcribes `expr_eval_*` and the match-list primitives of match.c
(including the sentinel entries, `matches_merge`, the whole-list PASS/BREAK lookup of
`expr_eval_block`).  `Spec.evalBlock` is the documented reading of mdsort.conf(5) on the
rule tree the grammar builds (`Spec.parseBlock`).  The valuation of the matchers is whatever
the environment (regex engine, clock, commands, file system) makes it.
`Spec.evalBlockA` / `Spec.parseBlockA` (`Spec/RulesAtt.lean`) are the same with `attachment c`
conditions and `attachment { ... }` action blocks, over the parts of the message.
`Spec.parseBlockW` / `Spec.parseBlockAW` read the same trees with `pass` / `break` at ANY position of an
action list (what the grammar accepts); the theorems over them (`..._wide`) are the general ones, the
theorems over `parseBlock` / `parseBlockA` (control action last) their special cases.
-/

namespace Mdsort.Props
open Mdsort Mdsort.Model

/-- For every environment, message and rule tree in the domain, whenever the documented
evaluation is not decided by a pass or action pending from an enclosing block
(`crosses = false`: the complement is the pinned finding F11), the evaluator returns the
documented result and, on a match, the documented actions: the same actions other than
move/flag in the same order, and the same last move-or-flag.

What is compared (audit au1): the verdict, and on a match the list of KEYS `(type, configuration line)` of the action entries
(`Proofs.mlKeys`, `Spec.actKey`) - not the operands of the actions (destination, label text, argv, header name/value): an
evaluator that attached the wrong string to the right action would satisfy the statement.  The operands are the subject of
C09 (`C09_destination_*`), C12 (interpolation) and C13 (argv).  Two actions of the same type on the same line have the same
key.  Of the move/flag actions only the LAST one is compared (`Spec.planOf`).  The valuation of a matcher is the model's own
`eval` on the bare matcher from the empty match list (`Proofs.valuation`), so the theorem is about the combinators (and, or,
!, match, blocks, pass, break), not about what a matcher means.

This is the special case "no attachment node in the tree, `pass` / `break` last in their action list
(`Spec.parseBlock`)" of `C03_eval_refines_spec_att_wide` below and is derived from it
(`Proofs/EvalAttBridge.lean`: on a tree without attachment nodes `Spec.parseBlockAW` / `Spec.evalBlockA` are
`Spec.parseBlockW` / `Spec.evalBlock` with every action tagged with part 0, `leaks` is never recorded and
`InDomain` implies `InDomainA`; what `Spec.parseBlock` accepts `Spec.parseBlockW` accepts, with the same
rules, and is `ctlPlaced`: `C03_ctl_last_is_special_case`); the direct proof `Proofs.eval_refines_spec`
is kept. -/
theorem C03_eval_refines_spec (env : Env) (root : Msg) (f : MFlags) (e : Expr) (rules : List Spec.Rule)
    (hp : Spec.parseBlock e = some rules) (hd : Proofs.InDomain env e = true)
    (hl : (Spec.evalBlock (Proofs.valuation env root f) Proofs.actionErr rules).crosses = false) :
    let o := Spec.evalBlock (Proofs.valuation env root f) Proofs.actionErr rules
    let r := eval env root e 0 root { ml := [], flags := f }
    r.1 = o.res ∧ (o.res = .match → Spec.planOf (Proofs.mlKeys r.2.ml) = Spec.planOf (o.actions.filterMap Spec.actKey)) :=
  Proofs.att_eval_refines_spec_old env root f e rules hp hd hl

/-! ## Non-vacuity

A concrete environment, message and rule tree inside the domain: a nested block whose `break`
rule fires, a `pass` rule that fires at the top level, and a second nested block (entered with
the pass pending) in which a plain rule matches.  `crosses = false`, the result is a match and
the plan is not empty; `C03_eval_refines_spec` then gives the evaluator's result.

```
match all { match new reject break }
match ! header "X" /1/ label "x" pass
match all { match body /2/ discard
            match new or all move "/d" flag "cur" }
```
-/

/-- Regex engine: the pattern `1` matches everything, every other pattern nothing; message
file `/m/new/1`. -/
def exEnv : Env where
  rx := fun p _ => if p.src == [49] then .ok [some (0, 0)] else .nomatch
  command := fun _ => 0
  isDir := fun _ => false
  now := 0
  strptime := fun _ => none
  zoneName := fun _ => none
  fileTime := fun _ => none
  dryrun := false
  path := [47, 109, 47, 110, 101, 119, 47, 49]

def exMsg : Msg := { headers := [], body := [] }

def exTree : Expr :=
  .block 1 (.or 1 (.or 1
    (.mtch 2 (.all 2) (.block 2 (.mtch 3 (.new 3) (.and 3 (.reject 3) (.brk 3)))))
    (.mtch 4 (.neg 4 (.header 4 [[88]] { src := [49] })) (.and 4 (.label 4 [[120]]) (.pass 4))))
    (.mtch 5 (.all 5) (.block 5 (.or 5
      (.mtch 6 (.body 6 { src := [50] }) (.discard 6))
      (.mtch 7 (.or 7 (.new 7) (.all 7)) (.and 7 (.move 7 [47, 100]) (.flag 7 [99, 117, 114])))))))

def exRules : List Spec.Rule :=
  [.blk 2 (.all 2) [.acts 3 (.new 3) [.reject 3] .brk],
   .acts 4 (.neg 4 (.header 4 [[88]] { src := [49] })) [.label 4 [[120]]] .pass,
   .blk 5 (.all 5)
     [.acts 6 (.body 6 { src := [50] }) [.discard 6] .none,
      .acts 7 (.or 7 (.new 7) (.all 7)) [.move 7 [47, 100], .flag 7 [99, 117, 114]] .none]]

theorem ex_parse : Spec.parseBlock exTree = some exRules := by
  simp [exTree, exRules, Spec.parseBlock, Spec.parseRules, Spec.parseRule, Spec.isCond, Spec.splitActs,
    Spec.andChain, Spec.isCtlExpr, Spec.isActionExpr]

theorem ex_inDomain : Proofs.InDomain exEnv exTree = true := by decide +kernel

abbrev exVal := Proofs.valuation exEnv exMsg MFlags.empty

theorem ex_v_all (l : Nat) : exVal (.all l) = .match := by
  simp only [exVal, Proofs.valuation, eval]
theorem ex_v_new (l : Nat) : exVal (.new l) = .match := by
  simp only [exVal, Proofs.valuation, eval]; decide +kernel
theorem ex_v_header : exVal (.header 4 [[88]] { src := [49] }) = .nomatch := by
  simp only [exVal, Proofs.valuation, eval]; decide +kernel
theorem ex_v_body : exVal (.body 6 { src := [50] }) = .nomatch := by
  simp only [exVal, Proofs.valuation, eval]; decide +kernel

/-- The documented outcome: a match with four actions, no crossing. -/
theorem ex_outcome : Spec.evalBlock exVal Proofs.actionErr exRules =
    { res := .match,
      actions := [.reject 3, .label 4 [[120]], .move 7 [47, 100], .flag 7 [99, 117, 114]],
      crosses := false } := by
  simp [exRules, Spec.evalBlock, Spec.evalRules, Spec.condVal, ex_v_all, ex_v_new, ex_v_header, ex_v_body,
    Proofs.actionErr, PATH_MAX]

/-- The hypotheses of `C03_eval_refines_spec` are satisfiable with a match and a non-empty plan,
and the theorem then pins the evaluator's result and plan. -/
theorem C03_nonvacuous :
    Spec.parseBlock exTree = some exRules ∧ Proofs.InDomain exEnv exTree = true ∧
    (Spec.evalBlock exVal Proofs.actionErr exRules).crosses = false ∧
    (eval exEnv exMsg exTree 0 exMsg { ml := [], flags := MFlags.empty }).1 = .match ∧
    Spec.planOf (Proofs.mlKeys (eval exEnv exMsg exTree 0 exMsg { ml := [], flags := MFlags.empty }).2.ml) =
      ([(.reject, 3), (.label, 4)], some (.flag, 7)) := by
  have hc : (Spec.evalBlock exVal Proofs.actionErr exRules).crosses = false := by rw [ex_outcome]
  have h := C03_eval_refines_spec exEnv exMsg MFlags.empty exTree exRules ex_parse ex_inDomain hc
  simp only [ex_outcome] at h
  refine ⟨ex_parse, ex_inDomain, hc, h.1, ?_⟩
  rw [h.2 trivial]
  decide

/-! ## Attachment conditions and attachment blocks

`Spec/RulesAtt.lean` extends the documented semantics: `attachment c` quantifies over the parts of
the message (in order, three-valued, a malformed multipart is an error), and `attachment { ... }` is
an action of its rule that evaluates its rules on EVERY part - each part a message of its own -,
adds what they collect, tagged with the part index, to the actions of the rule, and lets the rule
match iff the block matched on at least one part.  The specification is told the parts of every
message and the value of every matcher on every (part index, message) (`Spec.PartCtx`); the theorem
instantiates it with `message_get_attachments` and the matchers evaluated on their own. -/

/-- For every environment, message and rule tree in the domain `InDomainA` (attachment conditions
anywhere, attachment blocks with `exec` actions, nested blocks and attachment conditions inside),
whenever the documented evaluation records none of the two known deviations

* `crosses` - the pinned finding F11, which for an attachment block reads: its block is evaluated
  on a part while a `pass` is pending (`expr_eval_block` then consumes the PASS entry of the
  enclosing block and reports a match whenever any action is pending),
* `leaks` - a rule stops at an attachment block that matched on no part after it has already
  collected actions (they stay in the match list although the rule did not match),

the evaluator returns the documented result and, on a match, the documented actions: the same
(type, line, part) other than move/flag in the same order, and the same last move-or-flag.

`Spec.parseBlockA` only recognises trees whose `pass` / `break` are the last action of their list; this is
the special case of `C03_eval_refines_spec_att_wide` (any placement the grammar accepts, `Spec.parseBlockAW`)
and is derived from it (`C03_ctl_last_is_special_case`). -/
theorem C03_eval_refines_spec_att (env : Env) (root : Msg) (f : MFlags) (e : Expr) (rules : List Spec.RuleA)
    (hp : Spec.parseBlockA e = some rules) (hd : Proofs.InDomainA env e = true)
    (hc : (Spec.evalBlockA (Proofs.partCtx env root f) Proofs.actionErr root rules).crosses = false)
    (hl : (Spec.evalBlockA (Proofs.partCtx env root f) Proofs.actionErr root rules).leaks = false) :
    let o := Spec.evalBlockA (Proofs.partCtx env root f) Proofs.actionErr root rules
    let r := eval env root e 0 root { ml := [], flags := f }
    r.1 = o.res ∧
      (o.res = .match → Spec.planP (Proofs.mlKeysP r.2.ml) = Spec.planP (o.actions.filterMap Spec.actKeyP)) :=
  Proofs.att_eval_refines_spec env root f e rules hp hd hc hl

/-! ### Non-vacuity: a message with two parts

```
match attachment body /2/ and ! attachment body /3/
    attachment { match body /2/ exec "c"
                 match all { match ! attachment all exec stdin body "d" } }
    label "l" pass
match all move "/d"
```
on `multipart/mixed` with the parts `ab` and `cd`; `/1/` matches everything, `/2/` what contains
`c`, `/3/` nothing.  The condition holds (part 2), the block matches on both parts (second rule on
part 1, first rule on part 2), the label and the move follow. -/

def exEnvA : Env where
  rx := fun p s => if p.src == [49] then .ok [some (0, 0)]
    else if p.src == [50] && s.contains 99 then .ok [some (0, 0)] else .nomatch
  command := fun _ => 0
  isDir := fun _ => false
  now := 0
  strptime := fun _ => none
  zoneName := fun _ => none
  fileTime := fun _ => none
  dryrun := false
  path := [47, 109, 47, 110, 101, 119, 47, 49]

def exMsgA : Msg :=
  parseMessage (ofString "Content-Type: multipart/mixed; boundary=\"B\"\n\n--B\n\nab\n--B\n\ncd\n--B--\n")

def exP1 : Msg := { headers := [], body := [97, 98, 10] }
def exP2 : Msg := { headers := [], body := [99, 100, 10] }

theorem exA_parts : getAttachments exMsgA = some [exP1, exP2] := by decide +kernel

def exTreeA : Expr :=
  .block 1 (.or 1
    (.mtch 2 (.and 2 (.attachment 2 (.body 2 { src := [50] })) (.neg 2 (.attachment 2 (.body 2 { src := [51] }))))
      (.and 2 (.and 2
        (.attBlock 2 (.block 2 (.or 2
          (.mtch 3 (.body 3 { src := [50] }) (.exec 3 false false [[99]]))
          (.mtch 4 (.all 4) (.block 4 (.mtch 5 (.neg 5 (.attachment 5 (.all 5))) (.exec 5 true true [[100]])))))))
        (.label 6 [[108]])) (.pass 6)))
    (.mtch 7 (.all 7) (.move 7 [47, 100])))

def exRulesA : List Spec.RuleA :=
  [.acts 2 (.and 2 (.attachment 2 (.body 2 { src := [50] })) (.neg 2 (.attachment 2 (.body 2 { src := [51] }))))
     [.att 2
        [.acts 3 (.body 3 { src := [50] }) [.plain (.exec 3 false false [[99]])] .none,
         .blk 4 (.all 4) [.acts 5 (.neg 5 (.attachment 5 (.all 5))) [.plain (.exec 5 true true [[100]])] .none]],
      .plain (.label 6 [[108]])] .pass,
   .acts 7 (.all 7) [.plain (.move 7 [47, 100])] .none]

theorem exA_parse : Spec.parseBlockA exTreeA = some exRulesA := by
  simp [exTreeA, exRulesA, Spec.parseBlockA, Spec.parseRulesA, Spec.parseRuleA, Spec.parseChainA, Spec.parseActA,
    Spec.isCond, Spec.isCtlExpr, Spec.isActionExpr]

theorem exA_inDomain : Proofs.InDomainA exEnvA exTreeA = true := by decide +kernel

abbrev exCtxA := Proofs.partCtx exEnvA exMsgA MFlags.empty

theorem exA_parts_root : exCtxA.parts exMsgA = some [exP1, exP2] := exA_parts
theorem exA_parts_p1 : exCtxA.parts exP1 = some [] := by
  show getAttachments exP1 = _; decide +kernel
theorem exA_parts_p2 : exCtxA.parts exP2 = some [] := by
  show getAttachments exP2 = _; decide +kernel
theorem exA_v_all (k l : Nat) (m : Msg) : exCtxA.v k m (.all l) = .match := by
  simp only [exCtxA, Proofs.partCtx, eval]
/-- `/2/` matches the second part only, `/3/` no part (at the lines where the examples use them). -/
theorem exA_v_body :
    exCtxA.v 1 exP1 (.body 2 { src := [50] }) = .nomatch ∧ exCtxA.v 2 exP2 (.body 2 { src := [50] }) = .match ∧
    exCtxA.v 1 exP1 (.body 3 { src := [50] }) = .nomatch ∧ exCtxA.v 2 exP2 (.body 3 { src := [50] }) = .match ∧
    exCtxA.v 1 exP1 (.body 2 { src := [51] }) = .nomatch ∧ exCtxA.v 2 exP2 (.body 2 { src := [51] }) = .nomatch ∧
    exCtxA.v 1 exP1 (.body 4 { src := [51] }) = .nomatch ∧ exCtxA.v 2 exP2 (.body 4 { src := [51] }) = .nomatch := by
  simp only [exCtxA, Proofs.partCtx, eval]
  decide +kernel

/-- The documented outcome: a match; the exec of the second rule on part 1, of the first rule on
part 2, then the label and the move of the message itself; no deviation recorded. -/
theorem exA_outcome : Spec.evalBlockA exCtxA Proofs.actionErr exMsgA exRulesA =
    { res := .match,
      actions := [(1, .exec 5 true true [[100]]), (2, .exec 3 false false [[99]]), (0, .label 6 [[108]]),
        (0, .move 7 [47, 100])],
      crosses := false, leaks := false } := by
  simp [exRulesA, Spec.evalBlockA, Spec.evalRulesA, Spec.evalActsA, Spec.forParts, Spec.condValA, Spec.anyPart,
    Spec.partIndex, exA_parts_root, exA_parts_p1, exA_v_all, exA_v_body,
    Proofs.actionErr, PATH_MAX]

/-- The hypotheses of `C03_eval_refines_spec_att` are satisfiable on a two-part message with a
match, and the theorem then pins the evaluator's result and plan, part indices included. -/
theorem C03_att_nonvacuous :
    Spec.parseBlockA exTreeA = some exRulesA ∧ Proofs.InDomainA exEnvA exTreeA = true ∧
    (Spec.evalBlockA exCtxA Proofs.actionErr exMsgA exRulesA).crosses = false ∧
    (Spec.evalBlockA exCtxA Proofs.actionErr exMsgA exRulesA).leaks = false ∧
    (eval exEnvA exMsgA exTreeA 0 exMsgA { ml := [], flags := MFlags.empty }).1 = .match ∧
    Spec.planP (Proofs.mlKeysP (eval exEnvA exMsgA exTreeA 0 exMsgA { ml := [], flags := MFlags.empty }).2.ml) =
      ([(.exec, 5, 1), (.exec, 3, 2), (.label, 6, 0)], some (.move, 7, 0)) := by
  have hc : (Spec.evalBlockA exCtxA Proofs.actionErr exMsgA exRulesA).crosses = false := by rw [exA_outcome]
  have hl : (Spec.evalBlockA exCtxA Proofs.actionErr exMsgA exRulesA).leaks = false := by rw [exA_outcome]
  have h := C03_eval_refines_spec_att exEnvA exMsgA MFlags.empty exTreeA exRulesA exA_parse exA_inDomain hc hl
  simp only [exA_outcome] at h
  refine ⟨exA_parse, exA_inDomain, hc, hl, h.1, ?_⟩
  rw [h.2 trivial]
  decide

/-- What the specification says about `attachment c` (for every context, no hypothesis on `c`):
an error if the parts of the message cannot be had; otherwise the value of `c` on the first part
on which it is not *no match* - a match, or an evaluation error, with *no match* on every earlier
part -, and *no match* iff `c` holds on no part.  Part `i` of the message itself is evaluated as
part `i + 1`, a part of a part under the index of that part (`Spec.partIndex`). -/
theorem C03_attachment_cond_meaning {α : Type} (cx : Spec.PartCtx α) (l : Nat) (c : Expr) (k : Nat) (m : α) :
    (cx.parts m = none → Spec.condValA cx (.attachment l c) k m = .error) ∧
    (∀ ps, cx.parts m = some ps →
      (∀ t, t ≠ .nomatch → (Spec.condValA cx (.attachment l c) k m = t ↔
        ∃ i q, ps[i]? = some q ∧ Spec.condValA cx c (Spec.partIndex k i) q = t ∧
          ∀ j < i, ∀ q', ps[j]? = some q' → Spec.condValA cx c (Spec.partIndex k j) q' = .nomatch)) ∧
      (Spec.condValA cx (.attachment l c) k m = .nomatch ↔
        ∀ i q, ps[i]? = some q → Spec.condValA cx c (Spec.partIndex k i) q = .nomatch)) :=
  Proofs.att_attachment_cond_meaning cx l c k m

/-- On the two-part message: `attachment body /2/` holds (second part), `attachment body /3/` does not. -/
example :
    exCtxA.parts exMsgA = some [exP1, exP2] ∧
    Spec.condValA exCtxA (.attachment 2 (.body 2 { src := [50] })) 0 exMsgA = .match ∧
    Spec.condValA exCtxA (.attachment 2 (.body 2 { src := [51] })) 0 exMsgA = .nomatch := by
  simp [Spec.condValA, Spec.anyPart, Spec.partIndex, exA_parts_root, exA_v_body]

/-! ### The two deviations are real (each hypothesis is needed)

Same message.  (1) `crosses`: a `pass` is pending when the attachment block is evaluated; its
block matches on no part, but `expr_eval_block` finds the PASS entry of the root block, removes
it and reports a match because the label is pending: the third rule is never tried.

```
match all label "x" pass
match all attachment { match body /3/ exec "c" }
match all move "/d"
```
(2) `leaks`: the first rule stops at its attachment block (no part matches) after collecting the
label, which stays in the match list and is executed with the second rule.

```
match all label "x" attachment { match body /3/ exec "c" }
match all move "/d"
```
Both were run on the real binary (mdsort 11.5.1 with the repairs of 9.2): (1) labels the message and
leaves it where it is, (2) moves it with the label. -/

def exTreeCross : Expr :=
  .block 1 (.or 1 (.or 1
    (.mtch 2 (.all 2) (.and 2 (.label 2 [[120]]) (.pass 2)))
    (.mtch 3 (.all 3) (.attBlock 3 (.block 3 (.mtch 4 (.body 4 { src := [51] }) (.exec 4 false false [[99]]))))))
    (.mtch 5 (.all 5) (.move 5 [47, 100])))

def exRulesCross : List Spec.RuleA :=
  [.acts 2 (.all 2) [.plain (.label 2 [[120]])] .pass,
   .acts 3 (.all 3) [.att 3 [.acts 4 (.body 4 { src := [51] }) [.plain (.exec 4 false false [[99]])] .none]] .none,
   .acts 5 (.all 5) [.plain (.move 5 [47, 100])] .none]

theorem exCross_model :
    (eval exEnvA exMsgA exTreeCross 0 exMsgA { ml := [], flags := MFlags.empty }).1 = .match ∧
    Proofs.mlKeysP (eval exEnvA exMsgA exTreeCross 0 exMsgA { ml := [], flags := MFlags.empty }).2.ml =
      [(.label, 2, 0)] := by
  simp only [exTreeCross, eval, exA_parts, eval.loopB]
  decide +kernel

/-- Without `crosses = false` the statement fails: documented = label and move, evaluator = label. -/
theorem C03_att_crosses_needed :
    Spec.parseBlockA exTreeCross = some exRulesCross ∧ Proofs.InDomainA exEnvA exTreeCross = true ∧
    Spec.evalBlockA exCtxA Proofs.actionErr exMsgA exRulesCross =
      { res := .match, actions := [(0, .label 2 [[120]]), (0, .move 5 [47, 100])], crosses := true, leaks := false } ∧
    (eval exEnvA exMsgA exTreeCross 0 exMsgA { ml := [], flags := MFlags.empty }).1 = .match ∧
    Proofs.mlKeysP (eval exEnvA exMsgA exTreeCross 0 exMsgA { ml := [], flags := MFlags.empty }).2.ml =
      [(.label, 2, 0)] := by
  refine ⟨?_, by decide +kernel, ?_, exCross_model.1, exCross_model.2⟩
  · simp [exTreeCross, exRulesCross, Spec.parseBlockA, Spec.parseRulesA, Spec.parseRuleA, Spec.parseChainA,
      Spec.parseActA, Spec.isCond, Spec.isCtlExpr, Spec.isActionExpr]
  · simp [exRulesCross, Spec.evalBlockA, Spec.evalRulesA, Spec.evalActsA, Spec.forParts, Spec.condValA,
      Spec.partIndex, exA_parts_root, exA_v_all, exA_v_body, Proofs.actionErr, PATH_MAX]

def exTreeLeak : Expr :=
  .block 1 (.or 1
    (.mtch 2 (.all 2) (.and 2 (.label 2 [[120]])
      (.attBlock 3 (.block 3 (.mtch 4 (.body 4 { src := [51] }) (.exec 4 false false [[99]]))))))
    (.mtch 5 (.all 5) (.move 5 [47, 100])))

def exRulesLeak : List Spec.RuleA :=
  [.acts 2 (.all 2) [.plain (.label 2 [[120]]),
     .att 3 [.acts 4 (.body 4 { src := [51] }) [.plain (.exec 4 false false [[99]])] .none]] .none,
   .acts 5 (.all 5) [.plain (.move 5 [47, 100])] .none]

theorem exLeak_model :
    (eval exEnvA exMsgA exTreeLeak 0 exMsgA { ml := [], flags := MFlags.empty }).1 = .match ∧
    Proofs.mlKeysP (eval exEnvA exMsgA exTreeLeak 0 exMsgA { ml := [], flags := MFlags.empty }).2.ml =
      [(.label, 2, 0), (.move, 5, 0)] := by
  simp only [exTreeLeak, eval, exA_parts, eval.loopB]
  decide +kernel

/-- Without `leaks = false` the statement fails: documented = move, evaluator = label and move. -/
theorem C03_att_leaks_needed :
    Spec.parseBlockA exTreeLeak = some exRulesLeak ∧ Proofs.InDomainA exEnvA exTreeLeak = true ∧
    Spec.evalBlockA exCtxA Proofs.actionErr exMsgA exRulesLeak =
      { res := .match, actions := [(0, .move 5 [47, 100])], crosses := false, leaks := true } ∧
    (eval exEnvA exMsgA exTreeLeak 0 exMsgA { ml := [], flags := MFlags.empty }).1 = .match ∧
    Proofs.mlKeysP (eval exEnvA exMsgA exTreeLeak 0 exMsgA { ml := [], flags := MFlags.empty }).2.ml =
      [(.label, 2, 0), (.move, 5, 0)] := by
  refine ⟨?_, by decide +kernel, ?_, exLeak_model.1, exLeak_model.2⟩
  · simp [exTreeLeak, exRulesLeak, Spec.parseBlockA, Spec.parseRulesA, Spec.parseRuleA, Spec.parseChainA,
      Spec.parseActA, Spec.isCond, Spec.isCtlExpr, Spec.isActionExpr]
  · simp [exRulesLeak, Spec.evalBlockA, Spec.evalRulesA, Spec.evalActsA, Spec.forParts, Spec.condValA,
      Spec.partIndex, exA_parts_root, exA_v_all, exA_v_body, Proofs.actionErr, PATH_MAX]

/-! ## `pass` / `break` anywhere in an action list

The grammar (`expractions` in parse.y) accepts `pass` and `break` at any position of an action list and
any number of times; `expr_validate` only rejects `discard` / `reject` next to another action.
mdsort.conf(5) lists both among the actions of a rule and states their meaning for the rule (`pass`:
"Continue evaluation of the current block of rules up to the next matching rule"; `break`: "Abort
evaluation of the current block of rules"), not for a position.  `Spec.parseBlockAW` reads a rule
`match c x1 ... xn` accordingly: its actions are ALL the `xi` other than `pass` / `break`, in the order
listed; it continues iff some `xi` is `pass`, leaves the block iff some `xi` is `break`; a list with both
has no documented meaning (`none`).

What the evaluator does (`expr_eval_and` walks the list left to right): `expr_eval_break` appends its
marker and returns MATCH, so everything after a `break` is still collected; `expr_eval_pass` appends
its marker and returns NO MATCH, which ends the walk: nothing after a `pass` is looked at.  The domain
`InDomainAW` therefore is `InDomainA` (which no longer relies on the shape function to keep `pass` /
`break` last) plus `ctlPlaced`: no action list of the tree is in one of three explicitly named classes -

* `Proofs.actionAfterPass`: something other than `pass` stands after a `pass` (silently ignored by the
  evaluator, accepted by `mdsort -n`: `C03_actions_after_pass_ignored`);
* `Proofs.attAfterBreak`: an attachment block stands after a `break` (`expr_eval_block`, evaluating the
  attachment block's rules on the first part, finds and removes the BREAK entry of the enclosing rule - the
  finding F11 in one more shape: `C03_att_after_break_consumes_break`);
* `Proofs.ctlMixed`: `pass` and `break` in one list (outside the specification).

Everything else the parser accepts is covered: `break` anywhere and repeated (`break label "x"`, `label
"x" break move "d" break`), attachment blocks before a `break`, `pass` repeated at the end. -/

/-- **The refinement theorem on the widened domain.**  For every environment, message and rule tree
that the grammar builds (`Spec.parseBlockAW`: `pass` / `break` anywhere in the action lists) and that is in
`InDomainAW`, whenever the documented evaluation records none of the two known deviations (`crosses` =
F11, `leaks` = F24): the evaluator returns the documented result and, on a match, the documented
actions - the same (type, line, part) other than move/flag in the same order, and the same last
move-or-flag. -/
theorem C03_eval_refines_spec_att_wide (env : Env) (root : Msg) (f : MFlags) (e : Expr) (rules : List Spec.RuleA)
    (hp : Spec.parseBlockAW e = some rules) (hd : Proofs.InDomainAW env e = true)
    (hc : (Spec.evalBlockA (Proofs.partCtx env root f) Proofs.actionErr root rules).crosses = false)
    (hl : (Spec.evalBlockA (Proofs.partCtx env root f) Proofs.actionErr root rules).leaks = false) :
    let o := Spec.evalBlockA (Proofs.partCtx env root f) Proofs.actionErr root rules
    let r := eval env root e 0 root { ml := [], flags := f }
    r.1 = o.res ∧
      (o.res = .match → Spec.planP (Proofs.mlKeysP r.2.ml) = Spec.planP (o.actions.filterMap Spec.actKeyP)) :=
  Proofs.att_eval_refines_spec_wide env root f e rules hp hd hc hl

/-- The same for trees without attachment nodes, over `Spec/Rules.lean` (`Spec.parseBlockW`, domain
`InDomainW` = `InDomain` and `ctlPlaced`); derived from the theorem above. -/
theorem C03_eval_refines_spec_wide (env : Env) (root : Msg) (f : MFlags) (e : Expr) (rules : List Spec.Rule)
    (hp : Spec.parseBlockW e = some rules) (hd : Proofs.InDomainW env e = true)
    (hl : (Spec.evalBlock (Proofs.valuation env root f) Proofs.actionErr rules).crosses = false) :
    let o := Spec.evalBlock (Proofs.valuation env root f) Proofs.actionErr rules
    let r := eval env root e 0 root { ml := [], flags := f }
    r.1 = o.res ∧ (o.res = .match → Spec.planOf (Proofs.mlKeys r.2.ml) = Spec.planOf (o.actions.filterMap Spec.actKey)) :=
  Proofs.att_eval_refines_spec_old_wide env root f e rules hp hd hl

/-- The theorems with the control action last are special cases: what `Spec.parseBlockA` /
`Spec.parseBlock` accept, `Spec.parseBlockAW` / `Spec.parseBlockW` accept with the same rules, and such a
tree is `ctlPlaced` (so `InDomainA` / `InDomain` give `InDomainAW` / `InDomainW`). -/
theorem C03_ctl_last_is_special_case (env : Env) (e : Expr) :
    (∀ rules, Spec.parseBlockA e = some rules → Spec.parseBlockAW e = some rules ∧
      (Proofs.InDomainA env e = true → Proofs.InDomainAW env e = true)) ∧
    (∀ rules, Spec.parseBlock e = some rules → Spec.parseBlockW e = some rules ∧
      (Proofs.InDomain env e = true → Proofs.InDomainW env e = true)) := by
  refine ⟨fun rules h => ?_, fun rules h => ?_⟩
  · obtain ⟨h1, h2⟩ := Proofs.att_parseBlockAW_of_parseBlockA h
    exact ⟨h1, fun hd => by simp [Proofs.InDomainAW, hd, h2]⟩
  · obtain ⟨h1, h2⟩ := Proofs.parseBlockW_of_parseBlock h
    exact ⟨h1, fun hd => by simp [Proofs.InDomainW, hd, h2]⟩

/-! ### Non-vacuity: `break` first, an action behind it, `break` again; `pass` twice

The shape of `tests/action-break.sh` "label, pass, label, break and move" with the control actions
moved around (and the nested block first: an attachment block evaluated while a `pass` is pending is the
recorded deviation `crosses`), on the two-part message; `/2/` matches the second part only.

```
match all {
    match all attachment { match body /2/ exec "c" } break label "two" break
}
match all label "one" pass pass
match all move "/d"
```
In the nested block the attachment block matches (second part), `break` leaves the block with the exec
and the label pending; the second rule collects its label and continues; the third rule matches. -/

def exTreeW : Expr :=
  .block 1 (.or 1 (.or 1
    (.mtch 2 (.all 2) (.block 2
      (.mtch 3 (.all 3) (.and 3 (.and 3 (.and 3
        (.attBlock 3 (.block 3 (.mtch 4 (.body 4 { src := [50] }) (.exec 4 false false [[99]]))))
        (.brk 3)) (.label 3 [[116]])) (.brk 3)))))
    (.mtch 5 (.all 5) (.and 5 (.and 5 (.label 5 [[111]]) (.pass 5)) (.pass 5))))
    (.mtch 6 (.all 6) (.move 6 [47, 100])))

def exRulesW : List Spec.RuleA :=
  [.blk 2 (.all 2)
     [.acts 3 (.all 3)
        [.att 3 [.acts 4 (.body 4 { src := [50] }) [.plain (.exec 4 false false [[99]])] .none],
         .plain (.label 3 [[116]])] .brk],
   .acts 5 (.all 5) [.plain (.label 5 [[111]])] .pass,
   .acts 6 (.all 6) [.plain (.move 6 [47, 100])] .none]

theorem exW_parse : Spec.parseBlockAW exTreeW = some exRulesW := by
  simp [exTreeW, exRulesW, Spec.parseBlockAW, Spec.parseRulesAW, Spec.parseRuleAW, Spec.parseChainAW, Spec.parseActAW,
    Spec.ctlOfList, Spec.andChain, Spec.isPassExpr, Spec.isBrkExpr, Spec.isCond, Spec.isCtlExpr, Spec.isActionExpr]

/-- Outside the old shape: the control action is not last. -/
theorem exW_not_ctl_last : Spec.parseBlockA exTreeW = none := by
  simp [exTreeW, Spec.parseBlockA, Spec.parseRulesA, Spec.parseRuleA, Spec.parseChainA, Spec.parseActA,
    Spec.isCond, Spec.isCtlExpr, Spec.isActionExpr]

theorem exW_inDomain : Proofs.InDomainAW exEnvA exTreeW = true := by decide +kernel

theorem exA_v_body4 :
    exCtxA.v 1 exP1 (.body 4 { src := [50] }) = .nomatch ∧ exCtxA.v 2 exP2 (.body 4 { src := [50] }) = .match := by
  simp only [exCtxA, Proofs.partCtx, eval]
  decide +kernel

theorem exW_outcome : Spec.evalBlockA exCtxA Proofs.actionErr exMsgA exRulesW =
    { res := .match,
      actions := [(2, .exec 4 false false [[99]]), (0, .label 3 [[116]]), (0, .label 5 [[111]]), (0, .move 6 [47, 100])],
      crosses := false, leaks := false } := by
  simp [exRulesW, Spec.evalBlockA, Spec.evalRulesA, Spec.evalActsA, Spec.forParts, Spec.condValA,
    Spec.partIndex, exA_parts_root, exA_v_all, exA_v_body4, Proofs.actionErr, PATH_MAX]

/-- The hypotheses of `C03_eval_refines_spec_att_wide` are satisfiable on a tree that is NOT in the old
shape, and the theorem pins the evaluator's result and plan. -/
theorem C03_wide_nonvacuous :
    Spec.parseBlockAW exTreeW = some exRulesW ∧ Spec.parseBlockA exTreeW = none ∧
    Proofs.InDomainAW exEnvA exTreeW = true ∧
    (Spec.evalBlockA exCtxA Proofs.actionErr exMsgA exRulesW).crosses = false ∧
    (Spec.evalBlockA exCtxA Proofs.actionErr exMsgA exRulesW).leaks = false ∧
    (eval exEnvA exMsgA exTreeW 0 exMsgA { ml := [], flags := MFlags.empty }).1 = .match ∧
    Spec.planP (Proofs.mlKeysP (eval exEnvA exMsgA exTreeW 0 exMsgA { ml := [], flags := MFlags.empty }).2.ml) =
      ([(.exec, 4, 2), (.label, 3, 0), (.label, 5, 0)], some (.move, 6, 0)) := by
  have hc : (Spec.evalBlockA exCtxA Proofs.actionErr exMsgA exRulesW).crosses = false := by rw [exW_outcome]
  have hl : (Spec.evalBlockA exCtxA Proofs.actionErr exMsgA exRulesW).leaks = false := by rw [exW_outcome]
  have h := C03_eval_refines_spec_att_wide exEnvA exMsgA MFlags.empty exTreeW exRulesW exW_parse exW_inDomain hc hl
  simp only [exW_outcome] at h
  refine ⟨exW_parse, exW_not_ctl_last, exW_inDomain, hc, hl, h.1, ?_⟩
  rw [h.2 trivial]
  decide

/-- The same tree evaluated directly (no theorem involved): the BREAK entries are gone, the label behind
the first `break` is in the list. -/
example :
    Proofs.mlKeysP (eval exEnvA exMsgA exTreeW 0 exMsgA { ml := [], flags := MFlags.empty }).2.ml =
      [(.exec, 4, 2), (.label, 3, 0), (.label, 5, 0), (.move, 6, 0)] := by
  simp only [exTreeW, eval, exA_parts, eval.loopB]
  decide +kernel

/-- Without attachment nodes (`C03_eval_refines_spec_wide`): `match all break label "x" break` in a nested
block, then a rule that matches; `tests/action-break.sh` "move, break and move" with the `break` first. -/
def exTreeW0 : Expr :=
  .block 1 (.or 1
    (.mtch 2 (.all 2) (.block 2 (.mtch 3 (.new 3) (.and 3 (.and 3 (.brk 3) (.move 3 [47, 97])) (.brk 3)))))
    (.mtch 4 (.all 4) (.move 4 [47, 98])))

def exRulesW0 : List Spec.Rule :=
  [.blk 2 (.all 2) [.acts 3 (.new 3) [.move 3 [47, 97]] .brk], .acts 4 (.all 4) [.move 4 [47, 98]] .none]

theorem C03_wide_nonvacuous_plain :
    Spec.parseBlockW exTreeW0 = some exRulesW0 ∧ Spec.parseBlock exTreeW0 = none ∧
    Proofs.InDomainW exEnv exTreeW0 = true ∧
    Spec.evalBlock exVal Proofs.actionErr exRulesW0 =
      { res := .match, actions := [.move 3 [47, 97], .move 4 [47, 98]], crosses := false } ∧
    (eval exEnv exMsg exTreeW0 0 exMsg { ml := [], flags := MFlags.empty }).1 = .match ∧
    Spec.planOf (Proofs.mlKeys (eval exEnv exMsg exTreeW0 0 exMsg { ml := [], flags := MFlags.empty }).2.ml) =
      ([], some (.move, 4)) := by
  have hp : Spec.parseBlockW exTreeW0 = some exRulesW0 := by
    simp [exTreeW0, exRulesW0, Spec.parseBlockW, Spec.parseRulesW, Spec.parseRuleW, Spec.splitActsW, Spec.ctlOfList,
      Spec.andChain, Spec.isPassExpr, Spec.isBrkExpr, Spec.isCond, Spec.isCtlExpr, Spec.isActionExpr]
  have hno : Spec.parseBlock exTreeW0 = none := by
    simp [exTreeW0, Spec.parseBlock, Spec.parseRules, Spec.parseRule, Spec.splitActs, Spec.andChain, Spec.isCond,
      Spec.isCtlExpr, Spec.isActionExpr]
  have hd : Proofs.InDomainW exEnv exTreeW0 = true := by decide +kernel
  have ho : Spec.evalBlock exVal Proofs.actionErr exRulesW0 =
      { res := .match, actions := [.move 3 [47, 97], .move 4 [47, 98]], crosses := false } := by
    simp [exRulesW0, Spec.evalBlock, Spec.evalRules, Spec.condVal, ex_v_all, ex_v_new, Proofs.actionErr, PATH_MAX]
  have hc : (Spec.evalBlock exVal Proofs.actionErr exRulesW0).crosses = false := by rw [ho]
  have h := C03_eval_refines_spec_wide exEnv exMsg MFlags.empty exTreeW0 exRulesW0 hp hd hc
  simp only [ho] at h
  refine ⟨hp, hno, hd, ho, h.1, ?_⟩
  rw [h.2 trivial]
  decide

/-! `tests/action-break.sh` "label, pass, label, break and move", with the `break` first and the `pass` doubled. -/
def exTreeLPLBM : Expr :=
  .block 1 (.or 1 (.or 1
    (.mtch 2 (.all 2) (.and 2 (.and 2 (.label 2 [[111]]) (.pass 2)) (.pass 2)))
    (.mtch 3 (.all 3) (.block 3 (.mtch 4 (.all 4) (.and 4 (.brk 4) (.label 4 [[116]]))))))
    (.mtch 5 (.all 5) (.move 5 [47, 100])))

def exRulesLPLBM : List Spec.Rule :=
  [.acts 2 (.all 2) [.label 2 [[111]]] .pass,
   .blk 3 (.all 3) [.acts 4 (.all 4) [.label 4 [[116]]] .brk],
   .acts 5 (.all 5) [.move 5 [47, 100]] .none]

theorem C03_wide_label_pass_label_break_move :
    Spec.parseBlockW exTreeLPLBM = some exRulesLPLBM ∧ Spec.parseBlock exTreeLPLBM = none ∧
    Proofs.InDomainW exEnv exTreeLPLBM = true ∧
    Spec.evalBlock exVal Proofs.actionErr exRulesLPLBM =
      { res := .match, actions := [.label 2 [[111]], .label 4 [[116]], .move 5 [47, 100]], crosses := false } ∧
    (eval exEnv exMsg exTreeLPLBM 0 exMsg { ml := [], flags := MFlags.empty }).1 = .match ∧
    Spec.planOf (Proofs.mlKeys (eval exEnv exMsg exTreeLPLBM 0 exMsg { ml := [], flags := MFlags.empty }).2.ml) =
      ([(.label, 2), (.label, 4)], some (.move, 5)) := by
  have hp : Spec.parseBlockW exTreeLPLBM = some exRulesLPLBM := by
    simp [exTreeLPLBM, exRulesLPLBM, Spec.parseBlockW, Spec.parseRulesW, Spec.parseRuleW, Spec.splitActsW, Spec.ctlOfList,
      Spec.andChain, Spec.isPassExpr, Spec.isBrkExpr, Spec.isCond, Spec.isCtlExpr, Spec.isActionExpr]
  have hno : Spec.parseBlock exTreeLPLBM = none := by
    simp [exTreeLPLBM, Spec.parseBlock, Spec.parseRules, Spec.parseRule, Spec.splitActs, Spec.andChain, Spec.isCond,
      Spec.isCtlExpr, Spec.isActionExpr]
  have hd : Proofs.InDomainW exEnv exTreeLPLBM = true := by decide +kernel
  have ho : Spec.evalBlock exVal Proofs.actionErr exRulesLPLBM =
      { res := .match, actions := [.label 2 [[111]], .label 4 [[116]], .move 5 [47, 100]], crosses := false } := by
    simp [exRulesLPLBM, Spec.evalBlock, Spec.evalRules, Spec.condVal, ex_v_all, Proofs.actionErr, PATH_MAX]
  have hc : (Spec.evalBlock exVal Proofs.actionErr exRulesLPLBM).crosses = false := by rw [ho]
  have h := C03_eval_refines_spec_wide exEnv exMsg MFlags.empty exTreeLPLBM exRulesLPLBM hp hd hc
  simp only [ho] at h
  refine ⟨hp, hno, hd, ho, h.1, ?_⟩
  rw [h.2 trivial]
  decide

/-! The README configuration (first block).  `h "x"` = `ofString "x"`. -/
def rdEnv : Env := { exEnvA with path := ofString "/m/cur/1:2,S" }

def rdTree (withIsdir : Bool) : Expr :=
  let r1 : Expr := .mtch 3 (.and 3 (.header 3 [ofString "From"] { src := ofString "notifications@github.com" })
      (.header 4 [ofString "Subject"] { src := ofString "mdsort" })) (.move 4 (ofString "/h/Maildir/mdsort"))
  let r2 : Expr := .mtch 7 (.header 7 [ofString "Cc", ofString "To"] { src := ofString "(bugs|misc|ports|tech)@openbsd.org", icase := true })
      (.move 8 (ofString "/h/Maildir/openbsd-\\1"))
  let r3 : Expr := .mtch 11 (.header 11 [ofString "To"] { src := ofString "user\\+(.+)@example.com", lcase := true })
      (.label 11 [ofString "\\1"])
  let r4 : Expr := .mtch 15 (.and 15 (.header 15 [ofString "To"] { src := ofString "user\\+(.+)@example.com", lcase := true })
      (.stat 16 (ofString "/h/Maildir/\\1"))) (.move 16 (ofString "/h/Maildir/\\1"))
  let r5 : Expr := .mtch 19 (.all 19) (.attBlock 19 (.block 19
      (.mtch 20 (.header 20 [ofString "Content-Type"] { src := ofString "text/calendar" })
        (.exec 21 true true [ofString "icalendar2calendar"]))))
  let r6 : Expr := .mtch 25 (.neg 25 (.new 25)) (.move 25 (ofString "/h/Maildir/Archive"))
  if withIsdir then .block 2 (.or 2 (.or 2 (.or 2 (.or 2 (.or 2 r1 r2) r3) r4) r5) r6)
  else .block 2 (.or 2 (.or 2 (.or 2 (.or 2 r1 r2) r3) r5) r6)

def rdRules : List Spec.RuleA :=
  [.acts 3 (.and 3 (.header 3 [ofString "From"] { src := ofString "notifications@github.com" })
      (.header 4 [ofString "Subject"] { src := ofString "mdsort" })) [.plain (.move 4 (ofString "/h/Maildir/mdsort"))] .none,
   .acts 7 (.header 7 [ofString "Cc", ofString "To"] { src := ofString "(bugs|misc|ports|tech)@openbsd.org", icase := true })
      [.plain (.move 8 (ofString "/h/Maildir/openbsd-\\1"))] .none,
   .acts 11 (.header 11 [ofString "To"] { src := ofString "user\\+(.+)@example.com", lcase := true })
      [.plain (.label 11 [ofString "\\1"])] .none,
   .acts 19 (.all 19) [.att 19
      [.acts 20 (.header 20 [ofString "Content-Type"] { src := ofString "text/calendar" })
        [.plain (.exec 21 true true [ofString "icalendar2calendar"])] .none]] .none,
   .acts 25 (.neg 25 (.new 25)) [.plain (.move 25 (ofString "/h/Maildir/Archive"))] .none]

abbrev rdCtx := Proofs.partCtx rdEnv exMsgA MFlags.empty

theorem rd_v :
    rdCtx.v 0 exMsgA (.header 3 [ofString "From"] { src := ofString "notifications@github.com" }) = .nomatch ∧
    rdCtx.v 0 exMsgA (.header 7 [ofString "Cc", ofString "To"] { src := ofString "(bugs|misc|ports|tech)@openbsd.org", icase := true }) = .nomatch ∧
    rdCtx.v 0 exMsgA (.header 11 [ofString "To"] { src := ofString "user\\+(.+)@example.com", lcase := true }) = .nomatch ∧
    rdCtx.v 1 exP1 (.header 20 [ofString "Content-Type"] { src := ofString "text/calendar" }) = .nomatch ∧
    rdCtx.v 2 exP2 (.header 20 [ofString "Content-Type"] { src := ofString "text/calendar" }) = .nomatch ∧
    rdCtx.v 0 exMsgA (.new 25) = .nomatch ∧ (∀ l, rdCtx.v 0 exMsgA (.all l) = .match) := by
  simp only [rdCtx, Proofs.partCtx, eval]
  refine ⟨by decide +kernel, by decide +kernel, by decide +kernel, by decide +kernel, by decide +kernel, by decide +kernel,
    fun _ => trivial⟩

/-- The README configuration (first block, `~` = `/h`) without its rule `match header "To" /user\\+(.+)@example.com/l
and isdirectory "~/Maildir/\\1" move "~/Maildir/\\1"` is inside the domain (with that rule it is not: the string of
the `isdirectory` condition holds a back-reference, `wfTreeA`); on the two-part message, read and in `cur`, no
header rule and no attachment matches, the last rule archives it. -/
theorem C03_readme_nonvacuous :
    Spec.parseBlockAW (rdTree false) = some rdRules ∧ Proofs.InDomainAW rdEnv (rdTree false) = true ∧
    Proofs.InDomainA rdEnv (rdTree true) = false ∧
    (Spec.evalBlockA rdCtx Proofs.actionErr exMsgA rdRules).res = .match ∧
    (Spec.evalBlockA rdCtx Proofs.actionErr exMsgA rdRules).crosses = false ∧
    (Spec.evalBlockA rdCtx Proofs.actionErr exMsgA rdRules).leaks = false ∧
    (eval rdEnv exMsgA (rdTree false) 0 exMsgA { ml := [], flags := MFlags.empty }).1 = .match ∧
    Spec.planP (Proofs.mlKeysP (eval rdEnv exMsgA (rdTree false) 0 exMsgA { ml := [], flags := MFlags.empty }).2.ml) =
      ([], some (.move, 25, 0)) := by
  have hp : Spec.parseBlockAW (rdTree false) = some rdRules := by
    simp [rdTree, rdRules, Spec.parseBlockAW, Spec.parseRulesAW, Spec.parseRuleAW, Spec.parseChainAW, Spec.parseActAW,
      Spec.ctlOfList, Spec.andChain, Spec.isPassExpr, Spec.isBrkExpr, Spec.isCond, Spec.isCtlExpr, Spec.isActionExpr]
  have hd : Proofs.InDomainAW rdEnv (rdTree false) = true := by decide +kernel
  have hparts : rdCtx.parts exMsgA = some [exP1, exP2] := exA_parts
  have ho : Spec.evalBlockA rdCtx Proofs.actionErr exMsgA rdRules =
      { res := .match, actions := [(0, .move 25 (ofString "/h/Maildir/Archive"))], crosses := false, leaks := false } := by
    have hlen : ¬ 4096 ≤ List.length (ofString "/h/Maildir/Archive") := by decide +kernel
    simp [rdRules, Spec.evalBlockA, Spec.evalRulesA, Spec.evalActsA, Spec.forParts, Spec.condValA, Spec.partIndex,
      hparts, rd_v, Proofs.actionErr, PATH_MAX, hlen]
  have hc : (Spec.evalBlockA rdCtx Proofs.actionErr exMsgA rdRules).crosses = false := by rw [ho]
  have hl : (Spec.evalBlockA rdCtx Proofs.actionErr exMsgA rdRules).leaks = false := by rw [ho]
  have h := C03_eval_refines_spec_att_wide rdEnv exMsgA MFlags.empty (rdTree false) rdRules hp hd hc hl
  simp only [ho] at h
  refine ⟨hp, hd, by decide +kernel, by rw [ho], hc, hl, h.1, ?_⟩
  rw [h.2 trivial]
  decide

/-! ### The three classes outside `ctlPlaced` are real

(1) `actionAfterPass`.  `match all label "x" pass move "/y"`: documented = the rule's actions are the label
and the move, and evaluation continues; the evaluator stops walking the action list at `pass`: the move
is never evaluated.  Real binary (mdsort 11.5.1 with the repairs of 9.2): exit 0, the message stays in
its maildir with `X-Label: x`; `mdsort -n` accepts the file without a word. -/

def exTreeAfterPass : Expr :=
  .block 1 (.mtch 2 (.all 2) (.and 2 (.and 2 (.label 2 [[120]]) (.pass 2)) (.move 2 [47, 121])))

def exRulesAfterPass : List Spec.RuleA :=
  [.acts 2 (.all 2) [.plain (.label 2 [[120]]), .plain (.move 2 [47, 121])] .pass]

/-- An action after `pass` in the same list is silently ignored: the tree is what the grammar builds
and in `InDomainA`, its only defect is `actionAfterPass`; documented = match with label and move,
evaluator = match with the label only. -/
theorem C03_actions_after_pass_ignored :
    Spec.parseBlockAW exTreeAfterPass = some exRulesAfterPass ∧ Proofs.InDomainA exEnvA exTreeAfterPass = true ∧
    Proofs.actionAfterPass [.label 2 [[120]], .pass 2, .move 2 [47, 121]] = true ∧
    Proofs.ctlPlaced exTreeAfterPass = false ∧
    Spec.evalBlockA exCtxA Proofs.actionErr exMsgA exRulesAfterPass =
      { res := .match, actions := [(0, .label 2 [[120]]), (0, .move 2 [47, 121])], crosses := false, leaks := false } ∧
    (eval exEnvA exMsgA exTreeAfterPass 0 exMsgA { ml := [], flags := MFlags.empty }).1 = .match ∧
    Proofs.mlKeysP (eval exEnvA exMsgA exTreeAfterPass 0 exMsgA { ml := [], flags := MFlags.empty }).2.ml =
      [(.label, 2, 0)] := by
  refine ⟨?_, by decide +kernel, by decide +kernel, by decide +kernel, ?_, ?_, ?_⟩
  · simp [exTreeAfterPass, exRulesAfterPass, Spec.parseBlockAW, Spec.parseRulesAW, Spec.parseRuleAW, Spec.parseChainAW,
      Spec.parseActAW, Spec.ctlOfList, Spec.andChain, Spec.isPassExpr, Spec.isBrkExpr, Spec.isCond, Spec.isCtlExpr,
      Spec.isActionExpr]
  · simp [exRulesAfterPass, Spec.evalBlockA, Spec.evalRulesA, Spec.evalActsA, Spec.condValA, exA_v_all,
      Proofs.actionErr, PATH_MAX]
  · simp only [exTreeAfterPass, eval]; decide +kernel
  · simp only [exTreeAfterPass, eval]; decide +kernel

/-- Hence the statement of `C03_eval_refines_spec_att_wide` without `ctlPlaced` (domain `InDomainA` only)
is false. -/
theorem C03_eval_refines_spec_att_wide_unrestricted_false :
    ¬ (∀ (env : Env) (root : Msg) (f : MFlags) (e : Expr) (rules : List Spec.RuleA),
      Spec.parseBlockAW e = some rules → Proofs.InDomainA env e = true →
      (Spec.evalBlockA (Proofs.partCtx env root f) Proofs.actionErr root rules).crosses = false →
      (Spec.evalBlockA (Proofs.partCtx env root f) Proofs.actionErr root rules).leaks = false →
      (Spec.evalBlockA (Proofs.partCtx env root f) Proofs.actionErr root rules).res = .match →
      Spec.planP (Proofs.mlKeysP (eval env root e 0 root { ml := [], flags := f }).2.ml) =
        Spec.planP ((Spec.evalBlockA (Proofs.partCtx env root f) Proofs.actionErr root rules).actions.filterMap
          Spec.actKeyP)) := by
  intro h
  obtain ⟨hp, hd, _, _, ho, _, hk⟩ := C03_actions_after_pass_ignored
  have := h exEnvA exMsgA MFlags.empty exTreeAfterPass exRulesAfterPass hp hd (by rw [ho]) (by rw [ho]) (by rw [ho])
  rw [hk, ho] at this
  revert this
  decide

/-! (2) `attAfterBreak`.  `match all break attachment { match body /2/ exec "c" }` then `match all move
"/d"` on the two-part message: documented = the attachment block matches (second part), the rule
leaves the root block: no match, nothing is done.  The evaluator: on the first part `expr_eval_block`
finds the BREAK entry of the enclosing rule, removes it and reports no match for the part; the second
part matches, the rule matches, nothing is left of the `break`: the command runs.  (With a block that
matches on no part the rule "does not match", the next rule files the message and the exec of the
abandoned rule - if any was collected - runs too: replayed on the real binary with `body /alpha/`,
exit 0, command executed, message moved.) -/

def exTreeAttAfterBrk : Expr :=
  .block 1 (.or 1
    (.mtch 2 (.all 2) (.and 2 (.brk 2)
      (.attBlock 2 (.block 2 (.mtch 3 (.body 3 { src := [50] }) (.exec 3 false false [[99]]))))))
    (.mtch 4 (.all 4) (.move 4 [47, 100])))

def exRulesAttAfterBrk : List Spec.RuleA :=
  [.acts 2 (.all 2) [.att 2 [.acts 3 (.body 3 { src := [50] }) [.plain (.exec 3 false false [[99]])] .none]] .brk,
   .acts 4 (.all 4) [.plain (.move 4 [47, 100])] .none]

theorem C03_att_after_break_consumes_break :
    Spec.parseBlockAW exTreeAttAfterBrk = some exRulesAttAfterBrk ∧ Proofs.InDomainA exEnvA exTreeAttAfterBrk = true ∧
    Proofs.attAfterBreak [.brk 2, .attBlock 2 (.block 2 (.mtch 3 (.body 3 { src := [50] }) (.exec 3 false false [[99]])))]
      = true ∧
    Proofs.ctlPlaced exTreeAttAfterBrk = false ∧
    Spec.evalBlockA exCtxA Proofs.actionErr exMsgA exRulesAttAfterBrk =
      { res := .nomatch, actions := [], crosses := false, leaks := false } ∧
    (eval exEnvA exMsgA exTreeAttAfterBrk 0 exMsgA { ml := [], flags := MFlags.empty }).1 = .match ∧
    Proofs.mlKeysP (eval exEnvA exMsgA exTreeAttAfterBrk 0 exMsgA { ml := [], flags := MFlags.empty }).2.ml =
      [(.exec, 3, 2)] := by
  refine ⟨?_, by decide +kernel, by decide +kernel, by decide +kernel, ?_, ?_, ?_⟩
  · simp [exTreeAttAfterBrk, exRulesAttAfterBrk, Spec.parseBlockAW, Spec.parseRulesAW, Spec.parseRuleAW,
      Spec.parseChainAW, Spec.parseActAW, Spec.ctlOfList, Spec.andChain, Spec.isPassExpr, Spec.isBrkExpr, Spec.isCond,
      Spec.isCtlExpr, Spec.isActionExpr]
  · simp [exRulesAttAfterBrk, Spec.evalBlockA, Spec.evalRulesA, Spec.evalActsA, Spec.forParts, Spec.condValA,
      Spec.partIndex, exA_parts_root, exA_v_all, exA_v_body, Proofs.actionErr]
  · simp only [exTreeAttAfterBrk, eval, exA_parts, eval.loopB]; decide +kernel
  · simp only [exTreeAttAfterBrk, eval, exA_parts, eval.loopB]; decide +kernel

/-! (3) `ctlMixed`: no documented meaning, the shape function refuses the list.  What the evaluator does
is recorded as an observation: with `pass` first the `break` is never looked at (the rule behaves as
`label "x" pass`); with `break` first both markers are appended, `expr_eval_block` removes the BREAK
entries only, and the PASS entry stays behind for the enclosing block - in a nested block the label is
executed although the block was left by `break` and nothing else matched (replayed on the real binary:
`match all { match all label "x" break pass }` labels the message, `... label "x" break }` does not). -/

example :
    Spec.parseBlockAW (.block 1 (.mtch 2 (.all 2) (.and 2 (.and 2 (.label 2 [[120]]) (.pass 2)) (.brk 2)))) = none ∧
    Proofs.ctlMixed [.label 2 [[120]], .pass 2, .brk 2] = true ∧
    (eval exEnvA exMsgA (.block 1 (.mtch 2 (.all 2) (.block 2
        (.mtch 3 (.all 3) (.and 3 (.and 3 (.label 3 [[120]]) (.brk 3)) (.pass 3)))))) 0 exMsgA
      { ml := [], flags := MFlags.empty }).1 = .match ∧
    (eval exEnvA exMsgA (.block 1 (.mtch 2 (.all 2) (.block 2
        (.mtch 3 (.all 3) (.and 3 (.label 3 [[120]]) (.brk 3)))))) 0 exMsgA
      { ml := [], flags := MFlags.empty }).1 = .nomatch := by
  refine ⟨?_, by decide +kernel, ?_, ?_⟩
  · simp [Spec.parseBlockAW, Spec.parseRulesAW, Spec.parseRuleAW, Spec.parseChainAW, Spec.parseActAW, Spec.ctlOfList,
      Spec.andChain, Spec.isPassExpr, Spec.isBrkExpr, Spec.isCond, Spec.isCtlExpr, Spec.isActionExpr]
  · simp only [eval]; decide +kernel
  · simp only [eval]; decide +kernel

/-- `old` is inside the domain as long as no `flags` action of the tree sets `S`
(`match old flags "T" move "/x"`). -/
theorem ex_old_inDomain :
    Proofs.InDomain exEnv (.block 1 (.mtch 2 (.old 2) (.and 2 (.flags 2 [84]) (.move 2 [47, 120])))) = true := by
  decide +kernel

/-- **Block selection** (`maildir_skip`).  A configured path is selected iff `-` was given and the path
is `/dev/stdin`, or `-` was not given and the path is anything else ... -/
theorem C03_block_selected_iff (env : PEnv) (p : Bytes) :
    Proofs.pathSelected env p = true ↔
      (env.stdinMode = true ∧ p = ofString "/dev/stdin") ∨ (env.stdinMode = false ∧ p ≠ ofString "/dev/stdin") :=
  Proofs.selected_iff env p

/-- ... and for every environment, oracle, configuration, file contents and standard input, `mainP` is
the same program (the same tree of calls - hence the same calls for every behaviour of the world -, the
same exit status, log and final state) as on the configuration from which every unselected path was
removed (`selectPaths`), and as on the one from which in addition every block left without a path was
removed (`selectBlocks`): an unselected block is never opened, walked or evaluated. -/
theorem C03_block_selection (env : PEnv) (orc : EvalOracles) (confOk : Bool) (conf : List ConfBlock) (files : Files)
    (input : Bytes) :
    mainP env orc confOk conf files input = mainP env orc confOk (Proofs.selectPaths env conf) files input ∧
    mainP env orc confOk conf files input = mainP env orc confOk (Proofs.selectBlocks env conf) files input :=
  Proofs.block_selection env orc confOk conf files input

/-! Non-vacuity: `stdin { .. }  maildir "/m" "/dev/stdin" { .. }` without `-` and with `-`. -/
def exPEnv (stdin : Bool) : PEnv :=
  { now := 0, pid := 1, host := [104], random := 0, tmpdir := [47, 116], home := [47, 104], confpath := [47, 99],
    dryrun := false, syntaxOnly := false, stdinMode := stdin }

def exConf : List ConfBlock :=
  [{ paths := [ofString "/dev/stdin"], expr := .all 1 }, { paths := [[47, 109], ofString "/dev/stdin"], expr := .all 2 }]

example : (Proofs.selectPaths (exPEnv false) exConf).map (·.paths) = [[], [[47, 109]]] := by decide +kernel
example : (Proofs.selectBlocks (exPEnv false) exConf).map (·.paths) = [[[47, 109]]] := by decide +kernel
example : (Proofs.selectBlocks (exPEnv true) exConf).map (·.paths) =
    [[ofString "/dev/stdin"], [ofString "/dev/stdin"]] := by decide +kernel

/-! ## No match, no effect (world level)

`processMessage` is `message_parse`, `expr_eval`, `matches_interpolate`, `matches_inspect` /
`matches_exec`, `message_free` of the loop in `main`.  `runOracle orcl` runs it against ARBITRARY call
results, so the statements hold for every behaviour of the file system, every fault and every
interleaving with other processes.

Evaluation is part of the run: `expr_eval` asks the operating system for `command` conditions (util.c
`exec(argv, -1)`: `open("/dev/null")`, `fork`, `waitpid`, `close`), `isdirectory` (`stat`) and the file-time
`date` conditions (`stat` of the message's path) - `Model.evalP` (Model/EvalP.lean).  `Proofs.Own.runO orcl p j`
is `runOracle` started at call index `j` (value, calls, next index). -/

/-- **Which calls evaluation issues** (`C03_evaluation_calls`).  For every rule tree, message and environment:
(1) every call of `evalP` is `open("/dev/null")`, `fork`, `waitpid`, `close` - only if the tree has a `command`
condition - or `stat` - only if it has an `isdirectory` or file-time `date` condition (`Proofs.EvalCallOf`); none is
mutating;
(2) **replay**: whatever the calls return, the run of `evalP` is the run of asking, in order, exactly the questions of
the pure evaluation `evalR` on the answers the world gave (`Ask.answers`), every question of that evaluation was
answered, and the value of `evalP` is that evaluation's value;
(3) a tree with none of the three conditions issues no call: `evalP` is `Model.eval`. -/
theorem C03_evaluation_calls (env : Env) (e : Expr) (m : Msg) (fl : MFlags) :
    Proofs.World.Calls (Proofs.EvalCallOf e) (evalP env e m fl) ∧
    (∀ c, Proofs.EvalCallOf e c → c.mutating = false) ∧
    (∀ (orcl : Nat → Call → Res) (i : Nat),
      let as := (evalTop env e m fl).answers orcl i
      (Proofs.Own.runO orcl (evalP env e m fl) i).1 = (evalR env e m fl as).1 ∧
      (evalR env e m fl as).2.length = as.length ∧
      Proofs.Own.runO orcl (askAll (evalR env e m fl as).2) i =
        (as, (Proofs.Own.runO orcl (evalP env e m fl) i).2.1, (Proofs.Own.runO orcl (evalP env e m fl) i).2.2)) ∧
    (Proofs.asksFree e = true →
      evalP (Proofs.noSys env) e m fl = .ret (eval env m e 0 m { ml := [], flags := fl })) :=
  ⟨Proofs.evalP_calls_of env e m fl, fun _ h => h.evalCall.quiet, fun orcl i => Proofs.evalP_replay env e m fl orcl i,
    fun h => Proofs.evalP_asksFree env e h m fl⟩

/-- Non-vacuity of (2): `match command "t" move "/d"` against results that let every call succeed with status 0 asks
one question, `command ["t"]`, gets the answer "status 0", and matches; the calls are those of `exec(argv, -1)`. -/
example :
    let e : Expr := .mtch 1 (.command 1 [[116]]) (.move 1 [47, 100])
    let env := Proofs.msgEnv Proofs.examplePEnv Proofs.exampleOracles [47, 109, 47, 110, 101, 119, 47, 49]
    let m := parseMessage [83, 117, 98, 106, 101, 99, 116, 58, 32, 120, 10, 10, 98, 10]
    (evalTop env e m MFlags.empty).answers (fun _ _ => .ok 0) 0 = [.status 0] ∧
    (evalR env e m MFlags.empty [.status 0]).2 = [.command [[116]]] ∧
    (evalR env e m MFlags.empty [.status 0]).1.1 = .match ∧
    ((Proofs.Own.runO (fun _ _ => .ok 0) (evalP env e m MFlags.empty) 0).2.1.map (·.1)) =
      [.openPath (ofString "/dev/null"), .fork [[116]] 0, .waitpid, .close 0] := by
  simp only [evalP, evalR, evalTop, evalT, eval]
  decide +kernel

/-- **Evaluation inside a run is `Model.eval`** whenever the answers the world gave to equal questions read the same
(`Proofs.Consistent`; in particular whenever no question is asked twice): the value of `evalP` is `eval` with the pure
oracles these answers define (`Proofs.envOf`) - so `C03_eval_refines_spec_att`, `C10_header_cond`, `C11_*`,
`C12_*`, `C15_*` (all stated for arbitrary oracles) hold for the evaluation of every message in every run. -/
theorem C03_world_eval_is_eval (env : Env) (e : Expr) (m : Msg) (fl : MFlags)
    (orcl : Nat → Call → Res) (i : Nat)
    (hc : Proofs.Consistent (evalR (Proofs.noSys env) e m fl ((evalTop (Proofs.noSys env) e m fl).answers orcl i)).2
      ((evalTop (Proofs.noSys env) e m fl).answers orcl i)) :
    (Proofs.Own.runO orcl (evalP (Proofs.noSys env) e m fl) i).1 =
      eval (Proofs.envOf env (evalR (Proofs.noSys env) e m fl ((evalTop (Proofs.noSys env) e m fl).answers orcl i)).2
        ((evalTop (Proofs.noSys env) e m fl).answers orcl i)) m e 0 m { ml := [], flags := fl } :=
  Proofs.evalP_eq_eval env e m fl orcl i hc

/-- Non-vacuity: a single question is always consistent. -/
example (q : Req) (a : SysAns) : Proofs.Consistent [q] [a] := by
  intro j k q1 q2 a1 a2 h1 h2 h3 h4 _
  have hj : j = 0 := by
    rcases j with _ | j
    · rfl
    · simp at h1
  have hk : k = 0 := by
    rcases k with _ | k
    · rfl
    · simp at h2
  subst hj hk
  simp only [List.getElem?_cons_zero, Option.some.injEq] at h1 h2 h3 h4
  subst h1 h2 h3 h4
  rfl

/-- **No match, no effect.**  For every environment, evaluation oracles, rule tree, maildir, message
name, loop state and every oracle of call results: if IN THIS RUN evaluating the rules on the message says *no
match* or *error* (`ev` = the value of `evalP` on the results `orcl` gives from the call after the parse phase on), or
says *match* and the interpolation of the actions' strings fails, then
`processMessage` issues only the `openat(O_RDONLY)`, `read` and `close` calls of parsing and freeing
the message and the calls of evaluation (`Proofs.ParseEvalCall`; no mutating call; a `fork` only for a `command`
condition): its trace is the trace of the parse phase, then the calls of evaluation, then
`close` calls only; the maildir is returned as it was; and the loop state is unchanged (`files`,
`reject`, `log`) except that `error` is set exactly when the parse failed or the evaluation result
is not *no match*. -/
theorem C03_no_match_no_effect (env : PEnv) (orc : EvalOracles) (expr : Expr) (md : Maildir) (name : Bytes)
    (st : MainSt) (d : Handle) (content p n : Bytes) (mf : MFlags)
    (hd : md.dirH = some d) (hf : st.files.get md.path name = some content)
    (hp : pathjoin PATH_MAX md.path name = some p) (hn : strlcpyFits NAME_MAX1 name = some n)
    (hmf : flagsParse n = some mf)
    (orcl : Nat → Call → Res) (ev : Tri × St)
    (hev : (Proofs.Own.runO orcl (evalP (Proofs.msgEnv env orc p) expr (parseMessage content) mf)
      (Proofs.Own.runO orcl (messageParseP d md.path name content) 0).2.2).1 = ev)
    (hno : ev.1 = .nomatch ∨ ev.1 = .error ∨
      (ev.1 = .match ∧ (matchesInterpolate (Proofs.msgEnv env orc p) ev.2.ml
          (partMsg (parseMessage content) ((getAttachments (parseMessage content)).getD []))).isNone = true)) :
    (∀ x ∈ (runOracle orcl (processMessage env orc expr md name st) 0 []).2,
      Proofs.ParseEvalCall d expr x.1 ∧ x.1.mutating = false ∧ (x.1.isFork = true → Proofs.hasCommand expr = true)) ∧
    (∃ E L, (runOracle orcl (processMessage env orc expr md name st) 0 []).2 =
        (runOracle orcl (messageParseP d md.path name content) 0 []).2 ++ E ++ L ∧
        (∀ x ∈ E, Proofs.EvalCallOf expr x.1) ∧ ∀ x ∈ L, ∃ fd, x.1 = .close fd) ∧
    (runOracle orcl (processMessage env orc expr md name st) 0 []).1 =
      (if (runOracle orcl (messageParseP d md.path name content) 0 []).1.isNone || ev.1 != .nomatch
        then { st with error := true } else st, md) := by
  obtain ⟨h1, h2, h3⟩ := Proofs.processMessage_noMatch_run env orc expr md name st d content p n mf hd hf hp hn hmf orcl ev hev hno
  exact ⟨fun x hx => ⟨(h1 x hx).1, (h1 x hx).2, fun hfk => (h1 x hx).1.fork' hfk⟩, h2, h3⟩

/-- ... and for a rule tree without `command`, `isdirectory` and file-time `date` conditions (`Proofs.asksFree`) this is
the statement in terms of the pure evaluator, with the parse calls only and no `fork`. -/
theorem C03_no_match_no_effect_pure (env : PEnv) (orc : EvalOracles) (expr : Expr) (md : Maildir) (name : Bytes)
    (st : MainSt) (d : Handle) (content p n : Bytes) (mf : MFlags)
    (hd : md.dirH = some d) (hf : st.files.get md.path name = some content)
    (hp : pathjoin PATH_MAX md.path name = some p) (hn : strlcpyFits NAME_MAX1 name = some n)
    (hmf : flagsParse n = some mf) (hfree : Proofs.asksFree expr = true)
    (hno :
      (eval (Proofs.msgEnv env orc p) (parseMessage content) expr 0 (parseMessage content) { ml := [], flags := mf }).1 = .nomatch ∨
      (eval (Proofs.msgEnv env orc p) (parseMessage content) expr 0 (parseMessage content) { ml := [], flags := mf }).1 = .error ∨
      ((eval (Proofs.msgEnv env orc p) (parseMessage content) expr 0 (parseMessage content) { ml := [], flags := mf }).1 = .match ∧
       (matchesInterpolate (Proofs.msgEnv env orc p)
          (eval (Proofs.msgEnv env orc p) (parseMessage content) expr 0 (parseMessage content) { ml := [], flags := mf }).2.ml
          (partMsg (parseMessage content) ((getAttachments (parseMessage content)).getD []))).isNone = true))
    (orcl : Nat → Call → Res) :
    (∀ x ∈ (runOracle orcl (processMessage env orc expr md name st) 0 []).2,
      ((∃ nm, x.1 = .openRd d nm) ∨ (∃ fd, x.1 = .read fd) ∨ ∃ fd, x.1 = .close fd) ∧
        x.1.mutating = false ∧ x.1.isFork = false) ∧
    (∃ L, (runOracle orcl (processMessage env orc expr md name st) 0 []).2 =
        (runOracle orcl (messageParseP d md.path name content) 0 []).2 ++ L ∧ ∀ x ∈ L, ∃ fd, x.1 = .close fd) ∧
    (runOracle orcl (processMessage env orc expr md name st) 0 []).1 =
      (if (runOracle orcl (messageParseP d md.path name content) 0 []).1.isNone ||
          (eval (Proofs.msgEnv env orc p) (parseMessage content) expr 0 (parseMessage content) { ml := [], flags := mf }).1 != .nomatch
        then { st with error := true } else st, md) :=
  Proofs.processMessage_noMatch_run_pure env orc expr md name st d content p n mf hd hf hp hn hmf hfree hno orcl

/-- The same for every message for which the rules IN THIS RUN do not produce an action list
(`Proofs.verdictAt … orcl j`, the verdict with the results `orcl` gives to the calls of evaluation from index `j` on: no
match, evaluation error, interpolation failure, or a name `message_parse` rejects - path too long, name too long, invalid
flag suffix), without assumptions on the name.  For a rule tree that asks nothing `verdictAt` is the pure
`Proofs.verdict` (`Proofs.verdictAt_asksFree`). -/
theorem C03_no_action_no_effect (env : PEnv) (orc : EvalOracles) (expr : Expr) (md : Maildir) (name : Bytes)
    (st : MainSt) (d : Handle) (content : Bytes)
    (hd : md.dirH = some d) (hf : st.files.get md.path name = some content)
    (orcl : Nat → Call → Res)
    (hv : (Proofs.verdictAt env orc expr md.path name content orcl
      (Proofs.Own.runO orcl (messageParseP d md.path name content) 0).2.2).acts = false) :
    (∀ x ∈ (runOracle orcl (processMessage env orc expr md name st) 0 []).2,
      Proofs.ParseEvalCall d expr x.1 ∧ x.1.mutating = false) ∧
    (∃ E L, (runOracle orcl (processMessage env orc expr md name st) 0 []).2 =
        (runOracle orcl (messageParseP d md.path name content) 0 []).2 ++ E ++ L ∧
        (∀ x ∈ E, Proofs.EvalCallOf expr x.1) ∧ ∀ x ∈ L, Proofs.IsClose x.1) ∧
    (runOracle orcl (processMessage env orc expr md name st) 0 []).1 =
      (if (runOracle orcl (messageParseP d md.path name content) 0 []).1.isNone ||
          (Proofs.verdictAt env orc expr md.path name content orcl
            (Proofs.Own.runO orcl (messageParseP d md.path name content) 0).2.2).isErr then { st with error := true } else st, md) :=
  Proofs.processMessage_noAct_run env orc expr md name st d content hd hf orcl hv

/-- A maildir that is not open, or a name the model has no content for: no call at all; the
second is reported as an error.  (Audit au1: a statement about the MODEL's bookkeeping, not about mdsort - the registry
`st.files` is a device of the model; mdsort opens and parses whatever `readdir` returns.  The two degenerate branches of
`processMessage` are where the model departs from the program by construction; the check's scenarios register every file of
the maildirs, so the branch is not exercised there.) -/
theorem C03_unknown_message_no_call (env : PEnv) (orc : EvalOracles) (expr : Expr) (md : Maildir) (name : Bytes)
    (st : MainSt) (orcl : Nat → Call → Res) (i : Nat) (tr : List (Call × Res)) :
    (md.dirH = none → runOracle orcl (processMessage env orc expr md name st) i tr = ((st, md), tr)) ∧
    (md.dirH.isSome = true → st.files.get md.path name = none →
      runOracle orcl (processMessage env orc expr md name st) i tr = (({ st with error := true }, md), tr)) :=
  Proofs.processMessage_degenerate_run env orc expr md name st orcl i tr

/-! Non-vacuity: the message `Subject: x\n\nb\n` named `1` in `/m/new`, no regex ever matches.
`match header "X" /1/ move "/d"` evaluates to *no match*; `match command "t" move "/d"` to *error* with the pure
evaluator whose command oracle reports failure (in a run: when `fork` fails, see the example after
`C03_evaluation_calls` for the run in which it succeeds); `match all move "\1"` matches and its
interpolation fails (see `C12_error_no_effect`). -/
example :
    pathjoin PATH_MAX [47, 109, 47, 110, 101, 119] [49] = some [47, 109, 47, 110, 101, 119, 47, 49] ∧
    strlcpyFits NAME_MAX1 [49] = some [49] ∧ flagsParse [49] = some MFlags.empty ∧
    (eval (Proofs.msgEnv Proofs.examplePEnv Proofs.exampleOracles [47, 109, 47, 110, 101, 119, 47, 49])
      (parseMessage [83, 117, 98, 106, 101, 99, 116, 58, 32, 120, 10, 10, 98, 10])
      (.mtch 1 (.header 1 [[88]] { src := [49] }) (.move 1 [47, 100])) 0
      (parseMessage [83, 117, 98, 106, 101, 99, 116, 58, 32, 120, 10, 10, 98, 10])
      { ml := [], flags := MFlags.empty }).1 = .nomatch ∧
    (eval (Proofs.msgEnv Proofs.examplePEnv Proofs.exampleOracles [47, 109, 47, 110, 101, 119, 47, 49])
      (parseMessage [83, 117, 98, 106, 101, 99, 116, 58, 32, 120, 10, 10, 98, 10])
      (.mtch 1 (.command 1 [[116]]) (.move 1 [47, 100])) 0
      (parseMessage [83, 117, 98, 106, 101, 99, 116, 58, 32, 120, 10, 10, 98, 10])
      { ml := [], flags := MFlags.empty }).1 = .error := by
  simp only [eval]
  decide +kernel

/-- The verdicts of the same three rule trees, and of a name with an invalid flag suffix. -/
example :
    (Proofs.verdict Proofs.examplePEnv Proofs.exampleOracles (.mtch 1 (.header 1 [[88]] { src := [49] }) (.move 1 [47, 100]))
      [47, 109, 47, 110, 101, 119] [49] [83, 117, 98, 106, 101, 99, 116, 58, 32, 120, 10, 10, 98, 10]).acts = false ∧
    (Proofs.verdict Proofs.examplePEnv Proofs.exampleOracles (.mtch 1 (.all 1) (.move 1 [92, 49]))
      [47, 109, 47, 110, 101, 119] [49] [83, 117, 98, 106, 101, 99, 116, 58, 32, 120, 10, 10, 98, 10]).isErr = true ∧
    (Proofs.verdict Proofs.examplePEnv Proofs.exampleOracles (.mtch 1 (.all 1) (.move 1 [47, 100]))
      [47, 109, 47, 110, 101, 119] [49] [83, 117, 98, 106, 101, 99, 116, 58, 32, 120, 10, 10, 98, 10]).acts = true := by
  simp only [Proofs.verdict, Proofs.msVerdict, eval]
  decide +kernel

end Mdsort.Props
