import Mdsort.Proofs.Eval
import Mdsort.Proofs.BlockSelect
import Mdsort.Proofs.WorldFrame

/-!
# C03 - rules are evaluated with the documented first-match semantics

`Model.eval` transcribes `expr_eval_*` and the match-list primitives of match.c
(including the sentinel entries, `matches_merge`, the whole-list PASS/BREAK lookup of
`expr_eval_block`).  `Spec.evalBlock` is the documented reading of mdsort.conf(5) on the
rule tree the grammar builds (`Spec.parseBlock`).  The valuation of the matchers is whatever
the environment (regex engine, clock, commands, file system) makes it.
-/

namespace Mdsort.Props
open Mdsort Mdsort.Model

/-- For every environment, message and rule tree in the domain, whenever the documented
evaluation is not decided by a pass or action pending from an enclosing block
(`crosses = false`: the complement is the pinned finding F11), the evaluator returns the
documented result and, on a match, the documented actions: the same actions other than
move/flag in the same order, and the same last move-or-flag. -/
theorem C03_eval_refines_spec (env : Env) (root : Msg) (f : MFlags) (e : Expr) (rules : List Spec.Rule)
    (hp : Spec.parseBlock e = some rules) (hd : Proofs.InDomain env e = true)
    (hl : (Spec.evalBlock (Proofs.valuation env root f) Proofs.actionErr rules).crosses = false) :
    let o := Spec.evalBlock (Proofs.valuation env root f) Proofs.actionErr rules
    let r := eval env root e 0 root { ml := [], flags := f }
    r.1 = o.res ∧ (o.res = .match → Spec.planOf (Proofs.mlKeys r.2.ml) = Spec.planOf (o.actions.filterMap Spec.actKey)) :=
  Proofs.eval_refines_spec env root f e rules hp hd hl

/-! ## Non-vacuity

A concrete environment, message and rule tree inside the domain: a nested block whose `break`
rule fires, a `pass` rule that fires at the top level, and a second nested block (entered with
the pass pending) in which a plain rule matches.  `crosses = false`, the result is a match and
the plan is not empty; `C03_eval_refines_spec` then gives the evaluator's result.

```
match all { match new reject break }
match ! header "X" /1/ label "x" pass
match all { match body /2/ discard
            match new or all move "/d" flag "cur" }
```
-/

/-- Regex engine: the pattern `1` matches everything, every other pattern nothing; message
file `/m/new/1`. -/
def exEnv : Env where
  rx := fun p _ => if p.src == [49] then .ok [some (0, 0)] else .nomatch
  command := fun _ => 0
  isDir := fun _ => false
  now := 0
  strptime := fun _ => none
  zoneName := fun _ => none
  fileTime := fun _ => none
  dryrun := false
  path := [47, 109, 47, 110, 101, 119, 47, 49]

def exMsg : Msg := { headers := [], body := [] }

def exTree : Expr :=
  .block 1 (.or 1 (.or 1
    (.mtch 2 (.all 2) (.block 2 (.mtch 3 (.new 3) (.and 3 (.reject 3) (.brk 3)))))
    (.mtch 4 (.neg 4 (.header 4 [[88]] { src := [49] })) (.and 4 (.label 4 [[120]]) (.pass 4))))
    (.mtch 5 (.all 5) (.block 5 (.or 5
      (.mtch 6 (.body 6 { src := [50] }) (.discard 6))
      (.mtch 7 (.or 7 (.new 7) (.all 7)) (.and 7 (.move 7 [47, 100]) (.flag 7 [99, 117, 114])))))))

def exRules : List Spec.Rule :=
  [.blk 2 (.all 2) [.acts 3 (.new 3) [.reject 3] .brk],
   .acts 4 (.neg 4 (.header 4 [[88]] { src := [49] })) [.label 4 [[120]]] .pass,
   .blk 5 (.all 5)
     [.acts 6 (.body 6 { src := [50] }) [.discard 6] .none,
      .acts 7 (.or 7 (.new 7) (.all 7)) [.move 7 [47, 100], .flag 7 [99, 117, 114]] .none]]

theorem ex_parse : Spec.parseBlock exTree = some exRules := by
  simp [exTree, exRules, Spec.parseBlock, Spec.parseRules, Spec.parseRule, Spec.isCond, Spec.splitActs,
    Spec.andChain, Spec.isCtlExpr, Spec.isActionExpr]

theorem ex_inDomain : Proofs.InDomain exEnv exTree = true := by decide +kernel

abbrev exVal := Proofs.valuation exEnv exMsg MFlags.empty

theorem ex_v_all (l : Nat) : exVal (.all l) = .match := by
  simp only [exVal, Proofs.valuation, eval]
theorem ex_v_new (l : Nat) : exVal (.new l) = .match := by
  simp only [exVal, Proofs.valuation, eval]; decide +kernel
theorem ex_v_header : exVal (.header 4 [[88]] { src := [49] }) = .nomatch := by
  simp only [exVal, Proofs.valuation, eval]; decide +kernel
theorem ex_v_body : exVal (.body 6 { src := [50] }) = .nomatch := by
  simp only [exVal, Proofs.valuation, eval]; decide +kernel

/-- The documented outcome: a match with four actions, no crossing. -/
theorem ex_outcome : Spec.evalBlock exVal Proofs.actionErr exRules =
    { res := .match,
      actions := [.reject 3, .label 4 [[120]], .move 7 [47, 100], .flag 7 [99, 117, 114]],
      crosses := false } := by
  simp [exRules, Spec.evalBlock, Spec.evalRules, Spec.condVal, ex_v_all, ex_v_new, ex_v_header, ex_v_body,
    Proofs.actionErr, PATH_MAX]

/-- The hypotheses of `C03_eval_refines_spec` are satisfiable with a match and a non-empty plan,
and the theorem then pins the evaluator's result and plan. -/
theorem C03_nonvacuous :
    Spec.parseBlock exTree = some exRules ∧ Proofs.InDomain exEnv exTree = true ∧
    (Spec.evalBlock exVal Proofs.actionErr exRules).crosses = false ∧
    (eval exEnv exMsg exTree 0 exMsg { ml := [], flags := MFlags.empty }).1 = .match ∧
    Spec.planOf (Proofs.mlKeys (eval exEnv exMsg exTree 0 exMsg { ml := [], flags := MFlags.empty }).2.ml) =
      ([(.reject, 3), (.label, 4)], some (.flag, 7)) := by
  have hc : (Spec.evalBlock exVal Proofs.actionErr exRules).crosses = false := by rw [ex_outcome]
  have h := C03_eval_refines_spec exEnv exMsg MFlags.empty exTree exRules ex_parse ex_inDomain hc
  simp only [ex_outcome] at h
  refine ⟨ex_parse, ex_inDomain, hc, h.1, ?_⟩
  rw [h.2 trivial]
  decide

/-- `old` is inside the domain as long as no `flags` action of the tree sets `S`
(`match old flags "T" move "/x"`). -/
theorem ex_old_inDomain :
    Proofs.InDomain exEnv (.block 1 (.mtch 2 (.old 2) (.and 2 (.flags 2 [84]) (.move 2 [47, 120])))) = true := by
  decide +kernel

/-- **Block selection** (`maildir_skip`).  A configured path is selected iff `-` was given and the path
is `/dev/stdin`, or `-` was not given and the path is anything else ... -/
theorem C03_block_selected_iff (env : PEnv) (p : Bytes) :
    Proofs.pathSelected env p = true ↔
      (env.stdinMode = true ∧ p = ofString "/dev/stdin") ∨ (env.stdinMode = false ∧ p ≠ ofString "/dev/stdin") :=
  Proofs.selected_iff env p

/-- ... and for every environment, oracle, configuration, file contents and standard input, `mainP` is
the same program (the same tree of calls - hence the same calls for every behaviour of the world -, the
same exit status, log and final state) as on the configuration from which every unselected path was
removed (`selectPaths`), and as on the one from which in addition every block left without a path was
removed (`selectBlocks`): an unselected block is never opened, walked or evaluated. -/
theorem C03_block_selection (env : PEnv) (orc : EvalOracles) (confOk : Bool) (conf : List ConfBlock) (files : Files)
    (input : Bytes) :
    mainP env orc confOk conf files input = mainP env orc confOk (Proofs.selectPaths env conf) files input ∧
    mainP env orc confOk conf files input = mainP env orc confOk (Proofs.selectBlocks env conf) files input :=
  Proofs.block_selection env orc confOk conf files input

/-! Non-vacuity: `stdin { .. }  maildir "/m" "/dev/stdin" { .. }` without `-` and with `-`. -/
def exPEnv (stdin : Bool) : PEnv :=
  { now := 0, pid := 1, host := [104], random := 0, tmpdir := [47, 116], home := [47, 104], confpath := [47, 99],
    dryrun := false, syntaxOnly := false, stdinMode := stdin }

def exConf : List ConfBlock :=
  [{ paths := [ofString "/dev/stdin"], expr := .all 1 }, { paths := [[47, 109], ofString "/dev/stdin"], expr := .all 2 }]

example : (Proofs.selectPaths (exPEnv false) exConf).map (·.paths) = [[], [[47, 109]]] := by decide +kernel
example : (Proofs.selectBlocks (exPEnv false) exConf).map (·.paths) = [[[47, 109]]] := by decide +kernel
example : (Proofs.selectBlocks (exPEnv true) exConf).map (·.paths) =
    [[ofString "/dev/stdin"], [ofString "/dev/stdin"]] := by decide +kernel

/-! ## No match, no effect (world level)

`processMessage` is `message_parse`, `expr_eval`, `matches_interpolate`, `matches_inspect` /
`matches_exec`, `message_free` of the loop in `main`.  `runOracle orcl` runs it against ARBITRARY call
results, so the statements hold for every behaviour of the file system, every fault and every
interleaving with other processes. -/

/-- **No match, no effect.**  For every environment, evaluation oracles, rule tree, maildir, message
name, loop state and every oracle of call results: if evaluating the rules on the message says *no
match* or *error*, or says *match* and the interpolation of the actions' strings fails, then
`processMessage` issues only the `openat(O_RDONLY)`, `read` and `close` calls of parsing and freeing
the message (no mutating call, no `fork`): its trace is the trace of the parse phase followed by
`close` calls only; the maildir is returned as it was; and the loop state is unchanged (`files`,
`reject`, `log`) except that `error` is set exactly when the parse failed or the evaluation result
is not *no match*. -/
theorem C03_no_match_no_effect (env : PEnv) (orc : EvalOracles) (expr : Expr) (md : Maildir) (name : Bytes)
    (st : MainSt) (d : Handle) (content p n : Bytes) (mf : MFlags)
    (hd : md.dirH = some d) (hf : st.files.get md.path name = some content)
    (hp : pathjoin PATH_MAX md.path name = some p) (hn : strlcpyFits NAME_MAX1 name = some n)
    (hmf : flagsParse n = some mf)
    (hno :
      (eval (Proofs.msgEnv env orc p) (parseMessage content) expr 0 (parseMessage content) { ml := [], flags := mf }).1 = .nomatch ∨
      (eval (Proofs.msgEnv env orc p) (parseMessage content) expr 0 (parseMessage content) { ml := [], flags := mf }).1 = .error ∨
      ((eval (Proofs.msgEnv env orc p) (parseMessage content) expr 0 (parseMessage content) { ml := [], flags := mf }).1 = .match ∧
       (matchesInterpolate (Proofs.msgEnv env orc p)
          (eval (Proofs.msgEnv env orc p) (parseMessage content) expr 0 (parseMessage content) { ml := [], flags := mf }).2.ml
          (partMsg (parseMessage content) ((getAttachments (parseMessage content)).getD []))).isNone = true))
    (orcl : Nat → Call → Res) :
    (∀ x ∈ (runOracle orcl (processMessage env orc expr md name st) 0 []).2,
      ((∃ nm, x.1 = .openRd d nm) ∨ (∃ fd, x.1 = .read fd) ∨ ∃ fd, x.1 = .close fd) ∧
        x.1.mutating = false ∧ x.1 ≠ .fork) ∧
    (∃ L, (runOracle orcl (processMessage env orc expr md name st) 0 []).2 =
        (runOracle orcl (messageParseP d md.path name content) 0 []).2 ++ L ∧ ∀ x ∈ L, ∃ fd, x.1 = .close fd) ∧
    (runOracle orcl (processMessage env orc expr md name st) 0 []).1 =
      (if (runOracle orcl (messageParseP d md.path name content) 0 []).1.isNone ||
          (eval (Proofs.msgEnv env orc p) (parseMessage content) expr 0 (parseMessage content) { ml := [], flags := mf }).1 != .nomatch
        then { st with error := true } else st, md) :=
  Proofs.processMessage_noMatch_run env orc expr md name st d content p n mf hd hf hp hn hmf hno orcl

/-- The same for every message for which the rules do not produce an action list
(`Proofs.verdict`: no match, evaluation error, interpolation failure, or a name `message_parse`
rejects - path too long, name too long, invalid flag suffix), without assumptions on the name. -/
theorem C03_no_action_no_effect (env : PEnv) (orc : EvalOracles) (expr : Expr) (md : Maildir) (name : Bytes)
    (st : MainSt) (d : Handle) (content : Bytes)
    (hd : md.dirH = some d) (hf : st.files.get md.path name = some content)
    (hv : (Proofs.verdict env orc expr md.path name content).acts = false)
    (orcl : Nat → Call → Res) :
    (∀ x ∈ (runOracle orcl (processMessage env orc expr md name st) 0 []).2,
      ((∃ nm, x.1 = .openRd d nm) ∨ (∃ fd, x.1 = .read fd) ∨ ∃ fd, x.1 = .close fd) ∧
        x.1.mutating = false ∧ x.1 ≠ .fork) ∧
    (∃ L, (runOracle orcl (processMessage env orc expr md name st) 0 []).2 =
        (runOracle orcl (messageParseP d md.path name content) 0 []).2 ++ L ∧ ∀ x ∈ L, ∃ fd, x.1 = .close fd) ∧
    (runOracle orcl (processMessage env orc expr md name st) 0 []).1 =
      (if (runOracle orcl (messageParseP d md.path name content) 0 []).1.isNone ||
          (Proofs.verdict env orc expr md.path name content).isErr then { st with error := true } else st, md) :=
  Proofs.processMessage_noAct_run env orc expr md name st d content hd hf hv orcl

/-- A maildir that is not open, or a name the model has no content for: no call at all; the
second is reported as an error. -/
theorem C03_unknown_message_no_call (env : PEnv) (orc : EvalOracles) (expr : Expr) (md : Maildir) (name : Bytes)
    (st : MainSt) (orcl : Nat → Call → Res) (i : Nat) (tr : List (Call × Res)) :
    (md.dirH = none → runOracle orcl (processMessage env orc expr md name st) i tr = ((st, md), tr)) ∧
    (md.dirH.isSome = true → st.files.get md.path name = none →
      runOracle orcl (processMessage env orc expr md name st) i tr = (({ st with error := true }, md), tr)) :=
  Proofs.processMessage_degenerate_run env orc expr md name st orcl i tr

/-! Non-vacuity: the message `Subject: x\n\nb\n` named `1` in `/m/new`, no regex ever matches.
`match header "X" /1/ move "/d"` evaluates to *no match*; `match command "t" move "/d"` to *error*
(the command oracle of `processMessage` reports failure); `match all move "\1"` matches and its
interpolation fails (see `C12_error_no_effect`). -/
example :
    pathjoin PATH_MAX [47, 109, 47, 110, 101, 119] [49] = some [47, 109, 47, 110, 101, 119, 47, 49] ∧
    strlcpyFits NAME_MAX1 [49] = some [49] ∧ flagsParse [49] = some MFlags.empty ∧
    (eval (Proofs.msgEnv Proofs.examplePEnv Proofs.exampleOracles [47, 109, 47, 110, 101, 119, 47, 49])
      (parseMessage [83, 117, 98, 106, 101, 99, 116, 58, 32, 120, 10, 10, 98, 10])
      (.mtch 1 (.header 1 [[88]] { src := [49] }) (.move 1 [47, 100])) 0
      (parseMessage [83, 117, 98, 106, 101, 99, 116, 58, 32, 120, 10, 10, 98, 10])
      { ml := [], flags := MFlags.empty }).1 = .nomatch ∧
    (eval (Proofs.msgEnv Proofs.examplePEnv Proofs.exampleOracles [47, 109, 47, 110, 101, 119, 47, 49])
      (parseMessage [83, 117, 98, 106, 101, 99, 116, 58, 32, 120, 10, 10, 98, 10])
      (.mtch 1 (.command 1 [[116]]) (.move 1 [47, 100])) 0
      (parseMessage [83, 117, 98, 106, 101, 99, 116, 58, 32, 120, 10, 10, 98, 10])
      { ml := [], flags := MFlags.empty }).1 = .error := by
  simp only [eval]
  decide +kernel

/-- The verdicts of the same three rule trees, and of a name with an invalid flag suffix. -/
example :
    (Proofs.verdict Proofs.examplePEnv Proofs.exampleOracles (.mtch 1 (.header 1 [[88]] { src := [49] }) (.move 1 [47, 100]))
      [47, 109, 47, 110, 101, 119] [49] [83, 117, 98, 106, 101, 99, 116, 58, 32, 120, 10, 10, 98, 10]).acts = false ∧
    (Proofs.verdict Proofs.examplePEnv Proofs.exampleOracles (.mtch 1 (.all 1) (.move 1 [92, 49]))
      [47, 109, 47, 110, 101, 119] [49] [83, 117, 98, 106, 101, 99, 116, 58, 32, 120, 10, 10, 98, 10]).isErr = true ∧
    (Proofs.verdict Proofs.examplePEnv Proofs.exampleOracles (.mtch 1 (.all 1) (.move 1 [47, 100]))
      [47, 109, 47, 110, 101, 119] [49] [83, 117, 98, 106, 101, 99, 116, 58, 32, 120, 10, 10, 98, 10]).acts = true := by
  simp only [Proofs.verdict, Proofs.msVerdict, eval]
  decide +kernel

end Mdsort.Props
