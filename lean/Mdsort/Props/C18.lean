import Mdsort.Model.Flags
import Mdsort.Model.Scripts
import Mdsort.Model.Start

/-!
# C18 - over-long paths are rejected, never truncated

Every fixed-size buffer mdsort fills is filled by one of three setters (`snprintf`-based
`pathjoin`, `strlcpy`, `pathslice`), each followed by a size test.  In the model a setter returns
`none` exactly when the C function reports that the result does not fit, and otherwise the
COMPLETE intended string: a truncated string is not a value the model can produce, so every path
argument of every call of `Model.mainP` is an intended path (the conformance run checks the real
binary's arguments against them, including at lengths around the limits).
-/

namespace Mdsort.Props
open Mdsort Mdsort.Model

/-- `pathjoin` accepts exactly the results shorter than the buffer, and then returns `dir/file`
in full: no off-by-one in either direction, for every buffer size. -/
theorem C18_pathjoin_exact (n : Nat) (d f : Bytes) :
    pathjoin n d f = (if d.length + 1 + f.length < n then some (d ++ [47] ++ f) else none) := by
  unfold pathjoin
  have hl : (d ++ [47] ++ f).length = d.length + 1 + f.length := by simp; omega
  by_cases h : d.length + 1 + f.length < n
  · have h2 : ¬ (d ++ [47] ++ f).length ≥ n := by omega
    simp only [h2, h, if_true, if_false]
  · have h2 : (d ++ [47] ++ f).length ≥ n := by omega
    simp only [h2, h, if_true, if_false]

/-- `strlcpy` into a buffer of `n` bytes is accepted iff the source is shorter than `n`, and then
copies it in full. -/
theorem C18_strlcpy_exact (n : Nat) (s : Bytes) :
    strlcpyFits n s = (if s.length < n then some s else none) := by
  unfold strlcpyFits
  by_cases h : s.length < n
  · have : ¬ s.length ≥ n := by omega
    simp [h, this]
  · have : s.length ≥ n := by omega
    simp [h, this]

/-- A generated file name is only ever used in full: `genname` returns a name only after creating
exactly that name, and never one that does not fit `NAME_MAX`. -/
theorem C18_limits : NAME_MAX1 = 256 ∧ PATH_MAX = 4096 := by decide

/-! ## The default configuration path and the environment (mdsort.c `defaultconf`, `readenv`) -/

theorem confSuffix_length : confSuffix.length = 13 := rfl

/-- `defaultconf`, for every buffer size: accepted iff `strlen(home) + 13` (the length of `home/.mdsort.conf`) is
smaller than the buffer, and then the result is `home ++ "/.mdsort.conf"` in full - never a truncation of it. -/
theorem C18_defaultconf_exact (siz : Nat) (home : Bytes) :
    defaultconf siz home = (if home.length + 13 < siz then some (home ++ confSuffix) else none) ∧
    (∀ p, defaultconf siz home = some p → p = home ++ confSuffix) := by
  have hl : (home ++ confSuffix).length = home.length + 13 := by rw [List.length_append, confSuffix_length]
  have key : defaultconf siz home = (if home.length + 13 < siz then some (home ++ confSuffix) else none) := by
    unfold defaultconf defaultconfWith snprintfInto
    simp only [hl]
    by_cases h : home.length + 13 < siz
    · have h2 : ¬ home.length + 13 ≥ siz := by omega
      simp only [h, h2, decide_false, Bool.false_eq_true, if_false, if_true]
      rw [List.take_of_length_le (by rw [hl]; omega)]
    · have h2 : home.length + 13 ≥ siz := by omega
      simp only [h, h2, decide_true, if_true, if_false]
  refine ⟨key, ?_⟩
  intro p hp
  rw [key] at hp
  split at hp
  · exact (Option.some.inj hp).symm
  · cases hp

/-- With `PATH_MAX = 4096`: a home directory of up to 4082 bytes is accepted, 4083 and more rejected. -/
theorem C18_defaultconf_limit (home : Bytes) :
    (defaultconf PATH_MAX home).isSome = decide (home.length ≤ 4082) := by
  rw [(C18_defaultconf_exact PATH_MAX home).1]
  by_cases h : home.length ≤ 4082
  · have : home.length + 13 < PATH_MAX := by unfold PATH_MAX; omega
    simp [h, this]
  · have : ¬ home.length + 13 < PATH_MAX := by unfold PATH_MAX; omega
    simp [h, this]

/-- Why the test is `n >= siz`: with `n > siz` (one too lenient) a home directory for which `home/.mdsort.conf` has
exactly `siz` bytes is ACCEPTED and the path handed to `config_parse` is the string minus its last byte
(`home/.mdsort.con`), a different file - for every buffer size. -/
theorem C18_defaultconf_needs_ge (siz : Nat) (home : Bytes) (h : home.length + 13 = siz) :
    defaultconfWith (fun n siz => n > siz) siz home = some ((home ++ confSuffix).take (siz - 1)) ∧
    (home ++ confSuffix).take (siz - 1) ≠ home ++ confSuffix ∧
    (home ++ confSuffix).take (siz - 1) = home ++ confSuffix.take 12 := by
  have hl : (home ++ confSuffix).length = home.length + 13 := by rw [List.length_append, confSuffix_length]
  refine ⟨?_, ?_, ?_⟩
  · unfold defaultconfWith snprintfInto
    simp only [hl]
    have : ¬ home.length + 13 > siz := by omega
    simp [this]
  · intro he
    have := congrArg List.length he
    rw [List.length_take, hl] at this
    omega
  · rw [List.take_append]
    have e1 : siz - 1 - home.length = 12 := by omega
    rw [e1, List.take_of_length_le (by omega)]

theorem strlcpyFits_some {n : Nat} {s r : Bytes} (h : strlcpyFits n s = some r) : r = s ∧ s.length < n := by
  unfold strlcpyFits at h
  split at h
  · cases h
  · cases h; exact ⟨rfl, by omega⟩

/-- `readenv` copies HOME, TMPDIR and TZ in full or ends the run: accepted iff each value is shorter than its buffer
(`PATH_MAX`, `PATH_MAX`, 256); what the run continues with is the complete value. -/
theorem C18_readenv_exact (raw : RawEnv) (h t : Bytes) (hh : raw.home = some h) (hne : h ≠ []) (ht : raw.tmpdir = some t) (tne : t ≠ []) :
    readenv raw =
      if h.length ≥ PATH_MAX then .error .homeTooLong
      else if t.length ≥ PATH_MAX then .error .tmpdirTooLong
      else match raw.tz with
        | none => .ok (h, t, none)
        | some z => if z.length ≥ TZ_BUF then .error .tzTooLong else .ok (h, t, some z) := by
  have h1 : h.isEmpty = false := by cases h <;> simp_all
  have t1 : t.isEmpty = false := by cases t <;> simp_all
  have hs : homeSource raw = some h := by unfold homeSource; rw [hh]; simp [h1]
  have ts : tmpSource raw = t := by unfold tmpSource; rw [ht]; simp [t1]
  unfold readenv
  rw [hs, ts]
  unfold strlcpyFits
  by_cases c1 : h.length ≥ PATH_MAX
  · simp only [c1, if_true]
  · simp only [c1, if_false]
    by_cases c2 : t.length ≥ PATH_MAX
    · simp only [c2, if_true]
    · simp only [c2, if_false]
      cases hz : raw.tz with
      | none => rfl
      | some z =>
        simp only
        by_cases c3 : z.length ≥ TZ_BUF
        · simp only [c3, if_true]
        · simp only [c3, if_false]

theorem readenv_ok {raw : RawEnv} {hm tm : Bytes} {z : Option Bytes} (hr : readenv raw = .ok (hm, tm, z)) :
    homeSource raw = some hm ∧ hm.length < PATH_MAX ∧ tm = tmpSource raw ∧ tm.length < PATH_MAX := by
  unfold readenv at hr
  split at hr
  · cases hr
  · rename_i p hp
    split at hr
    · cases hr
    · rename_i home hhome
      split at hr
      · cases hr
      · rename_i tmpdir htmp
        obtain ⟨e1, l1⟩ := strlcpyFits_some hhome
        obtain ⟨e2, l2⟩ := strlcpyFits_some htmp
        have : hm = home ∧ tm = tmpdir := by
          split at hr
          · cases hr; exact ⟨rfl, rfl⟩
          · split at hr
            · cases hr
            · cases hr; exact ⟨rfl, rfl⟩
        obtain ⟨rfl, rfl⟩ := this
        subst e1 e2
        exact ⟨hp, l1, rfl, l2⟩

/-- The paths a run starts from are never truncations: whenever `main` gets as far as `config_parse`, the home
directory and the temporary directory are the complete values of the environment (or of the password entry /
`_PATH_TMP`), shorter than `PATH_MAX`, and the configuration path is the `-f` argument or
`home ++ "/.mdsort.conf"` in full, shorter than `PATH_MAX`. -/
theorem C18_start_never_truncates (raw : RawEnv) (fOpt : Option Bytes) (home tmpdir confpath : Bytes)
    (h : startPaths raw fOpt = .ok (home, tmpdir, confpath)) :
    homeSource raw = some home ∧ home.length < PATH_MAX ∧ tmpdir = tmpSource raw ∧ tmpdir.length < PATH_MAX ∧
    (fOpt = some confpath ∨ (fOpt = none ∧ confpath = home ++ confSuffix ∧ confpath.length < PATH_MAX)) := by
  unfold startPaths at h
  split at h
  · cases h
  · rename_i hm tm z hr
    have hre := readenv_ok hr
    split at h
    · cases h
      exact ⟨hre.1, hre.2.1, hre.2.2.1, hre.2.2.2, Or.inl rfl⟩
    · split at h
      · cases h
      · rename_i c hd
        cases h
        have hc := (C18_defaultconf_exact PATH_MAX home).2 confpath hd
        have hlen : confpath.length < PATH_MAX := by
          have := (C18_defaultconf_exact PATH_MAX home).1
          rw [hd] at this
          split at this
          · rw [hc, List.length_append, confSuffix_length]; assumption
          · cases this
        exact ⟨hre.1, hre.2.1, hre.2.2.1, hre.2.2.2, Or.inr ⟨rfl, hc, hlen⟩⟩

/-- The run without `-f`: either it ends with status 1 before ANY call (no file is opened, in particular none at a
truncation of the intended path), or its first call is `fopen` of exactly `home ++ "/.mdsort.conf"`. -/
theorem C18_default_config_first_call (raw : RawEnv) (env : PEnv) (orc : EvalOracles) (confOk : Bool) (conf : List ConfBlock)
    (files : Files) (input : Bytes) :
    (∃ st, mainFromEnv raw none env orc confOk conf files input = .ret (1, st)) ∨
    (∃ home tmpdir, startPaths raw none = .ok (home, tmpdir, home ++ confSuffix) ∧ homeSource raw = some home ∧
      ∃ k, mainFromEnv raw none env orc confOk conf files input = .call (.fopen (home ++ confSuffix)) k) := by
  unfold mainFromEnv
  cases hs : startPaths raw none with
  | error e => left; exact ⟨_, rfl⟩
  | ok v =>
    obtain ⟨home, tmpdir, confpath⟩ := v
    right
    have hall := C18_start_never_truncates raw none home tmpdir confpath hs
    rcases hall.2.2.2.2 with h | ⟨_, hc, _⟩
    · cases h
    · subst hc
      refine ⟨home, tmpdir, rfl, hall.1, ?_⟩
      simp only
      unfold mainP
      exact ⟨_, rfl⟩

/-! Non-vacuity: a home directory at the limit, one byte beyond, and a complete environment. -/

example : confSuffix = ofString "/.mdsort.conf" := by decide +kernel

example : (defaultconf PATH_MAX (List.replicate 4082 104)).isSome = true ∧ (defaultconf PATH_MAX (List.replicate 4083 104)).isSome = false := by
  rw [C18_defaultconf_limit, C18_defaultconf_limit, List.length_replicate, List.length_replicate]
  decide

example : (List.replicate 4083 104 : Bytes).length + 13 = PATH_MAX := by rw [List.length_replicate]; decide

example : (startPaths { home := some (ofString "/home/u"), pwdir := none, tmpdir := some (ofString "/tmp/x"), tz := none, pathTmp := ofString "/tmp/" } none).toOption =
    some (ofString "/home/u", ofString "/tmp/x", ofString "/home/u/.mdsort.conf") := by decide +kernel

example : ∃ raw : RawEnv, ∃ h t, raw.home = some h ∧ h ≠ [] ∧ raw.tmpdir = some t ∧ t ≠ [] :=
  ⟨{ home := some [47], pwdir := none, tmpdir := some [47], tz := none, pathTmp := [] }, [47], [47], rfl, by decide, rfl, by decide⟩

end Mdsort.Props
