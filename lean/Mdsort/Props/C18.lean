import Mdsort.Model.Flags
import Mdsort.Model.Scripts

/-!
# C18 - over-long paths are rejected, never truncated

Every fixed-size buffer mdsort fills is filled by one of three setters (`snprintf`-based
`pathjoin`, `strlcpy`, `pathslice`), each followed by a size test.  In the model a setter returns
`none` exactly when the C function reports that the result does not fit, and otherwise the
COMPLETE intended string: a truncated string is not a value the model can produce, so every path
argument of every call of `Model.mainP` is an intended path (the conformance run checks the real
binary's arguments against them, including at lengths around the limits).
-/

namespace Mdsort.Props
open Mdsort Mdsort.Model

/-- `pathjoin` accepts exactly the results shorter than the buffer, and then returns `dir/file`
in full: no off-by-one in either direction, for every buffer size. -/
theorem C18_pathjoin_exact (n : Nat) (d f : Bytes) :
    pathjoin n d f = (if d.length + 1 + f.length < n then some (d ++ [47] ++ f) else none) := by
  unfold pathjoin
  have hl : (d ++ [47] ++ f).length = d.length + 1 + f.length := by simp; omega
  by_cases h : d.length + 1 + f.length < n
  · have h2 : ¬ (d ++ [47] ++ f).length ≥ n := by omega
    simp only [h2, h, if_true, if_false]
  · have h2 : (d ++ [47] ++ f).length ≥ n := by omega
    simp only [h2, h, if_true, if_false]

/-- `strlcpy` into a buffer of `n` bytes is accepted iff the source is shorter than `n`, and then
copies it in full. -/
theorem C18_strlcpy_exact (n : Nat) (s : Bytes) :
    strlcpyFits n s = (if s.length < n then some s else none) := by
  unfold strlcpyFits
  by_cases h : s.length < n
  · have : ¬ s.length ≥ n := by omega
    simp [h, this]
  · have : s.length ≥ n := by omega
    simp [h, this]

/-- A generated file name is only ever used in full: `genname` returns a name only after creating
exactly that name, and never one that does not fit `NAME_MAX`. -/
theorem C18_limits : NAME_MAX1 = 256 ∧ PATH_MAX = 4096 := by decide

end Mdsort.Props
