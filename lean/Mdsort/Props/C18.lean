import Mdsort.Proofs.GenBridge
import Mdsort.Model.Flags
import Mdsort.Model.Scripts
import Mdsort.Proofs.LimitsText
import Mdsort.Proofs.LimitsSticky
import Mdsort.Proofs.L0RefineUtil
import Mdsort.Proofs.ConfErrors
import Mdsort.Proofs.MainText
import Mdsort.Model.Start

/-!
# C18 - over-long paths are rejected, never truncated

Every fixed-size buffer mdsort fills is filled by one of a few setters (`snprintf`-based `pathjoin`, `strlcpy`,
`pathslice`, the `snprintf` of `maildir_genname`, of `expandtilde`, of `defaultconf`), each followed by a size test.
In the model a setter returns `none` exactly when the C function reports that the result does not fit, and otherwise
the COMPLETE intended string.

The limits are a parameter (`Model.Limits`: `PATH_MAX`, `NAME_MAX + 1`, the host name buffer; a size is a number of
bytes or `inf`, the ideal unbounded string).  `Model.mainPL L` is `main` under the limits `L`; `Model.mainPL stdLimits`
IS `Model.mainP`, the program the conformance run compares with the real binary (`C18_model_is_std`).

* `C18_limits_exact`: every setter, every size `n`: accepted iff the full result is shorter than `n`, and then the
  full result (`n - 1` accepted, `n` rejected: `C18_limits_boundary`).
* `C18_refines_unbounded`: for `L ≤ L'` (in particular `L' = Limits.unbounded`): the run under `L` issues the same
  calls with the same arguments, sees the same results and computes the same values as the run under `L'` until a
  setter overflows under `L`; from there the unit of work that overflowed (message / maildir / spool / configuration)
  only releases descriptors, the loop goes on with the NEXT unit, and the run ends with the error flag and a
  non-zero exit status.  `C18_run_units` + `C18_unit_refines` say the same for every unit from every state, which
  is what holds after the first overflow (the two runs necessarily part there: the unbounded one acts on the message
  the bounded one has rejected).
* `C18_no_truncated_path`: the traces of `mainP` and of the run with ideal strings, for every oracle (every behaviour
  of the file system, every fault plan, every interleaving).
* `C18_config_time`: the parser tests exactly the `~`-expanded strings; a configuration it rejects is rejected as a
  whole; literal and macro-expanded paths are tested where they are used.

Audit notes.  (1) At the list level a setter has the type `... → Option Bytes` and is DEFINED as "the full string if it
is shorter than the buffer, else `none`": a truncated string is not a value the list-level model can produce, so
`C18_pathjoin_exact`, `C18_strlcpy_exact`, `C18_limits_exact`, `C18_limits_boundary`, `C18_readenv_exact` restate
definitions (off-by-one included: `≥` in the definition, `<` in the statement).  What they would miss - a C setter that
ignores the return value of `snprintf` / `strlcpy` and goes on with the cut string - is caught by the correspondence run,
by `C18_L0_truncation_never_used` (index level, where the truncation IS in the buffer) and by
`C18_defaultconf_exact` / `_needs_ge` (`snprintfInto` does truncate), not by those statements.  The theorems with content
are the ones about what the PROGRAM does after a `none`: `C18_unit_refines`, `C18_run_units`, `C18_refines_unbounded`,
`C18_no_truncated_path`, `C18_config_time`, `C18_interpolation_*`, `C18_sane_needed`.
(2) (package p15) `PATH_MAX`, `NAME_MAX + 1`, the TZ and host name buffers, the buffers of `defaultconf` and `expandtilde` are no
longer constants written in the model: `tools/gen_tables.py` reads the two limits from the platform headers as the tree's
translation units see them (`cc -E -dM`) and the declared size of every path / name buffer from the sources, and the model
is defined with `Gen.*`; `C18_limits` is `decide` on the regenerated table.  (tools/props/c18.py still derives its window of
lengths from its own probe of the limits.)
(3) In `C18_no_truncated_path` the segment `rest` (everything after the releases of the first unit that overflowed) is not
constrained by that statement beyond "the run ends with the error flag and a non-zero status"; for it the claim "no
truncated path" rests on `C18_run_units` + `C18_unit_no_truncated_path` (every later unit, from whatever state it starts
in, is in lock step with the same unit under ideal strings) - there is no single trace-level statement for the whole run.
-/

namespace Mdsort.Props
open Mdsort Mdsort.Model Mdsort.Proofs.Limits Mdsort.Proofs.World

/-- `pathjoin` accepts exactly the results shorter than the buffer, and then returns `dir/file`
in full: no off-by-one in either direction, for every buffer size. -/
theorem C18_pathjoin_exact (n : Nat) (d f : Bytes) :
    pathjoin n d f = (if d.length + 1 + f.length < n then some (d ++ [47] ++ f) else none) := by
  unfold pathjoin
  have hl : (d ++ [47] ++ f).length = d.length + 1 + f.length := by simp; omega
  by_cases h : d.length + 1 + f.length < n
  · have h2 : ¬ (d ++ [47] ++ f).length ≥ n := by omega
    simp only [h2, h, if_true, if_false]
  · have h2 : (d ++ [47] ++ f).length ≥ n := by omega
    simp only [h2, h, if_true, if_false]

/-- `strlcpy` into a buffer of `n` bytes is accepted iff the source is shorter than `n`, and then
copies it in full. -/
theorem C18_strlcpy_exact (n : Nat) (s : Bytes) :
    strlcpyFits n s = (if s.length < n then some s else none) := by
  unfold strlcpyFits
  by_cases h : s.length < n
  · have : ¬ s.length ≥ n := by omega
    simp [h, this]
  · have : s.length ≥ n := by omega
    simp [h, this]

/-- The limits of the model ARE the limits the sources are compiled against, and the buffers are declared with them.
`Gen.pathMax` / `Gen.nameMax` are `PATH_MAX` / `NAME_MAX` as `cc -E -dM` reports them for a translation unit that includes
config.h and extern.h of the tree under check (same compiler, include path and feature-test macros as its build);
`Gen.charBuffers` lists every `char x[N]` declaration of the sources whose size mentions one of the two, plus `ev_hostname`
and `t_buf` (`tools/gen_tables.py`, regenerated on every run; a buffer the list needs and does not find stops the run).
* the model's two sizes are those values (on this platform 4096 and 255 + 1);
* the buffers that carry a path - environment (`ev_home`, `ev_tmpdir`), match (`mh_path`, `mh_maildir`), maildir
  (`md_root`, `md_path`), message (`me_path`, two locals of message.c), the static buffer of `defaultconf` - are ALL
  declared `[PATH_MAX]`, those that carry a file name or a `new`/`cur` component `[NAME_MAX + 1]`, and nothing else is in
  the list but the host name and zone buffers with their literal sizes: one size per kind is what `Model.Limits` assumes;
* `stdLimits`, the TZ buffer and the buffer of `expandtilde` are the generated values.
Declaring one of these buffers with another size, adding one, or compiling against other limits makes this false. -/
theorem C18_limits :
    PATH_MAX = Gen.pathMax ∧ NAME_MAX1 = Gen.nameMax + 1 ∧ Gen.pathMax = 4096 ∧ Gen.nameMax = 255 ∧
    (Gen.charBuffers.filter (fun b => b.2.2.1 == "PATH_MAX")).map (fun b => (b.1, b.2.1, b.2.2.2)) =
      [("extern.h", "ev_home", Gen.pathMax), ("extern.h", "ev_tmpdir", Gen.pathMax), ("extern.h", "mh_path", Gen.pathMax),
       ("extern.h", "mh_maildir", Gen.pathMax), ("maildir.c", "md_root", Gen.pathMax), ("maildir.c", "md_path", Gen.pathMax),
       ("message.c", "me_path", Gen.pathMax), ("message.c", "path", Gen.pathMax), ("message.c", "path", Gen.pathMax),
       ("mdsort.c", "path", Gen.pathMax)] ∧
    (Gen.charBuffers.filter (fun b => b.2.2.1 == "NAME_MAX + 1")).map (fun b => (b.1, b.2.1, b.2.2.2)) =
      [("extern.h", "mh_subdir", Gen.nameMax + 1), ("maildir.c", "dstname", Gen.nameMax + 1), ("maildir.c", "name", Gen.nameMax + 1),
       ("maildir.c", "name", Gen.nameMax + 1), ("maildir.c", "buf", Gen.nameMax + 1), ("message.c", "me_name", Gen.nameMax + 1),
       ("message.c", "name", Gen.nameMax + 1), ("expr.c", "buf", Gen.nameMax + 1), ("expr.c", "buf", Gen.nameMax + 1)] ∧
    Gen.charBuffers.filter (fun b => b.2.2.1 != "PATH_MAX" && b.2.2.1 != "NAME_MAX + 1") =
      [("extern.h", "ev_hostname", "256", Gen.evHostnameSize), ("extern.h", "t_buf", "256", Gen.tzBufSize)] ∧
    stdLimits = { pathMax := .fin Gen.pathMax, nameMax1 := .fin (Gen.nameMax + 1), hostMax := .fin Gen.evHostnameSize } ∧
    Gen.evHomeSize = Gen.pathMax ∧ Gen.evTmpdirSize = Gen.pathMax ∧ Gen.defaultconfSize = Gen.pathMax ∧
    Gen.expandtildeSize = Gen.pathMax ∧ TZ_BUF = Gen.tzBufSize := by
  refine ⟨rfl, rfl, by decide, by decide, by decide, by decide, by decide, rfl, by decide, by decide, by decide, by decide, rfl⟩

/-! ## the limits as parameters -/

/-- At the platform's limits the parametrised model is the model: the setters, the evaluator, one message, the walk,
`main` from the trees and `main` from the configuration text. -/
theorem C18_model_is_std :
    (∀ n d f, pathjoinL (.fin n) d f = pathjoin n d f) ∧
    (∀ n s, strlcpyL (.fin n) s = strlcpyFits n s) ∧
    (∀ path n b e, pathsliceL path (.fin n) b e = pathslice path n b e) ∧
    (∀ env root e part m st, evalL stdLimits env root e part m st = eval env root e part m st) ∧
    (∀ env ml msgs, matchesInterpolateL stdLimits env ml msgs = matchesInterpolate env ml msgs) ∧
    (∀ env orc expr md name st, processMessageL stdLimits env orc expr md name st = processMessage env orc expr md name st) ∧
    (∀ env orc expr fuel md st, walkL stdLimits env orc expr fuel md st = walk env orc expr fuel md st) ∧
    (∀ env input, maildirStdinL stdLimits env input = maildirStdin env input) ∧
    (∀ env orc confOk conf files input, mainPL stdLimits env orc confOk conf files input = mainP env orc confOk conf files input) ∧
    (∀ home defs rxOk text, parseConfigL stdLimits.pathMax home defs rxOk text = parseConfig home defs rxOk text) ∧
    (∀ env orc rxOk defs text files input,
      mainTextL stdLimits env orc rxOk defs text files input = mainText env orc rxOk defs text files input) :=
  ⟨fun _ _ _ => rfl, fun _ _ => rfl, fun _ _ _ _ => rfl, fun env root e part m st => evalL_std env root e part m st,
   matchesInterpolateL_std, processMessageL_std, fun env orc expr fuel md st => walkL_std env orc expr fuel md st,
   maildirStdinL_std, mainPL_std, fun _ _ _ _ => rfl, mainTextL_std⟩

/-! ## every setter accepts exactly what fits -/

/-- **Every setter, every buffer size `n`**: the result is the full intended string when that is shorter than `n`
(`n - 1` characters and the terminator fit) and a refusal otherwise - for `pathjoin` (`md_path`, `me_path`, `mh_path`,
`md_root` of the spool, the templates of `mkdtemp` / `mkostemp`), `strlcpy` (`md_root`, `me_name`, `mh_maildir`,
`mh_subdir`, `mh_path`, `ev_home`, `ev_tmpdir`), `pathslice` (`mh_maildir`, `mh_subdir`, `md_root` of a destination,
the `new`/`cur` component), the name buffer of `maildir_genname`, the buffer of `expandtilde`, the templates of
`mkdtemp` / `mkostemp`, the host name buffer.  (`defaultconf` and the copies of HOME / TMPDIR / TZ are modelled separately, `Model/Start.lean` of package ce8.) -/
theorem C18_limits_exact (n : Nat) :
    (∀ d f, pathjoinL (.fin n) d f = if d.length + 1 + f.length < n then some (d ++ [47] ++ f) else none) ∧
    (∀ s, strlcpyL (.fin n) s = if s.length < n then some s else none) ∧
    (∀ path b e, pathsliceL path (.fin n) b e =
      (pathsliceL path .inf b e).bind fun s => if s.length < n then some s else none) ∧
    (∀ name, gennameBufL (.fin n) name = if name.length < n then some name else none) ∧
    (∀ home r, expandTildeL (.fin n) home (126 :: r) = if home.length + r.length < n then some (home ++ r) else none) ∧
    (∀ tmpdir, pathjoinL (.fin n) tmpdir (ofString "mdsort-XXXXXXXX") =
      if tmpdir.length + 16 < n then some (tmpdir ++ [47] ++ ofString "mdsort-XXXXXXXX") else none) ∧
    (∀ host, readHostL (.fin n) host = if host.length < n then some (host.takeWhile (· != 46)) else none) := by
  refine ⟨fun d f => ?_, fun s => ?_, fun path b e => ?_, fun name => ?_, fun home r => ?_, fun tmpdir => ?_, fun host => ?_⟩
  · rw [pathjoinL_exact]; simp only [Lim.fits_fin, decide_eq_true_eq]
  · rw [strlcpyL_exact]; simp only [Lim.fits_fin, decide_eq_true_eq]
  · have := pathsliceL_Exact path b e (.fin n)
    simp only [Lim.fits_fin, decide_eq_true_eq] at this
    exact this
  · simp only [gennameBufL, Lim.fits_fin, decide_eq_true_eq]
  · simp only [expandTildeL, Lim.fits_fin, decide_eq_true_eq]
  · rw [pathjoinL_exact]
    simp only [Lim.fits_fin, decide_eq_true_eq]
    have : (ofString "mdsort-XXXXXXXX").length = 15 := by decide +kernel
    rw [this]
  · unfold readHostL
    rw [strlcpyL_exact]
    simp only [Lim.fits_fin, decide_eq_true_eq]
    split <;> rfl

/-- No off-by-one in either direction: a result of `n - 1` characters is accepted in full, one of `n` characters is
rejected. -/
theorem C18_limits_boundary (n : Nat) (hn : 0 < n) :
    (∀ d f, d.length + 1 + f.length = n - 1 → pathjoinL (.fin n) d f = some (d ++ [47] ++ f)) ∧
    (∀ d f, d.length + 1 + f.length = n → pathjoinL (.fin n) d f = none) ∧
    (∀ s, s.length = n - 1 → strlcpyL (.fin n) s = some s) ∧
    (∀ s, s.length = n → strlcpyL (.fin n) s = none) ∧
    (∀ path b e s, pathsliceL path .inf b e = some s → s.length = n - 1 → pathsliceL path (.fin n) b e = some s) ∧
    (∀ path b e s, pathsliceL path .inf b e = some s → s.length = n → pathsliceL path (.fin n) b e = none) ∧
    (∀ name, name.length = n - 1 → gennameBufL (.fin n) name = some name) ∧
    (∀ name, name.length = n → gennameBufL (.fin n) name = none) ∧
    (∀ home r, home.length + r.length = n - 1 → expandTildeL (.fin n) home (126 :: r) = some (home ++ r)) ∧
    (∀ home r, home.length + r.length = n → expandTildeL (.fin n) home (126 :: r) = none) := by
  obtain ⟨h1, h2, h3, h4, h5, _⟩ := C18_limits_exact n
  refine ⟨fun d f h => ?_, fun d f h => ?_, fun s h => ?_, fun s h => ?_, fun path b e s hs h => ?_, fun path b e s hs h => ?_,
    fun name h => ?_, fun name h => ?_, fun home r h => ?_, fun home r h => ?_⟩
  · rw [h1, if_pos (by omega)]
  · rw [h1, if_neg (by omega)]
  · rw [h2, if_pos (by omega)]
  · rw [h2, if_neg (by omega)]
  · rw [h3, hs]; simp only [Option.bind_some]; rw [if_pos (by omega)]
  · rw [h3, hs]; simp only [Option.bind_some]; rw [if_neg (by omega)]
  · rw [h4, if_pos (by omega)]
  · rw [h4, if_neg (by omega)]
  · rw [h5, if_pos (by omega)]
  · rw [h5, if_neg (by omega)]

/-- A smaller buffer never gives a DIFFERENT string: it gives what the larger one gives, or it refuses. -/
theorem C18_setters_monotone {l l' : Lim} (h : l ≤ l') :
    (∀ d f, pathjoinL l d f = none ∨ pathjoinL l d f = pathjoinL l' d f) ∧
    (∀ s, strlcpyL l s = none ∨ strlcpyL l s = strlcpyL l' s) ∧
    (∀ path b e, pathsliceL path l b e = none ∨ pathsliceL path l b e = pathsliceL path l' b e) ∧
    (∀ name, gennameBufL l name = none ∨ gennameBufL l name = gennameBufL l' name) ∧
    (∀ home str, expandTildeL l home str = none ∨ expandTildeL l home str = expandTildeL l' home str) :=
  ⟨fun d f => (pathjoinL_Exact d f).mono h, fun s => (strlcpyL_Exact s).mono h,
   fun path b e => (pathsliceL_Exact path b e).mono h, fun name => (gennameBufL_Exact name).mono h,
   fun home str => expandTildeL_mono home str h⟩

/-- What `pathslice` accepts is never longer than the path it slices: a buffer of `|path| + 1` bytes is as good as an
unbounded one (this is what `Lim.inf` means for `pathsliceL`). -/
theorem C18_pathslice_unbounded (path : Bytes) (n : Nat) (b e : Int) (s : Bytes) (h : pathslice path n b e = some s) :
    s.length < n ∧ s.length ≤ path.length ∧ pathsliceL path .inf b e = some s :=
  ⟨(pathslice_length h).1, (pathslice_length h).2, pathslice_big h⟩

/-! ## the whole run -/

/-- **One unit of work** (one message; the step from `new` to `cur`; opening a configured maildir; spooling standard
input; or any part of the loop that fills no buffer), started in ANY state, for `L ≤ L'`: the unit under `L` is in lock
step with the unit under `L'` - same calls, same arguments, same results, same value - until a setter overflows under
`L`; from there it only gives back descriptors (`close`, `closedir`, `fclose`) and returns its error value (error flag
set / `NULL`): no further call on the message or maildir. -/
theorem C18_unit_refines {L L' : Limits} (hle : L ≤ L') (hs : Sane L) {env : PEnv} {orc : EvalOracles} {β : Type}
    {F : Limits → Prog β} {E : β → Prop} (h : IsUnit env orc F E) : Sim (RelErr E) (F L) (F L') :=
  h.sim hle hs

/-- The unit "one message", spelled out. -/
theorem C18_message_refines {L L' : Limits} (hle : L ≤ L') (hs : Sane L) (env : PEnv) (orc : EvalOracles) (expr : Expr)
    (md : Maildir) (name : Bytes) (st : MainSt) :
    Sim (RelErr (fun r : MainSt × Maildir => r.1.error = true))
      (processMessageL L env orc expr md name st) (processMessageL L' env orc expr md name st) :=
  processMessageL_sim hle hs env orc expr md name st

/-- **The run is a sequence of units**: the run under `L` and the run under `L'` are built from the same units in the
same way (`PSim`: a unit `F`, taken at `L` on one side and at `L'` on the other, then continuations that are again so
related), and after a unit that returned an error value everything the run can still do ends in the error status. -/
theorem C18_run_units (L L' : Limits) (env : PEnv) (orc : EvalOracles) (confOk : Bool) (conf : List ConfBlock) (files : Files)
    (input : Bytes) :
    PSim env orc L L' MainErr (mainPL L env orc confOk conf files input) (mainPL L' env orc confOk conf files input) :=
  mainPL_psim env orc L L' confOk conf files input

/-- **`C18_refines_unbounded`**: for all limits `L ≤ L'`, all configurations, trees, environments: the run under `L`
and the run under `L'` issue the same calls with the same arguments and agree on every value up to the first setter
that overflows under `L`; at that point (`Stopped`) the unit that overflowed only releases descriptors, the loop goes
on with the next unit and whatever happens then, the run ends with the error flag set and a non-zero exit status.
(`Sim` is a statement about the two programs, so it holds for every way the calls can be answered: every file system,
fault plan and interleaving - `C18_no_truncated_path` reads it off the traces.) -/
theorem C18_refines_unbounded {L L' : Limits} (hle : L ≤ L') (hs : Sane L) (env : PEnv) (orc : EvalOracles) (confOk : Bool)
    (conf : List ConfBlock) (files : Files) (input : Bytes) :
    Sim (Stopped MainErr) (mainPL L env orc confOk conf files input) (mainPL L' env orc confOk conf files input) :=
  (mainPL_psim env orc L L' confOk conf files input).sim hle hs

/-- The model at the platform's limits against ideal, unbounded strings. -/
theorem C18_refines_ideal (env : PEnv) (orc : EvalOracles) (confOk : Bool) (conf : List ConfBlock) (files : Files) (input : Bytes) :
    Sim (Stopped MainErr) (mainP env orc confOk conf files input) (mainPL Limits.unbounded env orc confOk conf files input) := by
  rw [← mainPL_std]
  exact C18_refines_unbounded (Limits.le_unbounded _) sane_std env orc confOk conf files input

/-- **`C18_no_truncated_path`**: for every way the calls are answered (`orc j c` is the result of the `j`-th call): the
run of `mainP` and the run with ideal strings are the same run - same calls, same path and name arguments, same
results, same exit status and state - or they share a prefix `pre` of identical calls, after which `mainP` only
releases descriptors (`rels`) of the unit that overflowed, continues with the next unit (`rest`) and ends with the
error flag set and a non-zero exit status.  Every path or name `mainP` passes to a call of `pre` is therefore the
full string the ideal run passes at the same position; for the calls after the first overflow the same holds unit by
unit (`C18_unit_no_truncated_path` with `C18_run_units`). -/
theorem C18_no_truncated_path (env : PEnv) (eo : EvalOracles) (confOk : Bool) (conf : List ConfBlock) (files : Files) (input : Bytes)
    (orc : Nat → Call → Res) :
    let p := mainP env eo confOk conf files input
    let q := mainPL Limits.unbounded env eo confOk conf files input
    (runOracle orc p 0 [] = runOracle orc q 0 []) ∨
      ∃ pre rels rest : List (Call × Res),
        (runOracle orc p 0 []).2 = pre ++ rels ++ rest ∧ pre <+: (runOracle orc q 0 []).2 ∧
        (∀ x ∈ rels, x.1.isRelease = true) ∧
        (runOracle orc p 0 []).1.2.error = true ∧ (runOracle orc p 0 []).1.1 ≠ 0 := by
  intro p q
  rcases (C18_refines_ideal env eo confOk conf files input).trace_stopped orc 0 with ⟨h1, h2⟩ | ⟨pre, rels, rest, h1, h2, h3, h4⟩
  · left
    rw [runOracle_eq, runOracle_eq]
    show (valueFrom orc p 0, [] ++ callsFrom orc p 0) = (valueFrom orc q 0, [] ++ callsFrom orc q 0)
    rw [h1, h2]
  · right
    exact ⟨pre, rels, rest, h1, h2, h3, h4.1, h4.2⟩

/-- **Every call of a unit, from any state, under any oracle**: the calls of the unit under `L` are `pre ++ rels` where
`pre` is, call for call (arguments and results), a prefix of what the unit under `L'` issues at the same positions, and
`rels` are releases of descriptors; either nothing overflowed (`rels = []`, the same calls, the same value), or the value
is the unit's error value. -/
theorem C18_unit_no_truncated_path {L L' : Limits} (hle : L ≤ L') (hs : Sane L) {env : PEnv} {eo : EvalOracles} {β : Type}
    {F : Limits → Prog β} {E : β → Prop} (h : IsUnit env eo F E) (orc : Nat → Call → Res) (i : Nat) :
    ∃ pre rels : List (Call × Res), callsFrom orc (F L) i = pre ++ rels ∧ pre <+: callsFrom orc (F L') i ∧
      (∀ x ∈ rels, x.1.isRelease = true) ∧
      ((valueFrom orc (F L) i = valueFrom orc (F L') i ∧ rels = [] ∧ pre = callsFrom orc (F L') i) ∨ E (valueFrom orc (F L) i)) :=
  (h.sim hle hs).trace_relErr orc i

/-- In stdin mode the unit that can overflow before any message exists is the spool (`maildir_stdin`: the template in
TMPDIR, `root/new`, the generated name).  After ANY outcome of it - overflow included - `maildir_close` removes what was
created with `rmdir(md_path)`, `rmdir(md_root)`; `md_path` is then the empty string or `md_root/new` IN FULL (and
`md_root` the empty string or what `mkdtemp` returned): the buffers are cleared on overflow, a shortened path is never
removed.  (The pinned defect of DESIGN section 4 - `rmdir` of a truncated `md_root` - is gone with /repo commit adcfac2.) -/
theorem C18_spool_cleanup_paths (L : Limits) (env : PEnv) (input : Bytes) :
    All (fun r : Maildir × Bool × Option Bytes => r.1.path = [] ∨ r.1.path = r.1.root ++ [47] ++ subdirName .new)
      (maildirStdinL L env input) :=
  maildirStdinL_paths L env input

/-- The step from `new` to `cur` cannot overflow when the maildir was opened: `root/new` and `root/cur` have the same
length.  (So the only path a walked maildir can fail on is the one of `maildir_open`.) -/
theorem C18_cur_fits_when_new_fits (l : Lim) (root p : Bytes) (h : pathjoinL l root (subdirName .new) = some p) :
    pathjoinL l root (subdirName .cur) = some (root ++ [47] ++ subdirName .cur) := by
  rw [pathjoinL_exact] at h ⊢
  have e : (subdirName .cur).length = (subdirName .new).length := by decide
  rw [e]
  split at h
  · rename_i hf; rw [if_pos hf]
  · cases h

/-! ## where an over-long string is NOT an error, and why the name buffer must hold `new` -/

/-- The conditions `new` / `old` slice the `new`/`cur` component of the message path into a `NAME_MAX + 1` buffer and
treat a failure as "no match".  With a name buffer of 3 bytes (which cannot hold `new`) the evaluation silently differs
from the ideal one, so `C18_refines_unbounded` needs `Sane L` (the buffer holds 3 characters and the terminator; the
platform has 256).  With `Sane L` a component that does not fit is not `new` or `cur` for ideal strings either. -/
theorem C18_sane_needed :
    ∃ (L L' : Limits) (env : Env) (m : Msg) (st : St), L ≤ L' ∧ ¬ Sane L ∧
      (evalL L env m (.new 1) 0 m st).1 = .nomatch ∧ (evalL L' env m (.new 1) 0 m st).1 = .match := by
  refine ⟨{ pathMax := .inf, nameMax1 := .fin 3, hostMax := .inf }, Limits.unbounded,
    { rx := fun _ _ => .nomatch, command := fun _ => 0, isDir := fun _ => false, now := 0, strptime := fun _ => none,
      zoneName := fun _ => none, fileTime := fun _ => none, dryrun := false, path := ofString "/m/new/1" },
    { headers := [], body := [] }, { ml := [], flags := ⟨0, 0⟩ }, ⟨trivial, trivial, trivial⟩, by decide, ?_, ?_⟩
  · simp only [evalL]; decide +kernel
  · simp only [evalL]; decide +kernel

/-! ## configuration time -/

/-- **What the parser tests**: exactly the strings that start with `~`, after replacing `~` by the home directory, in
a buffer of `PATH_MAX` bytes (`expandtilde`, parse.y); any other string - a literal path of any length, and whatever
macros expand to, because `expandmacros` runs after `expandtilde` - passes the parser unmeasured. -/
theorem C18_config_time_what_is_tested (l : Lim) (home : Bytes) :
    (∀ r, expandTildeL l home (126 :: r) = if l.fits (home.length + r.length) then some (home ++ r) else none) ∧
    (∀ str, (∀ r, str ≠ 126 :: r) → expandTildeL l home str = some str) ∧
    (∀ action ms str, expandStr l home action ms str =
      (expandTildeL l home str).bind fun s => expandMacros action (s.length + 1) s ms []) := by
  refine ⟨fun r => rfl, fun str h => expandTildeL_plain l home str h, fun action ms str => ?_⟩
  unfold expandStr
  cases expandTildeL l home str <;> rfl

/-- **`C18_config_time`**: the parser under the smaller `expandtilde` buffer gives exactly what the parser under the
larger one gives - the same trees, the same diagnostic - or it rejects the configuration; and the run from the
configuration TEXT under `L` is in lock step with the run under `L'` until the first overflow, which for a `~` path is
at configuration time: then the run opens and closes the configuration file (as the other run does) and stops with the
error status - no maildir is opened, no message touched (`C18_config_rejected_whole`). -/
theorem C18_config_time {L L' : Limits} (hle : L ≤ L') (hs : Sane L) (env : PEnv) (orc : EvalOracles) (rxOk : Pat → Bool)
    (defs : List (Bytes × Bytes)) (confText : Bytes) (files : Files) (input : Bytes) :
    (parseConfigL L.pathMax env.home defs rxOk confText = parseConfigL L'.pathMax env.home defs rxOk confText ∨
      ∃ line, parseConfigL L.pathMax env.home defs rxOk confText = .error line) ∧
    Sim (Stopped MainErr) (mainTextL L env orc rxOk defs confText files input)
      (mainTextL L' env orc rxOk defs confText files input) :=
  ⟨parseConfigL_mono hle.1 env.home defs rxOk confText, mainTextL_sim hle hs env orc rxOk defs confText files input⟩

/-- A configuration the parser rejects - under any limits, here because a `~` path does not fit - is rejected as a
whole: the run IS the run of `Model.mainP` with verdict "rejected", for which `C14_reject_whole_text` /
`C04_reject_no_call` show that the only calls are `fopen` and `fclose` of the configuration file and the exit status
is 1 (75 in stdin mode). -/
theorem C18_config_rejected_whole (L : Limits) (env : PEnv) (orc : EvalOracles) (rxOk : Pat → Bool) (defs : List (Bytes × Bytes))
    (confText : Bytes) (files : Files) (input : Bytes) (line : Nat)
    (h : parseConfigL L.pathMax env.home defs rxOk confText = .error line) (w : World) (plan : Plan) :
    let p := mainTextL L env orc rxOk defs confText files input
    p = mainP env orc false [] files input ∧
    (runPlan plan p w 0 []).1.2.error = true ∧ (runPlan plan p w 0 []).1.1 = (if env.stdinMode then 75 else 1) ∧
    (Proofs.callsOf plan p w = [Call.fopen env.confpath] ∨
      ∃ hd, Proofs.callsOf plan p w = [Call.fopen env.confpath, Call.fclose hd]) := by
  intro p
  have hp : p = mainP env orc false [] files input := mainTextL_rejected L env orc rxOk defs confText files input h
  have hb := Proofs.bad_config_only_reads_config env orc [] files input w plan
  have hx := Proofs.exit_status_table env orc false [] files input w plan
  simp only at hb hx
  refine ⟨hp, ?_, ?_, ?_⟩
  · rw [hp]; exact hb.1
  · rw [hp, hx]
    simp only [exitStatus, hb.1, if_true, Gen.exTempfail]
  · rw [hp]; exact hb.2

/-- Literal (and macro-expanded) paths are tested where they are used, per maildir and per message: a configured
maildir whose path, or path + `/new`, does not fit is not opened (no call), the error flag is set and the loop goes on
with the next maildir; a `move` destination, a `flag` subdirectory, an `isdirectory` path that does not fit makes the
evaluation of the rule an error for that message. -/
theorem C18_literal_paths_tested_at_use (L : Limits) :
    (∀ p, (strlcpyL L.pathMax p = none ∨ pathjoinL L.pathMax p (subdirName .new) = none) → openMaildirL L p = pure none) ∧
    (∀ env root lno path part m st, strlcpyL L.pathMax path = none →
      evalL L env root (.move lno path) part m st = (.error, st)) ∧
    (∀ env root lno sd part m st, strlcpyL L.nameMax1 sd = none →
      evalL L env root (.flag lno sd) part m st = (.error, st)) ∧
    (∀ env root lno path part m st, strlcpyL L.pathMax path = none →
      (evalL L env root (.stat lno path) part m st).1 = .error) := by
  refine ⟨fun p h => ?_, fun env root lno path part m st h => ?_, fun env root lno sd part m st h => ?_,
    fun env root lno path part m st h => ?_⟩
  · unfold openMaildirL
    rcases h with h | h
    · rw [h]
    · rw [h]; cases strlcpyL L.pathMax p <;> rfl
  · simp only [evalL, h]
  · simp only [evalL, h]
  · simp only [evalL, h]
    split <;> rfl

/-! ## the index level -/

open L0 in
/-- **At the index level** (`Model/L0/Util.lean`: `pathslice` writing byte by byte into a caller's buffer of `bufsiz`
bytes): whenever it runs out of room - a truncation of the slice is then in the buffer - it returns `NULL` (`none`):
the buffer is not handed to the caller.  Whenever it returns the buffer, the C string in it is the COMPLETE slice
(that of an unbounded buffer) and is shorter than `bufsiz`.  Ties `L0.pathslice` through `C07_L0_refines_util`
(`l0r_pathslice_refines`) to `C18_limits_exact`. -/
theorem C18_L0_truncation_never_used (path : Buf) (hp : path.bytes.back? = some 0) (buf : Buf) (bufsiz : Nat)
    (hb : bufsiz ≤ buf.size) (beg end_ : Int) :
    ∃ r, L0.pathslice path buf bufsiz beg end_ = .ok r ∧
      (∀ d, r = some d → pathsliceL (path.view 0) .inf beg end_ = some (d.view 0) ∧ (d.view 0).length < bufsiz) ∧
      (r = none → ∀ s, pathsliceL (path.view 0) .inf beg end_ = some s → bufsiz ≤ s.length) := by
  obtain ⟨r, hr, hrel⟩ := l0r_pathslice_refines path (Buf.Terminated.hasNul0 hp) buf bufsiz hb beg end_
  refine ⟨r, hr, fun d hd => ?_, fun hn s hs => ?_⟩
  · subst hd
    simp only [Option.map_some] at hrel
    exact ⟨pathslice_big hrel.symm, (pathslice_length hrel.symm).1⟩
  · subst hn
    simp only [Option.map_none] at hrel
    have hex := (C18_limits_exact bufsiz).2.2.1 (path.view 0) beg end_
    rw [hs] at hex
    simp only [Option.bind_some] at hex
    by_cases hlt : s.length < bufsiz
    · rw [if_pos hlt] at hex
      have : pathslice (path.view 0) bufsiz beg end_ = some s := hex
      rw [← hrel] at this
      cases this
    · omega

/-! ## over-long paths that arise in the MIDDLE of an action list

`match_interpolate` has already `strlcpy`-truncated `mh_path` when it reports the over-long destination; what keeps
`matches_exec` away from that truncation is that `matches_interpolate` stops at the first failure and reports it whatever
the remaining entries do (`error = 1; break;`).  The model's `matchesInterpolate` has that order and stop behaviour (tied to
match.c by the `eval` request of the unit harness with a failing entry followed by succeeding ones, and by the position
family of the process stage); here it is proved for all limits. -/

/-- **`C18_interpolation_failure_is_sticky`**: for every match list, all limits: if `match_interpolate` fails for ANY
entry `i` of the list (judged on the list as it is handed to `matches_interpolate`, with any message `msgs0` - whether an
entry can be interpolated depends neither on the message nor on what the interpolation of earlier entries stored) then
`matches_interpolate` fails as a whole, whatever entries follow and whether they can be interpolated. -/
theorem C18_interpolation_failure_is_sticky (L : Limits) (env : Env) (ml : MatchList) (msgs msgs0 : Nat → Msg) (i : Nat) (mh : Match)
    (hi : ml[i]? = some mh)
    (hf : matchInterpolateL L (some [(ofString "path", env.path)]) ml i mh msgs0 = none) :
    matchesInterpolateL L env ml msgs = none :=
  matchesInterpolateL_none_of_entry L env ml msgs msgs0 i mh hi hf

/-- The same for the functions the correspondence run compares with match.c (`PATH_MAX` = 4096). -/
theorem C18_interpolation_failure_is_sticky_platform (env : Env) (ml : MatchList) (msgs msgs0 : Nat → Msg) (i : Nat) (mh : Match)
    (hi : ml[i]? = some mh)
    (hf : matchInterpolate (some [(ofString "path", env.path)]) ml i mh msgs0 = none) :
    matchesInterpolate env ml msgs = none := by
  rw [← matchesInterpolateL_std]
  exact matchesInterpolateL_none_of_entry stdLimits env ml msgs msgs0 i mh hi (by rw [matchInterpolateL_std]; exact hf)

/-- **What "fails" means**, exactly: `matches_interpolate` fails IFF for some entry a template cannot be interpolated
(reference to a group that does not exist, unknown macro, unterminated `${`: `C12_backref_lookup`, `C12_interpolate`) or
the entry is a `move` / `isdirectory` whose INTERPOLATED path does not fit the path buffer.  (The strings of `flag`,
`flags`, `discard`, ... are not interpolated: those entries never fail here; their paths were measured when the entry was
appended, `C18_literal_paths_tested_at_use`.) -/
theorem C18_interpolation_fails_iff (L : Limits) (env : Env) (ml : MatchList) (msgs : Nat → Msg) :
    matchesInterpolateL L env ml msgs = none ↔
      ∃ (i : Nat) (mh : Match), ml[i]? = some mh ∧
        ((∃ t ∈ Proofs.templates mh, interpolate (ml.take i) (some [(ofString "path", env.path)]) t = none) ∨
         ((mh.ty = .move ∨ mh.ty = .stat) ∧
            ∃ p, interpolate (ml.take i) (some [(ofString "path", env.path)]) mh.path = some p ∧ L.pathMax.fits p.length = false)) := by
  rw [matchesInterpolateL_none_iff]
  constructor
  · rintro ⟨i, mh, hi, hf⟩
    exact ⟨i, mh, hi, (matchInterpolateL_none_iff L _ ml i mh msgs).mp (hf msgs)⟩
  · rintro ⟨i, mh, hi, h⟩
    exact ⟨i, mh, hi, fun msgs0 => (matchInterpolateL_none_iff L _ ml i mh msgs0).mpr h⟩

/-- **The over-long case, explicitly**: a `move` (or `isdirectory`) entry ANYWHERE in the list whose interpolated path has
`p.length` characters and does not fit the path buffer of `L`: `matches_interpolate` fails, whatever follows the entry
(a `label`, an `add-header`, an `exec`, the actions of a later rule reached through `pass`). -/
theorem C18_overlong_interpolation_fails_all (L : Limits) (env : Env) (ml : MatchList) (msgs : Nat → Msg) (i : Nat) (mh : Match)
    (hi : ml[i]? = some mh) (hty : mh.ty = .move ∨ mh.ty = .stat) (p : Bytes)
    (hp : interpolate (ml.take i) (some [(ofString "path", env.path)]) mh.path = some p)
    (hfit : L.pathMax.fits p.length = false) :
    matchesInterpolateL L env ml msgs = none :=
  matchesInterpolateL_none_of_entry L env ml msgs msgs i mh hi (matchInterpolateL_overlong L _ ml i mh msgs hty p hp hfit)

/-- **... and then nothing is done with the message** (all limits, whatever the calls return): when in this run the rules
match - the result `ev` of the evaluation program `evalPL L` (Model/LimitsWorld.lean; `command`, `isdirectory` and
file-time `date` conditions call the operating system), run after the parse phase - and `match_interpolate` fails for some
entry `i` of the resulting list - wherever it stands in the list -, `processMessageL` issues no mutating call: every call is
one of the parse phase (`openat(O_RDONLY)` / `read` / `close`) or of evaluation (`Proofs.EvalCallOf expr`: `stat` only for a
rule tree with an `isdirectory` or file-time `date` condition; `open("/dev/null")`, `fork`, `waitpid`, `close` only for one
with a `command` condition - in particular no process is started for a tree without `command` conditions), in that order,
and after them only `close`; the outcome is the error flag, the files, the log and the maildir unchanged.  In particular no
call names `mh_path` (neither the intended path nor a truncation of it) and no later action of the list is executed. -/
theorem C18_interpolation_failure_no_effect (L : Limits) (env : PEnv) (orc : EvalOracles) (expr : Expr) (md : Maildir) (name : Bytes)
    (st : MainSt) (d : Handle) (content p n : Bytes) (mf : MFlags) (i : Nat) (mh : Match) (msgs0 : Nat → Msg)
    (hd : md.dirH = some d) (hf : st.files.get md.path name = some content)
    (hp : pathjoinL L.pathMax md.path name = some p) (hn : strlcpyL L.nameMax1 name = some n)
    (hmf : flagsParse n = some mf)
    (orcl : Nat → Call → Res) (ev : Tri × St)
    (hrun : (Proofs.Own.runO orcl (evalPL L (Proofs.msgEnv env orc p) expr (parseMessage content) mf)
      (Proofs.Own.runO orcl (messageParsePL L d md.path name content) 0).2.2).1 = ev)
    (hev : ev.1 = .match)
    (hi : ev.2.ml[i]? = some mh)
    (hfail : matchInterpolateL L (some [(ofString "path", p)]) ev.2.ml i mh msgs0 = none) :
    (runOracle orcl (processMessageL L env orc expr md name st) 0 []).1 = ({ st with error := true }, md) ∧
    (∀ x ∈ (runOracle orcl (processMessageL L env orc expr md name st) 0 []).2,
      (((∃ nm, x.1 = .openRd d nm) ∨ (∃ fd, x.1 = .read fd) ∨ ∃ fd, x.1 = .close fd) ∨ Proofs.EvalCallOf expr x.1) ∧
        x.1.mutating = false ∧ (x.1.isFork = true → Proofs.hasCommand expr = true)) ∧
    ∃ E T, (runOracle orcl (processMessageL L env orc expr md name st) 0 []).2 =
        (runOracle orcl (messageParsePL L d md.path name content) 0 []).2 ++ E ++ T ∧
        (∀ x ∈ E, Proofs.EvalCallOf expr x.1) ∧ ∀ x ∈ T, ∃ fd, x.1 = .close fd := by
  obtain ⟨tri, est⟩ := ev
  simp only at hev hi hfail
  subst hev
  obtain ⟨h1, h2, h3⟩ := processMessageL_interp_error_run L env orc expr md name st d content p n mf est hd hf hp hn hmf orcl hrun
      (matchesInterpolateL_none_of_entry L (Proofs.msgEnv env orc p) est.ml _ msgs0 i mh hi hfail)
  exact ⟨h1, fun x hx => ⟨(h2 x hx).1, (h2 x hx).2, fun hfk => Proofs.ParseEvalCall.fork' (h2 x hx).1 hfk⟩, h3⟩

/-- `C18_interpolation_failure_no_effect` for a rule tree without `command`, `isdirectory` and file-time `date` conditions
(`Proofs.asksFree`), in terms of the pure evaluator `evalL`: every call is `openat(O_RDONLY)` / `read` / `close`,
non-mutating, no `fork`, and after the parse phase only `close`. -/
theorem C18_interpolation_failure_no_effect_pure (L : Limits) (env : PEnv) (orc : EvalOracles) (expr : Expr) (md : Maildir)
    (name : Bytes) (st : MainSt) (d : Handle) (content p n : Bytes) (mf : MFlags) (i : Nat) (mh : Match) (msgs0 : Nat → Msg)
    (hd : md.dirH = some d) (hf : st.files.get md.path name = some content)
    (hp : pathjoinL L.pathMax md.path name = some p) (hn : strlcpyL L.nameMax1 name = some n)
    (hmf : flagsParse n = some mf) (hfree : Proofs.asksFree expr = true)
    (hev : (evalL L (Proofs.msgEnv env orc p) (parseMessage content) expr 0 (parseMessage content)
      { ml := [], flags := mf }).1 = .match)
    (hi : (evalL L (Proofs.msgEnv env orc p) (parseMessage content) expr 0 (parseMessage content)
      { ml := [], flags := mf }).2.ml[i]? = some mh)
    (hfail : matchInterpolateL L (some [(ofString "path", p)])
      (evalL L (Proofs.msgEnv env orc p) (parseMessage content) expr 0 (parseMessage content) { ml := [], flags := mf }).2.ml
      i mh msgs0 = none)
    (orcl : Nat → Call → Res) :
    (runOracle orcl (processMessageL L env orc expr md name st) 0 []).1 = ({ st with error := true }, md) ∧
    (∀ x ∈ (runOracle orcl (processMessageL L env orc expr md name st) 0 []).2,
      ((∃ nm, x.1 = .openRd d nm) ∨ (∃ fd, x.1 = .read fd) ∨ ∃ fd, x.1 = .close fd) ∧
        x.1.mutating = false ∧ x.1.isFork = false) ∧
    ∃ T, (runOracle orcl (processMessageL L env orc expr md name st) 0 []).2 =
        (runOracle orcl (messageParsePL L d md.path name content) 0 []).2 ++ T ∧ ∀ x ∈ T, ∃ fd, x.1 = .close fd := by
  cases h : evalL L (Proofs.msgEnv env orc p) (parseMessage content) expr 0 (parseMessage content) { ml := [], flags := mf } with
  | mk tri est =>
    rw [h] at hev hi hfail
    simp only at hev hi hfail
    subst hev
    exact processMessageL_interp_error_run_pure L env orc expr md name st d content p n mf est hd hf hp hn hmf hfree h
      (matchesInterpolateL_none_of_entry L (Proofs.msgEnv env orc p) est.ml _ msgs0 i mh hi hfail) orcl

/-- Oracles for the example: every pattern matches its subject with group 0 = group 1 = the first 8 bytes. -/
def C18_exampleOracles : EvalOracles :=
  { rx := fun _ _ => .ok [some (0, 8), some (0, 8)], strptime := fun _ => none, zoneName := fun _ => none }

/-- Non-vacuity: `match header "X-Tail" /(.*)/ move "/d/\1" label "x"` on a message with `X-Tail: abcdefgh`, path buffer
of 12 bytes.  The rules match; the list is `[match, header, move, label]`; the `move` entry (position 2, NOT the last) has the
template `/d/\1/new` (9 characters: fits) and the interpolated path `/d/abcdefgh/new` (15 characters: does not fit), its
`match_interpolate` fails; the `label` entry AFTER it can be interpolated on its own - and the list as a whole fails, so
the hypotheses of `C18_interpolation_failure_no_effect` hold.  Under ideal strings the same list is interpolated in full
(destination `/d/abcdefgh/new`; the `label` entry carries the maildir of the message, `/m/new`). -/
example :
    let L : Limits := { pathMax := .fin 12, nameMax1 := .fin 8, hostMax := .inf }
    let content := ofString "X-Tail: abcdefgh\n\nb\n"
    let expr : Expr := .mtch 1 (.header 1 [ofString "X-Tail"] { src := ofString "(.*)" })
      (.and 1 (.move 1 (ofString "/d/\\1")) (.label 1 [ofString "x"]))
    let p := ofString "/m/new/1"
    let ev := fun L => evalL L (Proofs.msgEnv Proofs.examplePEnv C18_exampleOracles p) (parseMessage content) expr 0
      (parseMessage content) { ml := [], flags := MFlags.empty }
    let msgs := partMsg (parseMessage content) ((getAttachments (parseMessage content)).getD [])
    pathjoinL L.pathMax (ofString "/m/new") (ofString "1") = some p ∧
    strlcpyL L.nameMax1 (ofString "1") = some (ofString "1") ∧ flagsParse (ofString "1") = some MFlags.empty ∧
    (ev L).1 = .match ∧
    (ev L).2.ml.map (·.ty) = [.mtch, .header, .move, .label] ∧
    ((ev L).2.ml[2]?).map (·.path) = some (ofString "/d/\\1/new") ∧
    (((ev L).2.ml[2]?).map fun mh => (matchInterpolateL L (some [(ofString "path", p)]) (ev L).2.ml 2 mh msgs).isNone) = some true ∧
    (((ev L).2.ml[3]?).map fun mh => (matchInterpolateL L (some [(ofString "path", p)]) (ev L).2.ml 3 mh msgs).isSome) = some true ∧
    matchesInterpolateL L (Proofs.msgEnv Proofs.examplePEnv C18_exampleOracles p) (ev L).2.ml msgs = none ∧
    ((matchesInterpolateL Limits.unbounded (Proofs.msgEnv Proofs.examplePEnv C18_exampleOracles p) (ev Limits.unbounded).2.ml msgs).map
      fun r => r.1.map (·.path)) = some [[], [], ofString "/d/abcdefgh/new", ofString "/m/new"] := by
  intro L content expr p ev msgs
  simp only [ev, expr, evalL]
  simp only [L, content, p, msgs]
  decide +kernel

/-- Non-vacuity of the platform form with the other kind of failure: `move "/d/\\1"` where the rule has no capturing
pattern (invalid back-reference), followed by a label that can be interpolated: entry 1 fails, entry 2 does not, the
list fails. -/
example :
    let ml : MatchList := [{ ty := .mtch, lno := 1, part := 0 }, { ty := .move, lno := 1, part := 0, path := ofString "/d/\\1/new" },
                           { ty := .label, lno := 1, part := 0, strings := [ofString "x"] }]
    let msgs : Nat → Msg := fun _ => { headers := [], body := [] }
    ((ml[1]?).map fun mh => (matchInterpolate (some [(ofString "path", Proofs.exampleEnv.path)]) ml 1 mh msgs).isNone) = some true ∧
    ((ml[2]?).map fun mh => (matchInterpolate (some [(ofString "path", Proofs.exampleEnv.path)]) ml 2 mh msgs).isSome) = some true ∧
    matchesInterpolate Proofs.exampleEnv ml msgs = none := by
  decide +kernel

/-! ## non-vacuity and examples -/

/-- The hypotheses of the refinement theorems hold for the platform against ideal strings, and for small limits. -/
example : stdLimits ≤ Limits.unbounded ∧ Sane stdLimits := ⟨Limits.le_unbounded _, sane_std⟩
example : ({ pathMax := .fin 64, nameMax1 := .fin 8, hostMax := .fin 8 } : Limits) ≤ stdLimits ∧
    Sane { pathMax := .fin 64, nameMax1 := .fin 8, hostMax := .fin 8 } := ⟨by decide, by decide⟩

/-- Boundary: a join of 15 characters fits 16 bytes, one of 16 does not; the slice `/m` of `/m/new/1` fits 3 bytes,
not 2 - and is never shortened. -/
example : pathjoinL (.fin 16) (ofString "/aaaaaaa") (ofString "bbbbbb") = some (ofString "/aaaaaaa/bbbbbb") ∧
    pathjoinL (.fin 16) (ofString "/aaaaaaa") (ofString "bbbbbbb") = none ∧
    pathsliceL (ofString "/m/new/1") (.fin 3) 0 (-2) = some (ofString "/m") ∧
    pathsliceL (ofString "/m/new/1") (.fin 2) 0 (-2) = none := by decide +kernel

/-- A destination that overflows only AFTER interpolation: `move "/d/\1"` with a 12-byte path buffer.  The template
(5 characters) fits and so does the joined path of the template; with the captured text `abcdefgh` the interpolated
path `/d/abcdefgh/new` has 15 characters and does not fit: the interpolation of the match list fails (the message's
action list is dropped, the error flag set) - under ideal strings it is the full path. -/
example :
    let L : Limits := { pathMax := .fin 12, nameMax1 := .fin 8, hostMax := .inf }
    let mh : Match := { ty := .move, lno := 1, part := 0, maildir := ofString "/d/\\1", subdir := ofString "new",
                        path := ofString "/d/\\1/new" }
    let hdr : Match := { ty := .header, lno := 1, part := 0, subs := [{ str := ofString "abcdefgh", off := some (0, 8) },
                        { str := ofString "abcdefgh", off := some (0, 8) }] }
    let ml : MatchList := [{ ty := .mtch, lno := 1, part := 0 }, hdr, mh]
    strlcpyL L.pathMax (ofString "/d/\\1") = some (ofString "/d/\\1") ∧
    pathjoinL L.pathMax (ofString "/d/\\1") (ofString "new") = some (ofString "/d/\\1/new") ∧
    matchInterpolateL L (some []) ml 2 mh (fun _ => { headers := [], body := [] }) = none ∧
    (matchInterpolateL Limits.unbounded (some []) ml 2 mh (fun _ => { headers := [], body := [] })).map (·.1.path) =
      some (ofString "/d/abcdefgh/new") := by
  decide +kernel

/-- `maildir "~/box"` with home `/home/user` and an `expandtilde` buffer of 12 bytes: "path too long", the configuration
is rejected as a whole; with 64 bytes it is accepted.  A literal path of the same length is accepted by the parser under
both (and refused when the maildir is opened). -/
example :
    Proofs.Conf.isErrorAt 1 (parseConfigL (.fin 12) (ofString "/home/user") [] (fun _ => true)
      (ofString "maildir \"~/box\" { match all move \"x\" }")) = true ∧
    Proofs.Conf.isOkNonempty (parseConfigL (.fin 64) (ofString "/home/user") [] (fun _ => true)
      (ofString "maildir \"~/box\" { match all move \"x\" }")) = true ∧
    Proofs.Conf.isOkNonempty (parseConfigL (.fin 12) (ofString "/home/user") [] (fun _ => true)
      (ofString "maildir \"/home/user/box\" { match all move \"x\" }")) = true ∧
    strlcpyL (.fin 12) (ofString "/home/user/box") = none := by
  refine ⟨by decide +kernel, by decide +kernel, by decide +kernel, by decide +kernel⟩

/-- The index-level `pathslice` on `/m/new/1`: with 3 bytes it returns the buffer holding `/m`; with 2 bytes it returns
`NULL` (having written `/` into the buffer). -/
example :
    (match L0.pathslice (L0.Buf.ofBytes (ofString "/m/new/1")) (L0.Buf.malloc 3) 3 0 (-2) with
      | .ok (some d) => d.view 0 == ofString "/m"
      | _ => false) = true ∧
    (match L0.pathslice (L0.Buf.ofBytes (ofString "/m/new/1")) (L0.Buf.malloc 2) 2 0 (-2) with
      | .ok none => true
      | _ => false) = true := by
  decide +kernel
/-! ## The default configuration path and the environment (mdsort.c `defaultconf`, `readenv`) -/

theorem confSuffix_length : confSuffix.length = 13 := rfl

/-- `defaultconf`, for every buffer size: accepted iff `strlen(home) + 13` (the length of `home/.mdsort.conf`) is
smaller than the buffer, and then the result is `home ++ "/.mdsort.conf"` in full - never a truncation of it. -/
theorem C18_defaultconf_exact (siz : Nat) (home : Bytes) :
    defaultconf siz home = (if home.length + 13 < siz then some (home ++ confSuffix) else none) ∧
    (∀ p, defaultconf siz home = some p → p = home ++ confSuffix) := by
  have hl : (home ++ confSuffix).length = home.length + 13 := by rw [List.length_append, confSuffix_length]
  have key : defaultconf siz home = (if home.length + 13 < siz then some (home ++ confSuffix) else none) := by
    unfold defaultconf defaultconfWith snprintfInto
    simp only [hl]
    by_cases h : home.length + 13 < siz
    · have h2 : ¬ home.length + 13 ≥ siz := by omega
      simp only [h, h2, decide_false, Bool.false_eq_true, if_false, if_true]
      rw [List.take_of_length_le (by rw [hl]; omega)]
    · have h2 : home.length + 13 ≥ siz := by omega
      simp only [h, h2, decide_true, if_true, if_false]
  refine ⟨key, ?_⟩
  intro p hp
  rw [key] at hp
  split at hp
  · exact (Option.some.inj hp).symm
  · cases hp

/-- With `PATH_MAX = 4096`: a home directory of up to 4082 bytes is accepted, 4083 and more rejected. -/
theorem C18_defaultconf_limit (home : Bytes) :
    (defaultconf PATH_MAX home).isSome = decide (home.length ≤ 4082) := by
  rw [(C18_defaultconf_exact PATH_MAX home).1]
  by_cases h : home.length ≤ 4082
  · have : home.length + 13 < PATH_MAX := by unfold PATH_MAX; rw [Gen_pathMax_eq]; omega
    simp [h, this]
  · have : ¬ home.length + 13 < PATH_MAX := by unfold PATH_MAX; rw [Gen_pathMax_eq]; omega
    simp [h, this]

/-- Why the test is `n >= siz`: with `n > siz` (one too lenient) a home directory for which `home/.mdsort.conf` has
exactly `siz` bytes is ACCEPTED and the path handed to `config_parse` is the string minus its last byte
(`home/.mdsort.con`), a different file - for every buffer size. -/
theorem C18_defaultconf_needs_ge (siz : Nat) (home : Bytes) (h : home.length + 13 = siz) :
    defaultconfWith (fun n siz => n > siz) siz home = some ((home ++ confSuffix).take (siz - 1)) ∧
    (home ++ confSuffix).take (siz - 1) ≠ home ++ confSuffix ∧
    (home ++ confSuffix).take (siz - 1) = home ++ confSuffix.take 12 := by
  have hl : (home ++ confSuffix).length = home.length + 13 := by rw [List.length_append, confSuffix_length]
  refine ⟨?_, ?_, ?_⟩
  · unfold defaultconfWith snprintfInto
    simp only [hl]
    have : ¬ home.length + 13 > siz := by omega
    simp [this]
  · intro he
    have := congrArg List.length he
    rw [List.length_take, hl] at this
    omega
  · rw [List.take_append]
    have e1 : siz - 1 - home.length = 12 := by omega
    rw [e1, List.take_of_length_le (by omega)]

theorem strlcpyFits_some {n : Nat} {s r : Bytes} (h : strlcpyFits n s = some r) : r = s ∧ s.length < n := by
  unfold strlcpyFits at h
  split at h
  · cases h
  · cases h; exact ⟨rfl, by omega⟩

/-- `readenv` copies HOME, TMPDIR and TZ in full or ends the run: accepted iff each value is shorter than its buffer
(`PATH_MAX`, `PATH_MAX`, 256); what the run continues with is the complete value. -/
theorem C18_readenv_exact (raw : RawEnv) (h t : Bytes) (hh : raw.home = some h) (hne : h ≠ []) (ht : raw.tmpdir = some t) (tne : t ≠ []) :
    readenv raw =
      if h.length ≥ PATH_MAX then .error .homeTooLong
      else if t.length ≥ PATH_MAX then .error .tmpdirTooLong
      else match raw.tz with
        | none => .ok (h, t, none)
        | some z => if z.length ≥ TZ_BUF then .error .tzTooLong else .ok (h, t, some z) := by
  have h1 : h.isEmpty = false := by cases h <;> simp_all
  have t1 : t.isEmpty = false := by cases t <;> simp_all
  have hs : homeSource raw = some h := by unfold homeSource; rw [hh]; simp [h1]
  have ts : tmpSource raw = t := by unfold tmpSource; rw [ht]; simp [t1]
  unfold readenv
  rw [hs, ts, Gen_evHomeSize_eq, Gen_evTmpdirSize_eq]
  unfold strlcpyFits
  by_cases c1 : h.length ≥ PATH_MAX
  · simp only [c1, if_true]
  · simp only [c1, if_false]
    by_cases c2 : t.length ≥ PATH_MAX
    · simp only [c2, if_true]
    · simp only [c2, if_false]
      cases hz : raw.tz with
      | none => rfl
      | some z =>
        simp only
        by_cases c3 : z.length ≥ TZ_BUF
        · simp only [c3, if_true]
        · simp only [c3, if_false]

/-- The buffer sizes the model of `readenv` uses are the ones `struct environment` declares in extern.h of the tree under
check (table regenerated on every run): `ev_home[PATH_MAX]`, `ev_tmpdir[PATH_MAX]`, `ev_hostname[256]`, `ev_tz.t_buf[256]`. -/
theorem C18_readenv_buffers :
    Gen.envBuffers = [("ev_home", PATH_MAX), ("ev_tmpdir", PATH_MAX), ("ev_hostname", NAME_MAX1), ("t_buf", TZ_BUF)] := by
  decide +kernel

/-- The TZ copy of `readenv` (`strlcpy(env->ev_tz.t_buf, p, sizeof(env->ev_tz.t_buf)) >= siz` => `errc`), bound 256, for
EVERY environment: (1) never a truncation - whenever `readenv` succeeds the time zone the run continues with is exactly
`getenv("TZ")` and it is shorter than the buffer; (2) a value that does not fit ends the run, whatever HOME and TMPDIR
are; (3) a value that fits is accepted in full as soon as HOME and TMPDIR are; (4) an unset TZ likewise. -/
theorem C18_readenv_tz_exact (raw : RawEnv) :
    (∀ hm tm zo, readenv raw = .ok (hm, tm, zo) → zo = raw.tz ∧ ∀ z, raw.tz = some z → z.length < TZ_BUF) ∧
    (∀ z, raw.tz = some z → z.length ≥ TZ_BUF → ∃ e, readenv raw = .error e) ∧
    (∀ z hm, raw.tz = some z → z.length < TZ_BUF → homeSource raw = some hm → hm.length < PATH_MAX →
      (tmpSource raw).length < PATH_MAX → readenv raw = .ok (hm, tmpSource raw, some z)) ∧
    (∀ hm, raw.tz = none → homeSource raw = some hm → hm.length < PATH_MAX → (tmpSource raw).length < PATH_MAX →
      readenv raw = .ok (hm, tmpSource raw, none)) ∧
    TZ_BUF = 256 := by
  refine ⟨?_, ?_, ?_, ?_, rfl⟩
  · intro hm tm zo hr
    unfold readenv at hr
    split at hr
    · cases hr
    · split at hr
      · cases hr
      · split at hr
        · cases hr
        · split at hr
          · rename_i hz
            cases hr
            exact ⟨hz.symm, fun z h => by rw [hz] at h; cases h⟩
          · rename_i z hz
            split at hr
            · cases hr
            · rename_i z' hfit
              cases hr
              obtain ⟨e, l⟩ := strlcpyFits_some hfit
              subst e
              exact ⟨hz.symm, fun w h => by rw [hz] at h; cases h; exact l⟩
  · intro z hz hlen
    unfold readenv
    split
    · exact ⟨_, rfl⟩
    · split
      · exact ⟨_, rfl⟩
      · split
        · exact ⟨_, rfl⟩
        · rw [hz]
          have : strlcpyFits TZ_BUF z = none := by
            unfold strlcpyFits
            exact if_pos hlen
          simp only [this]
          exact ⟨_, rfl⟩
  · intro z hm hz hlen hh hhl htl
    unfold readenv
    rw [hh, Model.Gen_evHomeSize_eq, Model.Gen_evTmpdirSize_eq]
    have h1 : strlcpyFits PATH_MAX hm = some hm := by unfold strlcpyFits; simp [Nat.not_le.mpr hhl]
    have h2 : strlcpyFits PATH_MAX (tmpSource raw) = some (tmpSource raw) := by unfold strlcpyFits; simp [Nat.not_le.mpr htl]
    have h3 : strlcpyFits TZ_BUF z = some z := by
      unfold strlcpyFits
      exact if_neg (Nat.not_le.mpr hlen)
    simp only [h1, h2, hz, h3]
  · intro hm hz hh hhl htl
    unfold readenv
    rw [hh, Model.Gen_evHomeSize_eq, Model.Gen_evTmpdirSize_eq]
    have h1 : strlcpyFits PATH_MAX hm = some hm := by unfold strlcpyFits; simp [Nat.not_le.mpr hhl]
    have h2 : strlcpyFits PATH_MAX (tmpSource raw) = some (tmpSource raw) := by unfold strlcpyFits; simp [Nat.not_le.mpr htl]
    simp only [h1, h2, hz]

/-- A TZ that does not fit ends the run before ANY call, with status 1, whatever the options (`-d`, `-n`, `-`), the
configuration and the maildirs are: the program over calls is a bare `ret` and the files are the initial ones. -/
theorem C18_readenv_tz_too_long_no_call (raw : RawEnv) (z : Bytes) (hz : raw.tz = some z) (hlen : z.length ≥ TZ_BUF)
    (fOpt : Option Bytes) (env : PEnv) (orc : EvalOracles) (confOk : Bool) (conf : List ConfBlock) (files : Files) (input : Bytes) :
    mainFromEnv raw fOpt env orc confOk conf files input = .ret (1, { files := files, error := true, reject := false, log := [] }) := by
  obtain ⟨e, he⟩ := (C18_readenv_tz_exact raw).2.1 z hz hlen
  unfold mainFromEnv startPaths
  rw [he]

/-! Non-vacuity: a TZ of 255 bytes is accepted in full, one of 256 bytes (and one of 280 or 5000) ends the run. -/

example : (readenv { home := some [47], pwdir := none, tmpdir := some [47], tz := some (List.replicate 255 85), pathTmp := [] }).toOption =
    some ([47], [47], some (List.replicate 255 85)) := by decide +kernel

example : (match readenv { home := some [47], pwdir := none, tmpdir := some [47], tz := some (List.replicate 256 85), pathTmp := [] } with
    | .error .tzTooLong => true
    | _ => false) = true := by decide +kernel

example : (match readenv { home := some [47], pwdir := none, tmpdir := some [47], tz := some (List.replicate 280 85), pathTmp := [] } with
    | .error .tzTooLong => true
    | _ => false) = true := by decide +kernel

example : (tzState none, tzState (some []), tzState (some [85])) = (0, 1, 2) := rfl

theorem readenv_ok {raw : RawEnv} {hm tm : Bytes} {z : Option Bytes} (hr : readenv raw = .ok (hm, tm, z)) :
    homeSource raw = some hm ∧ hm.length < PATH_MAX ∧ tm = tmpSource raw ∧ tm.length < PATH_MAX := by
  unfold readenv at hr
  rw [Gen_evHomeSize_eq, Gen_evTmpdirSize_eq] at hr
  split at hr
  · cases hr
  · rename_i p hp
    split at hr
    · cases hr
    · rename_i home hhome
      split at hr
      · cases hr
      · rename_i tmpdir htmp
        obtain ⟨e1, l1⟩ := strlcpyFits_some hhome
        obtain ⟨e2, l2⟩ := strlcpyFits_some htmp
        have : hm = home ∧ tm = tmpdir := by
          split at hr
          · cases hr; exact ⟨rfl, rfl⟩
          · split at hr
            · cases hr
            · cases hr; exact ⟨rfl, rfl⟩
        obtain ⟨rfl, rfl⟩ := this
        subst e1 e2
        exact ⟨hp, l1, rfl, l2⟩

/-- The paths a run starts from are never truncations: whenever `main` gets as far as `config_parse`, the home
directory and the temporary directory are the complete values of the environment (or of the password entry /
`_PATH_TMP`), shorter than `PATH_MAX`, and the configuration path is the `-f` argument or
`home ++ "/.mdsort.conf"` in full, shorter than `PATH_MAX`. -/
theorem C18_start_never_truncates (raw : RawEnv) (fOpt : Option Bytes) (home tmpdir confpath : Bytes)
    (h : startPaths raw fOpt = .ok (home, tmpdir, confpath)) :
    homeSource raw = some home ∧ home.length < PATH_MAX ∧ tmpdir = tmpSource raw ∧ tmpdir.length < PATH_MAX ∧
    (fOpt = some confpath ∨ (fOpt = none ∧ confpath = home ++ confSuffix ∧ confpath.length < PATH_MAX)) := by
  unfold startPaths at h
  rw [Gen_defaultconfSize_eq] at h
  split at h
  · cases h
  · rename_i hm tm z hr
    have hre := readenv_ok hr
    split at h
    · cases h
      exact ⟨hre.1, hre.2.1, hre.2.2.1, hre.2.2.2, Or.inl rfl⟩
    · split at h
      · cases h
      · rename_i c hd
        cases h
        have hc := (C18_defaultconf_exact PATH_MAX home).2 confpath hd
        have hlen : confpath.length < PATH_MAX := by
          have := (C18_defaultconf_exact PATH_MAX home).1
          rw [hd] at this
          split at this
          · rw [hc, List.length_append, confSuffix_length]; assumption
          · cases this
        exact ⟨hre.1, hre.2.1, hre.2.2.1, hre.2.2.2, Or.inr ⟨rfl, hc, hlen⟩⟩

/-- The run without `-f`: either it ends with status 1 before ANY call (no file is opened, in particular none at a
truncation of the intended path), or its first call is `fopen` of exactly `home ++ "/.mdsort.conf"`. -/
theorem C18_default_config_first_call (raw : RawEnv) (env : PEnv) (orc : EvalOracles) (confOk : Bool) (conf : List ConfBlock)
    (files : Files) (input : Bytes) :
    (∃ st, mainFromEnv raw none env orc confOk conf files input = .ret (1, st)) ∨
    (∃ home tmpdir, startPaths raw none = .ok (home, tmpdir, home ++ confSuffix) ∧ homeSource raw = some home ∧
      ∃ k, mainFromEnv raw none env orc confOk conf files input = .call (.fopen (home ++ confSuffix)) k) := by
  unfold mainFromEnv
  cases hs : startPaths raw none with
  | error e => left; exact ⟨_, rfl⟩
  | ok v =>
    obtain ⟨home, tmpdir, confpath⟩ := v
    right
    have hall := C18_start_never_truncates raw none home tmpdir confpath hs
    rcases hall.2.2.2.2 with h | ⟨_, hc, _⟩
    · cases h
    · subst hc
      refine ⟨home, tmpdir, rfl, hall.1, ?_⟩
      simp only
      unfold mainP
      exact ⟨_, rfl⟩

/-! Non-vacuity: a home directory at the limit, one byte beyond, and a complete environment. -/

example : confSuffix = ofString "/.mdsort.conf" := by decide +kernel

example : (defaultconf PATH_MAX (List.replicate 4082 104)).isSome = true ∧ (defaultconf PATH_MAX (List.replicate 4083 104)).isSome = false := by
  rw [C18_defaultconf_limit, C18_defaultconf_limit, List.length_replicate, List.length_replicate]
  decide

example : (List.replicate 4083 104 : Bytes).length + 13 = PATH_MAX := by rw [List.length_replicate]; decide

example : (startPaths { home := some (ofString "/home/u"), pwdir := none, tmpdir := some (ofString "/tmp/x"), tz := none, pathTmp := ofString "/tmp/" } none).toOption =
    some (ofString "/home/u", ofString "/tmp/x", ofString "/home/u/.mdsort.conf") := by decide +kernel

example : ∃ raw : RawEnv, ∃ h t, raw.home = some h ∧ h ≠ [] ∧ raw.tmpdir = some t ∧ t ≠ [] :=
  ⟨{ home := some [47], pwdir := none, tmpdir := some [47], tz := none, pathTmp := [] }, [47], [47], rfl, by decide, rfl, by decide⟩

end Mdsort.Props
