import Mdsort.Proofs.WorldOwn
import Mdsort.Proofs.Captures
import Mdsort.Proofs.EvalPFail

/-!
# C13 - commands get exactly the configured arguments and a clean process environment

`Model.execP` transcribes `exec()` (util.c): open /dev/null unless a descriptor is given, fork,
waitpid; there is no shell anywhere on the path (the child is `dup2; execvp`, outside the model).
`runOracle` lets every call return an ARBITRARY result.
-/

namespace Mdsort.Props
open Mdsort Mdsort.Model

/-- One argument per configured string, in order, each the one-pass interpolation of that string
(C12): no word splitting, no joining. -/
theorem C13_argv (macros : Option (List (Bytes × Bytes))) (ml : MatchList) (i : Nat) (mh mh' : Match)
    (msgs : Nat → Msg) (upd : Option (Nat × Msg)) (hty : mh.ty = .exec ∨ mh.ty = .command)
    (h : matchInterpolate macros ml i mh msgs = some (mh', upd)) :
    mh'.argv.length = mh.strings.length ∧
    ∀ (k : Nat) (s : Bytes), mh.strings[k]? = some s → ∃ v, interpolate (ml.take i) macros s = some v ∧ mh'.argv[k]? = some (cstr v) :=
  Proofs.argv_one_per_string macros ml i mh mh' msgs upd hty h

/-- The value of `exec()` is determined by what fork and waitpid report: 0 for a clean exit, the
exit code for 1..126 and 128.., -1 for 127, 128 + signal for a signalled child, -1 when /dev/null,
fork or waitpid fail. -/
theorem C13_status (fdin : Option Handle) (orc : Nat → Call → Res) :
    ∃ devnullOk forkRes waitRes, (runOracle orc (execP fdin) 0 []).1 = Proofs.execValue devnullOk forkRes waitRes :=
  Proofs.execP_value fdin orc

/-- A non-zero value of `exec()` is an error of the exec action ... -/
theorem C13_exec_failure_is_error (env : PEnv) (mh : Match) (st : ExecSt) (orc : Nat → Call → Res)
    (hty : mh.ty = .exec) (hs : mh.execStdin = false)
    (hnz : (runOracle orc (execP none) 0 []).1 ≠ 0) :
    (runOracle orc (execOne env mh st) 0 []).1.2 = true :=
  Proofs.exec_nonzero_is_error env mh st orc hty hs hnz

/-- ... and an error stops the remaining actions of that message: the run is the same whatever
follows the failing entry. -/
theorem C13_error_stops_actions (env : PEnv) (mh : Match) (rest rest' : MatchList) (st : ExecSt) (orc : Nat → Call → Res)
    (he : (runOracle orc (execOne env mh st) 0 []).1.2 = true) :
    (runOracle orc (matchesExec env (mh :: rest) st) 0 []).1.2 = true ∧
    (runOracle orc (matchesExec env (mh :: rest) st) 0 []).2 = (runOracle orc (matchesExec env (mh :: rest') st) 0 []).2 :=
  Proofs.error_stops_list env mh rest rest' st orc he

/-! ## The argument vector is exactly what was configured -/

/-- `argv = strings.map (cstr ∘ interpolate)`: every configured string interpolates, the vector is
the list of results in the configured order, nothing else of the entry changes and the message is
not touched. -/
theorem C13_argv_exact (macros : Option (List (Bytes × Bytes))) (ml : MatchList) (i : Nat) (mh mh' : Match)
    (msgs : Nat → Msg) (upd : Option (Nat × Msg)) (hty : mh.ty = .exec ∨ mh.ty = .command)
    (h : matchInterpolate macros ml i mh msgs = some (mh', upd)) :
    mh'.argv = mh.strings.map (fun s => cstr ((interpolate (ml.take i) macros s).getD [])) ∧
    (∀ s ∈ mh.strings, (interpolate (ml.take i) macros s).isSome = true) ∧
    mh' = { mh with argv := mh'.argv } ∧ upd = none :=
  Proofs.argv_full macros ml i mh mh' msgs upd hty h

/-- Same length; the k-th argument comes from the k-th configured string. -/
theorem C13_argv_length_order (macros : Option (List (Bytes × Bytes))) (ml : MatchList) (i : Nat) (mh mh' : Match)
    (msgs : Nat → Msg) (upd : Option (Nat × Msg)) (hty : mh.ty = .exec ∨ mh.ty = .command)
    (h : matchInterpolate macros ml i mh msgs = some (mh', upd)) (k : Nat) :
    mh'.argv.length = mh.strings.length ∧
    mh'.argv[k]? = (mh.strings[k]?).map fun s => cstr ((interpolate (ml.take i) macros s).getD []) :=
  Proofs.argv_length macros ml i mh mh' msgs upd hty h k

/-- No word splitting, no globbing, no quote removal: configured strings without `\`, `$` and NUL
become the argument vector byte for byte - an argument with blanks, quotes or `*` stays ONE
argument. -/
theorem C13_argv_no_splitting (macros : Option (List (Bytes × Bytes))) (ml : MatchList) (i : Nat) (mh : Match)
    (msgs : Nat → Msg) (hty : mh.ty = .exec ∨ mh.ty = .command)
    (hpl : ∀ s ∈ mh.strings, Proofs.Plain s ∧ (0 : UInt8) ∉ s) :
    matchInterpolate macros ml i mh msgs = some ({ mh with argv := mh.strings }, none) :=
  Proofs.argv_plain macros ml i mh msgs hty hpl

/-- Non-vacuity: `exec { "sh" "a b 'c' *" "-x" }` - three strings, three arguments. -/
example :
    (∀ s ∈ [[115, 104], [97, 32, 98, 32, 39, 99, 39, 32, 42], [45, 120]], Proofs.Plain s ∧ (0 : UInt8) ∉ s) ∧
    (matchInterpolate none [] 0
      { ty := .exec, lno := 1, part := 0, strings := [[115, 104], [97, 32, 98, 32, 39, 99, 39, 32, 42], [45, 120]] }
      (fun _ => parseMessage [])).map (·.1.argv) =
    some [[115, 104], [97, 32, 98, 32, 39, 99, 39, 32, 42], [45, 120]] := by
  decide +kernel

/-- Non-vacuity with a capture containing a blank: `exec { "echo" "\1" }` after a match whose group 1
is `a b`: two arguments, the second is `a b`. -/
example :
    (matchInterpolate none
      [{ ty := .mtch, lno := 1, part := 0 },
       { ty := .header, lno := 1, part := 0, subs := [⟨[120], some (0, 1)⟩, ⟨[97, 32, 98], some (0, 3)⟩] }] 2
      { ty := .exec, lno := 1, part := 0, strings := [[101, 99, 104, 111], [92, 49]] }
      (fun _ => parseMessage [])).map (·.1.argv) =
    some [[101, 99, 104, 111], [97, 32, 98]] := by
  decide +kernel


/-! ## The `command` condition inside a run (`expr_eval_command`)

Conditions are evaluated inside the run (`Model.evalT` / `Model.evalP`, Model/EvalP.lean): a `command` condition asks
the operating system one question, `Req.command av`, which `Model.sysCall` turns into the calls of util.c
`exec(argv, -1)` (`open("/dev/null")`, `fork`, `waitpid`, `close`: `C03_evaluation_calls`). -/

/-- **The `command` condition**: when its entry can be appended and its strings interpolate to `av` - one argument per
configured string, in order (`List.mapM`), interpolated against the entries of the rule so far, no shell, no splitting -
the evaluation asks exactly the question `command av` and is *match* if `exec()` returned 0, *error* if it returned a
negative value (`C04_command_failure_causes`: `/dev/null`, `fork`, `waitpid` failed, or exit status 127) and *no match*
otherwise (any other exit status, death by a signal); the entry is removed again. -/
theorem C13_command_condition (env : Env) (tf : Int → Option Bytes) (root : Msg) (lno : Nat) (argv : List Bytes)
    (part : Nat) (m : Msg) (st : St) (ml : MatchList) (av : List Bytes)
    (happ : matchesAppend env st.ml { ty := .command, lno := lno, part := part, strings := argv } = (ml, false))
    (hav : argv.mapM (interpolate ml.dropLast none) = some av) :
    evalT env tf root (.command lno argv) part m st =
      (ask (.command av)).bind fun a =>
        .ret (if ansStatus a == 0 then .match else if ansStatus a < 0 then .error else .nomatch,
              { st with ml := ml.dropLast }) := by
  simp only [evalT, happ, hav, Bool.false_eq_true, ↓reduceIte]

/-- Non-vacuity: `command { "t" "a b" }` in an empty rule context: two arguments, the second with its blank. -/
example :
    matchesAppend Proofs.exampleEnv [] { ty := .command, lno := 1, part := 0, strings := [[116], [97, 32, 98]] } =
      ([{ ty := .command, lno := 1, part := 0, strings := [[116], [97, 32, 98]] }], false) ∧
    [[116], [97, 32, 98]].mapM (interpolate ([{ ty := .command, lno := 1, part := 0, strings := [[116], [97, 32, 98]] }] : MatchList).dropLast none) =
      some [[116], [97, 32, 98]] := by
  decide +kernel

end Mdsort.Props
