import Mdsort.Proofs.WorldOwn
import Mdsort.Proofs.Captures
import Mdsort.Proofs.WorldFds
import Mdsort.Proofs.ExecStdin
import Mdsort.Proofs.WorldFdsEx
import Mdsort.Proofs.ExecStatus
import Mdsort.Proofs.ExecSeqEx
import Mdsort.Proofs.EvalPFail
import Mdsort.Proofs.ChildArgv
import Mdsort.Proofs.Interp

/-!
# C13 - commands get exactly the configured arguments and a clean process environment

`Model.execP argv fdin` transcribes `exec(argv, fdin)` (util.c): open /dev/null unless a descriptor is given, fork, waitpid.
`runOracle` lets every call return an ARBITRARY result.

The child (package p14).  The call alphabet's `Call.fork argv s` carries what the child does between `fork` and the program
it runs: `dup2(s, 0)` with the HANDLE `s`, then `execvp(argv[0], argv)` with the VECTOR `argv` - there is no other call
between the two in util.c, no shell, and `execP` issues the call with the vector it was handed and with the value of the
variable `fdin` at that point (`Model.childStdin`).  `Model.Call.same`, hence `Model.conform`, compares both, so every
process-level run that conforms a trace checks vector and descriptor of every child against this model (the shim records
what the child really hands to `execvp` and which descriptor it `dup2`s onto 0: `harness/shim/vshim.c`, `tools/world.py`).
So the first sentence of the property is a statement about the TRACE of `main`:

* `C13_child_argv`: every `fork` of a run of `main`, whatever the calls return, carries `strings.map (cstr ∘ interpolate)` of
  the configured strings of an `exec` action or `command` condition of the configuration - one argument per configured
  string, in order (`C13_child_argv_length_order`), byte for byte for strings without `\` / `$` / NUL
  (`C13_child_argv_no_splitting`: blanks, quotes, globs stay inside ONE argument; nothing is prepended, in particular no
  `sh -c`: `C13_no_shell`); in terms of the specification of C12: `C13_child_argv_spec`; exact forms with the capture context
  named: `C13_child_argv_list` (an action list), `C13_child_argv_command` (a condition);
* `C13_child_stdin`: the handle of every `fork` is the `/dev/null` opened by the call just before, or a descriptor obtained
  by `fcntl(F_DUPFD_CLOEXEC)` / `mkostemp(O_CLOEXEC)` and rewound by the successful `lseek(s, 0, SEEK_SET)` just before; what
  that descriptor's file holds is `C13_exec_stdin_sees_current` / `C11_exec_stdin_body_after_rewrite`
  (`C13_exec_stdin_fork_point`: the descriptor those theorems speak of IS the handle of the `fork` call);
* `C13_fd_hygiene` / `C13_fd_cloexec`: at that `fork` the descriptors the run created and has not released are the directory
  streams, the message and that handle, all born close-on-exec (descriptors 0, 1, 2 and anything else the process was
  started with are outside the table).

What stays outside: the model does not execute the child - that `dup2` and `execvp` do what POSIX says, and that nothing
else happens between `fork` and `execvp` in the child, is the transcription of util.c lines 108-114, tied to the code by
the conformance (the shim observes the child up to its `execvp`).
-/

namespace Mdsort.Props
open Mdsort Mdsort.Model

/-- One argument per configured string, in order, each the one-pass interpolation of that string
(C12): no word splitting, no joining. -/
theorem C13_argv (macros : Option (List (Bytes × Bytes))) (ml : MatchList) (i : Nat) (mh mh' : Match)
    (msgs : Nat → Msg) (upd : Option (Nat × Msg)) (hty : mh.ty = .exec ∨ mh.ty = .command)
    (h : matchInterpolate macros ml i mh msgs = some (mh', upd)) :
    mh'.argv.length = mh.strings.length ∧
    ∀ (k : Nat) (s : Bytes), mh.strings[k]? = some s → ∃ v, interpolate (ml.take i) macros s = some v ∧ mh'.argv[k]? = some (cstr v) :=
  Proofs.argv_one_per_string macros ml i mh mh' msgs upd hty h

/-- The value of `exec()` lies in the range of `Model.execValue`: 0 for a clean exit, the
exit code for 1..126 and 128.., -1 for 127, 128 + signal for a signalled child, -1 when /dev/null,
fork or waitpid fail.  (As stated the three witnesses are NOT tied to the results the oracle gave - the
statement only bounds the value; which results are consumed is `C13_status_exact` below.) -/
theorem C13_status (argv : List Bytes) (fdin : Option Handle) (orc : Nat → Call → Res) :
    ∃ devnullOk forkRes waitRes, (runOracle orc (execP argv fdin) 0 []).1 = Model.execValue devnullOk forkRes waitRes :=
  Proofs.execP_value argv fdin orc

/-- **The value of `exec()` IS `execValue` of the results of its own calls**, for arbitrary results: without a
descriptor (`fdin = -1`) of call 0 (`open("/dev/null")` succeeded or not), call 1 (`fork`) and call 2 (`waitpid`); with a
descriptor of call 0 (`fork`) and call 1 (`waitpid`).  Nothing else (no other call, no state) enters the value.  The `fork` is
asked with the vector `exec()` was handed and with the handle `open("/dev/null")` returned (`Proofs.Own.okHandle`) resp. the
descriptor handed in. -/
theorem C13_status_exact (argv : List Bytes) (orc : Nat → Call → Res) :
    (runOracle orc (execP argv none) 0 []).1 =
      Model.execValue (match orc 0 (.openPath (ofString "/dev/null")) with | .ok _ => true | _ => false)
        (orc 1 (.fork argv (Proofs.Own.okHandle (orc 0 (.openPath (ofString "/dev/null")))))) (orc 2 .waitpid) ∧
    ∀ fd, (runOracle orc (execP argv (some fd)) 0 []).1 = Model.execValue true (orc 0 (.fork argv fd)) (orc 1 .waitpid) := by
  refine ⟨Proofs.execP_none_value argv orc, fun fd => ?_⟩
  rw [Proofs.Own.runOracle_eq, Proofs.Own.execP_run]

/-- Non-vacuity of `C13_status_exact`: /dev/null opened, child 7 forked, wait status `3 * 256` (exit code 3) gives 3;
a failing `fork` gives -1; with a descriptor handed in, SIGKILL (wait status 9) gives 137. -/
example :
    (runOracle (fun i _ => [.ok 6, .ok 7, .ok (3 * 256)].getD i (.ok 0)) (execP [[120]] none) 0 []).1 = 3 ∧
    (runOracle (fun i _ => [.ok 6, .err "EAGAIN"].getD i (.ok 0)) (execP [[120]] none) 0 []).1 = -1 ∧
    (runOracle (fun i _ => [.ok 7, .ok 9].getD i (.ok 0)) (execP [[120]] (some 5)) 0 []).1 = 137 := by
  refine ⟨?_, ?_, ?_⟩ <;> decide +kernel

/-- A non-zero value of `exec()` is an error of the exec action ... -/
theorem C13_exec_failure_is_error (env : PEnv) (mh : Match) (st : ExecSt) (orc : Nat → Call → Res)
    (hty : mh.ty = .exec) (hs : mh.execStdin = false)
    (hnz : (runOracle orc (execP mh.argv none) 0 []).1 ≠ 0) :
    (runOracle orc (execOne env mh st) 0 []).1.2 = true :=
  Proofs.exec_nonzero_is_error env mh st orc hty hs hnz

/-- ... and an error stops the remaining actions of that message: the run is the same whatever
follows the failing entry. -/
theorem C13_error_stops_actions (env : PEnv) (mh : Match) (rest rest' : MatchList) (st : ExecSt) (orc : Nat → Call → Res)
    (he : (runOracle orc (execOne env mh st) 0 []).1.2 = true) :
    (runOracle orc (matchesExec env (mh :: rest) st) 0 []).1.2 = true ∧
    (runOracle orc (matchesExec env (mh :: rest) st) 0 []).2 = (runOracle orc (matchesExec env (mh :: rest') st) 0 []).2 :=
  Proofs.error_stops_list env mh rest rest' st orc he

/-- Non-vacuity of `C13_exec_failure_is_error` and `C13_error_stops_actions`: an `exec` entry without `stdin` whose
child exits with status 3 (calls answered: /dev/null = 6, pid 7, wait status `3 * 256`).  The hypotheses hold, so the
entry is an error, and the calls of the list are the same whether a `label` entry or nothing follows. -/
example :
    let orc : Nat → Call → Res := fun i _ => [.ok 6, .ok 7, .ok (3 * 256)].getD i (.ok 0)
    let mh : Match := { ty := .exec, lno := 1, part := 0, argv := [[120]] }
    mh.ty = .exec ∧ mh.execStdin = false ∧ (runOracle orc (execP mh.argv none) 0 []).1 ≠ 0 ∧
    (runOracle orc (execOne Proofs.ExecSeq.exEnv mh Proofs.ExecSeq.exSt) 0 []).1.2 = true ∧
    (runOracle orc (matchesExec Proofs.ExecSeq.exEnv [mh, Proofs.ExecSeq.exLabel] Proofs.ExecSeq.exSt) 0 []).2 =
      (runOracle orc (matchesExec Proofs.ExecSeq.exEnv [mh] Proofs.ExecSeq.exSt) 0 []).2 := by
  intro orc mh
  have hnz : (runOracle orc (execP mh.argv none) 0 []).1 ≠ 0 := by decide +kernel
  have he := C13_exec_failure_is_error Proofs.ExecSeq.exEnv mh Proofs.ExecSeq.exSt orc rfl rfl hnz
  exact ⟨rfl, rfl, hnz, he,
    (C13_error_stops_actions Proofs.ExecSeq.exEnv mh [Proofs.ExecSeq.exLabel] [] Proofs.ExecSeq.exSt orc he).2⟩

/-! ## The status mapping, for every wait status

`Model.execStatus` is the tail of `exec()` (util.c 121-128) on the raw wait status, `Model.wifexited` / `wexitstatus` /
`wifsignaled` / `wtermsig` the macros of `<sys/wait.h>`; `Proofs.waitKind` reads a status as `exited code`, `signaled sig`
or `stopped` (the last is never reported by `waitpid(pid, &status, 0)`).  `Proofs.childOutcome devnullOk forkRes waitRes`
is `cannotRun` when /dev/null cannot be opened, `fork` fails or `waitpid` fails, and `waited kind` otherwise. -/

/-- `exec()` on every wait status: 0 iff the child exited with 0; negative (fatal) iff it exited with 127; positive iff it
exited with 1..126 or 128..255, was killed by a signal (then the value is 128 + signal) or is reported as stopped; and the
value for an exit code other than 127 is that code. -/
theorem C13_exec_status_mapping (s : Nat) :
    (execStatus s = 0 ↔ Proofs.waitKind s = .exited 0) ∧
    (execStatus s < 0 ↔ Proofs.waitKind s = .exited 127) ∧
    (0 < execStatus s ↔ (∃ c, Proofs.waitKind s = .exited c ∧ c ≠ 0 ∧ c ≠ 127) ∨ (∃ g, Proofs.waitKind s = .signaled g) ∨
      Proofs.waitKind s = .stopped) ∧
    (∀ c, Proofs.waitKind s = .exited c → c < 256 ∧ (c ≠ 127 → execStatus s = (c : Int))) ∧
    (∀ g, Proofs.waitKind s = .signaled g → 1 ≤ g ∧ g ≤ 126 ∧ execStatus s = ((128 + g : Nat) : Int)) :=
  ⟨Proofs.execStatus_eq_zero_iff s, Proofs.execStatus_neg_iff s, Proofs.execStatus_pos_iff s,
   fun _ h => ⟨Proofs.waitKind_exited_lt h, Proofs.execStatus_exited h⟩,
   fun _ h => ⟨(Proofs.waitKind_signaled_range h).1, (Proofs.waitKind_signaled_range h).2, Proofs.execStatus_signaled h⟩⟩

/-- The statuses the checks exercise, as raw wait statuses (`code * 256`, `signal`, `signal + 128` with a core dump). -/
example :
    [0, 1, 2, 126, 127, 128, 129, 200, 255].map (fun c => execStatus (c * 256)) = [0, 1, 2, 126, -1, 128, 129, 200, 255] ∧
    [15, 9, 11, 11 + 128, 6 + 128].map execStatus = [143, 137, 139, 139, 134] := by decide

/-- A child whose `execvp` fails exits with `Gen.execChildExit` whatever the reason (ENOENT, EACCES, ...): for the parent
that is the status `Gen.execFatalExit` it turns into the fatal value `Gen.execFatalValue`, which is negative - never a
positive "ran and said no".  All three are regenerated from util.c `exec()` on every run (`tools/gen_tables.py`: the literal
of `_exit(N)` after `execvp`, of `if (error == N) error = V`); `Model.execStatus` and `Model.execvpFailedStatus` are defined
with them.  The statement is closed by evaluation of the generated table: changing the child's `_exit(127)` or the parent's
`error == 127` / `error = -1` in the source (one without the other) makes it false. -/
theorem C13_execvp_failure_is_fatal :
    execvpFailedStatus = Gen.execChildExit ∧ Gen.execChildExit = Gen.execFatalExit ∧ Gen.execChildExit < 256 ∧
    execStatus (Gen.execChildExit * 256) = Gen.execFatalValue ∧ Gen.execFatalValue < 0 ∧
    Proofs.waitKind (Gen.execChildExit * 256) = .exited Gen.execFatalExit := by
  decide

/-- The remaining literals of `exec()` as the source has them now (`Gen.exec*`, regenerated): a child killed by signal `g`
gives `Gen.execSignalBase + g`, which is positive and above every exit code that can be mistaken for "exited 1..127";
the three failure paths (`open("/dev/null")`, `fork`, `waitpid`) give `Gen.execCannotRunValue`, which is negative and is
what the model's `execValue` returns there; a status that is neither "exited" nor "signalled" leaves the initial value
`Gen.execInitialValue`, which is positive. -/
theorem C13_exec_literals (f w : Res) :
    Gen.execSignalBase = 128 ∧ Gen.execCannotRunValue < 0 ∧ 0 < Gen.execInitialValue ∧
    Model.execValue false f w = Gen.execCannotRunValue ∧
    (∀ e, Model.execValue true (.err e) w = Gen.execCannotRunValue) ∧
    (∀ pid e, Model.execValue true (.ok pid) (.err e) = Gen.execCannotRunValue) ∧
    (∀ g, Proofs.waitKind g = .signaled g → execStatus g = ((Gen.execSignalBase + g : Nat) : Int)) ∧
    execStatus 127 = Gen.execInitialValue := by
  refine ⟨by decide, by decide, by decide, by simp [Model.execValue], fun e => by simp [Model.execValue],
    fun pid e => by simp [Model.execValue], fun g h => ?_, by decide⟩
  rw [Proofs.execStatus_signaled h, Gen_execSignalBase_eq]

/-- Reading the three results `exec()` consumes. -/
theorem C13_child_outcome (d : Bool) (f w : Res) :
    (∀ k, Proofs.childOutcome d f w = .waited k ↔ d = true ∧ ∃ pid s, f = .ok pid ∧ w = .ok s ∧ Proofs.waitKind s = k) ∧
    (Proofs.childOutcome d f w = .cannotRun ↔ d = false ∨ (∀ pid, f ≠ .ok pid) ∨ (∀ s, w ≠ .ok s)) ∧
    Model.execValue d f w = Proofs.outcomeValue (Proofs.childOutcome d f w) :=
  ⟨Proofs.childOutcome_waited_iff d f w, Proofs.childOutcome_cannotRun_iff d f w, Proofs.execValue_outcome d f w⟩

/-- **The `command` condition, for every wait status.**  `Model.eval` on a `command` node whose strings interpolate to
`av`, in an environment whose command oracle returns what `exec()` derives from the results `d` (/dev/null opened), `f`
(`fork`), `w` (`waitpid`) - by `C13_status` every value of `exec()` has this form:

* the condition MATCHES iff the child was waited for and exited with 0;
* it does NOT match iff the child was waited for and exited with a status in 1..126 or 128..255, or was killed by a
  signal (or is reported stopped);
* it is an ERROR iff /dev/null could not be opened, `fork` failed, `waitpid` failed, or the child exited with 127 (what
  the child does when `execvp` fails);

and in every case the match list is left as it was.
(Audit note: that the oracle `env.command` of the pure evaluator IS `exec()` on the interpolated vector is the
hypothesis `hrc`; no model runs `execP` from inside `eval`, so this link is an assumption of the statement, tied to
expr.c by the correspondence run only.  A child killed by a signal is "no match": observation O27.) -/
theorem C13_command_status (env : Env) (root : Msg) (lno : Nat) (argv av : List Bytes) (part : Nat) (m : Msg) (st : St)
    (hav : argv.mapM (interpolate st.ml none) = some av)
    (d : Bool) (f w : Res) (hrc : env.command av = Model.execValue d f w) :
    let o := Proofs.childOutcome d f w
    let r := eval env root (.command lno argv) part m st
    r.2 = st ∧
    (r.1 = .match ↔ o = .waited (.exited 0)) ∧
    (r.1 = .nomatch ↔ (∃ c, o = .waited (.exited c) ∧ c ≠ 0 ∧ c ≠ 127) ∨ (∃ g, o = .waited (.signaled g)) ∨ o = .waited .stopped) ∧
    (r.1 = .error ↔ o = .cannotRun ∨ o = .waited (.exited 127)) := by
  have hv : eval env root (.command lno argv) part m st = (Proofs.outcomeTri (Proofs.childOutcome d f w), st) := by
    rw [Proofs.eval_command, hav]
    simp only [hrc, Proofs.execValue_outcome, Proofs.commandTri_outcome]
  simp only [hv]
  exact ⟨trivial, Proofs.outcomeTri_match_iff _, Proofs.outcomeTri_nomatch_iff _, Proofs.outcomeTri_error_iff _⟩

/-- The same with the command run by `Model.execP` against ARBITRARY call results `orc` (call 0 opens /dev/null, call 1
is `fork` - of the C strings of the vector, with the handle call 0 returned as the child's standard input -, call 2 `waitpid`). -/
theorem C13_command_status_run (env : Env) (root : Msg) (lno : Nat) (argv av : List Bytes) (part : Nat) (m : Msg) (st : St)
    (hav : argv.mapM (interpolate st.ml none) = some av) (orc : Nat → Call → Res)
    (hrc : env.command av = (runOracle orc (execP (av.map cstr) none) 0 []).1) :
    let o := Proofs.childOutcome (match orc 0 (.openPath (ofString "/dev/null")) with | .ok _ => true | _ => false)
      (orc 1 (.fork (av.map cstr) (Proofs.Own.okHandle (orc 0 (.openPath (ofString "/dev/null")))))) (orc 2 .waitpid)
    let r := eval env root (.command lno argv) part m st
    r.2 = st ∧
    (r.1 = .match ↔ o = .waited (.exited 0)) ∧
    (r.1 = .nomatch ↔ (∃ c, o = .waited (.exited c) ∧ c ≠ 0 ∧ c ≠ 127) ∨ (∃ g, o = .waited (.signaled g)) ∨ o = .waited .stopped) ∧
    (r.1 = .error ↔ o = .cannotRun ∨ o = .waited (.exited 127)) :=
  C13_command_status env root lno argv av part m st hav _ _ _ (hrc.trans (Proofs.execP_none_value _ orc))

/-- A `command` condition whose strings do not interpolate (a back-reference to a group that does not exist) is an error
and runs nothing. -/
theorem C13_command_interpolation_error (env : Env) (root : Msg) (lno : Nat) (argv : List Bytes) (part : Nat) (m : Msg) (st : St)
    (hav : argv.mapM (interpolate st.ml none) = none) :
    eval env root (.command lno argv) part m st = (.error, st) := by
  rw [Proofs.eval_command, hav]

/-- An environment whose command oracle is `exec()` on the given `fork` / `waitpid` results. -/
def exampleCommandEnv (f w : Res) : Env where
  rx := fun _ _ => .nomatch
  command := fun _ => Model.execValue true f w
  isDir := fun _ => false
  now := 0
  strptime := fun _ => none
  zoneName := fun _ => none
  fileTime := fun _ => none
  dryrun := false
  path := []

def exampleCommandVerdict (f w : Res) : Tri :=
  (eval (exampleCommandEnv f w) (parseMessage []) (.command 1 [[120]]) 0 (parseMessage []) { ml := [], flags := ⟨0, 0⟩ }).1

/-- Non-vacuity of `C13_command_status` and the table of the statuses the checks exercise: `command "x"` with a child that
exits 0 / 1 / 126 / 127 / 128 / 129 / 200 / 255, dies of SIGTERM / SIGKILL / SIGSEGV (with core), cannot be forked,
cannot be waited for. -/
example :
    ([[120]].mapM (interpolate [] none) = some [[120]]) ∧
    [0, 1, 126, 127, 128, 129, 200, 255].map (fun c => exampleCommandVerdict (.ok 7) (.ok (c * 256))) =
      [.match, .nomatch, .nomatch, .error, .nomatch, .nomatch, .nomatch, .nomatch] ∧
    [15, 9, 11 + 128].map (fun s => exampleCommandVerdict (.ok 7) (.ok s)) = [.nomatch, .nomatch, .nomatch] ∧
    exampleCommandVerdict (.err "EAGAIN") (.ok 0) = .error ∧ exampleCommandVerdict (.ok 7) (.err "ECHILD") = .error := by
  simp only [exampleCommandVerdict, Proofs.eval_command]
  decide +kernel

/-- The hypotheses of `C13_command_status` / `_run` are satisfiable: a child killed by SIGKILL (wait status 9) is "no match". -/
example :
    (eval (exampleCommandEnv (.ok 7) (.ok 9)) (parseMessage []) (.command 1 [[120]]) 0 (parseMessage []) { ml := [], flags := ⟨0, 0⟩ }).1 = .nomatch :=
  (C13_command_status (exampleCommandEnv (.ok 7) (.ok 9)) (parseMessage []) 1 [[120]] [[120]] 0 (parseMessage []) { ml := [], flags := ⟨0, 0⟩ }
    (by decide +kernel) true (.ok 7) (.ok 9) rfl).2.2.1.2 (.inr (.inl ⟨9, by decide +kernel⟩))

/-! ## The argument vector is exactly what was configured -/

/-- `argv = strings.map (cstr ∘ interpolate)`: every configured string interpolates, the vector is
the list of results in the configured order, nothing else of the entry changes and the message is
not touched. -/
theorem C13_argv_exact (macros : Option (List (Bytes × Bytes))) (ml : MatchList) (i : Nat) (mh mh' : Match)
    (msgs : Nat → Msg) (upd : Option (Nat × Msg)) (hty : mh.ty = .exec ∨ mh.ty = .command)
    (h : matchInterpolate macros ml i mh msgs = some (mh', upd)) :
    mh'.argv = mh.strings.map (fun s => cstr ((interpolate (ml.take i) macros s).getD [])) ∧
    (∀ s ∈ mh.strings, (interpolate (ml.take i) macros s).isSome = true) ∧
    mh' = { mh with argv := mh'.argv } ∧ upd = none :=
  Proofs.argv_full macros ml i mh mh' msgs upd hty h

/-- Same length; the k-th argument comes from the k-th configured string. -/
theorem C13_argv_length_order (macros : Option (List (Bytes × Bytes))) (ml : MatchList) (i : Nat) (mh mh' : Match)
    (msgs : Nat → Msg) (upd : Option (Nat × Msg)) (hty : mh.ty = .exec ∨ mh.ty = .command)
    (h : matchInterpolate macros ml i mh msgs = some (mh', upd)) (k : Nat) :
    mh'.argv.length = mh.strings.length ∧
    mh'.argv[k]? = (mh.strings[k]?).map fun s => cstr ((interpolate (ml.take i) macros s).getD []) :=
  Proofs.argv_length macros ml i mh mh' msgs upd hty h k

/-- No word splitting, no globbing, no quote removal: configured strings without `\`, `$` and NUL
become the argument vector byte for byte - an argument with blanks, quotes or `*` stays ONE
argument. -/
theorem C13_argv_no_splitting (macros : Option (List (Bytes × Bytes))) (ml : MatchList) (i : Nat) (mh : Match)
    (msgs : Nat → Msg) (hty : mh.ty = .exec ∨ mh.ty = .command)
    (hpl : ∀ s ∈ mh.strings, Proofs.Plain s ∧ (0 : UInt8) ∉ s) :
    matchInterpolate macros ml i mh msgs = some ({ mh with argv := mh.strings }, none) :=
  Proofs.argv_plain macros ml i mh msgs hty hpl

/-- Non-vacuity: `exec { "sh" "a b 'c' *" "-x" }` - three strings, three arguments. -/
example :
    (∀ s ∈ [[115, 104], [97, 32, 98, 32, 39, 99, 39, 32, 42], [45, 120]], Proofs.Plain s ∧ (0 : UInt8) ∉ s) ∧
    (matchInterpolate none [] 0
      { ty := .exec, lno := 1, part := 0, strings := [[115, 104], [97, 32, 98, 32, 39, 99, 39, 32, 42], [45, 120]] }
      (fun _ => parseMessage [])).map (·.1.argv) =
    some [[115, 104], [97, 32, 98, 32, 39, 99, 39, 32, 42], [45, 120]] := by
  decide +kernel

/-- Non-vacuity with a capture containing a blank: `exec { "echo" "\1" }` after a match whose group 1
is `a b`: two arguments, the second is `a b`. -/
example :
    (matchInterpolate none
      [{ ty := .mtch, lno := 1, part := 0 },
       { ty := .header, lno := 1, part := 0, subs := [⟨[120], some (0, 1)⟩, ⟨[97, 32, 98], some (0, 3)⟩] }] 2
      { ty := .exec, lno := 1, part := 0, strings := [[101, 99, 104, 111], [92, 49]] }
      (fun _ => parseMessage [])).map (·.1.argv) =
    some [[101, 99, 104, 111], [97, 32, 98]] := by
  decide +kernel

/-! ## (package ce10) What an `exec stdin` child reads, across the ACTION LIST

Vocabulary: `Spec/ExecSeq.lean`.  `Spec.uptoFork env pre mh st` is `matches_exec` on `pre ++ mh :: post`
up to - not including - the `fork` of the exec entry `mh` (`C13_exec_stdin_fork_point`).  It is run
against the results of an ARBITRARY oracle, threading the abstract file system (`Spec.runW`); the only
hypothesis on the results is that each one is possible in the world it is given in
(`Spec.PossibleRun`: `applyOk` has an effect for it, a call that creates a descriptor returns the
next handle) - every errno at every call, every short count, every wait status is covered; these
are the runs the call-by-call conformance of the process stages accepts. -/

/-- `matches_exec` on `pre ++ mh :: post`, for an exec entry `mh` with `stdin`, IS `uptoFork` followed by
`afterFork`; and when `uptoFork` ends in `fork st' fd`, the very next call is the `fork` of `exec()`,
which was handed the entry's vector and `fd`: the call is `Call.fork mh.argv fd` - the child `dup2`s THAT descriptor
onto 0 and runs THAT vector. -/
theorem C13_exec_stdin_fork_point (env : PEnv) (pre post : MatchList) (mh : Match) (st : ExecSt)
    (hty : mh.ty = .exec) (hs : mh.execStdin = true) :
    matchesExec env (pre ++ mh :: post) st = (Spec.uptoFork env pre mh st).bind (Spec.afterFork env mh.argv post) ∧
    ∀ st' fd, ∃ k, Spec.afterFork env mh.argv post (.fork st' fd) = (execP mh.argv (some fd)).bind k ∧
      ∃ k', (execP mh.argv (some fd)).bind k = Prog.call (.fork mh.argv fd) k' :=
  ⟨Proofs.ExecSeq.matchesExec_factor env pre post mh st hty hs, fun _ _ => ⟨_, rfl, _, rfl⟩⟩

/-- **The descriptor handed to the child of `exec stdin` refers to the CURRENT message, at offset 0.**
For every action list `pre` standing before the entry (any kinds, any number: label, add-header,
move - also across devices -, flag, flags, discard, exec of every form, ...), every state and world
in which the message is open on a file holding `orig` (`Spec.MsgOpen`), every oracle whose results
are possible: if the run reaches the fork of `mh` (`exec stdin`, not `body`, not inside an
attachment block) with descriptor `fd`, then in the world AT THAT FORK `fd` is a read-only handle
on a file whose data is the content produced by the rewriting actions of `pre`
(`Spec.rewrittenBefore`: `message_write` of the in-memory message if `pre` has a label / add-header,
else the original bytes), and the last call before the fork is a successful `lseek(fd, 0, SEEK_SET)`.
(The in-memory message already carries the headers of ALL label / add-header entries of the list:
known finding F23.) -/
theorem C13_exec_stdin_sees_current (env : PEnv) (pre : MatchList) (mh : Match) (st : ExecSt) (orig : Bytes) (w : World)
    (orc : Nat → Call → Res) (i : Nat) (hb : mh.execBody = false) (hp : mh.part = 0)
    (hopen : Spec.MsgOpen w st orig) (hposs : Spec.PossibleRun orc (Spec.uptoFork env pre mh st) w i)
    (st' : ExecSt) (fd : Handle) (hres : (Spec.runW orc (Spec.uptoFork env pre mh st) w i).1 = .fork st' fd) :
    Spec.RewoundOn (Spec.runW orc (Spec.uptoFork env pre mh st) w i).2 fd (Spec.rewrittenBefore pre st.ms.msg orig) :=
  Proofs.ExecSeq.wpo_sound orc (Proofs.ExecSeq.spec_uptoFork_stdin env pre mh st hb hp hopen) i hposs st' fd hres

/-- Non-vacuity (evaluated run, `Proofs/ExecSeqEx.lean`): `label exec stdin` on the message `A:b\n\nx\n` -
the hypotheses hold, the run reaches the fork with descriptor 8, and the file behind it holds the
rewritten `A: b\n\nx\n`. -/
example : ∃ st', (Spec.runW Proofs.ExecSeq.exOrc1 (Spec.uptoFork Proofs.ExecSeq.exEnv [Proofs.ExecSeq.exLabel]
      Proofs.ExecSeq.exExec Proofs.ExecSeq.exSt) Proofs.ExecSeq.exW 0).1 = .fork st' 8 ∧
    Spec.RewoundOn (Spec.runW Proofs.ExecSeq.exOrc1 (Spec.uptoFork Proofs.ExecSeq.exEnv [Proofs.ExecSeq.exLabel]
      Proofs.ExecSeq.exExec Proofs.ExecSeq.exSt) Proofs.ExecSeq.exW 0).2 8 Proofs.ExecSeq.exNew := by
  obtain ⟨st', h⟩ := Proofs.ExecSeq.forkFd_eq Proofs.ExecSeq.ex1_fork
  refine ⟨st', h, ?_⟩
  rw [← Proofs.ExecSeq.ex1_content]
  exact C13_exec_stdin_sees_current _ _ _ _ _ _ _ 0 rfl rfl Proofs.ExecSeq.ex_open Proofs.ExecSeq.ex1_possible st' 8 h

/-- The same statement with the model's ghost field `MsgSt.content` ("what the file the message's
ENTRY is bound to contains", the field the no-loss theorems of C01/C02 are about) in the place of
`rewrittenBefore`.  It is FALSE for every list (`C13_exec_stdin_sees_content_false`) and proved for
lists without move / flag / flags before the entry (`C13_exec_stdin_sees_content_partial`). -/
def C13_exec_stdin_sees_content : Prop :=
  ∀ (env : PEnv) (pre : MatchList) (mh : Match) (st : ExecSt) (orig : Bytes) (w : World) (orc : Nat → Call → Res) (i : Nat),
    mh.execBody = false → mh.part = 0 → Spec.MsgOpen w st orig → st.ms.content = orig →
    Spec.PossibleRun orc (Spec.uptoFork env pre mh st) w i →
    ∀ (st' : ExecSt) (fd : Handle), (Spec.runW orc (Spec.uptoFork env pre mh st) w i).1 = .fork st' fd →
      Spec.RewoundOn (Spec.runW orc (Spec.uptoFork env pre mh st) w i).2 fd st'.ms.content

/-- What is missing in general is exactly the copy across devices: after `maildir_move` has copied
the message to another device the ENTRY (in the destination maildir) holds `message_write` of the
message, but `message_set_file(..., -1)` keeps the descriptor, which still refers to the unlinked
source file.  Without move / flag / flags before the entry the two coincide. -/
theorem C13_exec_stdin_sees_content_partial (env : PEnv) (pre : MatchList) (mh : Match) (st : ExecSt) (orig : Bytes) (w : World)
    (orc : Nat → Call → Res) (i : Nat) (hb : mh.execBody = false) (hp : mh.part = 0)
    (hnm : ∀ m ∈ pre, m.ty ≠ .move ∧ m.ty ≠ .flag ∧ m.ty ≠ .flags)
    (hopen : Spec.MsgOpen w st orig) (hc : st.ms.content = orig)
    (hposs : Spec.PossibleRun orc (Spec.uptoFork env pre mh st) w i)
    (st' : ExecSt) (fd : Handle) (hres : (Spec.runW orc (Spec.uptoFork env pre mh st) w i).1 = .fork st' fd) :
    Spec.RewoundOn (Spec.runW orc (Spec.uptoFork env pre mh st) w i).2 fd st'.ms.content := by
  have h1 := C13_exec_stdin_sees_current env pre mh st orig w orc i hb hp hopen hposs st' fd hres
  have h2 := Proofs.ExecSeq.All.runW (Proofs.ExecSeq.all_uptoFork_content env pre mh st hnm) orc w i st' fd hres
  rw [h2, hc]
  exact h1

/-- Witness (evaluated run 2 of `Proofs/ExecSeqEx.lean`): `move "/b/new" exec stdin CMD` with `/b` on another
device and the message `A:b\n\nx\n`: the child's descriptor refers to the source file (`A:b`), the entry
in `/b/new` - and `MsgSt.content` - hold `A: b`. -/
theorem C13_exec_stdin_sees_content_false : ¬ C13_exec_stdin_sees_content := by
  intro h
  obtain ⟨st', hr⟩ := Proofs.ExecSeq.forkFd_eq Proofs.ExecSeq.ex2_fork
  have := h Proofs.ExecSeq.exEnv [Proofs.ExecSeq.exMove] Proofs.ExecSeq.exExec Proofs.ExecSeq.exSt Proofs.ExecSeq.exOrig
    Proofs.ExecSeq.exW Proofs.ExecSeq.exOrc2 0 rfl rfl Proofs.ExecSeq.ex_open rfl Proofs.ExecSeq.ex2_possible st' 8 hr
  obtain ⟨⟨fid, off, f, hobj, hfile, hdata⟩, -⟩ := this
  rw [Proofs.ExecSeq.ex2_obj] at hobj
  cases hobj
  rw [Proofs.ExecSeq.ex2_file] at hfile
  cases hfile
  have hcont := Proofs.ExecSeq.ex2_content
  rw [hr] at hcont
  simp only [Proofs.ExecSeq.forkContent] at hcont
  rw [hcont] at hdata
  exact Proofs.ExecSeq.ex_differ hdata
/-! ## Descriptor hygiene: what is open when a child is forked

`Model.openFds tr` (Model/Fds.lean) is the descriptor table as a view of the trace: the handles created by the calls of
`tr` (a successful `opendir`, `openat`, `open`, `fopen`, `fcntl(F_DUPFD_CLOEXEC)`, `mkostemp`) and not yet released
(`close`, `closedir`, `fclose` release whatever they return); `openFdsBy` keeps the creating call with each handle.  The
standard descriptors 0, 1, 2 are not created by a call of the run and are not in the list - they are the
configuration-independent part of the table.  Everything is stated for ARBITRARY results of the calls (`runOracle`):
every behaviour of the file system, every fault, every interleaving with other processes.

`Proofs.Own.FdsAre tr S`: the open descriptors after `tr` are exactly the multiset `S` (every handle as often in
`openFds tr` as in `S`).  `Proofs.Own.ForkFds tr`: there are `ds`, `m`, `s` with `FdsAre tr (ds ++ [m, s])`, where

* `ds` are at most two directory streams, each returned by a successful `opendir` of the trace (the maildir being
  walked - `new`, `cur` or the stdin spool - and, after a move or flag action, the maildir the message is in now; at the
  `fork` of a `command` CONDITION, which runs while the rules are evaluated, only the first);
* `m` is the descriptor of the message, returned by a successful `openat(O_RDONLY|O_CLOEXEC)` of the trace;
* `s` is the descriptor `exec()` makes the child's standard input (`Proofs.Own.ChildStdin tr s`): the call just before
  the `fork` is the successful `open("/dev/null", O_RDONLY|O_CLOEXEC)` that returned `s`, or it is the successful
  `lseek(s, 0, SEEK_SET)` of `message_get_fd` on a descriptor `s` obtained from `fcntl(F_DUPFD_CLOEXEC)` (the whole
  message) or from `mkostemp(O_CLOEXEC)` (decoded body / one part);

and nothing else: no descriptor of an earlier message, no write descriptor of a file being created, no temporary file, no
stream of the configuration file, no third directory. -/

/-- **Descriptor hygiene.**  For every configuration, registry, input and for ARBITRARY results of all calls: at every
`fork` issued by a run of `main` - maildir mode or stdin mode, the `fork` of an `exec` action (whatever actions precede
the exec, inside or outside an attachment block) as well as the `fork` of a `command` condition during the evaluation of the
rules (`Model.evalP`: the table there is the directory stream of the maildir, the descriptor of the message and `/dev/null`,
`Proofs.Own.fds_evalP`) - the descriptors the run has created and not released are exactly those `ForkFds` lists.
(Audit note: the table holds what the run itself created - descriptors 0, 1, 2 and anything else inherited at start-up are not
in it.  The audit's other remark - that the fork of a `command` condition was not among the forks of `mainP` - described the
model before package p4; it is now.) -/
theorem C13_fd_hygiene (env : PEnv) (orc : EvalOracles) (ok : Bool) (conf : List ConfBlock) (files : Files) (input : Bytes)
    (orcl : Nat → Call → Res) (j : Nat) (argv : List Bytes) (s : Handle) (r : Res)
    (h : (runOracle orcl (mainP env orc ok conf files input) 0 []).2[j]? = some (.fork argv s, r)) :
    Proofs.Own.ForkFds ((runOracle orcl (mainP env orc ok conf files input) 0 []).2.take j) :=
  Proofs.Own.fd_hygiene env orc ok conf files input orcl j argv s r h

/-- **... and each of them was born close-on-exec.**  At every `fork`, every open descriptor, paired with the call that
created it (`openFdsBy`), was created by a successful call of the trace whose model constructor is a close-on-exec form
(`Call.cloexec`: `opendir`, `openRd`, `openExcl`, `openPath`, `dupfd`, `mkostemp`) - the one constructor that is not,
`fopen` of the configuration file, is the first call of the run and its stream is closed by the second. -/
theorem C13_fd_cloexec (env : PEnv) (orc : EvalOracles) (ok : Bool) (conf : List ConfBlock) (files : Files) (input : Bytes)
    (orcl : Nat → Call → Res) (j : Nat) (argv : List Bytes) (s : Handle) (r : Res)
    (h : (runOracle orcl (mainP env orc ok conf files input) 0 []).2[j]? = some (.fork argv s, r)) :
    ∀ p ∈ openFdsBy ((runOracle orcl (mainP env orc ok conf files input) 0 []).2.take j),
      p.2.cloexec = true ∧ (p.2, Res.ok p.1) ∈ (runOracle orcl (mainP env orc ok conf files input) 0 []).2.take j :=
  Proofs.Own.fd_hygiene_cloexec env orc ok conf files input orcl j argv s r h

/-! Non-vacuity (Proofs/WorldFdsEx.lean): two evaluated runs of `main` over the maildir `/m` with one message, rule
`match all exec "true"` resp. `match all exec stdin "cat"`, every call answered from a fixed list.  The `fork` is call 8
resp. 9; the table there is `[(4, opendir /m/new), (5, openat 1.h), (6, open /dev/null)]` resp.
`[(4, opendir /m/new), (5, openat 1.h), (6, dup of 5)]` with `lseek 6` as the call before; at the end nothing is open. -/
example :
    (Proofs.FdsEx.trace false)[8]? = some (.fork [ofString "true"] 6, .ok 0) ∧
    openFdsBy ((Proofs.FdsEx.trace false).take 8) =
      [(4, .opendir Proofs.exNew), (5, .openRd 4 Proofs.exName), (6, .openPath (ofString "/dev/null"))] ∧
    openFds ((Proofs.FdsEx.trace false).take 8) = [4, 5, 6] ∧ openFds (Proofs.FdsEx.trace false) = [] ∧
    (Proofs.FdsEx.trace true)[9]? = some (.fork [ofString "cat"] 6, .ok 0) ∧
    openFdsBy ((Proofs.FdsEx.trace true).take 9) = [(4, .opendir Proofs.exNew), (5, .openRd 4 Proofs.exName), (6, .dupfd 5)] ∧
    ((Proofs.FdsEx.trace true).take 9).getLast? = some (.lseek 6, .ok 0) ∧ openFds (Proofs.FdsEx.trace true) = [] :=
  Proofs.FdsEx.tables

example : Proofs.Own.ForkFds ((Proofs.FdsEx.trace false).take 8) ∧ Proofs.Own.ForkFds ((Proofs.FdsEx.trace true).take 9) :=
  ⟨C13_fd_hygiene _ _ _ _ _ _ _ 8 _ _ _ Proofs.FdsEx.tables.1, C13_fd_hygiene _ _ _ _ _ _ _ 9 _ _ _ Proofs.FdsEx.tables.2.2.2.2.1⟩

/-- Non-vacuity for the `fork` of a `command` condition (`Proofs.FdsEx.tablesC`): `match command "false" move "/d"` over
the same maildir; the `fork` of evaluation is call 8, the table there is `[(4, opendir /m/new), (5, openat 1.h),
(6, open /dev/null)]`, `/dev/null` opened by the call before; the child exits 1, the condition does not match, nothing is
moved, at the end nothing is open. -/
example :
    Proofs.FdsEx.traceC[8]? = some (.fork [ofString "false"] 6, .ok 0) ∧
    openFdsBy (Proofs.FdsEx.traceC.take 8) =
      [(4, .opendir Proofs.exNew), (5, .openRd 4 Proofs.exName), (6, .openPath (ofString "/dev/null"))] ∧
    openFds Proofs.FdsEx.traceC = [] ∧ Proofs.Own.ForkFds (Proofs.FdsEx.traceC.take 8) :=
  ⟨Proofs.FdsEx.tablesC.2.1, Proofs.FdsEx.tablesC.2.2.1, Proofs.FdsEx.tablesC.2.2.2.2,
   C13_fd_hygiene _ _ _ _ _ _ _ 8 _ _ _ Proofs.FdsEx.tablesC.2.1⟩

/-- The constructors and their flags: which calls create a descriptor, and which of these are close-on-exec forms. -/
theorem C13_cloexec_forms (c : Call) :
    (c.opensFd = true ↔ (∃ p, c = .opendir p) ∨ (∃ d n, c = .openRd d n) ∨ (∃ d n, c = .openExcl d n) ∨ (∃ p, c = .openPath p) ∨
      (∃ p, c = .fopen p) ∨ (∃ fd, c = .dupfd fd) ∨ (∃ t, c = .mkostemp t)) ∧
    (c.cloexec = true ↔ c.opensFd = true ∧ ∀ p, c ≠ .fopen p) := by
  cases c <;> simp [Call.opensFd, Call.cloexec]

/-- **The child's standard input without `stdin`** is `/dev/null`: an exec entry without the `stdin` option opens
`/dev/null` (read-only, close-on-exec) as its first call; if that succeeds the very next call is the `fork` of the entry's
vector with THE HANDLE JUST RETURNED as the child's standard input (so `ChildStdin` holds with that descriptor); if it fails no child is started and the entry is an error. -/
theorem C13_stdin_devnull (env : PEnv) (mh : Match) (st : ExecSt) (orcl : Nat → Call → Res) (i : Nat) (tr : List (Call × Res))
    (hty : mh.ty = .exec) (hs : mh.execStdin = false) :
    (∀ h, orcl i (.openPath Proofs.Own.devNull) = .ok h →
      ∃ r rest, (runOracle orcl (execOne env mh st) i tr).2 =
        tr ++ (Call.openPath Proofs.Own.devNull, Res.ok h) :: (Call.fork mh.argv h, r) :: rest) ∧
    ((∀ h, orcl i (.openPath Proofs.Own.devNull) ≠ .ok h) →
      (runOracle orcl (execOne env mh st) i tr).2 = tr ++ [(Call.openPath Proofs.Own.devNull, orcl i (.openPath Proofs.Own.devNull))] ∧
      (runOracle orcl (execOne env mh st) i tr).1.2 = true) :=
  Proofs.Own.exec_nostdin_child env mh st orcl i tr hty hs

/-- **The child's standard input with `stdin`** (with `C11_exec_stdin`): an exec entry with the `stdin` option first runs
`message_get_fd` for the message or the part the entry refers to (`Proofs.Own.execPart`); if that yields no descriptor
no child is started and the entry is an error; if it yields `fd`, the run of the entry is: the calls `L0` of
`message_get_fd`, none of which failed, by which `fd` was filled with the complete current message / the decoded body /
the re-serialised part (`Spec.HandedOver`, see `C11_exec_stdin`), then the successful `lseek(fd, 0)`, then - as the very
next call - the `fork` of the entry's vector with `fd` as the child's standard input: the child reads that content from
offset 0. -/
theorem C13_stdin_content (env : PEnv) (mh : Match) (st : ExecSt) (orcl : Nat → Call → Res) (i : Nat) (tr : List (Call × Res))
    (hty : mh.ty = .exec) (hs : mh.execStdin = true) :
    ((runOracle orcl (messageGetFd env st.ms (Proofs.Own.execPart mh st) mh.execBody) i tr).1 = none →
      (runOracle orcl (execOne env mh st) i tr).2 =
        (runOracle orcl (messageGetFd env st.ms (Proofs.Own.execPart mh st) mh.execBody) i tr).2 ∧
      (runOracle orcl (execOne env mh st) i tr).1.2 = true ∧
      ∀ x ∈ (runOracle orcl (execOne env mh st) i tr).2.drop tr.length, x.1.isFork = false) ∧
    (∀ fd, (runOracle orcl (messageGetFd env st.ms (Proofs.Own.execPart mh st) mh.execBody) i tr).1 = some fd →
      ∃ L0 r rf rest, (runOracle orcl (execOne env mh st) i tr).2 = tr ++ L0 ++ [(.lseek fd, r)] ++ (Call.fork mh.argv fd, rf) :: rest ∧
        r.isErr = false ∧ (∀ x ∈ L0, Spec.failed x = false) ∧
        Spec.HandedOver env st.ms (Proofs.Own.execPart mh st) mh.execBody fd L0) := by
  obtain ⟨h1, h2⟩ := Proofs.Own.exec_stdin_child env mh st orcl i tr hty hs
  refine ⟨fun hn => ⟨(h1 hn).1, (h1 hn).2, ?_⟩, fun fd hfd => ?_⟩
  · rw [(h1 hn).1]
    have hq := (Proofs.Own.wp_sound (R := fun _ _ => True) (I := fun _ c => c.isFork = false) orcl (fun _ _ => True.intro)
      (Proofs.Own.wp_calls (P := fun _ => True) (C := fun c => c.isFork = false) (fun _ _ h => h)
        (Proofs.Own.nofork_messageGetFd env st.ms (Proofs.Own.execPart mh st) mh.execBody) (Proofs.Own.All.trivial _) tr) i)
    obtain ⟨-, ⟨L, hL⟩, hall⟩ := hq
    intro x hx
    rw [hL, List.drop_left] at hx
    obtain ⟨k, hk, hxk⟩ := List.mem_iff_getElem.1 hx
    exact hall (tr.length + k) x.1 x.2 (by omega) (by rw [hL, List.getElem?_append_right (by omega)]; simp [hxk, hk])
  · obtain ⟨rf, rest, he⟩ := h2 fd hfd
    obtain ⟨L0, r, hg, hr, hf, hh⟩ := Proofs.exec_stdin_handed_over env st.ms (Proofs.Own.execPart mh st) mh.execBody orcl i tr fd hfd
    exact ⟨L0, r, rf, rest, by rw [he, hg], hr, hf, hh⟩

/-! Non-vacuity of the two statements about the child's standard input: an exec entry without and with `stdin`; in the
evaluated runs above the call before the `fork` is `open("/dev/null")` (call 7 of the first run) resp. `lseek` on the
duplicate of the message's descriptor (call 8 of the second). -/
example : ({ ty := .exec, lno := 1, part := 0 } : Match).ty = .exec ∧
    ({ ty := .exec, lno := 1, part := 0 } : Match).execStdin = false ∧
    ({ ty := .exec, lno := 1, part := 0, execStdin := true } : Match).execStdin = true := ⟨rfl, rfl, rfl⟩

example : (Proofs.FdsEx.trace false)[7]? = some (.openPath Proofs.Own.devNull, .ok 6) ∧
    (Proofs.FdsEx.trace true)[7]? = some (.dupfd 5, .ok 6) ∧ (Proofs.FdsEx.trace true)[8]? = some (.lseek 6, .ok 0) :=
  Proofs.FdsEx.before_fork

/-! ## The `command` condition inside a run (`expr_eval_command`)

Conditions are evaluated inside the run (`Model.evalT` / `Model.evalP`, Model/EvalP.lean): a `command` condition asks
the operating system one question, `Req.command av`, which `Model.sysCall` turns into the calls of util.c
`exec(argv, -1)` (`open("/dev/null")`, `fork`, `waitpid`, `close`: `C03_evaluation_calls`). -/

/-- **The `command` condition**: when its entry can be appended and its strings interpolate to `av` - one argument per
configured string, in order (`List.mapM`), interpolated against the entries of the rule so far, no shell, no splitting -
the evaluation asks exactly the question `command av` and is *match* if `exec()` returned 0, *error* if it returned a
negative value (`C04_command_failure_causes`: `/dev/null`, `fork`, `waitpid` failed, or exit status 127) and *no match*
otherwise (any other exit status, death by a signal); the entry is removed again. -/
theorem C13_command_condition (env : Env) (root : Msg) (lno : Nat) (argv : List Bytes)
    (part : Nat) (m : Msg) (st : St) (ml : MatchList) (av : List Bytes)
    (happ : matchesAppend env st.ml { ty := .command, lno := lno, part := part, strings := argv } = (ml, false))
    (hav : argv.mapM (interpolate ml.dropLast none) = some av) :
    evalT env root (.command lno argv) part m st =
      (ask (.command av)).bind fun a =>
        .ret (if ansStatus a == 0 then .match else if ansStatus a < 0 then .error else .nomatch,
              { st with ml := ml.dropLast }) := by
  simp only [evalT, happ, hav, Bool.false_eq_true, ↓reduceIte]

/-- **`C13_command_status` inside the run** (its corollary through `Proofs.evalT_command_run`: the command oracle of the
evaluator-level statement IS `exec()` on the results of the three calls this run makes for the condition - `open("/dev/null")`
at step `j`, `fork` at `j + 1`, `waitpid` at `j + 2`): for every wait status the condition MATCHES iff the child was waited
for and exited 0, does NOT match iff it exited with 1..126 / 128..255 or was killed by a signal (or is reported stopped), is
an ERROR iff it could not be run or exited with 127; the match list is left as it was. -/
theorem C13_command_condition_status (env : Env) (root : Msg) (lno : Nat) (argv av : List Bytes) (part : Nat) (m : Msg)
    (st : St) (hav : argv.mapM (interpolate st.ml none) = some av) (orcl : Nat → Call → Res) (j : Nat) :
    let o := Proofs.childOutcome (match orcl j (.openPath (ofString "/dev/null")) with | .ok _ => true | _ => false)
      (orcl (j + 1) (.fork (av.map cstr) (Proofs.Own.okHandle (orcl j (.openPath (ofString "/dev/null")))))) (orcl (j + 2) .waitpid)
    let r := (Proofs.Own.runO orcl (evalT env root (.command lno argv) part m st).toProg j).1
    r.2 = st ∧
    (r.1 = .match ↔ o = .waited (.exited 0)) ∧
    (r.1 = .nomatch ↔ (∃ c, o = .waited (.exited c) ∧ c ≠ 0 ∧ c ≠ 127) ∨ (∃ g, o = .waited (.signaled g)) ∨ o = .waited .stopped) ∧
    (r.1 = .error ↔ o = .cannotRun ∨ o = .waited (.exited 127)) := by
  intro o r
  have hr : r = _ := Proofs.evalT_command_run env root lno argv part m st orcl j
  rw [hr]
  exact C13_command_status _ root lno argv av part m st hav _ _ _ rfl

/-- Non-vacuity: `command { "t" "a b" }` in an empty rule context: two arguments, the second with its blank. -/
example :
    matchesAppend Proofs.exampleEnv [] { ty := .command, lno := 1, part := 0, strings := [[116], [97, 32, 98]] } =
      ([{ ty := .command, lno := 1, part := 0, strings := [[116], [97, 32, 98]] }], false) ∧
    [[116], [97, 32, 98]].mapM (interpolate ([{ ty := .command, lno := 1, part := 0, strings := [[116], [97, 32, 98]] }] : MatchList).dropLast none) =
      some [[116], [97, 32, 98]] := by
  decide +kernel


/-! ## (package p14) The child: vector and standard input of every `fork` of a run of `main`

`Call.fork argv s` is issued by `Model.execP` only (util.c `exec()`), with the vector and the descriptor it was handed; a
run of `main` reaches `execP` from `matches_exec` (an `exec` entry: `mh.argv`, filled by `match_interpolate`) and from the
evaluation of a `command` condition (`Model.sysCall`: the C strings of the interpolated vector).  Everything below is for
ARBITRARY results of all calls (`runOracle`).

`C13_Configured conf strings macros`: `strings` is the string list of an `exec` ACTION of one of the rule trees of the
configuration and `macros` is the table `path = <path of a message>` (what `matches_interpolate` passes), or `strings` is
the string list of a `command` CONDITION and `macros` is absent (`expr_eval_command` passes NULL). -/

/-- The configured string lists a child can be started from, with the macro table each is interpolated with. -/
def C13_Configured (conf : List ConfBlock) (strings : List Bytes) (macros : Option (List (Bytes × Bytes))) : Prop :=
  ∃ b ∈ conf, (Proofs.IsExecNode b.expr strings ∧ ∃ p, macros = some [(ofString "path", p)]) ∨
    (Proofs.IsCmdNode b.expr strings ∧ macros = none)

/-- **The child gets exactly the configured argument vector after interpolation.**  For every configuration, registry,
input and for ARBITRARY results of all calls: every `fork` in the trace of `main` carries
`strings.map (cstr ∘ interpolate before macros)` for the strings of an `exec` action or a `command` condition of the
configuration (`C13_Configured`) - ONE argument per configured string, in the configured order, each the C string of
the one-pass interpolation of that string (C12) in one context `before` of captures; every string does interpolate (a
string that does not never reaches a `fork`: `C12_failed_template_fails_all`, `C13_command_interpolation_error`). -/
theorem C13_child_argv (env : PEnv) (orc : EvalOracles) (ok : Bool) (conf : List ConfBlock) (files : Files) (input : Bytes)
    (orcl : Nat → Call → Res) (j : Nat) (av : List Bytes) (s : Handle) (r : Res)
    (h : (runOracle orcl (mainP env orc ok conf files input) 0 []).2[j]? = some (.fork av s, r)) :
    ∃ (strings : List Bytes) (before : MatchList) (macros : Option (List (Bytes × Bytes))), C13_Configured conf strings macros ∧
      av = strings.map (fun t => cstr ((interpolate before macros t).getD [])) ∧
      ∀ t ∈ strings, (interpolate before macros t).isSome = true := by
  have hmem := List.mem_of_getElem? h
  rcases Proofs.calls_runOracle_mem (Proofs.Own.fa_mainP env orc ok conf files input) orcl 0 [] _ hmem with h0 | h1
  · cases h0
  · obtain ⟨b, hb, hc⟩ := h1
    rcases hc with ⟨ss, before, mc, hs, hm, hav, hsome⟩ | ⟨ss, before, mc, hs, hm, hav, hsome⟩
    · exact ⟨ss, before, mc, ⟨b, hb, .inl ⟨hs, hm⟩⟩, hav, hsome⟩
    · exact ⟨ss, before, mc, ⟨b, hb, .inr ⟨hs, hm⟩⟩, hav, hsome⟩

/-- **Same length, same order** (`C13_argv_length_order` on the TRACE): the vector of every `fork` has as many arguments as
the action / condition has configured strings, and the k-th argument comes from the k-th string. -/
theorem C13_child_argv_length_order (env : PEnv) (orc : EvalOracles) (ok : Bool) (conf : List ConfBlock) (files : Files)
    (input : Bytes) (orcl : Nat → Call → Res) (j : Nat) (av : List Bytes) (s : Handle) (r : Res)
    (h : (runOracle orcl (mainP env orc ok conf files input) 0 []).2[j]? = some (.fork av s, r)) :
    ∃ (strings : List Bytes) (before : MatchList) (macros : Option (List (Bytes × Bytes))), C13_Configured conf strings macros ∧ av.length = strings.length ∧
      ∀ k : Nat, av[k]? = (strings[k]?).map fun t => cstr ((interpolate before macros t).getD []) := by
  obtain ⟨ss, before, mc, hc, hav, -⟩ := C13_child_argv env orc ok conf files input orcl j av s r h
  refine ⟨ss, before, mc, hc, by rw [hav, List.length_map], fun k => ?_⟩
  rw [hav, List.getElem?_map]

/-- **No word splitting, no globbing, no quote removal, nothing prepended** (`C13_argv_no_splitting` on the TRACE): a
configured string without `\`, `$` and NUL is the argument at its position byte for byte - blanks, quotes, `*` and all. -/
theorem C13_child_argv_no_splitting (env : PEnv) (orc : EvalOracles) (ok : Bool) (conf : List ConfBlock) (files : Files)
    (input : Bytes) (orcl : Nat → Call → Res) (j : Nat) (av : List Bytes) (s : Handle) (r : Res)
    (h : (runOracle orcl (mainP env orc ok conf files input) 0 []).2[j]? = some (.fork av s, r)) :
    ∃ (strings : List Bytes) (macros : Option (List (Bytes × Bytes))), C13_Configured conf strings macros ∧ av.length = strings.length ∧
      ∀ (k : Nat) (t : Bytes), strings[k]? = some t → Proofs.Plain t → (0 : UInt8) ∉ t → av[k]? = some t := by
  obtain ⟨ss, before, mc, hc, hlen, hk⟩ := C13_child_argv_length_order env orc ok conf files input orcl j av s r h
  refine ⟨ss, mc, hc, hlen, fun k t ht hpl h0 => ?_⟩
  rw [hk k, ht, Option.map_some, Proofs.interpolate_plain before mc t hpl, Option.getD_some,
    cstr_of_no_nul fun b hb hb0 => h0 (hb0 ▸ hb)]

/-- **No shell, no other program**: if the program (first string) of every `exec` action and `command` condition of the
configuration is a plain string other than `prog`, no child of the run is started with `prog` as `argv[0]` - in particular
no `sh` (`-c`) unless it is configured; and by `C13_child_argv_length_order` nothing is inserted before or between the
configured arguments. -/
theorem C13_no_shell (env : PEnv) (orc : EvalOracles) (ok : Bool) (conf : List ConfBlock) (files : Files)
    (input : Bytes) (orcl : Nat → Call → Res) (j : Nat) (av : List Bytes) (s : Handle) (r : Res) (prog : Bytes)
    (hcfg : ∀ strings macros, C13_Configured conf strings macros →
      ∃ t0, strings[0]? = some t0 ∧ Proofs.Plain t0 ∧ (0 : UInt8) ∉ t0 ∧ t0 ≠ prog)
    (h : (runOracle orcl (mainP env orc ok conf files input) 0 []).2[j]? = some (.fork av s, r)) :
    av[0]? ≠ some prog := by
  obtain ⟨ss, mc, hc, -, hk⟩ := C13_child_argv_no_splitting env orc ok conf files input orcl j av s r h
  obtain ⟨t0, h0, hpl, hnul, hne⟩ := hcfg ss mc hc
  rw [hk 0 t0 h0 hpl hnul]
  intro e
  exact hne (Option.some.inj e)

/-- **In the words of the specification of C12**: for the k-th configured string `t` (of the documented template syntax) the
k-th argument is the C string of `Spec.interp` of `t` - the token-wise substitution over the captures of the rule
(`Proofs.ruleCaps before`) and the macro table.  Hypothesis `NulFree`: captured texts and the message's path hold no NUL
(they are C strings in the implementation; `C12_interpolate`). -/
theorem C13_child_argv_spec (env : PEnv) (orc : EvalOracles) (ok : Bool) (conf : List ConfBlock) (files : Files)
    (input : Bytes) (orcl : Nat → Call → Res) (j : Nat) (av : List Bytes) (s : Handle) (r : Res)
    (h : (runOracle orcl (mainP env orc ok conf files input) 0 []).2[j]? = some (.fork av s, r)) :
    ∃ (strings : List Bytes) (before : MatchList) (macros : Option (List (Bytes × Bytes))), C13_Configured conf strings macros ∧ av.length = strings.length ∧
      (Proofs.NulFree before macros → ∀ (k : Nat) (t : Bytes), strings[k]? = some t → Spec.itokens t ≠ .undefined →
        ∃ v, Spec.interp (Proofs.ruleCaps before) macros t = some (some v) ∧ av[k]? = some (cstr v)) := by
  obtain ⟨ss, before, mc, hc, hav, hsome⟩ := C13_child_argv env orc ok conf files input orcl j av s r h
  refine ⟨ss, before, mc, hc, by rw [hav, List.length_map], fun hn k t ht hdom => ?_⟩
  have hs := hsome t (List.mem_of_getElem? ht)
  obtain ⟨v, hv⟩ := Option.isSome_iff_exists.1 hs
  refine ⟨v, by rw [Proofs.interpolate_eq_spec before mc t hdom hn, hv], ?_⟩
  rw [hav, List.getElem?_map, ht, Option.map_some, hv, Option.getD_some]

/-- **An action list, exactly**: every `fork` of `matches_exec` on the list `ml` carries the `argv` field of an `exec` entry
of `ml` - the field `C13_argv_exact` / `C13_argv_length_order` / `C13_argv_no_splitting` describe with the capture
context named (`ml.take i` for the entry at position `i`); those statements about the FIELD are therefore statements about
what the child receives. -/
theorem C13_child_argv_list (env : PEnv) (ml : MatchList) (st : ExecSt) (orcl : Nat → Call → Res) (i : Nat)
    (tr : List (Call × Res)) :
    ∀ x ∈ (runOracle orcl (matchesExec env ml st) i tr).2, x ∈ tr ∨
      ∀ av s, x.1 = .fork av s → ∃ mh ∈ ml, mh.ty = .exec ∧ av = mh.argv := by
  intro x hx
  have hc : Proofs.World.Calls (Proofs.ForkArgv fun av => ∃ mh ∈ ml, mh.ty = .exec ∧ av = mh.argv) (matchesExec env ml st) :=
    Proofs.fa_matchesExec env ml st fun mh hmh hty => ⟨mh, hmh, hty, rfl⟩
  rcases Proofs.calls_runOracle_mem hc orcl i tr x hx with h0 | h1
  · exact .inl h0
  · refine .inr fun av s e => ?_
    rw [e] at h1
    exact h1

/-- **A `command` condition, exactly** (with `C13_command_condition`): when its entry can be appended and its strings
interpolate to `av`, the calls of the condition are those of `exec(argv, -1)` on the C strings of `av` - so its `fork` carries
`av.map cstr`, one argument per configured string, and `/dev/null` as standard input (`C13_child_stdin`). -/
theorem C13_child_argv_command (env : Env) (root : Msg) (lno : Nat) (argv : List Bytes)
    (part : Nat) (m : Msg) (st : St) (ml : MatchList) (av : List Bytes)
    (happ : matchesAppend env st.ml { ty := .command, lno := lno, part := part, strings := argv } = (ml, false))
    (hav : argv.mapM (interpolate ml.dropLast none) = some av) :
    (evalT env root (.command lno argv) part m st).toProg =
      (execP (av.map cstr) none).bind fun rc =>
        .ret (if rc == 0 then .match else if rc < 0 then .error else .nomatch, { st with ml := ml.dropLast }) := by
  rw [C13_command_condition env root lno argv part m st ml av happ hav]
  simp only [ask, Ask.ask_bind, Ask.ret_bind, Ask.toProg, sysCall, Proofs.World.bind_assoc, Proofs.World.ret_bind, ansStatus]
  rfl

/-- **The child's standard input.**  For ARBITRARY results of all calls: the handle `s` of every `fork` of a run of `main` -
the descriptor the child `dup2`s onto 0 - is

* the handle the call JUST BEFORE the `fork`, a successful `open("/dev/null", O_RDONLY|O_CLOEXEC)`, returned (no `stdin`
  option; every `command` condition), or
* a descriptor that the call just before the `fork`, a successful `lseek(s, 0, SEEK_SET)`, has rewound, and that was
  obtained from `fcntl(F_DUPFD_CLOEXEC)` (`exec stdin`: the message's descriptor, whose file holds the CURRENT message -
  `C13_exec_stdin_sees_current`) or from `mkostemp(O_CLOEXEC)` (`exec stdin body` / inside an attachment block: a file of its
  own holding the decoded body / the part - `C11_exec_stdin_body_after_rewrite`, `C11_exec_stdin`);

and the descriptors the run has created and not released at that point are at most two directory streams, the message's
descriptor and `s` itself (`ForkFdsOf`; each born close-on-exec: `C13_fd_cloexec`) - so, with descriptors 0, 1, 2 of the
process, the child has `s` on 0 and inherits nothing else. -/
theorem C13_child_stdin (env : PEnv) (orc : EvalOracles) (ok : Bool) (conf : List ConfBlock) (files : Files) (input : Bytes)
    (orcl : Nat → Call → Res) (j : Nat) (av : List Bytes) (s : Handle) (r : Res)
    (h : (runOracle orcl (mainP env orc ok conf files input) 0 []).2[j]? = some (.fork av s, r)) :
    let tr := (runOracle orcl (mainP env orc ok conf files input) 0 []).2.take j
    (tr.getLast? = some (.openPath (ofString "/dev/null"), .ok s) ∨
      ∃ rl, tr.getLast? = some (.lseek s, rl) ∧ rl.isErr = false ∧
        ((∃ fd, (Call.dupfd fd, Res.ok s) ∈ tr) ∨ ∃ t, (Call.mkostemp t, Res.ok s) ∈ tr)) ∧
    Proofs.Own.ForkFdsOf tr s := by
  intro tr
  have hf := Proofs.Own.fd_hygiene_of env orc ok conf files input orcl j av s r h
  obtain ⟨ds, m, h1, h2, h3, h4, hcs⟩ := hf
  exact ⟨hcs, ds, m, h1, h2, h3, h4, hcs⟩

/-! Non-vacuity of the statements about the child (evaluated runs of `main`, `Proofs/WorldFdsEx.lean`): `match all exec
{ "printf" "a b 'c' *" "-x" }` - the `fork` (call 8) carries these three strings as three arguments and the handle 6 that
call 7, `open("/dev/null")`, returned; the configured strings are an `exec` node of the tree, all plain.  `match all exec stdin
"cat"`: the `fork` (call 9) carries `["cat"]` and the handle 6 that `fcntl(F_DUPFD_CLOEXEC)` returned (call 7) and `lseek`
rewound (call 8).  `match command "false" move "/d"`: the `fork` of the condition (call 8) carries `["false"]` and `/dev/null`. -/
example :
    Proofs.FdsEx.traceA[8]? = some (.fork [ofString "printf", ofString "a b 'c' *", ofString "-x"] 6, .ok 0) ∧
    Proofs.FdsEx.traceA[7]? = some (.openPath (ofString "/dev/null"), .ok 6) ∧
    C13_Configured Proofs.FdsEx.confA [ofString "printf", ofString "a b 'c' *", ofString "-x"] (some [(ofString "path", [])]) ∧
    (∀ t ∈ [ofString "printf", ofString "a b 'c' *", ofString "-x"], Proofs.Plain t ∧ (0 : UInt8) ∉ t) ∧
    (Proofs.FdsEx.trace true)[9]? = some (.fork [ofString "cat"] 6, .ok 0) ∧
    (Proofs.FdsEx.trace true)[7]? = some (.dupfd 5, .ok 6) ∧ (Proofs.FdsEx.trace true)[8]? = some (.lseek 6, .ok 0) ∧
    Proofs.FdsEx.traceC[8]? = some (.fork [ofString "false"] 6, .ok 0) ∧
    C13_Configured Proofs.FdsEx.confC [ofString "false"] none :=
  ⟨Proofs.FdsEx.tablesA.2, Proofs.FdsEx.tablesA.1,
   ⟨_, List.mem_singleton.2 rfl, .inl ⟨by simp [Proofs.FdsEx.ruleA, Proofs.IsExecNode], _, rfl⟩⟩, by decide +kernel,
   Proofs.FdsEx.tables.2.2.2.2.1, Proofs.FdsEx.before_fork.2.1, Proofs.FdsEx.before_fork.2.2, Proofs.FdsEx.tablesC.2.1,
   ⟨_, List.mem_singleton.2 rfl, .inr ⟨by simp [Proofs.FdsEx.ruleC, Proofs.IsCmdNode], rfl⟩⟩⟩

/-- The theorems applied to the first of these runs: the vector of its `fork` has the three configured strings as its three
arguments; the descriptors open at the `fork` are a directory stream, the message and the handle 6 of the `fork`, which is
the `/dev/null` of the call before (`Proofs.FdsEx.tablesA`). -/
example :
    (∃ (strings : List Bytes) (macros : Option (List (Bytes × Bytes))), C13_Configured Proofs.FdsEx.confA strings macros ∧ 3 = strings.length ∧
      ∀ (k : Nat) (t : Bytes), strings[k]? = some t → Proofs.Plain t → (0 : UInt8) ∉ t →
        [ofString "printf", ofString "a b 'c' *", ofString "-x"][k]? = some t) ∧
    Proofs.Own.ForkFdsOf (Proofs.FdsEx.traceA.take 8) 6 :=
  ⟨C13_child_argv_no_splitting _ _ _ _ _ _ _ 8 _ 6 _ Proofs.FdsEx.tablesA.2,
   (C13_child_stdin _ _ _ _ _ _ _ 8 _ 6 _ Proofs.FdsEx.tablesA.2).2⟩

/-- Non-vacuity of `C13_no_shell`: the configuration of that run names one program, `printf`; its hypothesis holds for
`prog = sh`, so the child was not started with `sh`. -/
example : ([ofString "printf", ofString "a b 'c' *", ofString "-x"] : List Bytes)[0]? ≠ some (ofString "sh") := by
  refine C13_no_shell _ _ _ Proofs.FdsEx.confA _ _ _ 8 _ 6 _ (ofString "sh") ?_ Proofs.FdsEx.tablesA.2
  rintro ss mc ⟨b, hb, hc⟩
  rw [Proofs.FdsEx.confA, List.mem_singleton] at hb
  subst hb
  rcases hc with ⟨hn, -⟩ | ⟨hn, -⟩
  · simp only [Proofs.FdsEx.ruleA, Proofs.IsExecNode, false_or] at hn
    subst hn
    exact ⟨ofString "printf", rfl, by decide +kernel, by decide +kernel, by decide +kernel⟩
  · simp [Proofs.FdsEx.ruleA, Proofs.IsCmdNode] at hn

end Mdsort.Props
