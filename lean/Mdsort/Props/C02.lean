import Mdsort.Proofs.World

/-!
# C02 - a crash at any instant never leaves a message without an intact copy

`runPlan` records the world after every call; a process killed before call k leaves the world
after call k-1.  `File.durable` is the content as of the last successful fsync: with directory
operations persisting in order, a power failure after call k leaves the directory state of some
earlier call and the durable contents; because durable contents of the copies never shrink, the
statement at every call covers those states.
-/

namespace Mdsort.Props
open Mdsort Mdsort.Model

/-- Process kill: after every call of the execution of an action list, under every fault plan,
some entry is bound to a complete version of the message. -/
theorem C02_crash_any_prefix (env : PEnv) (ml : MatchList) (st : ExecSt) (w : World) (orig : Bytes) (plan : Plan)
    (hs : Proofs.Start w st orig) (hd : Proofs.NoDiscard ml) :
    ∀ w' ∈ (runPlan plan (matchesExec env ml st) w 0 []).2.2, Proofs.Intact w' (Proofs.stages st.ms orig) :=
  Proofs.exec_always_intact env ml st w orig plan hs hd

/-- Power failure: the same holds for the content on stable storage - whenever a message is copied
rather than renamed, the copy has been flushed (fflush, fsync, fclose all successful) before the
original name is removed. -/
theorem C02_power_failure (env : PEnv) (ml : MatchList) (st : ExecSt) (w : World) (orig : Bytes) (plan : Plan)
    (hs : Proofs.Start w st orig) (hd : Proofs.NoDiscard ml) :
    ∀ w' ∈ (runPlan plan (matchesExec env ml st) w 0 []).2.2, Proofs.IntactDurable w' (Proofs.stages st.ms orig) :=
  Proofs.exec_always_durable env ml st w orig plan hs hd

end Mdsort.Props
