import Mdsort.Proofs.World
import Mdsort.Proofs.WorldStdinExample

/-!
# C02 - a crash at any instant never leaves a message without an intact copy

`runPlan` records the world after every call; a process killed before call k leaves the world
after call k-1.  `File.durable` is the content as of the last successful fsync: with directory
operations persisting in order, a power failure after call k leaves the directory state of some
earlier call and the durable contents; because durable contents of the copies never shrink, the
statement at every call covers those states.
-/

namespace Mdsort.Props
open Mdsort Mdsort.Model

/-- Process kill: after every call of the execution of an action list, under every fault plan,
some entry is bound to a complete version of the message. -/
theorem C02_crash_any_prefix (env : PEnv) (ml : MatchList) (st : ExecSt) (w : World) (orig : Bytes) (plan : Plan)
    (hs : Proofs.Start w st orig) (hd : Proofs.NoDiscard ml) :
    ∀ w' ∈ (runPlan plan (matchesExec env ml st) w 0 []).2.2, Proofs.Intact w' (Proofs.stages st.ms orig) :=
  Proofs.exec_always_intact env ml st w orig plan hs hd

/-- Power failure: the same holds for the content on stable storage - whenever a message is copied
rather than renamed, the copy has been flushed (fflush, fsync, fclose all successful) before the
original name is removed. -/
theorem C02_power_failure (env : PEnv) (ml : MatchList) (st : ExecSt) (w : World) (orig : Bytes) (plan : Plan)
    (hs : Proofs.Start w st orig) (hd : Proofs.NoDiscard ml) :
    ∀ w' ∈ (runPlan plan (matchesExec env ml st) w 0 []).2.2, Proofs.IntactDurable w' (Proofs.stages st.ms orig) :=
  Proofs.exec_always_durable env ml st w orig plan hs hd

/-- MDA contract (stdin mode, `mdsort -`): for EVERY fault plan - any number of failed or short calls,
including failures inside the cleanup of the spool - exit status 0 implies `Proofs.Delivered`:
with `name0` the name the spool file got and `ml` the interpolated match list the rule set yields for
the message, either nothing matched (the message is then stored NOWHERE and the status is still 0: this
is what mdsort.c does, `EXPR_NOMATCH` just goes to `loop:`), or - if the list contains no discard,
contains a move/flag/flags action and no destination is the spool itself - some entry of a directory
OTHER than the spool is, in the final world, bound to a file whose DURABLE content is the message as
received or as rewritten by label / add-header.  (A rule set without a move - label / add-header /
exec / reject only - rewrites or pipes the spool copy, which the cleanup then removes: status 0 or 1,
nothing stored; so does a discard, and `-d`.  These are the cases the hypotheses exclude.)  Hypotheses: `-` was given, not `-n`, exactly one `stdin` block (any number
of `maildir` blocks), descriptor 0 holds `input`, `mkdtemp` returns a fresh directory. -/
theorem C02_stdin_exit0 (env : PEnv) (orc : EvalOracles) (conf : List ConfBlock) (files : Files) (input : Bytes) (expr : Expr)
    (w : World) (plan : Plan) (hm : env.stdinMode = true) (hs : env.syntaxOnly = false)
    (hc : Proofs.World.stdinExprs conf = [expr]) (hin : Proofs.World.StdinIs w input)
    (hfresh : Proofs.World.SpoolFresh env w) :
    let r := runPlan plan (mainP env orc true conf files input) w 0 []
    r.1.1 = 0 → Proofs.Delivered env orc expr input r.2.1 :=
  Proofs.stdin_exit0 env orc conf files input expr w plan hm hs hc hin hfresh

/-! Non-vacuity: the hypotheses hold for a 10-byte message, TMPDIR `/tmp` and the configuration
`stdin { match all move "/m/inbox" }` (Proofs/WorldStdinExample); for the name the spool file gets
without faults the rule set yields one move that is no discard and does not target the spool, so
the last case of `Delivered` promises a durable copy (`#eval` of the model on this run gives exit
status 0 with the message in `/m/inbox/new` and no spool left); with `match old …` nothing matches
and `Delivered` promises nothing - the observation recorded above. -/
example :
    let r := runPlan Plan.none (mainP Proofs.StdinExample.env0 Proofs.StdinExample.orc0 true Proofs.StdinExample.conf0 []
      Proofs.StdinExample.input0) Proofs.StdinExample.w0 0 []
    r.1.1 = 0 → Proofs.Delivered Proofs.StdinExample.env0 Proofs.StdinExample.orc0 Proofs.StdinExample.expr0
      Proofs.StdinExample.input0 r.2.1 :=
  C02_stdin_exit0 _ _ _ _ _ _ _ _ rfl rfl Proofs.StdinExample.ex_stdinExprs Proofs.StdinExample.ex_stdinIs
    Proofs.StdinExample.ex_fresh

example : Proofs.StdinExample.deliversB (Proofs.World.spoolPath Proofs.StdinExample.env0)
    (Proofs.World.stdinVerdict Proofs.StdinExample.env0 Proofs.StdinExample.orc0 Proofs.StdinExample.expr0
      Proofs.StdinExample.input0 Proofs.StdinExample.path0 MFlags.empty) = true :=
  Proofs.StdinExample.ex_delivers

example : Proofs.StdinExample.unmatchedB
    (Proofs.World.stdinVerdict Proofs.StdinExample.env0 Proofs.StdinExample.orc0 Proofs.StdinExample.expr1
      Proofs.StdinExample.input0 Proofs.StdinExample.path0 MFlags.empty) = true :=
  Proofs.StdinExample.ex_unmatched

end Mdsort.Props
