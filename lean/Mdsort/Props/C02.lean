import Mdsort.Proofs.World
import Mdsort.Proofs.WorldStdinExample
import Mdsort.Proofs.WorldWholeEx
import Mdsort.Proofs.WorldDryF21
import Mdsort.Proofs.WorldLinTop
import Mdsort.Proofs.WorldLinEx
import Mdsort.Proofs.WorldCrashEx

/-!
# C02 - a crash at any instant never leaves a message without an intact copy

`runPlan` records the world after every call; a process killed before call k leaves the world
after call k-1.  `File.durable` is the content as of the last successful fsync: with directory
operations persisting in order, a power failure after call k leaves the directory state of some
earlier call and the durable contents; because durable contents of the copies never shrink, the
statement at every call covers those states.
-/

namespace Mdsort.Props
open Mdsort Mdsort.Model

/-- Process kill: after every call of the execution of an action list, under every fault plan,
some entry is bound to a complete version of the message.

(Audit au1: literally the same statement and proof term as `C01_no_loss`; `Proofs.Intact` is existential over ALL entries of
the world - see the note there: a byte-identical other file satisfies it.) -/
theorem C02_crash_any_prefix (env : PEnv) (ml : MatchList) (st : ExecSt) (w : World) (orig : Bytes) (plan : Plan)
    (hs : Proofs.Start w st orig) (hd : Proofs.NoDiscard ml) :
    ∀ w' ∈ (runPlan plan (matchesExec env ml st) w 0 []).2.2, Proofs.Intact w' (Proofs.stages st.ms orig) :=
  Proofs.exec_always_intact env ml st w orig plan hs hd

/-- Power failure: the same holds for the content on stable storage - whenever a message is copied
rather than renamed, the copy has been flushed (fflush, fsync, fclose all successful) before the
original name is removed.

What is proved, exactly (audit au1): in the world after EVERY call some entry is bound to a file whose `durable` field (content
as of its last successful `fsync`) is a complete version.  The model has no crash transition: the state after a power failure -
the directory entries of some EARLIER call combined with the durable contents of the LATEST call, plus possibly more - is not
constructed, and the step from this per-call invariant to those mixed states (files are written once and never shrink, see
the header of this file) is an argument in prose, not a theorem.  As in `C01_no_loss` the entry is not tied to the message. -/
theorem C02_power_failure (env : PEnv) (ml : MatchList) (st : ExecSt) (w : World) (orig : Bytes) (plan : Plan)
    (hs : Proofs.Start w st orig) (hd : Proofs.NoDiscard ml) :
    ∀ w' ∈ (runPlan plan (matchesExec env ml st) w 0 []).2.2, Proofs.IntactDurable w' (Proofs.stages st.ms orig) :=
  Proofs.exec_always_durable env ml st w orig plan hs hd

/-- Non-vacuity of `C02_crash_any_prefix` / `C02_power_failure`: the start situation of Proofs/WorldSingleEx.lean
(`/m/new/1.h` open at handle 4, source directory at handle 3) and the list "move to `/m/cur`, then label". -/
example : Proofs.Start Proofs.exWorld Proofs.exSt Proofs.exOrig ∧ Proofs.NoDiscard Proofs.exList :=
  ⟨Proofs.ex_startAt.start, Proofs.ex_noDiscard⟩

/-- MDA contract (stdin mode, `mdsort -`): for EVERY fault plan - any number of failed or short calls,
including failures inside the cleanup of the spool - exit status 0 implies `Proofs.Delivered`:
with `name0` the name the spool file got and `ml` the interpolated match list the rule set yields for
the message, either nothing matched (the message is then stored NOWHERE and the status is still 0: this
is what mdsort.c does, `EXPR_NOMATCH` just goes to `loop:`), or - if the list contains no discard,
contains a move/flag/flags action and no destination is the spool itself - some entry of a directory
OTHER than the spool is, in the final world, bound to a file whose DURABLE content is the message as
received or as rewritten by label / add-header.  (A rule set without a move - label / add-header /
exec / reject only - rewrites or pipes the spool copy, which the cleanup then removes: status 0 or 1,
nothing stored; so does a discard, and `-d`.  These are the cases the hypotheses exclude.)

Audit au1, remarks on `Proofs.Delivered`: (1) the name `name0` of the spool file is EXISTENTIAL (`∃ name0 fl, (∃ k, name0 =
gennameName env none k) ∧ ...`), not the name the run used: should the verdict differ between counter values `k` (it depends on the name only
through the message path handed to the evaluator - no theorem says it does not), the `k` for which nothing matches makes
`Delivered` hold whatever the run did.  (2) The escape "no move in the list" is not an academic one: on the real binary
`stdin { match all label "x" }` (and `exec "true"`) exits 0 with the mail stored nowhere (replayed, see
design-notes/audit-C01-C06.md) - by the letter of C04 that is F27's outcome through a MATCHED rule; KNOWN_FINDINGS lists F27 for
unmatched messages only.  (3) The stored copy is "some entry of a directory other than the spool with these durable bytes":
a byte-identical file that was already there satisfies it.

Hypotheses: `-` was given, not `-n`, exactly one `stdin` block (any number
of `maildir` blocks), descriptor 0 holds `input`, `mkdtemp` returns a fresh directory.

The rules are evaluated inside the run: `command`, `isdirectory` and file-time `date` conditions ask the operating system
(`Model.evalP`), and faults may hit those calls too.  `Proofs.Delivered` therefore speaks about the verdict
`Proofs.World.stdinVerdictA … as` for SOME answers `as` (the answers of this run); for a rule tree without such conditions the
answers are irrelevant and the verdict is the pure `stdinVerdict` (`C02_stdin_exit0_pure`); `C02_stdin_exit0_stored` is the
consequence that does not mention the answers. -/
theorem C02_stdin_exit0 (env : PEnv) (orc : EvalOracles) (conf : List ConfBlock) (files : Files) (input : Bytes) (expr : Expr)
    (w : World) (plan : Plan) (hm : env.stdinMode = true) (hs : env.syntaxOnly = false)
    (hc : Proofs.World.stdinExprs conf = [expr]) (hin : Proofs.World.StdinIs w input)
    (hfresh : Proofs.World.SpoolFresh env w) :
    let r := runPlan plan (mainP env orc true conf files input) w 0 []
    r.1.1 = 0 → Proofs.Delivered env orc expr input r.2.1 :=
  Proofs.stdin_exit0 env orc conf files input expr w plan hm hs hc hin hfresh

/-- **Exit status 0 means stored**, without mentioning the answers: if - WHATEVER the operating system answers to the
questions of evaluation - the rules either fail or deliver (`Proofs.DeliversV`: an action list without discard, with a
move/flag/flags action, no destination the spool; e.g. `stdin { match command "c" move "A"  match all move "B" }`), then
under every fault plan exit status 0 of a real run implies that some entry of a directory other than the spool is bound to a
file whose DURABLE content is the message as received or as rewritten by the label / add-header actions of one of these
verdicts. -/
theorem C02_stdin_exit0_stored (env : PEnv) (orc : EvalOracles) (conf : List ConfBlock) (files : Files) (input : Bytes) (expr : Expr)
    (w : World) (plan : Plan) (hm : env.stdinMode = true) (hs : env.syntaxOnly = false) (hdry : env.dryrun = false)
    (hc : Proofs.World.stdinExprs conf = [expr]) (hin : Proofs.World.StdinIs w input)
    (hfresh : Proofs.World.SpoolFresh env w)
    (hall : ∀ name0 fl as, flagsParse name0 = some fl →
      Proofs.World.stdinVerdictA env orc expr input (Proofs.World.spoolPath env ++ [47] ++ name0) fl as = .failed ∨
      Proofs.DeliversV env (Proofs.World.stdinVerdictA env orc expr input (Proofs.World.spoolPath env ++ [47] ++ name0) fl as))
    (h0 : (runPlan plan (mainP env orc true conf files input) w 0 []).1.1 = 0) :
    ∃ d n fid f, d ≠ Proofs.World.spoolPath env ∧
      (runPlan plan (mainP env orc true conf files input) w 0 []).2.1.lookup d n = some fid ∧
      (runPlan plan (mainP env orc true conf files input) w 0 []).2.1.file fid = some f ∧
      (f.durable = input ∨ ∃ name0 fl as ml m',
        Proofs.World.stdinVerdictA env orc expr input (Proofs.World.spoolPath env ++ [47] ++ name0) fl as = .actions ml m' ∧
        f.durable = (messageWrite m').1) :=
  Proofs.delivered_copy hdry hall (C02_stdin_exit0 env orc conf files input expr w plan hm hs hc hin hfresh h0)

/-- For a rule tree that asks the operating system nothing the verdict in `Delivered` is the verdict of the pure evaluator. -/
theorem C02_stdin_exit0_pure (env : PEnv) (orc : EvalOracles) (expr : Expr) (hfree : Proofs.asksFree expr = true)
    (input path : Bytes) (fl : MFlags) (as : List SysAns) :
    Proofs.World.stdinVerdictA env orc expr input path fl as = Proofs.World.stdinVerdict env orc expr input path fl :=
  Proofs.World.stdinVerdictA_asksFree env orc expr hfree input path fl as

example : Proofs.asksFree Proofs.StdinExample.expr0 = true := by decide

/-- Non-vacuity of the hypothesis `hall` of `C02_stdin_exit0_stored` on the example, for the name the spool file gets: whatever
the answers are, the verdict delivers (Boolean form `deliversB` of `Proofs.DeliversV`). -/
example (as : List SysAns) : Proofs.StdinExample.deliversB (Proofs.World.spoolPath Proofs.StdinExample.env0)
    (Proofs.World.stdinVerdictA Proofs.StdinExample.env0 Proofs.StdinExample.orc0 Proofs.StdinExample.expr0
      Proofs.StdinExample.input0 Proofs.StdinExample.path0 MFlags.empty as) = true := by
  rw [Proofs.World.stdinVerdictA_asksFree _ _ _ (by decide)]
  exact Proofs.StdinExample.ex_delivers

/-! Non-vacuity: the hypotheses hold for a 10-byte message, TMPDIR `/tmp` and the configuration
`stdin { match all move "/m/inbox" }` (Proofs/WorldStdinExample); for the name the spool file gets
without faults the rule set yields one move that is no discard and does not target the spool, so
the last case of `Delivered` promises a durable copy (`#eval` of the model on this run gives exit
status 0 with the message in `/m/inbox/new` and no spool left); with `match old …` nothing matches
and `Delivered` promises nothing - the observation recorded above. -/
example :
    let r := runPlan Plan.none (mainP Proofs.StdinExample.env0 Proofs.StdinExample.orc0 true Proofs.StdinExample.conf0 []
      Proofs.StdinExample.input0) Proofs.StdinExample.w0 0 []
    r.1.1 = 0 → Proofs.Delivered Proofs.StdinExample.env0 Proofs.StdinExample.orc0 Proofs.StdinExample.expr0
      Proofs.StdinExample.input0 r.2.1 :=
  C02_stdin_exit0 _ _ _ _ _ _ _ _ rfl rfl Proofs.StdinExample.ex_stdinExprs Proofs.StdinExample.ex_stdinIs
    Proofs.StdinExample.ex_fresh

/-- The premise `r.1.1 = 0` of the conclusion holds on that run (added by audit au1; evaluated): exit status 0, so
`Delivered` is really asserted there. -/
example : (runPlan Plan.none (mainP Proofs.StdinExample.env0 Proofs.StdinExample.orc0 true Proofs.StdinExample.conf0 []
      Proofs.StdinExample.input0) Proofs.StdinExample.w0 0 []).1.1 = 0 := by
  rw [(Proofs.dry_runNone_eq _ _ 0 []).1, Proofs.Own.mainP_eq]
  unfold Proofs.Own.mainK
  simp only [Proofs.StdinExample.conf0, Proofs.Own.blocks_cons, Proofs.Own.blocks_nil, Proofs.Own.paths_cons,
    Proofs.Own.paths_nil, Proofs.dry_walk_G _ _ Proofs.StdinExample.expr0 (by decide)]
  simp only [Proofs.StdinExample.expr0, eval]
  decide +kernel

example : Proofs.StdinExample.deliversB (Proofs.World.spoolPath Proofs.StdinExample.env0)
    (Proofs.World.stdinVerdict Proofs.StdinExample.env0 Proofs.StdinExample.orc0 Proofs.StdinExample.expr0
      Proofs.StdinExample.input0 Proofs.StdinExample.path0 MFlags.empty) = true :=
  Proofs.StdinExample.ex_delivers

example : Proofs.StdinExample.unmatchedB
    (Proofs.World.stdinVerdict Proofs.StdinExample.env0 Proofs.StdinExample.orc0 Proofs.StdinExample.expr1
      Proofs.StdinExample.input0 Proofs.StdinExample.path0 MFlags.empty) = true :=
  Proofs.StdinExample.ex_unmatched
/-! ## the whole run (every fault plan; definitions as in `Props/C01.lean`, "the whole run")

A process killed before call k of `mainP` leaves the world after call k-1; a power failure leaves the
durable contents.  Both are covered by a statement about the world after EVERY call. -/

/-- One message: after every call of `processMessage`, under every fault plan, some entry is bound to
a file whose content ON STABLE STORAGE is the message or its complete rewrite (for some answers `as` of the operating
system to the questions of evaluation: `command`, `isdirectory` and file-time `date` conditions are part of the run). -/
theorem C02_message_power_failure (env : PEnv) (orc : EvalOracles) (expr : Expr) (md : Maildir) (name : Bytes) (st : MainSt)
    (w : World) (plan : Plan) (d : Handle) (content : Bytes) (fid : Nat)
    (hd : md.dirH = some d) (hp : w.dirPath d = some md.path)
    (hwf : pathjoin PATH_MAX md.root (subdirName md.subdir) = some md.path)
    (hfc : st.files.get md.path name = some content)
    (hl : w.lookup md.path name = some fid) (hlt : fid < w.nextFid) (hf : w.file fid = some ⟨content, content⟩)
    (hnd : Proofs.WholeNoDiscard env orc expr) :
    ∀ w' ∈ (runPlan plan (processMessage env orc expr md name st) w 0 []).2.2,
      ∃ as, Proofs.IntactDurable w' [content, Proofs.wholeRewrite env orc expr md.path name content as] := fun w' hw' => by
  obtain ⟨⟨as, _, h⟩, _⟩ := Proofs.whole_message_no_loss env orc expr md name st w plan hd hp hwf hfc hl hlt hf hnd w' hw'
  exact ⟨as, h⟩

/-- One maildir: after every call of `walk`, under every fault plan, every registered message has an
entry bound to a file whose visible content AND whose content on stable storage are complete versions of it. -/
theorem C02_walk_power_failure (env : PEnv) (orc : EvalOracles) (expr : Expr) (fuel : Nat) (md : Maildir) (st : MainSt)
    (w : World) (plan : Plan) (hnd : Proofs.WholeNoDiscard env orc expr) (hreg : Proofs.WholeReg w st.files)
    (hmd : Proofs.WholeMdOk w md) :
    ∀ w' ∈ (runPlan plan (walk env orc expr fuel md st) w 0 []).2.2,
      ∀ dir name c, st.files.get dir name = some c →
        ∃ d n fid f, w'.lookup d n = some fid ∧ w'.file fid = some f ∧
          Proofs.WholeVersion env orc [expr] c f.data ∧ Proofs.WholeVersion env orc [expr] c f.durable := by
  intro w' hw' dir name c hc
  obtain ⟨d, n, fid, f, h1, _, h3, h4, h5⟩ := Proofs.whole_walk_no_loss env orc expr fuel md st w plan hnd hreg hmd w' hw' dir name c hc
  exact ⟨d, n, fid, f, h1, h3, h4, h5⟩

/-- **A whole run** in maildir mode, any configuration without discard, any population consistent
with the initial world: a crash (process kill or power failure) at ANY instant, under EVERY fault
plan, leaves for every registered message an entry bound to a file whose visible content and whose
content on stable storage are complete versions of it. -/
theorem C02_main_power_failure (env : PEnv) (orc : EvalOracles) (confOk : Bool) (conf : List ConfBlock) (files : Files)
    (input : Bytes) (w : World) (plan : Plan) (hm : env.stdinMode = false)
    (hnd : ∀ b ∈ conf, Proofs.WholeNoDiscard env orc b.expr) (hreg : Proofs.WholeReg w files) :
    ∀ w' ∈ (runPlan plan (mainP env orc confOk conf files input) w 0 []).2.2,
      ∀ dir name c, files.get dir name = some c →
        ∃ d n fid f, w'.lookup d n = some fid ∧ w'.file fid = some f ∧
          Proofs.WholeVersion env orc (conf.map (·.expr)) c f.data ∧
          Proofs.WholeVersion env orc (conf.map (·.expr)) c f.durable := by
  intro w' hw' dir name c hc
  obtain ⟨d, n, fid, f, h1, _, h3, h4, h5⟩ :=
    Proofs.whole_main_no_loss env orc confOk conf files input w plan hm hnd hreg w' hw' dir name c hc
  exact ⟨d, n, fid, f, h1, h3, h4, h5⟩

/-- Non-vacuity of `C02_message_power_failure` and `C02_walk_power_failure` (same hypotheses as `C01_message_no_loss` /
`C01_walk_no_loss`): the first message of the two-message world, `/m/new` open at handle 3. -/
example : Proofs.exMd.dirH = some 3 ∧ Proofs.wholeExWorldW.dirPath 3 = some Proofs.exMd.path ∧
    pathjoin PATH_MAX Proofs.exMd.root (subdirName Proofs.exMd.subdir) = some Proofs.exMd.path ∧
    Proofs.wholeExSt.files.get Proofs.exMd.path Proofs.exName = some Proofs.exOrig ∧
    Proofs.wholeExWorldW.lookup Proofs.exMd.path Proofs.exName = some 0 ∧ 0 < Proofs.wholeExWorldW.nextFid ∧
    Proofs.wholeExWorldW.file 0 = some ⟨Proofs.exOrig, Proofs.exOrig⟩ ∧
    Proofs.WholeNoDiscard Proofs.exEnv Proofs.wholeExOrc Proofs.wholeExExpr ∧
    Proofs.WholeReg Proofs.wholeExWorldW Proofs.wholeExSt.files ∧ Proofs.WholeMdOk Proofs.wholeExWorldW Proofs.exMd :=
  ⟨rfl, by decide, by decide, by decide, by decide, by decide, by decide,
   Proofs.whole_noDiscard_of_syntax _ _ _ (by decide), Proofs.wholeEx_regW, Proofs.wholeEx_mdOk⟩

/-- Non-vacuity (the two-message world of Proofs/WorldWholeEx.lean). -/
example : Proofs.exEnv.stdinMode = false ∧
    (∀ b ∈ Proofs.wholeExConf, Proofs.WholeNoDiscard Proofs.exEnv Proofs.wholeExOrc b.expr) ∧
    Proofs.WholeReg Proofs.wholeExWorld Proofs.wholeExFiles :=
  ⟨rfl, Proofs.wholeEx_nd, Proofs.wholeEx_reg⟩

/-! ## by LINEAGE (package p12; audit au1, W1): the intact copy is a copy OF THE MESSAGE

`C02_crash_any_prefix`, `C02_power_failure` and the `C02_*_power_failure` theorems above say "some entry holds these bytes";
a byte-identical other message satisfies them.  The following say that the entry is bound to a file that DESCENDS FROM the
message's file (`Model/Lineage.lean`; see the section "by lineage" of `Props/C01.lean`).  The old statements follow. -/

/-- **Process kill, by lineage**: under every fault plan, after EVERY call of the execution of an action list (no discard),
some entry is bound to a file that descends from the message's file `fid` and holds a complete stage - visibly (what a
process kill leaves) and on stable storage (content as of the last successful `fsync`). -/
theorem C02_crash_any_prefix_exact (env : PEnv) (ml : MatchList) (st : ExecSt) (w : World) (orig : Bytes) (plan : Plan)
    (hs : Proofs.Start w st orig) (hd : Proofs.NoDiscard ml) (fid : Nat)
    (hfid : w.lookup st.src.path st.ms.name = some fid) :
    ∀ w' ∈ (runPlan plan (matchesExec env ml st) w 0 []).2.2,
      ∃ p n g f, w'.lookup p n = some g ∧ (lineage w { cur := some fid, org := id } (traceSince w w')).org g = fid ∧
        w'.file g = some f ∧ f.data ∈ Proofs.stages st.ms orig ∧ f.durable ∈ Proofs.stages st.ms orig :=
  Proofs.exec_no_loss_exact env ml st w orig plan hs hd { cur := some fid, org := id } fid fid hfid rfl rfl

/-- `C02_crash_any_prefix` and `C02_power_failure` are corollaries. -/
theorem C02_power_failure_of_exact (env : PEnv) (ml : MatchList) (st : ExecSt) (w : World) (orig : Bytes) (plan : Plan)
    (hs : Proofs.Start w st orig) (hd : Proofs.NoDiscard ml) :
    ∀ w' ∈ (runPlan plan (matchesExec env ml st) w 0 []).2.2,
      Proofs.Intact w' (Proofs.stages st.ms orig) ∧ Proofs.IntactDurable w' (Proofs.stages st.ms orig) := by
  intro w' hw'
  obtain ⟨fid, hl, _⟩ := hs.bound
  obtain ⟨p, n, g, f, h1, _, h3, h4, h5⟩ := C02_crash_any_prefix_exact env ml st w orig plan hs hd fid hl w' hw'
  exact ⟨⟨p, n, g, f, h1, h3, h4⟩, ⟨p, n, g, f, h1, h3, h5⟩⟩

/-- Non-vacuity on the world with two byte-identical messages (see `Props/C01.lean`, `C01_no_loss_exact`). -/
example : Proofs.Start Proofs.twinExecWorld Proofs.exSt Proofs.exOrig ∧ Proofs.NoDiscard Proofs.exList ∧
    Proofs.twinExecWorld.lookup Proofs.exSt.src.path Proofs.exSt.ms.name = some 0 ∧
    Proofs.twinExecWorld.file 0 = Proofs.twinExecWorld.file 1 :=
  ⟨Proofs.twin_start, Proofs.ex_noDiscard, by decide, by decide⟩

/-- **A whole run, by lineage**: maildir mode, any configuration without discard, any population consistent with the
registry: a crash (process kill or power failure) at ANY instant, under EVERY fault plan, leaves for every registered
message - bound initially to the file `f0` - an entry bound to a file that DESCENDS FROM `f0` and whose visible content and
whose content on stable storage are complete versions of it.  (As `C02_main_power_failure` this is an invariant of the
world after every call; the crash states themselves are constructed, for one action list, in `C02_crash_states_partial`.) -/
theorem C02_main_power_failure_exact (env : PEnv) (orc : EvalOracles) (confOk : Bool) (conf : List ConfBlock) (files : Files)
    (input : Bytes) (w : World) (plan : Plan) (hm : env.stdinMode = false)
    (hnd : ∀ b ∈ conf, Proofs.WholeNoDiscard env orc b.expr) (hreg : Proofs.WholeReg w files) :
    ∀ w' ∈ (runPlan plan (mainP env orc confOk conf files input) w 0 []).2.2,
      ∀ dir name c f0, files.get dir name = some c → w.lookup dir name = some f0 →
        ∃ d n g f, w'.lookup d n = some g ∧ originAt w w' g = f0 ∧ w'.file g = some f ∧
          Proofs.WholeVersion env orc (conf.map (·.expr)) c f.data ∧
          Proofs.WholeVersion env orc (conf.map (·.expr)) c f.durable := by
  intro w' hw' dir name c f0 hc hl
  obtain ⟨d, n, g, f, h1, _, h3, h4, h5, h6⟩ :=
    Proofs.lin_main_no_loss env orc confOk conf files input w plan hm hnd hreg w' hw' dir name c f0 hc hl
  exact ⟨d, n, g, f, h1, h3, h4, h5, h6⟩

/-- `C02_main_power_failure` is a corollary. -/
theorem C02_main_power_failure_of_exact (env : PEnv) (orc : EvalOracles) (confOk : Bool) (conf : List ConfBlock) (files : Files)
    (input : Bytes) (w : World) (plan : Plan) (hm : env.stdinMode = false)
    (hnd : ∀ b ∈ conf, Proofs.WholeNoDiscard env orc b.expr) (hreg : Proofs.WholeReg w files) :
    ∀ w' ∈ (runPlan plan (mainP env orc confOk conf files input) w 0 []).2.2,
      ∀ dir name c, files.get dir name = some c →
        ∃ d n fid f, w'.lookup d n = some fid ∧ w'.file fid = some f ∧
          Proofs.WholeVersion env orc (conf.map (·.expr)) c f.data ∧
          Proofs.WholeVersion env orc (conf.map (·.expr)) c f.durable := by
  intro w' hw' dir name c hc
  obtain ⟨f0, hl, _, _⟩ := hreg dir name c hc
  obtain ⟨d, n, g, f, h1, _, h3, h4, h5⟩ :=
    C02_main_power_failure_exact env orc confOk conf files input w plan hm hnd hreg w' hw' dir name c f0 hc hl
  exact ⟨d, n, g, f, h1, h3, h4, h5⟩

/-- Non-vacuity of `C02_main_power_failure_exact` on the world with two byte-identical messages. -/
example : Proofs.exEnv.stdinMode = false ∧
    (∀ b ∈ Proofs.wholeExConf, Proofs.WholeNoDiscard Proofs.exEnv Proofs.wholeExOrc b.expr) ∧
    Proofs.WholeReg Proofs.twinWorld Proofs.twinFiles ∧
    Proofs.twinWorld.lookup Proofs.exNew Proofs.exName = some 0 ∧
    Proofs.twinWorld.lookup Proofs.exNew Proofs.wholeExName2 = some 1 :=
  ⟨rfl, Proofs.wholeEx_nd, Proofs.twin_reg, by decide, by decide⟩

/-! ## the crash states themselves (package p12; audit au1, W5)

`C02_power_failure` and its relatives are invariants of the `durable` field of the world after every call.  The state a
power failure leaves is a different object: under the storage model the property names - directory operations persist IN
ORDER, the content of a file persists as of its last successful `fsync` - a failure after call `j` leaves the directory
entries of the world after SOME EARLIER call `i ≤ j` together with the durable contents of the world after call `j`.
`Model.crashState wd wf` (Model/Crash.lean) is that state: the directories of `wd`, every file of `wf` holding its
`durable` content, no descriptor open; `Model.worldAt w tr i` is the world after the first `i` calls of the trace `tr`
issued from `w` (`i = 0`: `w` itself); `Model.crashStates w w'` lists the crash states of `w'` for all `i`.

The step from the per-call invariant to these mixed states needs more than the invariant: a file that holds a complete
version on stable storage must not be synced again with something else.  Proved: durable content changes ONLY by a
successful `fsync` and then becomes the visible content (`Proofs.World.core_file_notFsync`, `core_file_fsync`, every
call, every result); the message's own file is never written (`WholeK`); a file made by this run has durable content
empty or a complete version at every moment, and always a prefix of its visible content (`Proofs.World.DI`; the one
`fsync` of `message_write` comes after `fflush` has made the complete message visible: `di_messageWriteP`). -/

/-- **Every crash state has an intact copy of the message, by lineage** - one action list without discard (move on one
device or across devices, flag, flags, label, add-header, exec in any order and number), from a `StartAt` world in which
the message's entry is bound to `fid`, under EVERY fault plan: after every call `j` (`w'`), for EVERY `i ≤ j`, the crash
state "directories after the first `i` calls, files as on stable storage after call `j`" has an entry bound to a file `g`
that DESCENDS FROM `fid` and whose content (in the crash state) is a complete stage of the message.

Hypothesis `hpp` (`Proofs.World.NoPartPipe`): no `exec stdin` of an ATTACHMENT without `body` - there `message_write`
renders the part into a temporary file and syncs it; the file is never bound to an entry, but the invariant `DI` as stated
speaks of every file the run makes.  What is missing for the general statement: "a temporary file is never bound"
(the whole-run form over `mainP` is not proved either: `C02_main_power_failure_exact` stays a per-call invariant). -/
theorem C02_crash_states_partial (env : PEnv) (ml : MatchList) (st : ExecSt) (w : World) (orig : Bytes) (plan : Plan)
    (hs : Proofs.StartAt w st orig) (hd : Proofs.NoDiscard ml) (hpp : Proofs.World.NoPartPipe ml) (fid : Nat)
    (hfid : w.lookup st.src.path st.ms.name = some fid) :
    ∀ w' ∈ (runPlan plan (matchesExec env ml st) w 0 []).2.2, ∀ i, i ≤ (traceSince w w').length →
      ∃ p n g f, (crashState (worldAt w (traceSince w w') i) w').lookup p n = some g ∧
        (lineage w { cur := some fid, org := id } (traceSince w w')).org g = fid ∧
        (crashState (worldAt w (traceSince w w') i) w').file g = some f ∧ f.data ∈ Proofs.stages st.ms orig :=
  Proofs.exec_crash_states env ml st w orig plan hs hd hpp fid hfid

/-- The same for the list `Model.crashStates`: every member has such an entry. -/
theorem C02_crash_states_all_partial (env : PEnv) (ml : MatchList) (st : ExecSt) (w : World) (orig : Bytes) (plan : Plan)
    (hs : Proofs.StartAt w st orig) (hd : Proofs.NoDiscard ml) (hpp : Proofs.World.NoPartPipe ml) (fid : Nat)
    (hfid : w.lookup st.src.path st.ms.name = some fid) :
    ∀ w' ∈ (runPlan plan (matchesExec env ml st) w 0 []).2.2, ∀ cw ∈ crashStates w w',
      ∃ p n g f, cw.lookup p n = some g ∧ (lineage w { cur := some fid, org := id } (traceSince w w')).org g = fid ∧
        cw.file g = some f ∧ f.data ∈ Proofs.stages st.ms orig := by
  intro w' hw' cw hcw
  unfold crashStates at hcw
  simp only [List.mem_map, List.mem_range] at hcw
  obtain ⟨i, hi, rfl⟩ := hcw
  exact C02_crash_states_partial env ml st w orig plan hs hd hpp fid hfid w' hw' i (by omega)

/-- The full statement (any action list without discard), kept visible: not proved - `C02_crash_states_partial` needs
`NoPartPipe` (see there). -/
def C02_crash_states : Prop :=
  ∀ (env : PEnv) (ml : MatchList) (st : ExecSt) (w : World) (orig : Bytes) (plan : Plan),
    Proofs.StartAt w st orig → Proofs.NoDiscard ml → ∀ fid, w.lookup st.src.path st.ms.name = some fid →
    ∀ w' ∈ (runPlan plan (matchesExec env ml st) w 0 []).2.2, ∀ cw ∈ crashStates w w',
      ∃ p n g f, cw.lookup p n = some g ∧ (lineage w { cur := some fid, org := id } (traceSince w w')).org g = fid ∧
        cw.file g = some f ∧ f.data ∈ Proofs.stages st.ms orig

/-- Non-vacuity on the world with two byte-identical messages: the start situation, the list "move to `/m/cur`, then
label" (no discard, no exec at all). -/
example : Proofs.StartAt Proofs.twinExecWorld Proofs.exSt Proofs.exOrig ∧ Proofs.NoDiscard Proofs.exList ∧
    Proofs.World.NoPartPipe Proofs.exList ∧
    Proofs.twinExecWorld.lookup Proofs.exSt.src.path Proofs.exSt.ms.name = some 0 := by
  refine ⟨Proofs.twin_startAt, Proofs.ex_noDiscard, ?_, by decide⟩
  intro m hm hty
  simp only [Proofs.exList, List.mem_cons, List.not_mem_nil, or_false] at hm
  rcases hm with rfl | rfl <;> cases hty

/-- Three crash states of the fault-free run of that example, evaluated (`Proofs.twin_crash_states`): directories after
call 12 with stable storage at the end - the renamed original and the labelled copy both complete; directories AND
stable storage after call 12 (power fails between `fflush` and `fsync` of the copy) - the copy is EMPTY on stable storage,
the renamed original (file 0) is complete; directories after call 3 with stable storage after call 14 - the message is
still `/m/new/1.h`, the placeholder is empty. -/
example :
    Proofs.crashEntries (crashState (Proofs.twinAt 12) (Proofs.twinAt 20)) =
      [(Proofs.exNew, Proofs.wholeExName2, 1, Proofs.exOrig), (Proofs.exCur, Proofs.twinName 8, 0, Proofs.exOrig),
       (Proofs.exCur, Proofs.twinName 9, 3, Proofs.exOrig)] ∧
    Proofs.crashEntries (crashState (Proofs.twinAt 12) (Proofs.twinAt 12)) =
      [(Proofs.exNew, Proofs.wholeExName2, 1, Proofs.exOrig), (Proofs.exCur, Proofs.twinName 8, 0, Proofs.exOrig),
       (Proofs.exCur, Proofs.twinName 9, 3, [])] ∧
    Proofs.crashEntries (crashState (Proofs.twinAt 3) (Proofs.twinAt 14)) =
      [(Proofs.exNew, Proofs.exName, 0, Proofs.exOrig), (Proofs.exNew, Proofs.wholeExName2, 1, Proofs.exOrig),
       (Proofs.exCur, Proofs.twinName 8, 2, [])] :=
  Proofs.twin_crash_states

end Mdsort.Props
