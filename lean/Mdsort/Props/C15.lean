import Mdsort.Proofs.FlagsTime
import Mdsort.Proofs.DateFields
import Mdsort.Proofs.AgeLiteral
import Mdsort.Proofs.ConfErrors
import Mdsort.Proofs.Strptime

/-!
# C15 - date conditions compare the true age of the message

After the `fix:` commit "compute the instant of a Date header independently of the local time
zone", `time_parse` is `timegm(tm) - zone`: the model has no parameter for the local zone or
for daylight saving at all, which is the formal content of "independently of the local time
zone and of daylight-saving transitions".  `strptime` (three layouts from the regenerated
table) and the zone-NAME lookup are parameters of the model; the numeric zone, the civil-date
arithmetic, the comparison, the unit table and the overflow test are proved here.

Audit notes.  (1) In the theorems up to `C15_header_true_age` `strptime` is an ARBITRARY function.  The section "from
the header TEXT on" at the end closes that for the C locale: `Model.timeparseC` (Model/Strptime.lean) interprets the
layouts READ FROM `Gen.dateFormats`, `C15_layouts` says which alternatives of the RFC 5322 grammar (Spec/Rfc5322Date.lean) the
three layouts read, `C15_rfc5322_end_to_end` that every date-time of the grammar inside `Covered` is parsed to the instant
the RFC defines, `C15_rfc5322_uncovered` that a date-time with neither day of week nor seconds is an ERROR.  (2) A date condition
that holds is still passed through `expr_regexec` with the pattern `.*` on the displayed text, and the regex library is
an arbitrary oracle (`env.rx`): "matches IFF the age holds" is proved up to that call (`C15_fields`,
`C15_header_true_age`); with an oracle that does not match `.*` the result is "no match".  (3) `C15_overflow`,
`C15_fields_source`, `C15_fields_strict`, the second halves of `C15_true_age` and `C15_units` and the first two
conjuncts of `C15_file_fields` restate definitions of the model (they hold by unfolding); the content is in
`C15_zone_offset(_only)`, `C15_civil` (two different algorithms), `C15_true_age`.1, `C15_age_literal_exact(_field)`,
`C15_fields`, `C15_file_fields`.3 and the table equation `Gen.scalars = Spec.units`.
-/

namespace Mdsort.Props
open Mdsort Mdsort.Model

/-- `±hhmm` with `hh ≤ 23`, `mm ≤ 59` denotes `±(3600·hh + 60·mm)` whatever follows it ... -/
theorem C15_zone_offset (plus : Bool) (hh mm : Nat) (rest : Bytes) (h1 : hh ≤ 23) (h2 : mm ≤ 59) :
    tzoff ((if plus then 43 else 45) :: (Proofs.twoDigits hh ++ Proofs.twoDigits mm ++ rest)) =
      some (Spec.zoneOffset (if plus then 1 else -1) hh mm) :=
  Proofs.tzoff_accepts plus hh mm rest h1 h2

/-- ... and nothing else is accepted as a numeric zone. -/
theorem C15_zone_offset_only (s : Bytes) (z : Int) (h : tzoff s = some z) :
    ∃ (plus : Bool) (hh mm : Nat) (rest : Bytes), hh ≤ 23 ∧ mm ≤ 59 ∧
      s = (if plus then 43 else 45) :: (Proofs.twoDigits hh ++ Proofs.twoDigits mm ++ rest) ∧
      z = Spec.zoneOffset (if plus then 1 else -1) hh mm :=
  Proofs.tzoff_only s z h

/-- The civil-date arithmetic of `timegm` is the proleptic Gregorian day count. -/
theorem C15_civil (y mon d h mi s : Nat) (hy : 1 ≤ y) (hm : mon ≤ 11) (hd : 1 ≤ d) :
    timegm { year := y, mon := mon, mday := d, hour := h, min := mi, sec := s } = Spec.epoch y (mon + 1) d h mi s :=
  Proofs.timegm_eq_epoch y mon d h mi s hy hm hd

/-- The true age: for every broken-down time the layouts produce, every numeric zone and every
`now`: the parsed instant is the UTC reading minus the zone, and `>` / `<` compare `now − instant`
strictly with the configured age.  (The second conjunct is the definition of `dateMatches` and does not mention the
parsed instant; the two are joined, through the evaluator, in `C15_header_true_age` below.  `hne` excludes the one
instant 1969-12-31 23:59:59 UTC, which `time_parse` takes for the error value of `timegm`.) -/
theorem C15_true_age (strp : Bytes → Option (Tm × Bytes)) (zn : Bytes → Option Int) (s rest : Bytes)
    (y mon d h mi sec : Nat) (plus : Bool) (hh mm : Nat) (tail : Bytes)
    (hy : 1 ≤ y) (hm : mon ≤ 11) (hd : 1 ≤ d) (h1 : hh ≤ 23) (h2 : mm ≤ 59)
    (hs : strp s = some ({ year := y, mon := mon, mday := d, hour := h, min := mi, sec := sec }, rest))
    (hz : rest.drop (nspaces rest) = (if plus then 43 else 45) :: (Proofs.twoDigits hh ++ Proofs.twoDigits mm ++ tail))
    (hne : Spec.epoch y (mon + 1) d h mi sec ≠ -1) :
    timeParse strp zn s = some (Spec.epoch y (mon + 1) d h mi sec - Spec.zoneOffset (if plus then 1 else -1) hh mm) ∧
    ∀ age now t, (dateMatches .gt age now t = decide (now - t > age)) ∧ (dateMatches .lt age now t = decide (now - t < age)) :=
  Proofs.true_age strp zn s rest y mon d h mi sec plus hh mm tail hy hm hd h1 h2 hs hz hne

/-- Non-vacuity of `C15_true_age`: every hypothesis instantiated.  `Thu, 15 Jan 2026 12:00:00  +0130 (CET)` - `strptime`
delivers 2026-01-15 12:00:00 and leaves `  +0130 (CET)`; the instant is 12:00 UTC minus 1 h 30 min, whatever follows the zone. -/
example :
    let tm : Tm := { year := 2026, mon := 0, mday := 15, hour := 12, min := 0, sec := 0 }
    let strp : Bytes → Option (Tm × Bytes) := fun _ => some (tm, ofString "  +0130 (CET)")
    timeParse strp (fun _ => none) (ofString "Thu, 15 Jan 2026 12:00:00  +0130 (CET)") = some (1768478400 - 5400) ∧
    Spec.epoch 2026 1 15 12 0 0 = 1768478400 ∧ Spec.zoneOffset 1 1 30 = 5400 := by
  intro tm strp
  have h := (C15_true_age strp (fun _ => none) (ofString "Thu, 15 Jan 2026 12:00:00  +0130 (CET)") (ofString "  +0130 (CET)")
    2026 0 15 12 0 0 true 1 30 (ofString " (CET)") (by decide) (by decide) (by decide) (by decide) (by decide) rfl
    (by decide +kernel) (by decide +kernel)).1
  have e1 : Spec.epoch 2026 1 15 12 0 0 = 1768478400 := by decide +kernel
  have e2 : Spec.zoneOffset 1 1 30 = 5400 := by decide +kernel
  refine ⟨?_, e1, e2⟩
  rw [h]
  simp only [if_true, e2]
  rw [show (0 + 1 : Nat) = 1 from rfl, e1]

/-- The unit table regenerated from parse.y is the documented one, and a lexeme selects a unit
iff it is a prefix of that unit's name and of no other.  (The first conjunct is about the REGENERATED table:
changing a value or a name in `scalars[]` of parse.y makes it false.  Given the first, the second compares two
copies of the same `filter ... isPrefixOf` - `Model.scalarLookup` over `Gen.scalars`, `Spec.unitOf` over `Spec.units`.) -/
theorem C15_units : Gen.scalars = Spec.units ∧
    ∀ lexeme v, scalarLookup lexeme = .value v ↔ Spec.unitOf lexeme = some v :=
  ⟨Proofs.scalars_table, fun l v => Proofs.scalarLookup_eq_spec l v⟩

/-- Ages that do not fit 32 bits are rejected, and accepted ages are exactly `N × unit`.  (This is the definition
of `Model.dateAge` with the test turned round; that the PARSER applies it to every age is `C15_age_literal_exact`.) -/
theorem C15_overflow (n u : Nat) : dateAge n u = (if n * u < 2 ^ 32 then some (n * u) else none) :=
  Proofs.dateAge_spec n u

/-- The age a configuration writes, through the lexer and the `date_age` rule of the parser model
(`Model.parseDate` = `DATE date_field date_cmp INT scalar` with the overflow test): for EVERY non-empty
string of digits `ds` (any length, leading zeros), every lexeme `w` that denotes a unit `u` (`Spec.unitOf`:
the seven names and their unambiguous abbreviations), any white space between them, any comparison, and
whatever follows the unit (anything that cannot continue a word) - from the state in which `date` has been
read and the comparison is the lookahead token -
* the condition is accepted IFF `N * u < 2^32` (`N = Spec.decimal ds`); the three outcomes below exclude each other;
* the age in the tree is exactly `N * u`, with the comparison as written and the field `header`;
* the parser stops exactly behind the unit (`s'.rest = rest`) and never runs out of budget.
A literal of 2^32 or more is diagnosed by the lexer (`C14_int_literals`), a product of 2^32 or more by
`date_age`: either way the configuration is rejected when it is parsed. -/
theorem C15_age_literal_exact (cx : PCtx) (s : ParseSt) (cmp : DateCmp) (sp1 ds sp2 rest : Bytes) (w : String) (u : Nat)
    (hla : s.la = some (Proofs.Conf.cmpTk cmp)) (ham : s.afterMacro = false)
    (hrest : s.rest = sp1 ++ ds ++ (sp2 ++ w.toUTF8.toList ++ rest))
    (hsp1 : ∀ x ∈ sp1, isspace x = true) (hne : ds ≠ []) (hd : ∀ d ∈ ds, isdigit d = true)
    (hsp2 : ∀ x ∈ sp2, isspace x = true) (hw : Spec.unitOf w = some u)
    (hr : ∀ c, rest.head? = some c → isKwChar c = false) :
    match parseDate cx s with
    | .ok t s' => Spec.decimal ds * u < 2 ^ 32 ∧
        t = .leaf (.date (lineOf cx.nl rest) .header cmp (Spec.decimal ds * u)) ∧ s'.rest = rest ∧ s'.la = none
    | .err _ _ => 2 ^ 32 ≤ Spec.decimal ds * u
    | .fuel _ => False := by
  have h := Proofs.Conf.parseDate_literal cx s cmp sp1 ds sp2 rest w u hla ham hrest hsp1 hne hd hsp2 hw hr
  unfold Proofs.Conf.wp at h
  cases hp : parseDate cx s <;> simp only [hp] at h ⊢ <;> exact h

/-- The same with a field keyword (`header`, `access`, `modified`, `created`) as the lookahead and the
comparison (`<` / `>`, after any white space) still to be read: every field, both comparisons. -/
theorem C15_age_literal_exact_field (cx : PCtx) (s : ParseSt) (f : DateField) (cmp : DateCmp) (sp0 sp1 ds sp2 rest : Bytes)
    (w : String) (u : Nat)
    (hla : s.la = some (.kw (Proofs.Conf.fieldKw f))) (ham : s.afterMacro = false)
    (hrest : s.rest = sp0 ++ Proofs.Conf.cmpChar cmp :: (sp1 ++ ds ++ (sp2 ++ w.toUTF8.toList ++ rest)))
    (hsp0 : ∀ x ∈ sp0, isspace x = true)
    (hsp1 : ∀ x ∈ sp1, isspace x = true) (hne : ds ≠ []) (hd : ∀ d ∈ ds, isdigit d = true)
    (hsp2 : ∀ x ∈ sp2, isspace x = true) (hw : Spec.unitOf w = some u)
    (hr : ∀ c, rest.head? = some c → isKwChar c = false) :
    match parseDate cx s with
    | .ok t s' => Spec.decimal ds * u < 2 ^ 32 ∧
        t = .leaf (.date (lineOf cx.nl rest) f cmp (Spec.decimal ds * u)) ∧ s'.rest = rest ∧ s'.la = none
    | .err _ _ => 2 ^ 32 ≤ Spec.decimal ds * u
    | .fuel _ => False := by
  have h := Proofs.Conf.parseDate_literal_field cx s f cmp sp0 sp1 ds sp2 rest w u hla ham hrest hsp0 hsp1 hne hd hsp2 hw hr
  unfold Proofs.Conf.wp at h
  cases hp : parseDate cx s <;> simp only [hp] at h ⊢ <;> exact h

/-- The pieces at lexer level: every unit lexeme is lexed as its unit where a unit is expected, and
`Spec.decimal` reads decimal notation (canonical form of `n` is `n`; leading zeros change nothing). -/
theorem C15_age_literal_tokens :
    (∀ (sp rest : Bytes) (w : String) (u : Nat), (∀ x ∈ sp, isspace x = true) → Spec.unitOf w = some u →
      (∀ c, rest.head? = some c → isKwChar c = false) →
      lex1 false true false (sp ++ w.toUTF8.toList ++ rest) = { tok := .scalar (some u), rest := rest, errors := 0 }) ∧
    (∀ n, Spec.decimal (toString n).toUTF8.toList = n) ∧
    (∀ k ds, Spec.decimal (List.replicate k 48 ++ ds) = Spec.decimal ds) :=
  ⟨fun sp rest w u h1 h2 h3 => Proofs.lex_unit sp rest w u h1 h2 h3, Proofs.decimal_toString, Proofs.decimal_leading_zeros⟩

/-- Non-vacuity of `C15_age_literal_exact` with every hypothesis instantiated: the state after `date >` with
` 000060 s break }` still to be read; the condition is accepted with the age 60 and the parser stops before ` break }`. -/
example :
    let cx : PCtx := { nl := 0, home := [], rxOk := fun _ => true }
    let s : ParseSt := { rest := ofString " 000060 s break }", la := some .gt }
    ∃ s', parseDate cx s = .ok (.leaf (.date 1 .header .gt 60)) s' ∧ s'.rest = ofString " break }" := by
  intro cx s
  have hdec : Spec.decimal (ofString "000060") = 60 := by decide +kernel
  have h := C15_age_literal_exact cx s .gt [32] (ofString "000060") [32] (ofString " break }") "s" 1 rfl rfl
    (by decide +kernel) (by decide) (by decide +kernel) (by decide +kernel) (by decide) (by decide +kernel) (by decide +kernel)
  cases hp : parseDate cx s with
  | ok t s' =>
    rw [hp] at h
    simp only [hdec] at h
    refine ⟨s', ?_, h.2.2.1⟩
    rw [h.2.1]
    have hl : lineOf cx.nl (ofString " break }") = 1 := by decide +kernel
    rw [hl]
  | err l s' =>
    rw [hp] at h
    simp only [hdec] at h
    exact absurd h (by decide)
  | fuel s' => rw [hp] at h; exact h.elim

/-! Non-vacuity of the hypotheses (`hw`: lexemes that denote units; a state with the comparison as lookahead is what
`parseDateField` leaves), and whole files through `parseConfig`: `000060 s` is 60 seconds, `71582788 minutes` is
4294967280 seconds, `71582789 minutes`, `137 years`, 2^64 + 60 seconds, 2^64 + 1 hours, 2 * 2^64 + 3600 seconds and
2^64 + 2^32 - 1 seconds are rejected on their line. -/
example : Spec.unitOf "seconds" = some 1 ∧ Spec.unitOf "mi" = some 60 ∧ Spec.unitOf "y" = some 31536000 ∧ Spec.unitOf "m" = none := by
  decide +kernel
example : (match parseConfig [] [] (fun _ => true) "maildir \"q\" { match date > 000060 s break }".toUTF8.toList with
    | .ok [⟨_, .block _ (.mtch _ (.leaf (.date _ .header .gt 60)) _)⟩] => true | _ => false) = true := by decide +kernel
example : (match parseConfig [] [] (fun _ => true) "maildir \"q\" { match date modified < 71582788 minutes break }".toUTF8.toList with
    | .ok [⟨_, .block _ (.mtch _ (.leaf (.date _ .modified .lt 4294967280)) _)⟩] => true | _ => false) = true := by decide +kernel
example :
    Proofs.Conf.isErrorAt 1 (parseConfig [] [] (fun _ => true) "maildir \"q\" { match date > 71582789 minutes break }".toUTF8.toList) = true ∧
    Proofs.Conf.isErrorAt 1 (parseConfig [] [] (fun _ => true) "maildir \"q\" { match date > 137 years break }".toUTF8.toList) = true ∧
    Proofs.Conf.isErrorAt 2 (parseConfig [] [] (fun _ => true) "maildir \"q\" {\n match date > 18446744073709551676 seconds break }".toUTF8.toList) = true ∧
    Proofs.Conf.isErrorAt 1 (parseConfig [] [] (fun _ => true) "maildir \"q\" { match date > 18446744073709551617 hours break }".toUTF8.toList) = true ∧
    Proofs.Conf.isErrorAt 1 (parseConfig [] [] (fun _ => true) "maildir \"q\" { match date > 36893488147419106832 seconds break }".toUTF8.toList) = true ∧
    Proofs.Conf.isErrorAt 1 (parseConfig [] [] (fun _ => true) "maildir \"q\" { match date > 18446744078004518911 seconds break }".toUTF8.toList) = true := by
  decide +kernel

/-! Non-vacuity: 2026-01-15 12:00:00 UTC, and the zone `-0330`. -/
example : Model.timegm { year := 2026, mon := 0, mday := 15, hour := 12, min := 0, sec := 0 } = 1768478400 := by
  decide

example : Model.tzoff [45, 48, 51, 51, 48] = some (-12600) := by decide

/-- Which instant a date condition compares: `date [header]` the `Date` header (`getHeader1` +
`timeParse`; absent header = no match, unparsable = error), `date access` / `modified` / `created`
the field `st_atim` / `st_mtim` / `st_ctim` of what the `stat` oracle returns for the message's path
(`Proofs.statInstant`; failure of `stat` or of `time_format` = error) ... -/
theorem C15_fields_source (env : Env) (m : Msg) :
    Proofs.dateInstant env m .access = Proofs.statInstant env (·.atime) ∧
    Proofs.dateInstant env m .modified = Proofs.statInstant env (·.mtime) ∧
    Proofs.dateInstant env m .created = Proofs.statInstant env (·.ctime) ∧
    Proofs.dateInstant env m .header =
      (match getHeader1 m (ofString "Date") with
       | none => some none
       | some d =>
         match timeParse env.strptime env.zoneName d with
         | none => none
         | some t => some (some (t, d))) :=
  ⟨rfl, rfl, rfl, rfl⟩

/-- **The file fields are bound to the right time stamp.**  `env.fileTime : path → Option FileTimes` is `stat(2)`
(`none` = it failed, otherwise the three `tv_sec` values of `st_atim`, `st_mtim`, `st_ctim`), `env.timeFormat` is
`time_format` (only the text shown by `-d`), `env.path` the path of the message (`message_get_path`; a part of a
message has the path of the message).  For every environment, message, state, comparison and age, and for
`field` = `access`, `modified` or `created`:

* a failing `stat` of the message's path is an ERROR for that message (not "no match");
* otherwise the instant compared is `Proofs.fieldTime sb field`: `sb.mtime` for `modified`, `sb.ctime` for `created`,
  `sb.atime` for `access` - no other entry of `sb`, no other path, not the `Date` header (the right-hand side does not
  mention the message `m`);
* `time_format` failing is an error; otherwise the condition matches iff `now - instant > age` (`>`) resp.
  `now - instant < age` (`<`), strictly (`Proofs.AgeHolds`), and the match is recorded through `expr_regexec`. -/
theorem C15_file_fields (env : Env) (root : Msg) (lno : Nat) (field : DateField) (cmp : DateCmp) (age : Nat)
    (part : Nat) (m : Msg) (st : St) (hf : field ≠ .header) :
    (Proofs.fieldTime ⟨1, 2, 3⟩ .access = 1 ∧ Proofs.fieldTime ⟨1, 2, 3⟩ .modified = 2 ∧ Proofs.fieldTime ⟨1, 2, 3⟩ .created = 3) ∧
    (∀ sb : FileTimes, Proofs.fieldTime sb .access = sb.atime ∧ Proofs.fieldTime sb .modified = sb.mtime ∧
      Proofs.fieldTime sb .created = sb.ctime) ∧
    eval env root (.date lno field cmp age) part m st =
      (match env.fileTime env.path with
       | none => (.error, st)
       | some sb =>
         match env.timeFormat (Proofs.fieldTime sb field) with
         | none => (.error, st)
         | some text =>
           if Proofs.AgeHolds cmp age env.now (Proofs.fieldTime sb field) then
             exprRegexec env .date lno part { src := [46, 42] } (ofString "Date") text st
           else (.nomatch, st)) :=
  ⟨⟨rfl, rfl, rfl⟩, fun _ => ⟨rfl, rfl, rfl⟩, Proofs.date_file_fields env root lno field cmp age part m st hf⟩

/-- A failing `stat` is an error for that message, whatever else the environment says. -/
theorem C15_file_stat_fails (env : Env) (root : Msg) (lno : Nat) (field : DateField) (cmp : DateCmp) (age : Nat)
    (part : Nat) (m : Msg) (st : St) (hf : field ≠ .header) (hs : env.fileTime env.path = none) :
    eval env root (.date lno field cmp age) part m st = (.error, st) := by
  rw [Proofs.date_file_fields env root lno field cmp age part m st hf, hs]

/-- ... and the whole `date` case of the evaluator, for every field, comparison, age, `now` and state:
error if the instant cannot be had, no match without one, otherwise a match (recorded through
`expr_regexec` on the displayed text) iff `AgeHolds`, i.e. `now - tim > age` for `>` and
`now - tim < age` for `<`, strictly, over the integers (an instant in the future has a negative age). -/
theorem C15_fields (env : Env) (root : Msg) (lno : Nat) (field : DateField) (cmp : DateCmp) (age : Nat)
    (part : Nat) (m : Msg) (st : St) :
    eval env root (.date lno field cmp age) part m st =
      (match Proofs.dateInstant env m field with
       | none => (.error, st)
       | some none => (.nomatch, st)
       | some (some (tim, text)) =>
         if Proofs.AgeHolds cmp age env.now tim then
           exprRegexec env .date lno part { src := [46, 42] } (ofString "Date") text st
         else (.nomatch, st)) := by
  rw [Proofs.date_fields]
  rcases Proofs.dateInstant env m field with _ | _ | ⟨tim, text⟩ <;> rfl

/-- The comparison of the model is the strict one, in both directions, for all integers. -/
theorem C15_fields_strict (age now tim : Int) :
    (dateMatches .gt age now tim = true ↔ now - tim > age) ∧ (dateMatches .lt age now tim = true ↔ now - tim < age) :=
  ⟨Proofs.dateMatches_gt age now tim, Proofs.dateMatches_lt age now tim⟩

/-- **The property in one statement, for `date [header]`** (`C15_fields` + `C15_fields_source` + `C15_true_age`): if the
message's `Date` header is `s`, `strptime` reads `s` as the civil time `y-(mon+1)-d h:mi:sec` and what it leaves begins
(after blanks) with the numeric zone `±hhmm`, then the condition `date <cmp> age` evaluates to the result of
`expr_regexec(".*")` on the header - a match, for a regex library that matches `.*` - when
`now - (epoch(civil time) - zone offset)` is greater (resp. less) than `age`, strictly, and to "no match" otherwise.
No local time zone, no daylight-saving rule and nothing else of the environment enters. -/
theorem C15_header_true_age (env : Env) (root : Msg) (lno : Nat) (cmp : DateCmp) (age : Nat) (part : Nat) (m : Msg) (st : St)
    (s rest : Bytes) (y mon d h mi sec : Nat) (plus : Bool) (hh mm : Nat) (tail : Bytes)
    (hy : 1 ≤ y) (hm : mon ≤ 11) (hd : 1 ≤ d) (h1 : hh ≤ 23) (h2 : mm ≤ 59)
    (hdate : getHeader1 m (ofString "Date") = some s)
    (hs : env.strptime s = some ({ year := y, mon := mon, mday := d, hour := h, min := mi, sec := sec }, rest))
    (hz : rest.drop (nspaces rest) = (if plus then 43 else 45) :: (Proofs.twoDigits hh ++ Proofs.twoDigits mm ++ tail))
    (hne : Spec.epoch y (mon + 1) d h mi sec ≠ -1) :
    eval env root (.date lno .header cmp age) part m st =
      (if Proofs.AgeHolds cmp age env.now
          (Spec.epoch y (mon + 1) d h mi sec - Spec.zoneOffset (if plus then 1 else -1) hh mm) then
        exprRegexec env .date lno part { src := [46, 42] } (ofString "Date") s st
      else (.nomatch, st)) := by
  rw [C15_fields]
  have ht := (C15_true_age env.strptime env.zoneName s rest y mon d h mi sec plus hh mm tail hy hm hd h1 h2 hs hz hne).1
  simp only [Proofs.dateInstant, hdate, ht]

/-- An environment whose clock stands at 2026-01-15 12:00:00 UTC and whose `strptime` reads that civil time. -/
def exHeaderDateEnv : Env :=
  { Proofs.exDateEnv with
    now := 1768478400
    strptime := fun _ => some ({ year := 2026, mon := 0, mday := 15, hour := 12, min := 0, sec := 0 }, ofString " +0130") }

/-- Non-vacuity of `C15_header_true_age`, every hypothesis instantiated: a message dated 12:00 +0130 (= 10:30 UTC) seen at
12:00 UTC is 5400 s old: `> 5399` matches, `> 5400` does not (strict), `< 5401` matches. -/
example :
    let m := parseMessage (ofString "Date: Thu, 15 Jan 2026 12:00:00 +0130\n\nb\n")
    let st : St := { ml := [], flags := MFlags.empty }
    getHeader1 m (ofString "Date") = some (ofString "Thu, 15 Jan 2026 12:00:00 +0130") ∧
    (eval exHeaderDateEnv m (.date 1 .header .gt 5399) 0 m st).1 = .match ∧
    (eval exHeaderDateEnv m (.date 1 .header .gt 5400) 0 m st).1 = .nomatch ∧
    (eval exHeaderDateEnv m (.date 1 .header .lt 5401) 0 m st).1 = .match := by
  intro m st
  have hd : getHeader1 m (ofString "Date") = some (ofString "Thu, 15 Jan 2026 12:00:00 +0130") := by decide +kernel
  have key := fun cmp age => C15_header_true_age exHeaderDateEnv m 1 cmp age 0 m st (ofString "Thu, 15 Jan 2026 12:00:00 +0130")
    (ofString " +0130") 2026 0 15 12 0 0 true 1 30 [] (by decide) (by decide) (by decide) (by decide) (by decide) hd rfl
    (by decide +kernel) (by decide +kernel)
  have e1 : Spec.epoch 2026 (0 + 1) 15 12 0 0 = 1768478400 := by decide +kernel
  have e2 : Spec.zoneOffset (if true = true then 1 else -1) 1 30 = 5400 := by decide +kernel
  refine ⟨hd, ?_, ?_, ?_⟩
  · rw [key, e1, e2]; decide +kernel
  · rw [key, e1, e2]; decide +kernel
  · rw [key, e1, e2]; decide +kernel

/-! ## From the header TEXT on: RFC 5322 section 3.3 through the model of `strptime` (C locale)

`Spec.renderDate dt l` is the text of the date-time `dt` with the choices `l` the grammar leaves open, `Spec.WellFormed dt l`
the grammar and its semantic rules, `Spec.instant dt` the instant the RFC defines (Spec/Rfc5322Date.lean, independent of
the model).  `Model.timeparseC` is `timeparse` of time.c with the executable model of `strptime` and the layouts of the
regenerated table (tied to the platform's `strptime` and to `time_parse` by the `strp`, `timeparse`, `tparsec` and `rfcdate`
stages of the check). -/

/-- What the code needs beyond the grammar: a day of week or seconds (the three layouts are `dow + sec`, `dow`, `sec`), a
year of four digits (`%Y` reads at most four), a zone hour up to 23 (`tzoff`), no white space in front of a day name (`%a`
skips none; the message parser removes the white space that follows `Date:`), and a civil time other than 1969-12-31
23:59:59 (`time_parse` takes the value -1 of `timegm` for an error).  Each is needed: the examples below. -/
def Covered (dt : Spec.DateTime) (l : Spec.DateLayout) : Prop :=
  (dt.dayOfWeek.isSome || dt.second.isSome) = true ∧ dt.year ≤ 9999 ∧ dt.zoneHour ≤ 23 ∧
  (dt.dayOfWeek.isSome = true → l.fwsDow = []) ∧ Spec.civilSeconds dt ≠ -1

instance (dt : Spec.DateTime) (l : Spec.DateLayout) : Decidable (Covered dt l) := by unfold Covered; exact inferInstance

/-- **The table of layouts and what it covers.**  (1) Every directive of every layout of `formats[]` (time.c, regenerated
into `Gen.dateFormats`) is known to the interpreter, and the three layouts are `%a, ` + C + `:%S`, `%a, ` + C, C + `:%S` with
C = `%d %b %Y %H:%M` - a changed, added, removed or reordered layout falsifies this.  (2) For every date-time text of the
grammar with a four-digit year (`Proofs.Strp.TextOK`: the grammar's white space, day 1..31, month 1..12, hour ≤ 23, minute ≤ 59,
second ≤ 61, a day name without white space in front): `timeparse` succeeds IFF the text has a day of week or seconds, and
then yields exactly the fields as the broken-down time (the day NAME is not looked at: no field depends on it) and leaves
the zone. -/
theorem C15_layouts :
    (Gen.dateFormats.map fun f => parseFmt (ofString f)) =
      [some (Proofs.Strp.dowPrefix ++ (Proofs.Strp.coreDirs ++ Proofs.Strp.secSuffix)),
       some (Proofs.Strp.dowPrefix ++ Proofs.Strp.coreDirs),
       some (Proofs.Strp.coreDirs ++ Proofs.Strp.secSuffix)] ∧
    ∀ (dt : Spec.DateTime) (l : Spec.DateLayout), Proofs.Strp.TextOK dt l →
      timeparseC (Spec.renderDate dt l) =
        (if dt.dayOfWeek.isSome || dt.second.isSome then some (Proofs.Strp.tmOf dt, Proofs.Strp.zoneText dt l) else none) :=
  ⟨Proofs.Strp.layouts_parse, Proofs.Strp.timeparseC_render⟩

/-- **"Interpreted per RFC 5322", from the header text on.**  For every date-time the grammar of RFC 5322 3.3 generates
(`Spec.WellFormed`: `[ day-name "," ] day month year hour ":" minute [ ":" second ] zone [CFWS]`, names in any letter case, one
or two digits for the day, any FWS, year 1900 or later, day within the month, 00:00:00..23:59:60, zone `±hhmm` with
`mm ≤ 59`, a written day of week being the right one) that lies inside `Covered`, and for EVERY zone-name oracle:
`time_parse` over the model of `strptime` yields exactly the instant the RFC defines - the civil time read as UTC by day
counting, minus the zone offset.  No local time zone and no daylight-saving rule enters. -/
theorem C15_rfc5322_end_to_end (dt : Spec.DateTime) (l : Spec.DateLayout) (zn : Bytes → Option Int)
    (hwf : Spec.WellFormed dt l) (hcov : Covered dt l) :
    timeParse timeparseC zn (Spec.renderDate dt l) = some (Spec.instant dt) := by
  obtain ⟨c1, c2, c3, c4, c5⟩ := hcov
  have hy : 1 ≤ dt.year := Nat.le_trans (by decide) hwf.2.1
  exact Proofs.Strp.timeParse_render dt l zn (Proofs.Strp.textOK_of_wellFormed dt l hwf c2 c4) c1 hy c3 hwf.2.2.2.2.2.2.2.2.2.1 c5

/-- Non-vacuity of `C15_rfc5322_end_to_end`, every hypothesis instantiated on concrete texts, the result evaluated:
`Thu, 15 Jan 2026 12:00:00 +0130`; `mON,5 jAN  2026\t12:00 -0330 (Newfoundland (winter))` (no seconds, one-digit day, odd case
and white space, a nested comment); `29 Feb 2024 23:59:60 +0000` (no day of week, leap second). -/
example :
    let dt : Spec.DateTime := { dayOfWeek := some 3, day := 15, month := 1, year := 2026, hour := 12, minute := 0, second := some 0,
                                zonePlus := true, zoneHour := 1, zoneMinute := 30 }
    Spec.renderDate dt {} = ofString "Thu, 15 Jan 2026 12:00:00 +0130" ∧ Spec.WellFormed dt {} ∧ Covered dt {} ∧
    Spec.instant dt = 1768478400 - 5400 ∧
    timeParse timeparseC (fun _ => none) (ofString "Thu, 15 Jan 2026 12:00:00 +0130") = some (1768478400 - 5400) := by
  intro dt
  have h1 : Spec.renderDate dt {} = ofString "Thu, 15 Jan 2026 12:00:00 +0130" := by decide +kernel
  have h2 : Spec.WellFormed dt {} := by decide +kernel
  have h3 : Covered dt {} := by decide +kernel
  have h4 : Spec.instant dt = 1768478400 - 5400 := by decide +kernel
  refine ⟨h1, h2, h3, h4, ?_⟩
  rw [← h1, C15_rfc5322_end_to_end dt {} _ h2 h3, h4]

example :
    let dt : Spec.DateTime := { dayOfWeek := some 0, day := 5, month := 1, year := 2026, hour := 12, minute := 0, second := none,
                                zonePlus := false, zoneHour := 3, zoneMinute := 30 }
    let l : Spec.DateLayout := { dowCase := [true, true, true], fwsDay := [], dayOneDigit := true, monCase := [true, true, true],
                                 fwsYear := [32, 32], fwsTime := [9], trailer := ofString " (Newfoundland (winter))" }
    Spec.renderDate dt l = ofString "mON,5 jAN  2026\t12:00 -0330 (Newfoundland (winter))" ∧ Spec.WellFormed dt l ∧ Covered dt l ∧
    timeParse timeparseC (fun _ => none) (Spec.renderDate dt l) = some (Spec.instant dt) ∧ Spec.instant dt = 1767614400 + 12600 := by
  decide +kernel

example :
    let dt : Spec.DateTime := { dayOfWeek := none, day := 29, month := 2, year := 2024, hour := 23, minute := 59, second := some 60,
                                zonePlus := true, zoneHour := 0, zoneMinute := 0 }
    let l : Spec.DateLayout := { fwsDay := [] }
    Spec.renderDate dt l = ofString "29 Feb 2024 23:59:60 +0000" ∧ Spec.WellFormed dt l ∧ Covered dt l ∧
    timeParse timeparseC (fun _ => none) (Spec.renderDate dt l) = some (Spec.instant dt) ∧ Spec.instant dt = 1709251200 := by
  decide +kernel

/-- **The alternative of the grammar no layout covers.**  EVERY well-formed date-time with a four-digit year that has
neither a day of week nor seconds - `day month year hour ":" minute zone`, valid by RFC 5322 3.3 - is an ERROR of `time_parse`
(`expr_eval_date` then fails for the message: mdsort prints `strptime: ...: Invalid argument`, leaves the message where it
is and exits 1), for every zone-name oracle.  `formats[]` has `%d %b %Y %H:%M:%S` but not `%d %b %Y %H:%M`. -/
theorem C15_rfc5322_uncovered (dt : Spec.DateTime) (l : Spec.DateLayout) (zn : Bytes → Option Int)
    (hwf : Spec.WellFormed dt l) (hy : dt.year ≤ 9999) (hd : dt.dayOfWeek = none) (hs : dt.second = none) :
    timeParse timeparseC zn (Spec.renderDate dt l) = none :=
  Proofs.Strp.timeParse_render_uncovered dt l zn
    (Proofs.Strp.textOK_of_wellFormed dt l hwf hy (by rw [hd]; intro h; exact absurd h (by decide))) hd hs

/-- The statement WITHOUT `Covered`: every date-time the grammar of RFC 5322 3.3 generates is parsed to its instant.  The code does
not satisfy it (`C15_rfc5322_not_all`); `C15_rfc5322_end_to_end` is this statement restricted to `Covered`. -/
def Rfc5322AllDateTimes : Prop :=
  ∀ (dt : Spec.DateTime) (l : Spec.DateLayout) (zn : Bytes → Option Int), Spec.WellFormed dt l →
    timeParse timeparseC zn (Spec.renderDate dt l) = some (Spec.instant dt)

/-- `15 Jan 2026 12:00 +0000` refutes it. -/
theorem C15_rfc5322_not_all : ¬ Rfc5322AllDateTimes := by
  intro h
  have hwf : Spec.WellFormed ⟨none, 15, 1, 2026, 12, 0, none, true, 0, 0⟩ { fwsDay := [] } := by decide +kernel
  have h1 := h _ _ (fun _ => none) hwf
  rw [C15_rfc5322_uncovered _ _ _ hwf (by decide) rfl rfl] at h1
  exact absurd h1 (by simp)

/-- Non-vacuity of `C15_rfc5322_uncovered`, and the witnesses that each clause of `Covered` is needed (all well-formed by the RFC):
* `15 Jan 2026 12:00 +0000`: neither day of week nor seconds - error;
* `Thu, 15 Jan 10000 12:00:00 +0000`: a five-digit year - error;
* `Thu, 15 Jan 2026 12:00:00 +2400`: zone hour above 23 - `tzoff` fails and the text `+2400` goes to the zone-NAME oracle
  (`setenv TZ=+2400; tzset; localtime`): an error if that fails, offset 0 on glibc (not the 86400 s the text says);
* ` Thu, 15 Jan 2026 12:00:00 +0000`: white space in front of the day name - error (the message parser never delivers this);
* `Wed, 31 Dec 1969 23:59:59 +0100`: civil time -1 - error. -/
example :
    let dt : Spec.DateTime := { dayOfWeek := none, day := 15, month := 1, year := 2026, hour := 12, minute := 0, second := none,
                                zonePlus := true, zoneHour := 0, zoneMinute := 0 }
    let l : Spec.DateLayout := { fwsDay := [] }
    Spec.renderDate dt l = ofString "15 Jan 2026 12:00 +0000" ∧ Spec.WellFormed dt l ∧ ¬ Covered dt l ∧
    timeParse timeparseC (fun _ => some 0) (Spec.renderDate dt l) = none := by
  decide +kernel

example :
    let dt : Spec.DateTime := { dayOfWeek := some 5, day := 15, month := 1, year := 10000, hour := 12, minute := 0, second := some 0,
                                zonePlus := true, zoneHour := 0, zoneMinute := 0 }
    Spec.renderDate dt {} = ofString "Sat, 15 Jan 10000 12:00:00 +0000" ∧ Spec.WellFormed dt {} ∧ ¬ Covered dt {} ∧
    timeParse timeparseC (fun _ => some 0) (Spec.renderDate dt {}) = none := by
  decide +kernel

example :
    let dt : Spec.DateTime := { dayOfWeek := some 3, day := 15, month := 1, year := 2026, hour := 12, minute := 0, second := some 0,
                                zonePlus := true, zoneHour := 24, zoneMinute := 0 }
    Spec.renderDate dt {} = ofString "Thu, 15 Jan 2026 12:00:00 +2400" ∧ Spec.WellFormed dt {} ∧ ¬ Covered dt {} ∧
    timeParse timeparseC (fun _ => none) (Spec.renderDate dt {}) = none ∧
    timeParse timeparseC (fun _ => some 0) (Spec.renderDate dt {}) = some (Spec.instant dt + 86400) := by
  decide +kernel

example :
    let dt : Spec.DateTime := { dayOfWeek := some 3, day := 15, month := 1, year := 2026, hour := 12, minute := 0, second := some 0,
                                zonePlus := true, zoneHour := 0, zoneMinute := 0 }
    let l : Spec.DateLayout := { fwsDow := [32] }
    Spec.renderDate dt l = ofString " Thu, 15 Jan 2026 12:00:00 +0000" ∧ Spec.WellFormed dt l ∧ ¬ Covered dt l ∧
    timeParse timeparseC (fun _ => some 0) (Spec.renderDate dt l) = none := by
  decide +kernel

example :
    let dt : Spec.DateTime := { dayOfWeek := some 2, day := 31, month := 12, year := 1969, hour := 23, minute := 59, second := some 59,
                                zonePlus := true, zoneHour := 1, zoneMinute := 0 }
    Spec.renderDate dt {} = ofString "Wed, 31 Dec 1969 23:59:59 +0100" ∧ Spec.WellFormed dt {} ∧ ¬ Covered dt {} ∧
    timeParse timeparseC (fun _ => some 0) (Spec.renderDate dt {}) = none := by
  decide +kernel

/-- **Beyond the grammar: what the code does not look at.**  The same equation for every text of the shape of the grammar
whose fields pass the range checks of `strptime` (`Proofs.Strp.TextOK`), whether or not the RFC's semantic rules hold: the day
NAME may be any of the seven (`Mon, 15 Jan 2026` on a Thursday), the day may be 29..31 in any month (`31 Feb` is the 3rd of
March, as `timegm` normalises it), the second may be 61, the year 1..1899, and ANYTHING may follow the zone (`l.trailer` is
arbitrary here: `tzoff` reads five characters). -/
theorem C15_date_text_lenient (dt : Spec.DateTime) (l : Spec.DateLayout) (zn : Bytes → Option Int)
    (hok : Proofs.Strp.TextOK dt l) (hcov : (dt.dayOfWeek.isSome || dt.second.isSome) = true) (hy : 1 ≤ dt.year)
    (h1 : dt.zoneHour ≤ 23) (h2 : dt.zoneMinute ≤ 59) (hne : Spec.civilSeconds dt ≠ -1) :
    timeParse timeparseC zn (Spec.renderDate dt l) = some (Spec.instant dt) :=
  Proofs.Strp.timeParse_render dt l zn hok hcov hy h1 h2 hne

/-- Non-vacuity of `C15_date_text_lenient` outside `Spec.WellFormed`: `Mon, 31 Feb 2026 12:00:61 +0000garbage` (wrong day name,
no such day, second 61, text glued to the zone) is read as 2026-03-03 12:01:01 UTC. -/
example :
    let dt : Spec.DateTime := { dayOfWeek := some 0, day := 31, month := 2, year := 2026, hour := 12, minute := 0, second := some 61,
                                zonePlus := true, zoneHour := 0, zoneMinute := 0 }
    let l : Spec.DateLayout := { trailer := ofString "garbage" }
    Spec.renderDate dt l = ofString "Mon, 31 Feb 2026 12:00:61 +0000garbage" ∧ ¬ Spec.WellFormed dt l ∧
    timeParse timeparseC (fun _ => none) (Spec.renderDate dt l) = some (Spec.instant dt) ∧
    Spec.instant dt = Spec.epoch 2026 3 3 12 1 1 := by
  intro dt l
  have h1 : Spec.renderDate dt l = ofString "Mon, 31 Feb 2026 12:00:61 +0000garbage" := by decide +kernel
  have h2 : ¬ Spec.WellFormed dt l := by decide +kernel
  have h4 : Spec.instant dt = Spec.epoch 2026 3 3 12 1 1 := by decide +kernel
  have hok : Proofs.Strp.TextOK dt l :=
    { wDay := rfl, wMonth := rfl, wYear := rfl, wTime := rfl, day1 := by decide, day31 := by decide, mon1 := by decide,
      mon12 := by decide, year := by decide, hour := by decide, minute := by decide, wZone := rfl,
      sec := by intro s hs; cases hs; decide, dow := by intro i hi; cases hi; exact ⟨by decide, rfl⟩ }
  exact ⟨h1, h2, C15_date_text_lenient dt l _ hok rfl (by decide) (by decide) (by decide) (by decide +kernel), h4⟩

/-- **The property in one statement, from the header text on** (`C15_fields` + `C15_rfc5322_end_to_end`): in an environment
whose `strptime` is the C-locale model over the layouts of time.c, if the message's `Date` header is the text of a
well-formed RFC 5322 date-time inside `Covered`, the condition `date <cmp> age` evaluates to the result of
`expr_regexec(".*")` on the header when `now - instant(dt)` is greater (resp. less) than `age`, strictly, and to "no match"
otherwise - whatever the zone-name oracle, the local zone and everything else of the environment. -/
theorem C15_rfc5322_header_true_age (env : Env) (root : Msg) (lno : Nat) (cmp : DateCmp) (age : Nat) (part : Nat) (m : Msg) (st : St)
    (dt : Spec.DateTime) (l : Spec.DateLayout)
    (hstrp : env.strptime = timeparseC) (hwf : Spec.WellFormed dt l) (hcov : Covered dt l)
    (hdate : getHeader1 m (ofString "Date") = some (Spec.renderDate dt l)) :
    eval env root (.date lno .header cmp age) part m st =
      (if Proofs.AgeHolds cmp age env.now (Spec.instant dt) then
        exprRegexec env .date lno part { src := [46, 42] } (ofString "Date") (Spec.renderDate dt l) st
      else (.nomatch, st)) := by
  rw [C15_fields]
  simp only [Proofs.dateInstant, hdate, hstrp, C15_rfc5322_end_to_end dt l env.zoneName hwf hcov]

/-- ... and the uncovered alternative at the level of the evaluator: an error for the message. -/
theorem C15_rfc5322_header_uncovered (env : Env) (root : Msg) (lno : Nat) (cmp : DateCmp) (age : Nat) (part : Nat) (m : Msg) (st : St)
    (dt : Spec.DateTime) (l : Spec.DateLayout)
    (hstrp : env.strptime = timeparseC) (hwf : Spec.WellFormed dt l) (hy : dt.year ≤ 9999)
    (hd : dt.dayOfWeek = none) (hs : dt.second = none)
    (hdate : getHeader1 m (ofString "Date") = some (Spec.renderDate dt l)) :
    eval env root (.date lno .header cmp age) part m st = (.error, st) := by
  rw [C15_fields]
  simp only [Proofs.dateInstant, hdate, hstrp, C15_rfc5322_uncovered dt l env.zoneName hwf hy hd hs]

/-- An environment whose clock stands at 2026-01-15 12:00:00 UTC, whose `strptime` is the model and which knows no zone name. -/
def exRfcDateEnv : Env := { Proofs.exDateEnv with now := 1768478400, strptime := timeparseC }

/-- Non-vacuity of `C15_rfc5322_header_true_age` / `_uncovered` on parsed messages, every hypothesis instantiated: the message
`Date: thu, 15 jan 2026 12:00 +0130 (CET)` (= 10:30 UTC) seen at 12:00 UTC is 5400 s old: `> 5399` matches, `> 5400` does not,
`< 5401` matches; `Date: 15 Jan 2026 12:00 +0130` is an error. -/
example :
    let m := parseMessage (ofString "Date: thu, 15 jan 2026 12:00 +0130 (CET)\n\nb\n")
    let st : St := { ml := [], flags := MFlags.empty }
    let dt : Spec.DateTime := { dayOfWeek := some 3, day := 15, month := 1, year := 2026, hour := 12, minute := 0, second := none,
                                zonePlus := true, zoneHour := 1, zoneMinute := 30 }
    let l : Spec.DateLayout := { dowCase := [true], monCase := [true], trailer := ofString " (CET)" }
    getHeader1 m (ofString "Date") = some (Spec.renderDate dt l) ∧ Spec.WellFormed dt l ∧ Covered dt l ∧
    (eval exRfcDateEnv m (.date 1 .header .gt 5399) 0 m st).1 = .match ∧
    (eval exRfcDateEnv m (.date 1 .header .gt 5400) 0 m st).1 = .nomatch ∧
    (eval exRfcDateEnv m (.date 1 .header .lt 5401) 0 m st).1 = .match := by
  intro m st dt l
  have hd : getHeader1 m (ofString "Date") = some (Spec.renderDate dt l) := by decide +kernel
  have hwf : Spec.WellFormed dt l := by decide +kernel
  have hcov : Covered dt l := by decide +kernel
  have key := fun cmp age => C15_rfc5322_header_true_age exRfcDateEnv m 1 cmp age 0 m st dt l rfl hwf hcov hd
  have e1 : Spec.instant dt = 1768478400 - 5400 := by decide +kernel
  refine ⟨hd, hwf, hcov, ?_, ?_, ?_⟩
  · rw [key, e1]; decide +kernel
  · rw [key, e1]; decide +kernel
  · rw [key, e1]; decide +kernel

example :
    let m := parseMessage (ofString "Date: 15 Jan 2026 12:00 +0130\n\nb\n")
    let st : St := { ml := [], flags := MFlags.empty }
    let dt : Spec.DateTime := { dayOfWeek := none, day := 15, month := 1, year := 2026, hour := 12, minute := 0, second := none,
                                zonePlus := true, zoneHour := 1, zoneMinute := 30 }
    let l : Spec.DateLayout := { fwsDay := [] }
    getHeader1 m (ofString "Date") = some (Spec.renderDate dt l) ∧ Spec.WellFormed dt l ∧
    (eval exRfcDateEnv m (.date 1 .header .gt 1) 0 m st).1 = .error := by
  intro m st dt l
  have hd : getHeader1 m (ofString "Date") = some (Spec.renderDate dt l) := by decide +kernel
  have hwf : Spec.WellFormed dt l := by decide +kernel
  refine ⟨hd, hwf, ?_⟩
  rw [C15_rfc5322_header_uncovered exRfcDateEnv m 1 .gt 1 0 m st dt l rfl hwf (by decide) rfl rfl hd]

/-! Non-vacuity: a file with `st_atim = 300`, `st_mtim = 100`, `st_ctim = 200` at `now = 1000`
(`Proofs.exDateEnv`): the three fields give three different answers to `> 850 seconds`, `>` and `<`
are strict at the boundary, and an instant in the future is younger than any age. -/
example : (eval Proofs.exDateEnv { headers := [], body := [] } (.date 1 .modified .gt 850) 0 { headers := [], body := [] }
    { ml := [], flags := MFlags.empty }).1 = .match := by simp only [eval]; decide +kernel
example : (eval Proofs.exDateEnv { headers := [], body := [] } (.date 1 .created .gt 850) 0 { headers := [], body := [] }
    { ml := [], flags := MFlags.empty }).1 = .nomatch := by simp only [eval]; decide +kernel
example : (eval Proofs.exDateEnv { headers := [], body := [] } (.date 1 .access .gt 700) 0 { headers := [], body := [] }
    { ml := [], flags := MFlags.empty }).1 = .nomatch := by simp only [eval]; decide +kernel
example : (eval Proofs.exDateEnv { headers := [], body := [] } (.date 1 .access .lt 700) 0 { headers := [], body := [] }
    { ml := [], flags := MFlags.empty }).1 = .nomatch := by simp only [eval]; decide +kernel
example : (eval Proofs.exDateEnv { headers := [], body := [] } (.date 1 .access .lt 701) 0 { headers := [], body := [] }
    { ml := [], flags := MFlags.empty }).1 = .match := by simp only [eval]; decide +kernel
example : Proofs.AgeHolds .lt 0 1000 2000 := by decide

/-- Non-vacuity of `C15_file_fields` / `C15_file_stat_fails`: `Proofs.exDateEnv` answers `stat` for its own path
`/m/new/1` (three different time stamps) and for no other path: with another path the same conditions are errors. -/
example : Proofs.exDateEnv.fileTime Proofs.exDateEnv.path = some ⟨300, 100, 200⟩ ∧ DateField.modified ≠ DateField.header ∧
    ({ Proofs.exDateEnv with path := [47, 120] } : Env).fileTime [47, 120] = none := by decide
example : (eval { Proofs.exDateEnv with path := [47, 120] } { headers := [], body := [] } (.date 1 .modified .gt 850) 0
    { headers := [], body := [] } { ml := [], flags := MFlags.empty }).1 = .error := by simp only [eval]; decide +kernel

end Mdsort.Props
