import Mdsort.Proofs.FlagsTime
import Mdsort.Proofs.DateFields

/-!
# C15 - date conditions compare the true age of the message

After the `fix:` commit "compute the instant of a Date header independently of the local time
zone", `time_parse` is `timegm(tm) - zone`: the model has no parameter for the local zone or
for daylight saving at all, which is the formal content of "independently of the local time
zone and of daylight-saving transitions".  `strptime` (three layouts from the regenerated
table) and the zone-NAME lookup are parameters of the model; the numeric zone, the civil-date
arithmetic, the comparison, the unit table and the overflow test are proved here.
-/

namespace Mdsort.Props
open Mdsort Mdsort.Model

/-- `±hhmm` with `hh ≤ 23`, `mm ≤ 59` denotes `±(3600·hh + 60·mm)` whatever follows it ... -/
theorem C15_zone_offset (plus : Bool) (hh mm : Nat) (rest : Bytes) (h1 : hh ≤ 23) (h2 : mm ≤ 59) :
    tzoff ((if plus then 43 else 45) :: (Proofs.twoDigits hh ++ Proofs.twoDigits mm ++ rest)) =
      some (Spec.zoneOffset (if plus then 1 else -1) hh mm) :=
  Proofs.tzoff_accepts plus hh mm rest h1 h2

/-- ... and nothing else is accepted as a numeric zone. -/
theorem C15_zone_offset_only (s : Bytes) (z : Int) (h : tzoff s = some z) :
    ∃ (plus : Bool) (hh mm : Nat) (rest : Bytes), hh ≤ 23 ∧ mm ≤ 59 ∧
      s = (if plus then 43 else 45) :: (Proofs.twoDigits hh ++ Proofs.twoDigits mm ++ rest) ∧
      z = Spec.zoneOffset (if plus then 1 else -1) hh mm :=
  Proofs.tzoff_only s z h

/-- The civil-date arithmetic of `timegm` is the proleptic Gregorian day count. -/
theorem C15_civil (y mon d h mi s : Nat) (hy : 1 ≤ y) (hm : mon ≤ 11) (hd : 1 ≤ d) :
    timegm { year := y, mon := mon, mday := d, hour := h, min := mi, sec := s } = Spec.epoch y (mon + 1) d h mi s :=
  Proofs.timegm_eq_epoch y mon d h mi s hy hm hd

/-- The true age: for every broken-down time the layouts produce, every numeric zone and every
`now`: the parsed instant is the UTC reading minus the zone, and `>` / `<` compare `now − instant`
strictly with the configured age. -/
theorem C15_true_age (strp : Bytes → Option (Tm × Bytes)) (zn : Bytes → Option Int) (s rest : Bytes)
    (y mon d h mi sec : Nat) (plus : Bool) (hh mm : Nat) (tail : Bytes)
    (hy : 1 ≤ y) (hm : mon ≤ 11) (hd : 1 ≤ d) (h1 : hh ≤ 23) (h2 : mm ≤ 59)
    (hs : strp s = some ({ year := y, mon := mon, mday := d, hour := h, min := mi, sec := sec }, rest))
    (hz : rest.drop (nspaces rest) = (if plus then 43 else 45) :: (Proofs.twoDigits hh ++ Proofs.twoDigits mm ++ tail))
    (hne : Spec.epoch y (mon + 1) d h mi sec ≠ -1) :
    timeParse strp zn s = some (Spec.epoch y (mon + 1) d h mi sec - Spec.zoneOffset (if plus then 1 else -1) hh mm) ∧
    ∀ age now t, (dateMatches .gt age now t = decide (now - t > age)) ∧ (dateMatches .lt age now t = decide (now - t < age)) :=
  Proofs.true_age strp zn s rest y mon d h mi sec plus hh mm tail hy hm hd h1 h2 hs hz hne

/-- The unit table regenerated from parse.y is the documented one, and a lexeme selects a unit
iff it is a prefix of that unit's name and of no other. -/
theorem C15_units : Gen.scalars = Spec.units ∧
    ∀ lexeme v, scalarLookup lexeme = .value v ↔ Spec.unitOf lexeme = some v :=
  ⟨Proofs.scalars_table, fun l v => Proofs.scalarLookup_eq_spec l v⟩

/-- Ages that do not fit 32 bits are rejected, and accepted ages are exactly `N × unit`. -/
theorem C15_overflow (n u : Nat) : dateAge n u = (if n * u < 2 ^ 32 then some (n * u) else none) :=
  Proofs.dateAge_spec n u

/-! Non-vacuity: 2026-01-15 12:00:00 UTC, and the zone `-0330`. -/
example : Model.timegm { year := 2026, mon := 0, mday := 15, hour := 12, min := 0, sec := 0 } = 1768478400 := by
  decide

example : Model.tzoff [45, 48, 51, 51, 48] = some (-12600) := by decide

/-- Which instant a date condition compares: `date [header]` the `Date` header (`getHeader1` +
`timeParse`; absent header = no match, unparsable = error), `date access` / `modified` / `created`
the entry of the `stat` oracle for that very field (`st_atim` / `st_mtim` / `st_ctim` in
`expr_eval_date`; failure of `stat` or `time_format` = error) ... -/
theorem C15_fields_source (env : Env) (m : Msg) :
    Proofs.dateInstant env m .access = (env.fileTime .access).map some ∧
    Proofs.dateInstant env m .modified = (env.fileTime .modified).map some ∧
    Proofs.dateInstant env m .created = (env.fileTime .created).map some ∧
    Proofs.dateInstant env m .header =
      (match getHeader1 m (ofString "Date") with
       | none => some none
       | some d =>
         match timeParse env.strptime env.zoneName d with
         | none => none
         | some t => some (some (t, d))) :=
  ⟨rfl, rfl, rfl, rfl⟩

/-- ... and the whole `date` case of the evaluator, for every field, comparison, age, `now` and state:
error if the instant cannot be had, no match without one, otherwise a match (recorded through
`expr_regexec` on the displayed text) iff `AgeHolds`, i.e. `now - tim > age` for `>` and
`now - tim < age` for `<`, strictly, over the integers (an instant in the future has a negative age). -/
theorem C15_fields (env : Env) (root : Msg) (lno : Nat) (field : DateField) (cmp : DateCmp) (age : Nat)
    (part : Nat) (m : Msg) (st : St) :
    eval env root (.date lno field cmp age) part m st =
      (match Proofs.dateInstant env m field with
       | none => (.error, st)
       | some none => (.nomatch, st)
       | some (some (tim, text)) =>
         if Proofs.AgeHolds cmp age env.now tim then
           exprRegexec env .date lno part { src := [46, 42] } (ofString "Date") text st
         else (.nomatch, st)) := by
  rw [Proofs.date_fields]
  rcases Proofs.dateInstant env m field with _ | _ | ⟨tim, text⟩ <;> rfl

/-- The comparison of the model is the strict one, in both directions, for all integers. -/
theorem C15_fields_strict (age now tim : Int) :
    (dateMatches .gt age now tim = true ↔ now - tim > age) ∧ (dateMatches .lt age now tim = true ↔ now - tim < age) :=
  ⟨Proofs.dateMatches_gt age now tim, Proofs.dateMatches_lt age now tim⟩

/-! Non-vacuity: a file with `st_atim = 300`, `st_mtim = 100`, `st_ctim = 200` at `now = 1000`
(`Proofs.exDateEnv`): the three fields give three different answers to `> 850 seconds`, `>` and `<`
are strict at the boundary, and an instant in the future is younger than any age. -/
example : (eval Proofs.exDateEnv { headers := [], body := [] } (.date 1 .modified .gt 850) 0 { headers := [], body := [] }
    { ml := [], flags := MFlags.empty }).1 = .match := by simp only [eval]; decide +kernel
example : (eval Proofs.exDateEnv { headers := [], body := [] } (.date 1 .created .gt 850) 0 { headers := [], body := [] }
    { ml := [], flags := MFlags.empty }).1 = .nomatch := by simp only [eval]; decide +kernel
example : (eval Proofs.exDateEnv { headers := [], body := [] } (.date 1 .access .gt 700) 0 { headers := [], body := [] }
    { ml := [], flags := MFlags.empty }).1 = .nomatch := by simp only [eval]; decide +kernel
example : (eval Proofs.exDateEnv { headers := [], body := [] } (.date 1 .access .lt 700) 0 { headers := [], body := [] }
    { ml := [], flags := MFlags.empty }).1 = .nomatch := by simp only [eval]; decide +kernel
example : (eval Proofs.exDateEnv { headers := [], body := [] } (.date 1 .access .lt 701) 0 { headers := [], body := [] }
    { ml := [], flags := MFlags.empty }).1 = .match := by simp only [eval]; decide +kernel
example : Proofs.AgeHolds .lt 0 1000 2000 := by decide

end Mdsort.Props
