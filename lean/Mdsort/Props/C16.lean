import Mdsort.Model.Decode
import Mdsort.Spec.Decode
import Mdsort.Spec.DecodeRFC
import Mdsort.Proofs.Decode
import Mdsort.Proofs.DecodeRFC
import Mdsort.Proofs.L0Buffer

/-!
# C16 - the transfer decoders are correct and total

Property theorems only; helper lemmas live in `Proofs/Decode.lean`.
`Model.*` is the transcription of decode.c (tied to the C code by the
correspondence run of `tools/props/c16.py`), `Spec.*` the reference decoders.
Totality ("quoted-printable and header decoding never fail", "terminates for
every input") is carried by the types: every `Model` function below is a total
Lean function (`qpLoop`, `rfc2047Loop` by well-founded recursion on the input
length), and `qpDecode`/`rfc2047Decode` return `Bytes`, not `Option Bytes`.

Audit notes on the reference decoders (`Spec/Decode.lean`, written without looking at the loops of decode.c; it
imports neither the model nor the generated table).  `Spec.b64` is RFC 4648 section 4 as a mathematician would write
it (value table, 24-bit groups by arithmetic, padding by `k mod 4`, white space filtered first).  The other two are
the PROPERTY TEXT rather than the RFCs, where these differ:
* `Spec.qp` knows the soft line break `=LF` only: `=CRLF` (the form of RFC 2045) and `= LF` (transport padding
  before the break) are copied unchanged, and lower-case hex is not decoded (evaluated below);
* `Spec.rfc2047` is all-or-nothing: if ANY `=?` of the string does not start a well-formed word (or a B word is
  not valid base64) the WHOLE input is returned unchanged - words that are well formed included ("malformed
  sequences are passed through unchanged" read as the code reads it); a word is accepted with an empty charset,
  with blanks inside, and glued to other text; the charset is ignored; a decoded B word is cut at its first NUL.
The correspondence is therefore "model = property-text decoder", not "model = MIME decoder"; the differences to the RFCs
are visible here and nowhere hidden in the proofs.

Specification independence (second half of this file).  `Spec/DecodeRFC.lean` writes the RFC readings down separately:
`Spec.qpRFC` (RFC 2045 section 6.7: soft line break = `=` blanks* (LF | CRLF)) and `Spec.rfc2047RFC` (RFC 2047: tokens,
non-empty encoded-text without blanks or `?`, words delimited by linear white space; a value with a malformed word is
returned raw, as C10 / C16 word it) with `Spec.rfc2047PerWord` (malformed words left alone one by one, RFC 2047 6.3).
`C16_qp_vs_rfc(_iff)` and `C16_rfc2047_vs_rfc` state on which inputs `decode.c` IS the RFC decoder; the
`C16_*_deviation*` theorems evaluate model and RFC reading on one witness per kind of input where they differ.
-/

namespace Mdsort.Props
open Mdsort

/-- The alphabet table regenerated from decode.c is RFC 4648's Table 1, and the pad is `=`.  (`Model.b64idx` is
`strchr` in `Gen.base64Alphabet`, the string literal `Base64[]` of the decode.c under check; `Spec.b64val` is written out
by ranges.  Exchanging two letters of the C table makes this statement false.) -/
theorem C16_alphabet : (∀ c : UInt8, Model.b64idx c = (Spec.b64val c).map UInt8.ofNat) ∧ Gen.pad64 = 61 :=
  Proofs.b64idx_eq_b64val

/-- `b64_pton` with any target larger than the input (base64_decode passes `strlen + 1`)
computes exactly the reference decoder: for every byte string. -/
theorem C16_b64 (s : Bytes) (n : Nat) (h : s.length < n) : Model.b64pton s n = Spec.b64 s :=
  Proofs.b64pton_eq_spec s n h

/-- Why the target never overflows: three bytes per four input characters. -/
theorem C16_b64_len (s out : Bytes) (h : Spec.b64 s = some out) : 4 * out.length ≤ 3 * s.length :=
  Proofs.b64_spec_len s out h

/-- The quoted-printable loop (body mode and header mode) is the reference decoder. -/
theorem C16_qp (us : Bool) (s : Bytes) : Model.qpLoop us s [] = Spec.qp us s :=
  Proofs.qpLoop_eq_spec us s

/-- `rfc2047_decode` is the reference encoded-word decoder, including the "return the
input unchanged" behaviour on any malformed word. -/
theorem C16_rfc2047 (s : Bytes) : Model.rfc2047DecodeRaw s = Spec.rfc2047 s :=
  Proofs.rfc2047_eq_spec s

/-- The three public functions return C strings: callers see the reference result up to
its first NUL. -/
theorem C16_cstring_view (s : Bytes) :
    Model.base64Decode s = (Spec.b64 s).map cstr ∧
    Model.qpDecode s = cstr (Spec.qp false s) ∧
    Model.rfc2047Decode s = cstr (Spec.rfc2047 s) := by
  refine ⟨?_, ?_, ?_⟩
  · simp [Model.base64Decode, Model.base64DecodeRaw, C16_b64 s (s.length + 1) (Nat.lt_succ_self _)]
  · simp [Model.qpDecode, Model.qpDecodeRaw, C16_qp]
  · simp [Model.rfc2047Decode, C16_rfc2047]

open L0 in
/-- "None of them reads or writes out of bounds", the output side: the three decoders write their result through
the libks buffer (`buffer_alloc(strlen(str))` or `buffer_alloc(128)`, `buffer_putc` per byte, `buffer_printf("%s")`
for a decoded word, `buffer_putc(bf, '\0')`, `buffer_release`).  (The statement is about the buffer under ANY
sequence of such operations; that the decoders issue only these operations is by reading decode.c - the list-level
models append to a `List`, they do not call `LBuf`.)  For every size hint and every sequence of such
operations no write leaves the object, nothing is dropped, and the released object is a C string reading as the
bytes appended up to their first NUL.  (The input side - every read of the source string - is
`C07_L0_decoders_refine`; the buffer itself: `C07_L0_buffer_in_bounds`, `C07_L0_buffer_contents`.) -/
theorem C16_output_buffer_in_bounds (sizhint : Nat) (ops : List BufOp) :
    ∃ bf, (LBuf.alloc sizhint).run (ops ++ [.putc 0]) = .ok (bf, List.replicate (ops.length + 1) 0) ∧
      bf.store.size = bf.cap ∧ bf.len ≤ bf.cap ∧
      bf.release.1.view 0 = cstr (ops.flatMap BufOp.piece) ∧ bf.release.1.HasNul 0 := by
  obtain ⟨hwf, _, _, hc0⟩ := LBuf.alloc_wf sizhint
  obtain ⟨bf, hr, hwf', hv, hn⟩ := LBuf.run_putc0_release ops (LBuf.alloc sizhint) hwf hc0
  exact ⟨bf, hr, hwf'.size, hwf'.le, hv, hn⟩

/-! Non-vacuity: concrete non-trivial inputs on which the reference decoders decode. -/
example : Spec.b64 (ofString "aGVs bG8=") = some (ofString "hello") := by decide +kernel
example : Spec.b64 (ofString "aGVsbG9=") = none := by decide +kernel   -- non-zero trailing bits
example : Spec.qp false (ofString "a=3Db=\nc=3") = ofString "a=bc=3" := by decide +kernel
example : Spec.rfc2047 (ofString "=?utf-8?Q?a_b?= =?x?b?Yw==?= d") = ofString "a bc d" := by decide +kernel

/-! What the reference decoders do NOT do (the readings listed in the header, evaluated). -/
example : Spec.qp false (ofString "a=\r\nb= \nc=3d") = ofString "a=\r\nb= \nc=3d" := by decide +kernel
example : Spec.rfc2047 (ofString "=?utf-8?Q?a?= =?utf-8?X?b?=") = ofString "=?utf-8?Q?a?= =?utf-8?X?b?=" ∧
    Spec.rfc2047 (ofString "=?utf-8?Q?a?= x=?y") = ofString "=?utf-8?Q?a?= x=?y" ∧
    Spec.rfc2047 (ofString "=??q?a b?=c") = ofString "a bc" ∧
    Spec.rfc2047 (ofString "=?x?B?YQBi?=") = ofString "a" := by decide +kernel

/-- Non-vacuity of `C16_b64` (hypothesis `s.length < n`, as `base64_decode` calls it) on the model side: white space
inside, missing padding, text after the padding, a foreign character. -/
example : Model.b64pton (ofString "aGVs\n bG8=") 11 = some (ofString "hello") ∧ (ofString "aGVs\n bG8=").length < 11 ∧
    Model.b64pton (ofString "aGVsbG8") 8 = none ∧ Model.b64pton (ofString "aGVsbG8=x") 10 = none ∧
    Model.b64pton (ofString "aGV$bG8=") 9 = none := by decide +kernel

/-! ## The model against the RFC readings (`Spec/DecodeRFC.lean`) -/

/-- `quoted_printable_decode_buffer` is the RFC 2045 decoder `Spec.qpRFC` on every input whose soft line breaks all
have the bare form `=LF`: `QpLFOnly s` says that no `=` of `s` is followed by blanks* CR LF, or by blanks+ LF. -/
theorem C16_qp_vs_rfc (us : Bool) (s : Bytes) (h : Spec.QpLFOnly s = true) :
    Model.qpLoop us s [] = Spec.qpRFC us s := by
  rw [C16_qp]; exact Proofs.qp_eq_qpRFC us s h

/-- The hypothesis of `C16_qp_vs_rfc` is exact: the model differs from `Spec.qpRFC` on EVERY input that contains a
`=CRLF` or a soft line break with transport padding. -/
theorem C16_qp_vs_rfc_iff (us : Bool) (s : Bytes) :
    Model.qpLoop us s [] = Spec.qpRFC us s ↔ Spec.QpLFOnly s = true := by
  rw [C16_qp]; exact Proofs.qp_eq_qpRFC_iff us s

/-- A simpler sufficient condition: no CR anywhere in `s` and no `=` directly followed by a blank. -/
theorem C16_qp_vs_rfc_simple (us : Bool) (s : Bytes) (h : Spec.QpNoCRNoPad s = true) :
    Model.qpLoop us s [] = Spec.qpRFC us s :=
  C16_qp_vs_rfc us s (Proofs.QpLFOnly_of_NoCRNoPad s h)

/-- Non-vacuity: soft line breaks, escapes, a lone `=`, lower-case hex, a CR and blanks that belong to no soft line
break all satisfy the hypotheses, and something is decoded. -/
example : Spec.QpLFOnly (ofString "a=\nb=3Dc =\n=\n=3d \r\n x=") = true ∧
    Spec.qpRFC false (ofString "a=\nb=3Dc =\n=\n=3d \r\n x=") = ofString "ab=c =3d \r\n x=" ∧
    Spec.QpNoCRNoPad (ofString "a=\nb=3Dc =\n=\n=3d \n x=") = true := by decide +kernel

/-- Deviation of decode.c from RFC 2045 (1): the canonical soft line break `=CRLF` is not removed. -/
theorem C16_qp_deviation_crlf :
    Model.qpLoop false (ofString "foo=\r\nbar") [] = ofString "foo=\r\nbar" ∧
    Spec.qpRFC false (ofString "foo=\r\nbar") = ofString "foobar" := by decide +kernel

/-- Deviation of decode.c from RFC 2045 (2): transport padding (blanks between `=` and the line end, rule 3) makes
the soft line break invisible to decode.c. -/
theorem C16_qp_deviation_padding :
    Model.qpLoop false (ofString "foo= \nbar=\t\nbaz") [] = ofString "foo= \nbar=\t\nbaz" ∧
    Spec.qpRFC false (ofString "foo= \nbar=\t\nbaz") = ofString "foobarbaz" := by decide +kernel

/-- `rfc2047_decode` is the RFC 2047 decoder `Spec.rfc2047RFC` on every well-formed value: (1) every `=?` begins an
encoded word of the RFC grammar (charset and encoding tokens, non-empty encoded-text of printable characters without
`?`, B or Q, valid base64 in a B word) that is delimited by linear white space or the ends of the value, (2) no B word
decodes to a NUL, (3) the white space between adjacent words holds no VT / FF. -/
theorem C16_rfc2047_vs_rfc (s : Bytes) (h : Spec.WellFormed2047 s = true) :
    Model.rfc2047DecodeRaw s = Spec.rfc2047RFC s := by
  rw [C16_rfc2047]; exact Proofs.rfc2047_eq_RFC s h

/-- On well-formed values the property reading (raw fallback per VALUE) and the reading of RFC 2047 itself (a malformed
word is left alone, word by word) are the same function; they differ only on values containing a malformed word. -/
theorem C16_rfc2047_readings_agree (s : Bytes) (h : Spec.WellFormed2047 s = true) :
    Spec.rfc2047RFC s = Spec.rfc2047PerWord s :=
  Proofs.rfc2047RFC_eq_perWord s h

/-- What the callers see (C strings), under the same hypotheses. -/
theorem C16_rfc_cstring_view (s : Bytes) :
    (Spec.QpLFOnly s = true → Model.qpDecode s = cstr (Spec.qpRFC false s)) ∧
    (Spec.WellFormed2047 s = true → Model.rfc2047Decode s = cstr (Spec.rfc2047RFC s)) := by
  refine ⟨fun h => ?_, fun h => ?_⟩
  · simp [Model.qpDecode, Model.qpDecodeRaw, C16_qp_vs_rfc false s h]
  · simp [Model.rfc2047Decode, C16_rfc2047_vs_rfc s h]

/-- Non-vacuity of `WellFormed2047`: B and Q words in both letter cases, adjacent words over a folded line, text
around them, a `=` before the closing `?=`, a lone `?=` and `=` in the text. -/
example : Spec.WellFormed2047 (ofString "Re: =?utf-8?Q?a_b=3D?=\n =?ISO-8859-1?b?Yw==?= d ?= = =?x?q?e=?=") = true ∧
    Spec.rfc2047RFC (ofString "Re: =?utf-8?Q?a_b=3D?=\n =?ISO-8859-1?b?Yw==?= d ?= = =?x?q?e=?=") =
      ofString "Re: a b=c d ?= = e=" := by decide +kernel

/-! One evaluated witness for each kind of input outside `WellFormed2047` on which `rfc2047_decode` is NOT the RFC
decoder (model value first, RFC reading second). -/

/-- Leniency (1): an empty charset and an empty encoded-text are accepted; the RFC grammar wants `1*`. -/
theorem C16_rfc2047_deviation_empty :
    Model.rfc2047DecodeRaw (ofString "=??q?a?=") = ofString "a" ∧
    Spec.rfc2047RFC (ofString "=??q?a?=") = ofString "=??q?a?=" ∧
    Model.rfc2047DecodeRaw (ofString "x =?u?q??= y") = ofString "x  y" ∧
    Spec.rfc2047RFC (ofString "x =?u?q??= y") = ofString "x =?u?q??= y" := by decide +kernel

/-- Leniency (2): blanks inside the encoded-text and an especial in the charset are accepted. -/
theorem C16_rfc2047_deviation_blank_in_word :
    Model.rfc2047DecodeRaw (ofString "=?x?q?a b?=") = ofString "a b" ∧
    Spec.rfc2047RFC (ofString "=?x?q?a b?=") = ofString "=?x?q?a b?=" ∧
    Model.rfc2047DecodeRaw (ofString "=?a b?q?x?=") = ofString "x" ∧
    Spec.rfc2047RFC (ofString "=?a b?q?x?=") = ofString "=?a b?q?x?=" := by decide +kernel

/-- Leniency (3): `?` inside the encoded-text - the text ends at the first `?=`, so a single `?` is payload and what
follows the first `?=` is text. -/
theorem C16_rfc2047_deviation_question_mark :
    Model.rfc2047DecodeRaw (ofString "=?x?q?a?b?=") = ofString "a?b" ∧
    Spec.rfc2047RFC (ofString "=?x?q?a?b?=") = ofString "=?x?q?a?b?=" ∧
    Model.rfc2047DecodeRaw (ofString "=?x?q?a?=?=") = ofString "a?=" ∧
    Spec.rfc2047RFC (ofString "=?x?q?a?=?=") = ofString "=?x?q?a?=?=" := by decide +kernel

/-- Leniency (4): a word glued to the text before or behind it is decoded; RFC 2047 5 (1) wants linear white space on
both sides (in an unstructured field).  (In a comment of a structured field `(=?x?q?a?=)` is legitimate; decode.c and
`rfc2047RFC` both know no field structure.) -/
theorem C16_rfc2047_deviation_glued :
    Model.rfc2047DecodeRaw (ofString "x=?u?q?a?=") = ofString "xa" ∧
    Spec.rfc2047RFC (ofString "x=?u?q?a?=") = ofString "x=?u?q?a?=" ∧
    Model.rfc2047DecodeRaw (ofString "=?u?q?a?=x") = ofString "ax" ∧
    Spec.rfc2047RFC (ofString "=?u?q?a?=x") = ofString "=?u?q?a?=x" ∧
    Model.rfc2047DecodeRaw (ofString "=?u?q?a?==?u?q?b?=") = ofString "ab" ∧
    Spec.rfc2047RFC (ofString "=?u?q?a?==?u?q?b?=") = ofString "=?u?q?a?==?u?q?b?=" := by decide +kernel

/-- A valid word next to a malformed one stays ENCODED: decode.c and the property reading agree (C10: "a value
containing a malformed encoded word is matched in its raw form"); RFC 2047 itself would decode the valid word. -/
theorem C16_rfc2047_deviation_all_or_nothing :
    Model.rfc2047DecodeRaw (ofString "=?u?q?a?= =?u?x?b?=") = ofString "=?u?q?a?= =?u?x?b?=" ∧
    Spec.rfc2047RFC (ofString "=?u?q?a?= =?u?x?b?=") = ofString "=?u?q?a?= =?u?x?b?=" ∧
    Spec.rfc2047PerWord (ofString "=?u?q?a?= =?u?x?b?=") = ofString "a =?u?x?b?=" ∧
    Model.rfc2047DecodeRaw (ofString "=?u?q?a?= =?") = ofString "=?u?q?a?= =?" ∧
    Spec.rfc2047PerWord (ofString "=?u?q?a?= =?") = ofString "a =?" := by decide +kernel

/-- The NUL cut: a B word is appended with `"%s"`, so its octets after a NUL are lost while the text behind the word
is kept. -/
theorem C16_rfc2047_deviation_nul_cut :
    Model.rfc2047DecodeRaw (ofString "=?u?B?YQBi?= c") = ofString "a c" ∧
    Spec.rfc2047RFC (ofString "=?u?B?YQBi?= c") = ofString "a\x00b c" ∧
    Model.rfc2047Decode (ofString "=?u?B?YQBi?= c") = ofString "a c" ∧
    cstr (Spec.rfc2047RFC (ofString "=?u?B?YQBi?= c")) = ofString "a" := by decide +kernel

/-- `isspace` against linear white space: VT / FF between two words are dropped with the blanks. -/
theorem C16_rfc2047_deviation_vt :
    Model.rfc2047DecodeRaw (ofString "=?u?q?a?= \x0b =?u?q?b?=") = ofString "ab" ∧
    Spec.rfc2047RFC (ofString "=?u?q?a?= \x0b =?u?q?b?=") = ofString "a \x0b b" := by decide +kernel

/-- No deviation, but worth seeing: the charset is ignored by decode.c AND by `rfc2047RFC` (octets are not converted;
a reader displaying the header would convert), and lower-case hex is copied by both. -/
example : Model.rfc2047DecodeRaw (ofString "=?utf-8?q?=E4?=") = [0xE4] ∧
    Model.rfc2047DecodeRaw (ofString "=?iso-8859-1?q?=E4?=") = [0xE4] ∧
    Spec.rfc2047RFC (ofString "=?utf-8?q?=E4?=") = [0xE4] ∧ Spec.rfc2047RFC (ofString "=?iso-8859-1?q?=E4?=") = [0xE4] ∧
    Model.rfc2047DecodeRaw (ofString "=?u?q?=e4?=") = ofString "=e4" ∧
    Spec.rfc2047RFC (ofString "=?u?q?=e4?=") = ofString "=e4" := by decide +kernel

end Mdsort.Props
