import Mdsort.Model.Decode
import Mdsort.Spec.Decode
import Mdsort.Proofs.Decode
import Mdsort.Proofs.L0Buffer

/-!
# C16 - the transfer decoders are correct and total

Property theorems only; helper lemmas live in `Proofs/Decode.lean`.
`Model.*` is the transcription of decode.c (tied to the C code by the
correspondence run of `tools/props/c16.py`), `Spec.*` the reference decoders.
Totality ("quoted-printable and header decoding never fail", "terminates for
every input") is carried by the types: every `Model` function below is a total
Lean function (`qpLoop`, `rfc2047Loop` by well-founded recursion on the input
length), and `qpDecode`/`rfc2047Decode` return `Bytes`, not `Option Bytes`.

Audit notes on the reference decoders (`Spec/Decode.lean`, written without looking at the loops of decode.c; it
imports neither the model nor the generated table).  `Spec.b64` is RFC 4648 section 4 as a mathematician would write
it (value table, 24-bit groups by arithmetic, padding by `k mod 4`, white space filtered first).  The other two are
the PROPERTY TEXT rather than the RFCs, where these differ:
* `Spec.qp` knows the soft line break `=LF` only: `=CRLF` (the form of RFC 2045) and `= LF` (transport padding
  before the break) are copied unchanged, and lower-case hex is not decoded (evaluated below);
* `Spec.rfc2047` is all-or-nothing: if ANY `=?` of the string does not start a well-formed word (or a B word is
  not valid base64) the WHOLE input is returned unchanged - words that are well formed included ("malformed
  sequences are passed through unchanged" read as the code reads it); a word is accepted with an empty charset,
  with blanks inside, and glued to other text; the charset is ignored; a decoded B word is cut at its first NUL.
The correspondence is therefore "model = property-text decoder", not "model = MIME decoder"; the differences to the RFCs
are visible here and nowhere hidden in the proofs.
-/

namespace Mdsort.Props
open Mdsort

/-- The alphabet table regenerated from decode.c is RFC 4648's Table 1, and the pad is `=`.  (`Model.b64idx` is
`strchr` in `Gen.base64Alphabet`, the string literal `Base64[]` of the decode.c under check; `Spec.b64val` is written out
by ranges.  Exchanging two letters of the C table makes this statement false.) -/
theorem C16_alphabet : (∀ c : UInt8, Model.b64idx c = (Spec.b64val c).map UInt8.ofNat) ∧ Gen.pad64 = 61 :=
  Proofs.b64idx_eq_b64val

/-- `b64_pton` with any target larger than the input (base64_decode passes `strlen + 1`)
computes exactly the reference decoder: for every byte string. -/
theorem C16_b64 (s : Bytes) (n : Nat) (h : s.length < n) : Model.b64pton s n = Spec.b64 s :=
  Proofs.b64pton_eq_spec s n h

/-- Why the target never overflows: three bytes per four input characters. -/
theorem C16_b64_len (s out : Bytes) (h : Spec.b64 s = some out) : 4 * out.length ≤ 3 * s.length :=
  Proofs.b64_spec_len s out h

/-- The quoted-printable loop (body mode and header mode) is the reference decoder. -/
theorem C16_qp (us : Bool) (s : Bytes) : Model.qpLoop us s [] = Spec.qp us s :=
  Proofs.qpLoop_eq_spec us s

/-- `rfc2047_decode` is the reference encoded-word decoder, including the "return the
input unchanged" behaviour on any malformed word. -/
theorem C16_rfc2047 (s : Bytes) : Model.rfc2047DecodeRaw s = Spec.rfc2047 s :=
  Proofs.rfc2047_eq_spec s

/-- The three public functions return C strings: callers see the reference result up to
its first NUL. -/
theorem C16_cstring_view (s : Bytes) :
    Model.base64Decode s = (Spec.b64 s).map cstr ∧
    Model.qpDecode s = cstr (Spec.qp false s) ∧
    Model.rfc2047Decode s = cstr (Spec.rfc2047 s) := by
  refine ⟨?_, ?_, ?_⟩
  · simp [Model.base64Decode, Model.base64DecodeRaw, C16_b64 s (s.length + 1) (Nat.lt_succ_self _)]
  · simp [Model.qpDecode, Model.qpDecodeRaw, C16_qp]
  · simp [Model.rfc2047Decode, C16_rfc2047]

open L0 in
/-- "None of them reads or writes out of bounds", the output side: the three decoders write their result through
the libks buffer (`buffer_alloc(strlen(str))` or `buffer_alloc(128)`, `buffer_putc` per byte, `buffer_printf("%s")`
for a decoded word, `buffer_putc(bf, '\0')`, `buffer_release`).  (The statement is about the buffer under ANY
sequence of such operations; that the decoders issue only these operations is by reading decode.c - the list-level
models append to a `List`, they do not call `LBuf`.)  For every size hint and every sequence of such
operations no write leaves the object, nothing is dropped, and the released object is a C string reading as the
bytes appended up to their first NUL.  (The input side - every read of the source string - is
`C07_L0_decoders_refine`; the buffer itself: `C07_L0_buffer_in_bounds`, `C07_L0_buffer_contents`.) -/
theorem C16_output_buffer_in_bounds (sizhint : Nat) (ops : List BufOp) :
    ∃ bf, (LBuf.alloc sizhint).run (ops ++ [.putc 0]) = .ok (bf, List.replicate (ops.length + 1) 0) ∧
      bf.store.size = bf.cap ∧ bf.len ≤ bf.cap ∧
      bf.release.1.view 0 = cstr (ops.flatMap BufOp.piece) ∧ bf.release.1.HasNul 0 := by
  obtain ⟨hwf, _, _, hc0⟩ := LBuf.alloc_wf sizhint
  obtain ⟨bf, hr, hwf', hv, hn⟩ := LBuf.run_putc0_release ops (LBuf.alloc sizhint) hwf hc0
  exact ⟨bf, hr, hwf'.size, hwf'.le, hv, hn⟩

/-! Non-vacuity: concrete non-trivial inputs on which the reference decoders decode. -/
example : Spec.b64 (ofString "aGVs bG8=") = some (ofString "hello") := by decide +kernel
example : Spec.b64 (ofString "aGVsbG9=") = none := by decide +kernel   -- non-zero trailing bits
example : Spec.qp false (ofString "a=3Db=\nc=3") = ofString "a=bc=3" := by decide +kernel
example : Spec.rfc2047 (ofString "=?utf-8?Q?a_b?= =?x?b?Yw==?= d") = ofString "a bc d" := by decide +kernel

/-! What the reference decoders do NOT do (the readings listed in the header, evaluated). -/
example : Spec.qp false (ofString "a=\r\nb= \nc=3d") = ofString "a=\r\nb= \nc=3d" := by decide +kernel
example : Spec.rfc2047 (ofString "=?utf-8?Q?a?= =?utf-8?X?b?=") = ofString "=?utf-8?Q?a?= =?utf-8?X?b?=" ∧
    Spec.rfc2047 (ofString "=?utf-8?Q?a?= x=?y") = ofString "=?utf-8?Q?a?= x=?y" ∧
    Spec.rfc2047 (ofString "=??q?a b?=c") = ofString "a bc" ∧
    Spec.rfc2047 (ofString "=?x?B?YQBi?=") = ofString "a" := by decide +kernel

/-- Non-vacuity of `C16_b64` (hypothesis `s.length < n`, as `base64_decode` calls it) on the model side: white space
inside, missing padding, text after the padding, a foreign character. -/
example : Model.b64pton (ofString "aGVs\n bG8=") 11 = some (ofString "hello") ∧ (ofString "aGVs\n bG8=").length < 11 ∧
    Model.b64pton (ofString "aGVsbG8") 8 = none ∧ Model.b64pton (ofString "aGVsbG8=x") 10 = none ∧
    Model.b64pton (ofString "aGV$bG8=") 9 = none := by decide +kernel

end Mdsort.Props
