import Mdsort.Proofs.Mime

/-!
# C11 - body and attachment conditions operate on the decoded MIME content

`Model.*` transcribes `parseboundary`, `findboundary`, `parseattachments`,
`message_get_attachments`, `message_decode_body`, `message_get_body`;
`Spec.parts` / `Spec.decodedBody` (Spec/Mime.lean) read the same entity line by
line per the RFC 2046 subset mdsort documents.  Both are instantiated with the
same entity reader (`Model.entity`: header lookup and entity parsing, whose own
correctness is C08/C10).  How `attachment` conditions and blocks quantify over
the parts, and that errors never count as a match, is in Props/C03.lean (evaluator).

Hypothesis `Proofs.BoundaryOk` (an executable `Bool`, Proofs/Mime.lean): no multipart entity
reached by the traversal announces a boundary containing a newline.  RFC 2046 boundaries never
do; without it the statements are false (`C11_parts_unrestricted_false`,
`C11_body_unrestricted_false`).
-/

namespace Mdsort.Props
open Mdsort Mdsort.Model

/-- The parts `message_get_attachments` delivers are, for every entity, exactly the parts
of the MIME tree in pre-order; an invalid boundary parameter, a missing terminator or
nesting beyond the limit is an error (`none`), never a shorter list.
Hypothesis `BoundaryOk`: every multipart entity of the tree has a newline-free boundary
(mdsort RFC 2047-decodes the Content-Type value, so `=?x?Q?a=0A?=` can smuggle a newline into
the boundary; `findboundary` then matches a "delimiter" spanning two lines, which no
line-based reading of RFC 2046 can). -/
theorem C11_parts (m : Msg) (h : Proofs.BoundaryOk (Gen.mimeDepthLimit + 1) m = true) :
    getAttachments m = Spec.parts entity (Gen.mimeDepthLimit + 1) m :=
  Proofs.parseAttachments_eq_spec_partial (Gen.mimeDepthLimit + 1) m h

/-- The body a `body` condition (and `exec stdin body`) sees: decoded by the entity's own
Content-Transfer-Encoding; for multipart/alternative the first text/plain part, else the
first text/html part, else the raw body; undecodable base64 is an error.
Hypothesis `BoundaryOk` as for `C11_parts` (it only matters for multipart/alternative, whose
parts are enumerated). -/
theorem C11_body (m : Msg) (h : Proofs.BoundaryOk (Gen.mimeDepthLimit + 1) m = true) :
    getBody m = Spec.decodedBody entity Gen.mimeDepthLimit m :=
  Proofs.getBody_eq_spec_partial m h

/-- The supported nesting depth (regenerated from message.c). -/
theorem C11_depth_limit : Gen.mimeDepthLimit = 4 := by decide

/-! ## The statements without the hypothesis, and why they fail -/

/-- `C11_parts` for every message: false. -/
def C11_parts_unrestricted : Prop :=
  ∀ m : Msg, getAttachments m = Spec.parts entity (Gen.mimeDepthLimit + 1) m

/-- `C11_body` for every message: false. -/
def C11_body_unrestricted : Prop :=
  ∀ m : Msg, getBody m = Spec.decodedBody entity Gen.mimeDepthLimit m

/-- Counterexample `Proofs.cexParts`: `Content-Type: multipart/;boundary="=?x?Q?a=0A?="` with
body `--a\n\n--a\n--\n`.  The decoded boundary is `a\n`; the model finds the separator
`--a\n` + `\n` and the terminator `--a\n` + `--\n` and delivers one empty part, the
specification sees no line equal to `--a\n` and reports the missing terminator. -/
theorem C11_parts_unrestricted_false : ¬ C11_parts_unrestricted := by
  intro h
  have := h Proofs.cexParts
  rw [Proofs.cexParts_model, Proofs.cexParts_spec] at this
  cases this

/-- Counterexample `Proofs.cexBody` (the same with `multipart/alternative`): the model returns
the raw body (one part, neither text/plain nor text/html), the specification an error. -/
theorem C11_body_unrestricted_false : ¬ C11_body_unrestricted := by
  intro h
  have := h Proofs.cexBody
  rw [Proofs.cexBody_model, Proofs.cexBody_spec] at this
  cases this

/-! ## Non-vacuity -/

/-- A two-part multipart/alternative message with preamble and epilogue (one header per
entity: the kernel evaluates `List.mergeSort` only on singletons). -/
def C11_sample : Msg := parseHeaders (ofString
  "Content-Type: multipart/alternative; boundary=\"b\"\n\npreamble\n--b\nContent-Type: text/html\n\n<p>hi</p>\n--b\nContent-Type: text/plain\n\nhello!\n--b--\nepilogue\n")

/-- The hypothesis holds for it, it has two parts, and its body is the text/plain part. -/
example :
    Proofs.BoundaryOk (Gen.mimeDepthLimit + 1) C11_sample = true ∧
    (getAttachments C11_sample).map List.length = some 2 ∧
    (Spec.parts entity (Gen.mimeDepthLimit + 1) C11_sample).map List.length = some 2 ∧
    getBody C11_sample = some (ofString "hello!\n") := by
  decide +kernel

end Mdsort.Props
