import Mdsort.Proofs.Mime
import Mdsort.Proofs.MimeBoundaryRFC
import Mdsort.Proofs.AttachmentCond
import Mdsort.Proofs.ExecStdin
import Mdsort.Proofs.ExecSeqEx

/-!
# C11 - body and attachment conditions operate on the decoded MIME content

`Model.*` transcribes `parseboundary`, `findboundary`, `parseattachments`,
`message_get_attachments`, `message_decode_body`, `message_get_body`;
`Spec.parts` / `Spec.decodedBody` (Spec/Mime.lean) read the same entity line by
line per the RFC 2046 subset mdsort documents.  Both are instantiated with the
same entity reader (`Model.entity`: header lookup and entity parsing, whose own
correctness is C08/C10).  How `attachment` conditions and blocks quantify over
the parts, and that errors never count as a match, is `C11_attachment_cond` /
`C11_attachment_block` below (against Spec/Attachment.lean); what an exec action
receives on its standard input is `C11_exec_stdin` (against Spec/ExecStdin.lean).

What is independent in `Spec/Mime.lean` (audit au2, after /repo 098cbec).  Independently written: the cutting of a
body into parts (`Spec.cutParts` compares whole LINES, `Model.findBoundary` scans bytes), the pre-order listing and the
depth limit, the choice among alternatives (`find?` twice against the one-pass `pickAlternative`), the transfer decoders
(`Spec.b64`, `Spec.qp`: C16), and - since 098cbec made message.c case-insensitive - the recognition of the media type
(`Spec.isType`: the text before the first `;` is the RFC 2045 token pair, compared without regard to case, against the
model's `strncasecmp` prefix test followed by "`;` or end") and of the transfer encoding (`Spec.decoded`: token
comparison against `strcasecmp`).  The boundary PARAMETER is read in two ways: `Spec.boundaryParam` (used by
`Spec.parts`) follows `parseboundary` on purpose - first parameter, quoted - and `Spec.boundaryParamRFC` is the RFC 2045
parameter scanner (any position, token or quoted-string).  `C11_boundary_param_partial` proves the model equal to the RFC
reading on the former form; `C11_boundary_param_token_witness` / `_not_first_witness` evaluate the difference, which is
the listed finding F30 (`attachment` conditions silently do not match such messages).

Hypothesis `Proofs.BoundaryOk` (an executable `Bool`, Proofs/Mime.lean): no multipart entity
reached by the traversal announces a boundary containing a newline.  RFC 2046 boundaries never
do; without it the statements are false (`C11_parts_unrestricted_false`,
`C11_body_unrestricted_false`).
-/

namespace Mdsort.Props
open Mdsort Mdsort.Model

/-- The parts `message_get_attachments` delivers are, for every entity, exactly the parts
of the MIME tree in pre-order; an invalid boundary parameter, a missing terminator or
nesting beyond the limit is an error (`none`), never a shorter list.
Hypothesis `BoundaryOk`: every multipart entity of the tree has a newline-free boundary
(mdsort RFC 2047-decodes the Content-Type value, so `=?x?Q?a=0A?=` can smuggle a newline into
the boundary; `findboundary` then matches a "delimiter" spanning two lines, which no
line-based reading of RFC 2046 can). -/
theorem C11_parts (m : Msg) (h : Proofs.BoundaryOk (Gen.mimeDepthLimit + 1) m = true) :
    getAttachments m = Spec.parts entity (Gen.mimeDepthLimit + 1) m :=
  Proofs.parseAttachments_eq_spec_partial (Gen.mimeDepthLimit + 1) m h

/-- The body a `body` condition (and `exec stdin body`) sees: decoded by the entity's own
Content-Transfer-Encoding; for multipart/alternative the first text/plain part, else the
first text/html part, else the raw body; undecodable base64 is an error.
Hypothesis `BoundaryOk` as for `C11_parts` (it only matters for multipart/alternative, whose
parts are enumerated). -/
theorem C11_body (m : Msg) (h : Proofs.BoundaryOk (Gen.mimeDepthLimit + 1) m = true) :
    getBody m = Spec.decodedBody entity Gen.mimeDepthLimit m :=
  Proofs.getBody_eq_spec_partial m h

/-- The supported nesting depth (regenerated from message.c). -/
theorem C11_depth_limit : Gen.mimeDepthLimit = 4 := by decide

/-! ## Media type, transfer encoding, boundary parameter (RFC 2045) -/

/-- Letter case does not matter (098cbec): type, subtype, the keyword `boundary`, the encoding name. -/
example :
    Spec.boundaryParam (ofString "multipart/mixed; boundary=\"b\"") = .some (ofString "b") ∧
    Spec.boundaryParam (ofString "Multipart/Mixed; BOUNDARY=\"b\"") = .some (ofString "b") ∧
    Spec.boundaryParamRFC (ofString "Multipart/Mixed; BOUNDARY=\"b\"") = .some (ofString "b") ∧
    Spec.isType (some (ofString "Text/PLAIN; charset=x")) (ofString "text/plain") = true ∧
    Spec.isType (some (ofString "text/plainer")) (ofString "text/plain") = false ∧
    (getAttachments (parseHeaders (ofString "Content-Type: MULTIPART/Mixed; Boundary=\"b\"\n\n--b\n\nhello\n--b--\n"))).map List.length = some 1 ∧
    getBody (parseHeaders (ofString "Content-Transfer-Encoding: BASE64\n\naGVsbG8=\n")) = some (ofString "hello") ∧
    Spec.decodedBody entity Gen.mimeDepthLimit
      (parseHeaders (ofString "Content-Transfer-Encoding: Base64\n\naGVsbG8=\n")) = some (ofString "hello") ∧
    getBody (parseHeaders (ofString "Content-Transfer-Encoding: Quoted-Printable\n\na=3Db\n")) = some (ofString "a=b\n") := by
  decide +kernel

/-- **`parseboundary` against RFC 2045, partial.**  For every Content-Type value of the form `Proofs.FirstQuoted ct b` -
`multipart` (any case) `/` subtype, blanks, `;`, blanks, `boundary` (any case) `="`, the text `b` without a `"`, `"`,
anything - the model's `parseBoundary` and the RFC parameter scanner `Spec.boundaryParamRFC` agree, and give `b`
(invalid if `b` is empty).  Outside that form they differ: the two witnesses below (finding F30). -/
theorem C11_boundary_param_partial (ct b : Bytes) (h : Proofs.FirstQuoted ct b) :
    Proofs.boundaryToSpec (parseBoundary ct) = Spec.boundaryParamRFC ct ∧
    Spec.boundaryParamRFC ct = if b.isEmpty then .bad else .some b := by
  rw [← Proofs.boundaryParam_eq, Proofs.mdsort_of_firstQuoted ct b h, Proofs.rfc_of_firstQuoted ct b h]
  exact ⟨rfl, rfl⟩

/-- Non-vacuity: `Multipart/Signed ;  BOUNDARY="b1"; protocol="application/pgp-signature"`. -/
example : Proofs.FirstQuoted (ofString "Multipart/Signed ;  BOUNDARY=\"b1\"; protocol=\"application/pgp-signature\"")
    (ofString "b1") :=
  ⟨ofString "Multipart", ofString "Signed", ofString " ", ofString "  ", ofString "BOUNDARY",
   ofString "; protocol=\"application/pgp-signature\"", by decide +kernel, by decide +kernel, by decide +kernel,
   by decide +kernel, by decide +kernel, by decide +kernel, by decide +kernel⟩

/-- F30, token form: `multipart/mixed; boundary=b1` - RFC 2045: boundary `b1`; `parseboundary`: not multipart.  On the
whole message the RFC reading sees one part, the model (as message.c) none and no error. -/
theorem C11_boundary_param_token_witness :
    Spec.boundaryParamRFC (ofString "multipart/mixed; boundary=b1") = .some (ofString "b1") ∧
    parseBoundary (ofString "multipart/mixed; boundary=b1") = .notMultipart ∧
    (Spec.partsRFC entity (Gen.mimeDepthLimit + 1)
      (parseHeaders (ofString "Content-Type: multipart/mixed; boundary=b1\n\n--b1\n\nhello\n--b1--\n"))).map List.length = some 1 ∧
    getAttachments (parseHeaders (ofString "Content-Type: multipart/mixed; boundary=b1\n\n--b1\n\nhello\n--b1--\n")) = some [] := by
  decide +kernel

/-- F30, another parameter first: `multipart/signed; protocol="application/pgp-signature"; boundary="b1"`. -/
theorem C11_boundary_param_not_first_witness :
    Spec.boundaryParamRFC (ofString "multipart/signed; protocol=\"application/pgp-signature\"; boundary=\"b1\"") =
      .some (ofString "b1") ∧
    parseBoundary (ofString "multipart/signed; protocol=\"application/pgp-signature\"; boundary=\"b1\"") = .notMultipart ∧
    (Spec.partsRFC entity (Gen.mimeDepthLimit + 1)
      (parseHeaders (ofString "Content-Type: multipart/signed; protocol=\"application/pgp-signature\"; boundary=\"b1\"\n\n--b1\n\nhello\n--b1--\n"))).map
        List.length = some 1 ∧
    getAttachments (parseHeaders (ofString "Content-Type: multipart/signed; protocol=\"application/pgp-signature\"; boundary=\"b1\"\n\n--b1\n\nhello\n--b1--\n")) = some [] := by
  decide +kernel

/-! ## The statements without the hypothesis, and why they fail -/

/-- `C11_parts` for every message: false. -/
def C11_parts_unrestricted : Prop :=
  ∀ m : Msg, getAttachments m = Spec.parts entity (Gen.mimeDepthLimit + 1) m

/-- `C11_body` for every message: false. -/
def C11_body_unrestricted : Prop :=
  ∀ m : Msg, getBody m = Spec.decodedBody entity Gen.mimeDepthLimit m

/-- Counterexample `Proofs.cexParts`: `Content-Type: multipart/;boundary="=?x?Q?a=0A?="` with
body `--a\n\n--a\n--\n`.  The decoded boundary is `a\n`; the model finds the separator
`--a\n` + `\n` and the terminator `--a\n` + `--\n` and delivers one empty part, the
specification sees no line equal to `--a\n` and reports the missing terminator. -/
theorem C11_parts_unrestricted_false : ¬ C11_parts_unrestricted := by
  intro h
  have := h Proofs.cexParts
  rw [Proofs.cexParts_model, Proofs.cexParts_spec] at this
  cases this

/-- Counterexample `Proofs.cexBody` (the same with `multipart/alternative`): the model returns
the raw body (one part, neither text/plain nor text/html), the specification an error. -/
theorem C11_body_unrestricted_false : ¬ C11_body_unrestricted := by
  intro h
  have := h Proofs.cexBody
  rw [Proofs.cexBody_model, Proofs.cexBody_spec] at this
  cases this

/-! ## Non-vacuity -/

/-- A two-part multipart/alternative message with preamble and epilogue (one header per
entity: the kernel evaluates `List.mergeSort` only on singletons). -/
def C11_sample : Msg := parseHeaders (ofString
  "Content-Type: multipart/alternative; boundary=\"b\"\n\npreamble\n--b\nContent-Type: text/html\n\n<p>hi</p>\n--b\nContent-Type: text/plain\n\nhello!\n--b--\nepilogue\n")

/-- The hypothesis holds for it, it has two parts, and its body is the text/plain part. -/
example :
    Proofs.BoundaryOk (Gen.mimeDepthLimit + 1) C11_sample = true ∧
    (getAttachments C11_sample).map List.length = some 2 ∧
    (Spec.parts entity (Gen.mimeDepthLimit + 1) C11_sample).map List.length = some 2 ∧
    getBody C11_sample = some (ofString "hello!\n") := by
  decide +kernel


/-! ## C11_attachment_cond: how `attachment c` and `attachment { ... }` quantify over the parts

`Spec.attachmentCond` / `Spec.attachmentBlock` (Spec/Attachment.lean) are stated on the trace of a
for-each run over the parts (`Spec.partTrace`: every part in order, the state threaded); the
evaluator's two loops (`expr_eval_attachment`, `expr_eval_attachment_block`) compute exactly that,
for every environment, message, sub-expression, part index and state. -/

/-- `attachment c`: a message whose MIME structure cannot be read (`getAttachments m = none`:
missing terminator, bad boundary parameter, nesting deeper than `C11_depth_limit`) is an error
and leaves the state alone - never a match.  Otherwise `c` is evaluated on the parts in order, the
state threaded, up to the first part whose result is not "no match", and that result is returned.
The index handed to the sub-evaluation is `Spec.partIndex part i` (`C11_part_index`). -/
theorem C11_attachment_cond (env : Env) (root : Msg) (lno : Nat) (e : Expr) (part : Nat) (m : Msg) (st : St) :
    eval env root (.attachment lno e) part m st =
      match getAttachments m with
      | none => (.error, st)
      | some ps => Spec.attachmentCond (fun i p s => eval env root e (Spec.partIndex part i) p s) ps st :=
  Proofs.eval_attachment_eq env root lno e part m st

/-- `attachment { ... }`: error on an unreadable MIME structure; otherwise the block is evaluated
on EVERY part in order unless it fails on one (then error at once), and the result is a match iff
it matched on at least one part. -/
theorem C11_attachment_block (env : Env) (root : Msg) (lno : Nat) (blk : Expr) (part : Nat) (m : Msg) (st : St) :
    eval env root (.attBlock lno blk) part m st =
      match getAttachments m with
      | none => (.error, st)
      | some ps => Spec.attachmentBlock (fun i p s => eval env root blk (Spec.partIndex part i) p s) ps st :=
  Proofs.eval_attBlock_eq env root lno blk part m st

/-- Parts of the message itself are numbered from 1 in table order; inside a part the index stays
that of the enclosing part. -/
theorem C11_part_index (i k : Nat) : Spec.partIndex 0 i = i + 1 ∧ Spec.partIndex (k + 1) i = k + 1 := ⟨rfl, rfl⟩

/-- What `Spec.attachmentCond` means for the per-part results `t`: match iff some part matches and
no earlier part is an error; error iff some part is an error and all earlier parts are no match;
no match iff every part is no match (then every part was evaluated); a decided result carries the
state of the deciding part, all earlier parts being no match. -/
theorem C11_attachment_cond_meaning {σ α : Type} (f : Nat → α → σ → Tri × σ) (ps : List α) (s : σ) :
    let t := Spec.partTrace f 0 ps s
    let res := Spec.attachmentCond f ps s
    (res.1 = .match ↔ ∃ as r bs, t = as ++ r :: bs ∧ r.1 = .match ∧ ∀ a ∈ as, a.1 ≠ .error) ∧
    (res.1 = .error ↔ ∃ as r bs, t = as ++ r :: bs ∧ r.1 = .error ∧ ∀ a ∈ as, a.1 = .nomatch) ∧
    (res.1 = .nomatch ↔ ∀ r ∈ t, r.1 = .nomatch) ∧
    (res.1 = .nomatch → res.2 = Spec.lastState t s) ∧
    (res.1 ≠ .nomatch → ∃ as bs, t = as ++ res :: bs ∧ ∀ a ∈ as, a.1 = .nomatch) :=
  Proofs.attachmentCond_meaning f ps s

/-- What `Spec.attachmentBlock` means: error iff the block fails on some part (the result is then
that part's, every earlier part evaluated without error); otherwise every part was evaluated (the
state is the one after the last part), match iff some part matched, no match iff none did. -/
theorem C11_attachment_block_meaning {σ α : Type} (f : Nat → α → σ → Tri × σ) (ps : List α) (s : σ) :
    let t := Spec.partTrace f 0 ps s
    let res := Spec.attachmentBlock f ps s
    (res.1 = .error ↔ ∃ r ∈ t, r.1 = .error) ∧
    (res.1 = .error → ∃ as bs, t = as ++ res :: bs ∧ ∀ a ∈ as, a.1 ≠ .error) ∧
    (res.1 = .match ↔ (∀ r ∈ t, r.1 ≠ .error) ∧ ∃ r ∈ t, r.1 = .match) ∧
    (res.1 = .nomatch ↔ ∀ r ∈ t, r.1 = .nomatch) ∧
    (res.1 ≠ .error → res.2 = Spec.lastState t s) :=
  Proofs.attachmentBlock_meaning f ps s

/-- With `C11_parts`: the parts quantified over are those of the MIME tree (`Spec.parts`). -/
theorem C11_attachment_cond_mime (env : Env) (root : Msg) (lno : Nat) (e : Expr) (part : Nat) (m : Msg) (st : St)
    (h : Proofs.BoundaryOk (Gen.mimeDepthLimit + 1) m = true) :
    eval env root (.attachment lno e) part m st =
      match Spec.parts entity (Gen.mimeDepthLimit + 1) m with
      | none => (.error, st)
      | some ps => Spec.attachmentCond (fun i p s => eval env root e (Spec.partIndex part i) p s) ps st :=
  Proofs.eval_attachment_mime env root lno e part m st h

theorem C11_attachment_block_mime (env : Env) (root : Msg) (lno : Nat) (blk : Expr) (part : Nat) (m : Msg) (st : St)
    (h : Proofs.BoundaryOk (Gen.mimeDepthLimit + 1) m = true) :
    eval env root (.attBlock lno blk) part m st =
      match Spec.parts entity (Gen.mimeDepthLimit + 1) m with
      | none => (.error, st)
      | some ps => Spec.attachmentBlock (fun i p s => eval env root blk (Spec.partIndex part i) p s) ps st :=
  Proofs.eval_attBlock_mime env root lno blk part m st h

/-! ### Non-vacuity: the two-part `C11_sample` -/

/-- A pattern matches the subjects it is a prefix of; the pattern `!` makes the engine fail. -/
def C11_env : Env where
  rx := fun p s => if p.src.isPrefixOf s then .ok [some (0, p.src.length)] else if p.src == [33] then .error else .nomatch
  command := fun _ => 0
  isDir := fun _ => false
  now := 0
  strptime := fun _ => none
  zoneName := fun _ => none
  fileTime := fun _ => none
  dryrun := false
  path := ofString "/m/new/1"

def C11_st0 : St := { ml := [], flags := MFlags.empty }

def C11_part1 : Msg := parseHeaders (ofString "Content-Type: text/html\n\n<p>hi</p>\n")
def C11_part2 : Msg := parseHeaders (ofString "Content-Type: text/plain\n\nhello!\n")

/-- The attachment table of the sample. -/
theorem C11_sample_parts : getAttachments C11_sample = some [C11_part1, C11_part2] := by decide +kernel

/-- `attachment body /hello/`: part 1 (text/html) does not match, part 2 (text/plain) does; the
match entry is recorded for part number 2.  `attachment body /<p>/` stops at part 1.
`attachment body /zzz/` looks at both parts and does not match.  `attachment body /!/` (the engine
fails on part 1) is an error. -/
example :
    ((eval C11_env C11_sample (.attachment 1 (.body 1 { src := ofString "hello" })) 0 C11_sample C11_st0).1 = .match ∧
     (eval C11_env C11_sample (.attachment 1 (.body 1 { src := ofString "hello" })) 0 C11_sample C11_st0).2.ml.map (·.part) = [2]) ∧
    ((eval C11_env C11_sample (.attachment 1 (.body 1 { src := ofString "<p>" })) 0 C11_sample C11_st0).1 = .match ∧
     (eval C11_env C11_sample (.attachment 1 (.body 1 { src := ofString "<p>" })) 0 C11_sample C11_st0).2.ml.map (·.part) = [1]) ∧
    (eval C11_env C11_sample (.attachment 1 (.body 1 { src := ofString "zzz" })) 0 C11_sample C11_st0).1 = .nomatch ∧
    (eval C11_env C11_sample (.attachment 1 (.body 1 { src := ofString "!" })) 0 C11_sample C11_st0).1 = .error := by
  simp only [eval, eval.loop, C11_sample_parts]
  decide +kernel

/-- `attachment { match all exec stdin "cat" }` runs on both parts: two sentinel entries and two
exec entries, for parts 1 and 2; `attachment { match body /hello/ discard }` matches although
part 1 does not. -/
example :
    ((eval C11_env C11_sample (.attBlock 1 (.mtch 2 (.all 2) (.exec 2 true false [ofString "cat"]))) 0 C11_sample C11_st0).1 = .match ∧
     (eval C11_env C11_sample (.attBlock 1 (.mtch 2 (.all 2) (.exec 2 true false [ofString "cat"]))) 0 C11_sample C11_st0).2.ml.map
        (fun m => (m.ty, m.part)) = [(.mtch, 1), (.exec, 1), (.mtch, 2), (.exec, 2)]) ∧
    (eval C11_env C11_sample (.attBlock 1 (.mtch 2 (.body 2 { src := ofString "hello" }) (.discard 2))) 0 C11_sample C11_st0).1 = .match ∧
    (eval C11_env C11_sample (.attBlock 1 (.mtch 2 (.body 2 { src := ofString "!" }) (.discard 2))) 0 C11_sample C11_st0).1 = .error := by
  simp only [eval, eval.loopB, C11_sample_parts]
  decide +kernel

/-- A multipart message without terminator: both forms are an error and nothing is recorded. -/
def C11_unterminated : Msg := parseHeaders (ofString "Content-Type: multipart/mixed; boundary=\"b\"\n\n--b\nx\n")

theorem C11_unterminated_parts : getAttachments C11_unterminated = none := by decide +kernel

example :
    (eval C11_env C11_unterminated (.attachment 1 (.all 1)) 0 C11_unterminated C11_st0).1 = .error ∧
    (eval C11_env C11_unterminated (.attachment 1 (.all 1)) 0 C11_unterminated C11_st0).2.ml = [] ∧
    (eval C11_env C11_unterminated (.attBlock 1 (.all 1)) 0 C11_unterminated C11_st0).1 = .error := by
  simp only [eval, C11_unterminated_parts]
  decide

/-! ## C11_exec_stdin: what `message_get_fd` hands to exec

`Model.messageGetFd` transcribes `message_get_fd` / `writefd` / `message_write` (message.c) as a
program over libc calls; `runOracle` gives every call an ARBITRARY result.  `Spec.HandedOver`
(Spec/ExecStdin.lean) says, on the trace of calls alone, which of the three sources the
descriptor was filled from. -/

/-- Whenever `message_get_fd` returns a descriptor `fd`: the last call is `lseek(fd, 0)` and it
succeeded; no call before it failed; and before it
(a) `stdin body`: `fd` is a fresh unlinked temporary file and the bytes it accepted through
    `write` (of each write the `n` bytes taken) are exactly `cstr (getBody target)`, target = the
    part if given, else the message - the decoded body of `C11_body`;
(b) a part without `body`: `fd` is a fresh unlinked temporary file whose stdio duplicate was handed
    exactly `(messageWrite part).1`, flushed, synced and closed;
(c) otherwise `fd` is a duplicate of the message's own descriptor. -/
theorem C11_exec_stdin (env : PEnv) (ms : MsgSt) (part : Option Msg) (dobody : Bool)
    (orc : Nat → Call → Res) (i : Nat) (tr : List (Call × Res)) (fd : Handle)
    (h : (runOracle orc (messageGetFd env ms part dobody) i tr).1 = some fd) :
    ∃ L0 r, (runOracle orc (messageGetFd env ms part dobody) i tr).2 = tr ++ L0 ++ [(.lseek fd, r)] ∧
      r.isErr = false ∧ (∀ x ∈ L0, Spec.failed x = false) ∧ Spec.HandedOver env ms part dobody fd L0 :=
  Proofs.exec_stdin_handed_over env ms part dobody orc i tr fd h

/-- A descriptor is returned iff the source is obtainable (decodable body, template within
`PATH_MAX`, message descriptor present) and every call succeeds, writes being complete or short
but positive. -/
theorem C11_exec_stdin_delivered_iff (env : PEnv) (ms : MsgSt) (part : Option Msg) (dobody : Bool)
    (orc : Nat → Call → Res) (i : Nat) (tr L : List (Call × Res))
    (hL : (runOracle orc (messageGetFd env ms part dobody) i tr).2 = tr ++ L) :
    (runOracle orc (messageGetFd env ms part dobody) i tr).1.isSome = true ↔
      Spec.Obtainable env ms part dobody = true ∧ ∀ x ∈ L, Spec.failed x = false :=
  Proofs.exec_stdin_delivered_iff env ms part dobody orc i tr L hL

/-- Any failing call makes the result `none`; and whenever the result is `none`, the descriptor
the run had obtained (temporary file or duplicate) was closed by its last call. -/
theorem C11_exec_stdin_failure (env : PEnv) (ms : MsgSt) (part : Option Msg) (dobody : Bool)
    (orc : Nat → Call → Res) (i : Nat) (tr L : List (Call × Res))
    (hL : (runOracle orc (messageGetFd env ms part dobody) i tr).2 = tr ++ L) :
    ((∃ x ∈ L, Spec.failed x = true) → (runOracle orc (messageGetFd env ms part dobody) i tr).1 = none) ∧
    ((runOracle orc (messageGetFd env ms part dobody) i tr).1 = none →
      ∀ fd, Spec.obtainedFd L = some fd → Spec.ClosedLast fd L) :=
  Proofs.exec_stdin_failure env ms part dobody orc i tr L hL

/-! ### Non-vacuity -/

def C11_penv : PEnv :=
  { now := 0, pid := 1, host := [], random := 0, tmpdir := ofString "/tmp", home := [], confpath := [],
    dryrun := false, syntaxOnly := false, stdinMode := false }

def C11_ms : MsgSt :=
  { name := ofString "1", path := ofString "/m/new/1", fd := some 3, msg := C11_sample, parts := [],
    flags := MFlags.empty, loc := none, content := [] }

/-- Every call succeeds; `mkostemp` returns descriptor 7, a dup 8; every `write` takes at most 3 bytes. -/
def C11_orcOk : Nat → Call → Res := fun _ c =>
  match c with
  | .mkostemp _ => .ok 7
  | .dupfd _ => .ok 8
  | .write _ d => .ok (min 3 d.length)
  | _ => .ok 0

/-- The same, but the third call (the first `write`, the `dup` of `message_write`) fails. -/
def C11_orcFail : Nat → Call → Res := fun i c => if i == 2 then .err "EIO" else C11_orcOk i c

/-- A base64 part: `aGVsbG8=` is `hello`. -/
def C11_b64part : Msg := parseHeaders (ofString "Content-Transfer-Encoding: base64\n\naGVsbG8=\n")

/-- (a) `stdin body` on the multipart/alternative sample: descriptor 7 received `hello!\n` (the
text/plain part) in three short writes; on the base64 part it received `hello`. -/
example :
    (runOracle C11_orcOk (messageGetFd C11_penv C11_ms none true) 0 []).1 = some 7 ∧
    Spec.written 7 (runOracle C11_orcOk (messageGetFd C11_penv C11_ms none true) 0 []).2 = ofString "hello!\n" ∧
    (runOracle C11_orcOk (messageGetFd C11_penv C11_ms none true) 0 []).2.length = 6 ∧
    (runOracle C11_orcOk (messageGetFd C11_penv C11_ms (some C11_b64part) true) 0 []).1 = some 7 ∧
    Spec.written 7 (runOracle C11_orcOk (messageGetFd C11_penv C11_ms (some C11_b64part) true) 0 []).2 = ofString "hello" := by
  decide +kernel

/-- (b) a part without `body`: stream 8 was handed the re-serialised part; (c) the message:
descriptor 8 is the duplicate of the message's descriptor 3, rewound. -/
example :
    (runOracle C11_orcOk (messageGetFd C11_penv C11_ms (some C11_b64part) false) 0 []).1 = some 7 ∧
    Spec.printed 8 (runOracle C11_orcOk (messageGetFd C11_penv C11_ms (some C11_b64part) false) 0 []).2 =
      ofString "Content-Transfer-Encoding: base64\n\naGVsbG8=\n" ∧
    (runOracle C11_orcOk (messageGetFd C11_penv C11_ms none false) 0 []).1 = some 8 ∧
    (runOracle C11_orcOk (messageGetFd C11_penv C11_ms none false) 0 []).2 = [(.dupfd 3, .ok 8), (.lseek 8, .ok 0)] := by
  decide +kernel

/-- A failing call: no descriptor, and descriptor 7 is closed by the last call. -/
example :
    (runOracle C11_orcFail (messageGetFd C11_penv C11_ms none true) 0 []).1 = none ∧
    (runOracle C11_orcFail (messageGetFd C11_penv C11_ms none true) 0 []).2.getLast? = some (.close 7, .ok 0) ∧
    (runOracle C11_orcFail (messageGetFd C11_penv C11_ms (some C11_b64part) false) 0 []).1 = none ∧
    (runOracle C11_orcFail (messageGetFd C11_penv C11_ms (some C11_b64part) false) 0 []).2.getLast? = some (.close 7, .ok 0) := by
  decide +kernel

/-! ## (package ce10) `exec stdin body` after rewriting actions of the same action list

Vocabulary: `Spec/ExecSeq.lean` (see the block of `C13_exec_stdin_sees_current` in Props/C13.lean):
`uptoFork` = `matches_exec` up to the fork of one exec entry, run against arbitrary POSSIBLE results
with the abstract file system threaded through (`runW`, `PossibleRun`). -/

/-- **`exec stdin body` hands over the decoded body of the CURRENT in-memory message, whatever the
action list did before.**  For every list `pre` before the entry, every state and world in which
the message is open, every oracle whose results are possible: if the run reaches the fork of `mh`
(`exec stdin body`, of the message or - inside an attachment block - of a part) with descriptor
`fd`, then the body of the target (`message_get_body`: the message as it is in memory after
`matches_interpolate`, resp. the part) is decodable, and in the world at that fork `fd` is a handle
on a temporary file OF ITS OWN - not the file the message's descriptor refers to, so no offset of
the message file plays any role - whose data is exactly that decoded body (as a C string), and the
last call before the fork is a successful `lseek(fd, 0, SEEK_SET)`. -/
theorem C11_exec_stdin_body_after_rewrite (env : PEnv) (pre : MatchList) (mh : Match) (st : ExecSt) (orig : Bytes) (w : World)
    (orc : Nat → Call → Res) (i : Nat) (hb : mh.execBody = true)
    (hopen : Spec.MsgOpen w st orig) (hposs : Spec.PossibleRun orc (Spec.uptoFork env pre mh st) w i)
    (st' : ExecSt) (fd : Handle) (hres : (Spec.runW orc (Spec.uptoFork env pre mh st) w i).1 = .fork st' fd) :
    ∃ body, getBody ((Spec.execPart mh st.ms).getD st.ms.msg) = some body ∧
      Spec.BodyOn (Spec.runW orc (Spec.uptoFork env pre mh st) w i).2 st' fd body :=
  Proofs.ExecSeq.wpo_sound orc (Proofs.ExecSeq.spec_uptoFork_body env pre mh st hb hopen) i hposs st' fd hres

/-- ... and that body is the one the specification decodes (`C11_body`: Content-Transfer-Encoding of the
entity, text/plain preferred for multipart/alternative), under the hypothesis of `C11_body`. -/
theorem C11_exec_stdin_body_after_rewrite_spec (env : PEnv) (pre : MatchList) (mh : Match) (st : ExecSt) (orig : Bytes) (w : World)
    (orc : Nat → Call → Res) (i : Nat) (hb : mh.execBody = true)
    (hbd : Proofs.BoundaryOk (Gen.mimeDepthLimit + 1) ((Spec.execPart mh st.ms).getD st.ms.msg) = true)
    (hopen : Spec.MsgOpen w st orig) (hposs : Spec.PossibleRun orc (Spec.uptoFork env pre mh st) w i)
    (st' : ExecSt) (fd : Handle) (hres : (Spec.runW orc (Spec.uptoFork env pre mh st) w i).1 = .fork st' fd) :
    ∃ body, Spec.decodedBody entity Gen.mimeDepthLimit ((Spec.execPart mh st.ms).getD st.ms.msg) = some body ∧
      Spec.BodyOn (Spec.runW orc (Spec.uptoFork env pre mh st) w i).2 st' fd body := by
  obtain ⟨body, h1, h2⟩ := C11_exec_stdin_body_after_rewrite env pre mh st orig w orc i hb hopen hposs st' fd hres
  exact ⟨body, by rw [← C11_body _ hbd]; exact h1, h2⟩

/-- Non-vacuity (evaluated run, `Proofs/ExecSeqEx.lean`): `label exec stdin body` on `A:b\n\nx\n`, every `write`
short: the run reaches the fork with descriptor 8 on a temporary file holding the body `x\n`. -/
example : ∃ st', (Spec.runW Proofs.ExecSeq.exOrc1 (Spec.uptoFork Proofs.ExecSeq.exEnv [Proofs.ExecSeq.exLabel]
      Proofs.ExecSeq.exBody Proofs.ExecSeq.exSt) Proofs.ExecSeq.exW 0).1 = .fork st' 8 ∧
    Spec.BodyOn (Spec.runW Proofs.ExecSeq.exOrc1 (Spec.uptoFork Proofs.ExecSeq.exEnv [Proofs.ExecSeq.exLabel]
      Proofs.ExecSeq.exBody Proofs.ExecSeq.exSt) Proofs.ExecSeq.exW 0).2 st' 8 (ofString "x\n") := by
  obtain ⟨st', h⟩ := Proofs.ExecSeq.forkFd_eq Proofs.ExecSeq.ex1b_fork
  refine ⟨st', h, ?_⟩
  obtain ⟨body, h1, h2⟩ := C11_exec_stdin_body_after_rewrite _ _ _ _ _ _ _ 0 rfl Proofs.ExecSeq.ex_open
    Proofs.ExecSeq.ex1b_possible st' 8 h
  rw [Proofs.ExecSeq.ex1b_body] at h1
  cases h1
  exact h2

end Mdsort.Props
