import Mdsort.Proofs.Mime

/-!
# C11 - body and attachment conditions operate on the decoded MIME content

`Model.*` transcribes `parseboundary`, `findboundary`, `parseattachments`,
`message_get_attachments`, `message_decode_body`, `message_get_body`;
`Spec.parts` / `Spec.decodedBody` (Spec/Mime.lean) read the same entity line by
line per the RFC 2046 subset mdsort documents.  Both are instantiated with the
same entity reader (`Model.entity`: header lookup and entity parsing, whose own
correctness is C08/C10).  How `attachment` conditions and blocks quantify over
the parts, and that errors never count as a match, is in Props/C03.lean (evaluator).
-/

namespace Mdsort.Props
open Mdsort Mdsort.Model

/-- The parts `message_get_attachments` delivers are, for every entity, exactly the parts
of the MIME tree in pre-order; an invalid boundary parameter, a missing terminator or
nesting beyond the limit is an error (`none`), never a shorter list. -/
theorem C11_parts (m : Msg) : getAttachments m = Spec.parts entity (Gen.mimeDepthLimit + 1) m :=
  Proofs.parseAttachments_eq_spec (Gen.mimeDepthLimit + 1) m

/-- The body a `body` condition (and `exec stdin body`) sees: decoded by the entity's own
Content-Transfer-Encoding; for multipart/alternative the first text/plain part, else the
first text/html part, else the raw body; undecodable base64 is an error. -/
theorem C11_body (m : Msg) : getBody m = Spec.decodedBody entity Gen.mimeDepthLimit m :=
  Proofs.getBody_eq_spec m

/-- The supported nesting depth (regenerated from message.c). -/
theorem C11_depth_limit : Gen.mimeDepthLimit = 4 := by decide

end Mdsort.Props
