import Mdsort.Proofs.Opts
import Mdsort.Proofs.Lex
import Mdsort.Proofs.LexLiteral
import Mdsort.Proofs.LexFuel
import Mdsort.Proofs.World
import Mdsort.Proofs.ConfErrors
import Mdsort.Proofs.ConfRT5
import Mdsort.Proofs.MainText
import Mdsort.Proofs.MainTextMacros
import Mdsort.Proofs.MainTextLex
import Mdsort.Proofs.MainTextLexTree
import Mdsort.Proofs.ConfCfg4
import Mdsort.Proofs.ConfAnywhere7

/-!
# C14 - a configuration is accepted or rejected as a whole, and the parser is total

`Model.lex1` transcribes the lexer of parse.y and is compared token by token with the real `yylex`
as the real LALR parser drives it.  `Model.parseConfig` (Model/Conf.lean) transcribes the grammar of
parse.y with its semantic actions, reading its lookahead where the automaton bison generates does;
it is compared with the real parser on accept/reject, the line of the first diagnostic, the trees
(with `ex_lno`) and the number of `yylex` calls.  Not modelled: error recovery after the first
diagnostic, and bison's stack limit of 10000 states.
-/

namespace Mdsort.Props
open Mdsort Mdsort.Model

/-- Totality: the lexer is a total function (by definition), returns a suffix of its input, and
every token but end-of-input consumes at least one byte - on every byte string. -/
theorem C14_lexer_total (pflag sflag afterMacro : Bool) (input : Bytes) :
    let r := lex1 pflag sflag afterMacro input
    (∃ pre, input = pre ++ r.rest) ∧ (r.tok ≠ .eof → r.rest.length < input.length) :=
  Proofs.lex_progress pflag sflag afterMacro input

/-- The budgets inside the lexer model are never the reason for a result (audit: the exhausted cases return "unterminated",
the digits / flags read so far, or END OF INPUT WITHOUT A DIAGNOSTIC - the last would silently accept a truncated file).
For every helper, any two budgets larger than the input give the same result; `lex1` calls `collect` and `patFlags` with
`length + 1`, `lexDigits` with `length + 1` of what it passes, and re-enters after a comment (`lex1Aux`) with the length
of the whole input on a strictly shorter rest - so replacing any of these budgets by a larger one changes nothing. -/
theorem C14_lexer_fuel_irrelevant :
    (∀ (d : UInt8) (f1 f2 : Nat) (s acc : Bytes), s.length < f1 → s.length < f2 → collect d f1 s acc = collect d f2 s acc) ∧
    (∀ (f1 f2 : Nat) (s : Bytes) (i l u : Bool) (e : Nat), s.length < f1 → s.length < f2 →
      patFlags f1 s i l u e = patFlags f2 s i l u e) ∧
    (∀ (f1 f2 : Nat) (s : Bytes) (n : Nat) (o : Bool) (e : Nat), s.length < f1 → s.length < f2 →
      lexDigits f1 s n o e = lexDigits f2 s n o e) ∧
    (∀ (pf sf am : Bool) (f1 f2 : Nat) (s : Bytes), s.length < f1 → s.length < f2 →
      lex1.lex1Aux pf sf am s f1 = lex1.lex1Aux pf sf am s f2) :=
  ⟨Proofs.collect_fuel, Proofs.patFlags_fuel, Proofs.lexDigits_fuel, Proofs.lex1Aux_fuel⟩

/-- Non-vacuity of `C14_tokens_read_back` and of the budgets: a keyword of the regenerated table before a brace, a string
with an escaped quote, and a token behind 3 comment lines (the re-entry after a comment) - with the budget the model uses
and with a budget of 1000. -/
example :
    ("add-header", "ADDHEADER") ∈ Gen.keywords ∧
    lex1 false false false (ofString "add-header{") = { tok := .keyword "ADDHEADER", rest := [123], errors := 0 } ∧
    lex1 false false false ([34] ++ Proofs.escapeQuote (ofString "a\"b") ++ [34, 32]) = { tok := .str (ofString "a\"b"), rest := [32], errors := 0 } ∧
    lex1 false false false (ofString "#a\n #b\n#c\n  match") = { tok := .keyword "MATCH", rest := [], errors := 0 } ∧
    lex1.lex1Aux false false false (ofString " #b\n#c\n  match") 1000 = { tok := .keyword "MATCH", rest := [], errors := 0 } := by
  decide +kernel

/-- Rejected as a whole: when the configuration is rejected (or unreadable) the run is an error and
touches nothing but the configuration file, under every fault plan - no maildir is opened, no
message examined, no command run, no file changed, whatever valid parts the file has. -/
theorem C14_reject_whole (env : PEnv) (orc : EvalOracles) (conf : List ConfBlock) (files : Files) (input : Bytes)
    (w : World) (plan : Plan) :
    let r := runPlan plan (mainP env orc false conf files input) w 0 []
    r.1.2.error = true ∧
    (Proofs.callsOf plan (mainP env orc false conf files input) w = [.fopen env.confpath] ∨
     ∃ h, Proofs.callsOf plan (mainP env orc false conf files input) w = [.fopen env.confpath, .fclose h]) :=
  Proofs.bad_config_only_reads_config env orc conf files input w plan

/-- Acceptance at token level: every keyword of the regenerated table (`Gen.keywords`, from parse.y: renaming a keyword
there changes what this says) followed by anything that cannot continue a word, and every non-empty string without
NUL, not ending in a backslash and shorter than the lexeme buffer, written between quotes with `"` escaped, reads back as
the token it was printed from.  (Integer literals: `C14_int_literals`; units: `C15_age_literal_tokens`.) -/
theorem C14_tokens_read_back :
    (∀ (sflag : Bool) (kw tokname : String) (rest : Bytes), (kw, tokname) ∈ Gen.keywords →
      (∀ c, rest.head? = some c → isKwChar c = false) →
      lex1 false sflag false (kw.toUTF8.toList ++ rest) = { tok := .keyword tokname, rest := rest, errors := 0 }) ∧
    (∀ (pflag sflag : Bool) (b rest : Bytes), b ≠ [] → (0 : UInt8) ∉ b → b.getLast? ≠ some 92 → b.length < BUFSIZ - 1 →
      lex1 pflag sflag false ([34] ++ Proofs.escapeQuote b ++ [34] ++ rest) = { tok := .str b, rest := rest, errors := 0 }) :=
  ⟨fun sflag kw tokname rest hk hr => Proofs.lex_keyword sflag kw tokname rest hk hr,
   fun pflag sflag b rest h1 h2 h3 h4 => Proofs.lex_string_roundtrip pflag sflag b rest h1 h2 h3 h4⟩

/-- Integer literals: for EVERY non-empty string of decimal digits `ds` - of any length, with or without
leading zeros - after any white space and before anything that is not a digit, the lexer returns the
value `Spec.decimal ds` exactly and without a diagnostic when it is at most UINT32_MAX, and reports a
diagnostic otherwise; it is accepted IFF the value fits.  There is no length or value (2^64, 2^64 + 60,
2^96, ...) at which a too-large literal becomes acceptable again; all digits are consumed either way. -/
theorem C14_int_literals (sflag : Bool) (sp ds rest : Bytes) (hsp : ∀ x ∈ sp, isspace x = true) (hne : ds ≠ [])
    (hd : ∀ d ∈ ds, isdigit d = true) (hr : ∀ c, rest.head? = some c → isdigit c = false) :
    let r := lex1 false sflag false (sp ++ ds ++ rest)
    (Spec.decimal ds < 2 ^ 32 → r = { tok := .int (Spec.decimal ds), rest := rest, errors := 0 }) ∧
    (2 ^ 32 ≤ Spec.decimal ds → r.errors ≥ 1 ∧ r.rest = rest) ∧
    (r.errors = 0 ↔ Spec.decimal ds < 2 ^ 32) :=
  Proofs.lex_digits sflag sp ds rest hsp hne hd hr

/-- `Spec.decimal` is the usual reading: the canonical decimal form of `n` denotes `n`, and leading zeros
change nothing.  Hence the earlier form of the statement: the literal `n` reads back exactly below 2^32
and is diagnosed from 2^32 on. -/
theorem C14_int_literals_decimal (sflag : Bool) (n : Nat) (rest : Bytes) (hr : ∀ c, rest.head? = some c → isdigit c = false) :
    Spec.decimal (toString n).toUTF8.toList = n ∧
    (∀ k ds, Spec.decimal (List.replicate k 48 ++ ds) = Spec.decimal ds) ∧
    (let r := lex1 false sflag false ((toString n).toUTF8.toList ++ rest)
     (n < 2 ^ 32 → r = { tok := .int n, rest := rest, errors := 0 }) ∧ (n ≥ 2 ^ 32 → r.errors ≥ 1 ∧ r.rest = rest)) :=
  ⟨Proofs.decimal_toString n, Proofs.decimal_leading_zeros, Proofs.lex_int sflag n rest hr⟩

/-! Non-vacuity of `C14_int_literals`: `000060` is 60; 2^64 + 60, 2 * 2^64 + 3600 and 2^96 + 86400 (values a 64-bit
accumulator would wrap to a valid age) are diagnosed, inside a whole file as well. -/
example : lex1 false false false "  000060 s".toUTF8.toList = { tok := .int 60, rest := " s".toUTF8.toList, errors := 0 } := by
  decide +kernel
example : (lex1 false false false "18446744073709551676 seconds".toUTF8.toList).errors = 1 ∧
    (lex1 false false false "36893488147419106832 seconds".toUTF8.toList).errors = 1 ∧
    (lex1 false false false "79228162514264337593543950336 days".toUTF8.toList).errors = 1 := by decide +kernel
example : parseConfig [] [] (fun _ => true) "maildir \"q\" { match date > 18446744073709551676 seconds break }".toUTF8.toList = .error 1 :=
  Proofs.Conf.error_of_isErrorAt (by decide +kernel)

/-! ## The parser (Model/Conf.lean: the grammar of parse.y with its semantic actions) -/

/-- Totality and progress: `parseConfig` is a total function on all byte strings (by construction:
structural recursion on a budget of `input.length + 1`), never exhausts that budget - so its result
is always an acceptance or a first diagnostic, or the refusal of the `-D` options - and calls the lexer at
most `input.length + 1` times, whatever the bytes, the home directory, the `-D` macros and the
regex library are. -/
theorem C14_parser_total (home : Bytes) (defs : List (Bytes × Bytes)) (rxOk : Pat → Bool) (input : Bytes) :
    parseConfig home defs rxOk input ≠ .fuel ∧
    (parseConfigFull home defs rxOk input).nlex ≤ input.length + 1 :=
  ⟨(Proofs.Conf.parseConfigFull_spec home defs rxOk input).1, (Proofs.Conf.parseConfigFull_spec home defs rxOk input).2.1⟩

/-- What is accepted is well formed: every block of an accepted configuration has the shape the
manual describes (`Spec.wfK`), has at least one action, and uses `reject` only when all its paths are
stdin - for every input. -/
theorem C14_accepted_well_formed (home : Bytes) (defs : List (Bytes × Bytes)) (rxOk : Pat → Bool) (input : Bytes)
    (blocks : List PBlock) (h : parseConfig home defs rxOk input = .ok blocks) :
    ∀ b ∈ blocks, Spec.blockOK rxOk b = true :=
  Proofs.Conf.accepted_block h

/-- Error classes at tree level: a configuration whose tree contains, anywhere (any block, any nesting
depth, next to whatever else), one of these defects is not accepted.  Stated positively for every node
`t` of every block of every accepted configuration:
* a rule has either a nested block containing an action ("empty nested match block"), or a non-empty
  list of actions ("missing action") in which `discard` and `reject` are alone ("cannot be combined");
* an age is below 2^32 seconds ("integer too large": `n * unit ≥ 2^32`);
* `exec body` has `stdin` ("invalid exec options");
* patterns compile ("invalid pattern");
* the rules of an `attachment { }` action have no action but `exec`. -/
theorem C14_error_classes_tree (home : Bytes) (defs : List (Bytes × Bytes)) (rxOk : Pat → Bool) (input : Bytes) (t : CTree)
    (h : Proofs.Conf.AcceptedNode home defs rxOk input t) :
    (∀ l c r, t = .mtch l c r →
      (Spec.isBlock r = true ∧ r.countActions > 0) ∨
      (Spec.isBlock r = false ∧ r.countActions ≥ 1 ∧
        (r.countActions > 1 → r.countLeaf Expr.isDiscard = 0 ∧ r.countLeaf Expr.isReject = 0))) ∧
    (∀ l f c age, t = .leaf (.date l f c age) → age < 2 ^ 32) ∧
    (∀ l si bo argv, t = .leaf (.exec l si bo argv) → bo = true → si = true) ∧
    (∀ l p, t = .leaf (.body l p) → rxOk p = true) ∧
    (∀ l ns p, t = .leaf (.header l ns p) → rxOk p = true) ∧
    (∀ l b, t = .attBlock l b → b.countActions ≤ b.countLeaf Expr.isExec) :=
  ⟨fun _ _ _ e => Proofs.Conf.node_rule (e ▸ h), fun _ _ _ _ e => Proofs.Conf.node_date (e ▸ h),
   fun _ _ _ _ e => Proofs.Conf.node_exec (e ▸ h), fun _ _ e => Proofs.Conf.node_body (e ▸ h),
   fun _ _ _ e => Proofs.Conf.node_header (e ▸ h), fun _ _ e => Proofs.Conf.node_attBlock (e ▸ h)⟩

/-- Error classes at block level: no accepted configuration has a block without action ("empty match
block") or a `reject` in a block with a path other than stdin ("reject cannot be used outside stdin"). -/
theorem C14_error_classes_block (home : Bytes) (defs : List (Bytes × Bytes)) (rxOk : Pat → Bool) (input : Bytes)
    (blocks : List PBlock) (h : parseConfig home defs rxOk input = .ok blocks) (b : PBlock) (hb : b ∈ blocks) :
    b.tree.countActions > 0 ∧
    ((b.paths.any fun p => !isStdinStr p) = true → b.tree.countLeaf Expr.isReject = 0) := by
  have := Proofs.Conf.accepted_block h b hb
  simp only [Spec.blockOK, Bool.and_eq_true, decide_eq_true_eq, Bool.or_eq_true, Bool.not_eq_true', beq_iff_eq] at this
  refine ⟨this.1.2, fun hp => ?_⟩
  rcases this.2 with h2 | h2
  · rw [hp] at h2; cases h2
  · exact h2

/-- Error class "stdin already defined": whenever the parser meets the keyword `stdin` at the top
level after a block that reads from stdin, it reports a diagnostic on the line of that keyword -
whatever precedes and follows. -/
theorem C14_error_second_stdin (cx : PCtx) (fuel : Nat) (blocks : List PBlock) (s : ParseSt)
    (hla : s.la = some (.kw .stdin)) (hany : blocks.any (fun b => b.paths.any isStdinStr) = true) :
    parseTop cx (fuel + 1) blocks s = .err s.tokLine { s with la := none } :=
  Proofs.Conf.second_stdin cx fuel blocks s hla hany

/-- Error classes "unknown macro used in string" and "macro used in wrong context": a string
`pre ${name} post` (no `$` in `pre`, no `}` in `name`) cannot be expanded when `name` is not defined and
is not `path` - in any context - and when `name` is `path` outside an action. -/
theorem C14_error_macro_reference (action : Bool) (ms : List Macro) (name pre post acc : Bytes) (fuel : Nat)
    (hname : (125 : UInt8) ∉ name) (hpre : (36 : UInt8) ∉ pre) (hf : pre.length < fuel) :
    (isPathMacro name = false → (∀ m ∈ ms, m.name ≠ name) →
      expandMacros action fuel (pre ++ 36 :: 123 :: (name ++ 125 :: post)) ms acc = none) ∧
    (isPathMacro name = true →
      expandMacros false fuel (pre ++ 36 :: 123 :: (name ++ 125 :: post)) ms acc = none) :=
  ⟨fun hnp hun => Proofs.Conf.expandMacros_bad_ref action ms name post hname (Or.inr ⟨hnp, hun⟩) pre acc fuel hpre hf,
   fun hp => Proofs.Conf.expandMacros_bad_ref false ms name post hname (Or.inl ⟨hp, rfl⟩) pre acc fuel hpre hf⟩

/-- Error class "unused macro": when the grammar accepts the file but a macro - defined in the file or
with `-D` - was never referenced, the configuration is rejected with the line of the definition (0 for
`-D`). -/
theorem C14_error_macro_unused (home : Bytes) (defs : List (Bytes × Bytes)) (rxOk : Pat → Bool) (input : Bytes) (ms : List Macro)
    (blocks : List PBlock) (s : ParseSt) (m : Macro) (hd : macrosOfDefs defs [] = some ms)
    (hp : parseTop { nl := countNl input, home := home, rxOk := rxOk } (input.length + 1) [] { rest := input, macros := ms } = .ok blocks s)
    (hu : firstUnused s.macros = some m) :
    parseConfig home defs rxOk input = .error m.lno :=
  Proofs.Conf.unused_macro_rejected home defs rxOk input ms blocks s m hd hp hu

/-! Non-vacuity of the hypotheses above, on concrete files. -/

/-- An accepted file (hypothesis of `C14_accepted_well_formed`, `C14_error_classes_block`). -/
example : ∃ b bs, parseConfig [] [] (fun _ => true)
    "maildir \"a\" { match ! new and date > 2 weeks move \"b\" label \"c\" }\nstdin { match all reject }".toUTF8.toList = .ok (b :: bs) :=
  Proofs.Conf.ok_of_isOkNonempty (by decide +kernel)

/-- A node of an accepted file (hypothesis of `C14_error_classes_tree`). -/
example : ∃ t, Proofs.Conf.AcceptedNode [] [] (fun _ => true)
    "stdin { match all exec stdin body \"x\" attachment { match body /p/ exec \"y\" } }".toUTF8.toList t :=
  Proofs.Conf.acceptedNode_of_ok (by decide +kernel)

/-- The classes are not empty: these files are rejected, on the expected line. -/
example : parseConfig [] [] (fun _ => true) "stdin {\n match all move \"a\"\n discard }".toUTF8.toList = .error 3 :=
  Proofs.Conf.error_of_isErrorAt (by decide +kernel)
example : parseConfig [] [] (fun _ => true) "stdin { match date > 137 years break }".toUTF8.toList = .error 1 :=
  Proofs.Conf.error_of_isErrorAt (by decide +kernel)
example : parseConfig [] [] (fun _ => true) "stdin { match all break }\n\nstdin { match all break }".toUTF8.toList = .error 3 :=
  Proofs.Conf.error_of_isErrorAt (by decide +kernel)
example : parseConfig [] [] (fun _ => true) "stdin { match all move \"${nosuch}\" }".toUTF8.toList = .error 1 :=
  Proofs.Conf.error_of_isErrorAt (by decide +kernel)
example : parseConfig [] [] (fun _ => true) "x = \"1\"\nstdin { match all discard }".toUTF8.toList = .error 1 :=
  Proofs.Conf.error_of_isErrorAt (by decide +kernel)
example : parseConfig [] [([120], [49])] (fun _ => true) "stdin { match all discard }".toUTF8.toList = .error 0 :=
  Proofs.Conf.error_of_isErrorAt (by decide +kernel)
example : parseConfig [] [] (fun _ => true) "maildir \"a\" { match all reject }".toUTF8.toList = .error 1 :=
  Proofs.Conf.error_of_isErrorAt (by decide +kernel)
example : parseConfig [] [] (fun _ => true) "stdin { match all exec body \"x\" }".toUTF8.toList = .error 1 :=
  Proofs.Conf.error_of_isErrorAt (by decide +kernel)

/-- Error class "exec options cannot be repeated": a second `stdin` (or `body`) among the options of an
`exec` action is diagnosed on its own line, whatever follows. -/
theorem C14_error_exec_option_repeated (cx : PCtx) (fuel : Nat) (si bo : Bool) (s : ParseSt) :
    (s.la = some (.kw .stdin) → si = true → parseExecFlags cx (fuel + 1) si bo s = .err s.tokLine { s with la := none }) ∧
    (s.la = some (.kw .body) → bo = true → parseExecFlags cx (fuel + 1) si bo s = .err s.tokLine { s with la := none }) :=
  Proofs.Conf.exec_option_repeated cx fuel si bo s

/-- Error class "macro already defined": a second definition of a macro of the file, and any definition
of `path`, is refused by the macro table (`parseMacroDef` then reports the diagnostic). -/
theorem C14_error_macro_redefined (ms : List Macro) (name value : Bytes) (lno : Nat) :
    (isPathMacro name = true → macrosInsert ms name value lno false = none) ∧
    ((∃ m ∈ ms, m.name = name) → (∀ m ∈ ms, m.name = name → m.sticky = false) → macrosInsert ms name value lno false = none) :=
  Proofs.Conf.macro_redefined ms name value lno

/-- Macros are looked up by their exact name: a reference resolves IFF the table holds a macro of exactly
that name, and then to the value of (the first) such macro; and a definition under a name that no macro of
the table bears exactly - in particular a proper prefix or an extension of defined names (`in` after `inbox`,
`ab` next to `a` and `abc`), or the empty name - is entered, after everything defined before, whatever else
is defined. -/
theorem C14_macro_exact_name (ms : List Macro) (name : Bytes) :
    ((macrosUse ms name).isSome = true ↔ ∃ m ∈ ms, m.name = name) ∧
    (∀ v ms', macrosUse ms name = some (v, ms') → ∃ m ∈ ms, m.name = name ∧ m.value = v) ∧
    (∀ value lno sticky, isPathMacro name = false → (∀ m ∈ ms, m.name ≠ name) →
      macrosInsert ms name value lno sticky = some (ms ++ [{ name := name, value := value, lno := lno, sticky := sticky }])) := by
  refine ⟨?_, ?_, ?_⟩
  · unfold macrosUse
    cases h : ms.find? (fun m => m.name == name) with
    | none =>
      simp only [Option.isSome_none, Bool.false_eq_true, false_iff, not_exists, not_and]
      intro m hm hn
      have := List.find?_eq_none.mp h m hm
      simp [hn] at this
    | some m =>
      simp only [Option.isSome_some, true_iff]
      exact ⟨m, List.mem_of_find?_eq_some h, by simpa using List.find?_some h⟩
  · intro v ms' h
    unfold macrosUse at h
    cases hf : ms.find? (fun m => m.name == name) with
    | none => rw [hf] at h; cases h
    | some m =>
      rw [hf] at h
      simp only [Option.some.injEq, Prod.mk.injEq] at h
      exact ⟨m, List.mem_of_find?_eq_some hf, by simpa using List.find?_some hf, h.1⟩
  · intro value lno sticky hp hnew
    have hany : (ms.any fun m => m.name == name) = false := by
      simp only [List.any_eq_false, beq_iff_eq]
      exact fun m hm => hnew m hm
    simp [macrosInsert, hp, hany]

/-! Whole files: a name that is a prefix of an earlier macro is a macro of its own (both orders are accepted, each
reference gets the value of exactly its macro), an undefined name that is a prefix or an extension of a defined one - or
the empty name - is unknown, and a definition is refused only under exactly the same name. -/
example : (match parseConfig [] [] (fun _ => true)
      "inbox = \"I\"\nin = \"N\"\nmaildir \"${in}\" { match all move \"${inbox}\" }".toUTF8.toList with
    | .ok [⟨[[78]], .block _ (.mtch _ _ (.leaf (.move _ [73])))⟩] => true | _ => false) = true ∧
    (match parseConfig [] [] (fun _ => true)
      "in = \"N\"\ninbox = \"I\"\nmaildir \"${in}\" { match all move \"${inbox}\" }".toUTF8.toList with
    | .ok [⟨[[78]], .block _ (.mtch _ _ (.leaf (.move _ [73])))⟩] => true | _ => false) = true := by decide +kernel
example :
    Proofs.Conf.isErrorAt 2 (parseConfig [] [] (fun _ => true) "dst = \"d\"\nmaildir \"${dst}\" { match all move \"${ds}\" }".toUTF8.toList) = true ∧
    Proofs.Conf.isErrorAt 2 (parseConfig [] [] (fun _ => true) "dst = \"d\"\nmaildir \"${dst}\" { match all move \"${dsts}\" }".toUTF8.toList) = true ∧
    Proofs.Conf.isErrorAt 2 (parseConfig [] [] (fun _ => true) "dst = \"d\"\nmaildir \"${dst}\" { match all move \"${}\" }".toUTF8.toList) = true ∧
    Proofs.Conf.isErrorAt 1 (parseConfig [] [([100, 115, 116], [100])] (fun _ => true) "maildir \"q\" { match all move \"${ds}\" }".toUTF8.toList) = true ∧
    Proofs.Conf.isErrorAt 3 (parseConfig [] [] (fun _ => true)
      "in = \"N\"\ninbox = \"I\"\nin = \"M\"\nmaildir \"${in}\" { match all move \"${inbox}\" }".toUTF8.toList) = true := by decide +kernel

/-! Path lists of `maildir` blocks: the grammar accepts the empty list `maildir { } { ... }` (a block that applies to no
maildir; `reject` is then not "outside stdin"); with `reject` anywhere in the block, EVERY path must be the standard input
(`C14_error_classes_block`): a real maildir in any position rejects the file. -/
example :
    Proofs.Conf.isOkNonempty (parseConfig [] [] (fun _ => true) "maildir { } { match all reject }".toUTF8.toList) = true ∧
    Proofs.Conf.isOkNonempty (parseConfig [] [] (fun _ => true) "maildir { } { match new { match all reject } }".toUTF8.toList) = true ∧
    Proofs.Conf.isOkNonempty (parseConfig [] [] (fun _ => true) "maildir { \"/dev/stdin\" \"/dev/stdin\" } { match all reject }".toUTF8.toList) = true ∧
    Proofs.Conf.isErrorAt 1 (parseConfig [] [] (fun _ => true) "maildir { \"/dev/stdin\" \"b\" } { match new reject match all move \"d\" }".toUTF8.toList) = true ∧
    Proofs.Conf.isErrorAt 1 (parseConfig [] [] (fun _ => true) "maildir { \"b\" \"/dev/stdin\" } { match all reject }".toUTF8.toList) = true ∧
    Proofs.Conf.isErrorAt 1 (parseConfig [] [] (fun _ => true) "maildir { \"/dev/stdin\" \"b\" \"/dev/stdin\" } { match all { match all reject } }".toUTF8.toList) = true := by
  decide +kernel

example : parseConfig [] [] (fun _ => true) "a = \"1\"\na = \"2\"\nstdin { match all move \"${a}\" }".toUTF8.toList = .error 2 :=
  Proofs.Conf.error_of_isErrorAt (by decide +kernel)
example : parseConfig [] [] (fun _ => true) "stdin { match all exec stdin\nstdin \"x\" }".toUTF8.toList = .error 2 :=
  Proofs.Conf.error_of_isErrorAt (by decide +kernel)

/-! ## Acceptance: what the grammar writes is read back -/

/-- The full statement, for the printer `Spec.printBlocks` (one line, tokens separated by blanks, every
binary condition in parentheses, every list of strings in braces, ages in seconds, patterns between
slashes): every well-formed list of blocks reads back as itself, all nodes on line 1. -/
def C14_accepts_grammar_full : Prop :=
  ∀ (home : Bytes) (rxOk : Pat → Bool) (bs : List PBlock), (∀ b ∈ bs, Spec.blockOK rxOk b = true) →
    parseConfig home [] rxOk (Spec.printBlocks bs) = .ok (bs.map Spec.relabelBlock)

/-- It is false as it stands: strings are written verbatim, and a string holding a macro reference
(here `move "${x}"`) does not mean itself - the file is rejected ("unknown macro"). -/
theorem C14_accepts_grammar_full_false : ¬ C14_accepts_grammar_full := by
  intro h
  have := h [] (fun _ => true)
    [{ paths := [stdinStr], tree := .block 1 (.mtch 1 (.leaf (.all 1)) (.leaf (.move 1 [36, 123, 120, 125]))) }]
    (by decide +kernel)
  have he : Proofs.Conf.isErrorAt 1 (parseConfig [] [] (fun _ => true) (Spec.printBlocks
    [{ paths := [stdinStr], tree := .block 1 (.mtch 1 (.leaf (.all 1)) (.leaf (.move 1 [36, 123, 120, 125]))) }])) = true := by
    decide +kernel
  rw [this] at he
  cases he

/-- Acceptance (partial): every configuration in `Spec.ConfOK` - well-formed trees of any shape and
depth (conditions with `and`, `or`, `!`, `attachment`, all eight kinds of condition, nested blocks, all
eleven actions including `attachment { }` blocks, any number of `maildir` blocks and one `stdin` block)
whose strings are non-empty, shorter than 8191 bytes, without NUL, newline or `$`, not starting with `~`
and not ending in a backslash, whose patterns have no NUL, newline, `/` or backslash and not both `l` and
`u`, whose ages are below 2^32 and whose `flag` targets are `new` / `cur` - is accepted when written by
`Spec.printBlocks`, and the parser returns exactly its trees, every node on line 1.  Not covered:
macros and `~` (strings with `$`), other layouts (several lines, comments, other units, other
delimiters, bare single strings), and - for the real parser only - trees nested deeper than bison's
stack. -/
theorem C14_accepts_grammar_partial (home : Bytes) (rxOk : Pat → Bool) (bs : List PBlock)
    (hok : Spec.ConfOK rxOk bs = true) :
    parseConfig home [] rxOk (Spec.printBlocks bs) = .ok (bs.map Spec.relabelBlock) :=
  Proofs.Conf.printBlocks_roundtrip home rxOk bs hok

/-- The same for the evaluator's trees (`Model.ConfBlock`, `Model.Expr`). -/
theorem C14_accepts_grammar_partial_expr (home : Bytes) (rxOk : Pat → Bool) (c : List ConfBlock)
    (hok : Spec.ConfOK rxOk (c.map fun b => { paths := b.paths, tree := CTree.ofExpr b.expr }) = true) :
    parseConfig home [] rxOk (Spec.printConf c) =
      .ok (c.map fun b => { paths := b.paths, tree := Spec.relabel (CTree.ofExpr b.expr) }) := by
  have := Proofs.Conf.printBlocks_roundtrip home rxOk _ hok
  simpa [Spec.printConf, Spec.relabelBlock, List.map_map, Function.comp_def] using this

/-- Non-vacuity: a configuration in `Spec.ConfOK` with a nested block, an attachment block, a pattern
with flags, a date, several actions, a second block reading from stdin with `reject`. -/
example : Spec.ConfOK (fun _ => true)
    [{ paths := [[97], [98, 47, 99]],
       tree := .block 1 (.or 1
         (.mtch 1 (.and 1 (.neg 1 (.leaf (.new 1))) (.or 1 (.leaf (.header 1 [[84, 111]] { src := [117, 40, 115, 41], icase := true }))
                    (.leaf (.date 1 .modified .gt 1209600))))
           (.and 1 (.and 1 (.leaf (.move 1 [100])) (.leaf (.label 1 [[120], [121]]))) (.leaf (.pass 1))))
         (.mtch 1 (.attachment 1 (.leaf (.body 1 { src := [112, 100, 102], ucase := true })))
           (.block 1 (.mtch 1 (.leaf (.all 1))
             (.and 1 (.leaf (.exec 1 true true [[99, 97, 116]]))
               (.attBlock 1 (.block 1 (.mtch 1 (.leaf (.old 1)) (.leaf (.exec 1 false false [[108, 112, 114]])))))))))) },
     { paths := [stdinStr], tree := .block 1 (.mtch 1 (.leaf (.command 1 [[116]])) (.leaf (.reject 1))) }] = true := by
  decide +kernel

/-! ## The grammar of parse.y itself (Gen/Grammar.lean: bison's report on the parse.y of this run)

`Gen.productions` is the list of productions bison prints for the working tree's parse.y, regenerated
before every build (tools/gen_grammar.py).  `Spec.Cfg.Tree.ok` checks a parse tree against it: every
inner node is an instance of a production of the table, every leaf a terminal.  The proofs below end in
facts `Gen.productions.contains ("expr3", ["HEADER", "strings", "pattern"]) = true := by decide`
(Proofs/ConfCfg1.lean), one per production: removing or altering a production of parse.y breaks this
file. -/

/-- Every documented configuration is a sentence of the yacc grammar: for every configuration `bs` in
`Spec.ConfOK` (the domain of `C14_accepts_grammar_partial`), `Spec.Cfg.treeOfConf bs` is a parse tree
over the productions parse.y has NOW, its root is the start symbol, and its yield is the sequence of
token kinds of the written form - as `Spec.printBlocks` writes it (`blockToks`) and as the lexer model
reads it back from the bytes (`Lexes`: no diagnostic up to the end of the text, pattern / unit mode
exactly at PATTERN / SCALAR tokens). -/
theorem C14_printed_in_yacc_grammar (rxOk : Pat → Bool) (bs : List PBlock) (hok : Spec.ConfOK rxOk bs = true) :
    (Spec.Cfg.treeOfConf bs).ok Gen.productions = true ∧
    (Spec.Cfg.treeOfConf bs).root = Gen.grammarStart ∧
    (Spec.Cfg.treeOfConf bs).yield = (bs.flatMap Spec.blockToks).map Spec.Cfg.ptokKind ∧
    Spec.Cfg.Lexes false (Spec.printBlocks bs) (Spec.Cfg.treeOfConf bs).yield :=
  Proofs.Cfg.printed_in_grammar rxOk bs hok

/-- Non-vacuity and a look at the object: the tree of `stdin { match ! new move "d" }` is checked by
evaluation against the regenerated table, and its yield is the token sequence one expects. -/
example :
    let bs : List PBlock := [{ paths := [stdinStr], tree := .block 1 (.mtch 1 (.neg 1 (.leaf (.new 1))) (.leaf (.move 1 [100]))) }]
    Spec.ConfOK (fun _ => true) bs = true ∧ (Spec.Cfg.treeOfConf bs).ok Gen.productions = true ∧
    (Spec.Cfg.treeOfConf bs).yield = ["STDIN", "'{'", "MATCH", "NEG", "NEW", "MOVE", "STRING", "'}'"] := by
  decide +kernel

/-- The checker is not vacuous: a tree using a production the grammar does not have (`expr3: SYNC`) is
refused, and so is a tree whose leaf is a non-terminal. -/
example :
    (Spec.Cfg.N "expr3" [Spec.Cfg.T "SYNC"]).ok Gen.productions = false ∧
    (Spec.Cfg.N "expr1" [Spec.Cfg.T "expr3"]).ok Gen.productions = false ∧
    (Spec.Cfg.N "expr1" [Spec.Cfg.N "expr3" [Spec.Cfg.T "OLD"]]).ok Gen.productions = true := by
  decide +kernel

/-- The other direction, for the hand-written parser model: EVERY byte string `parseConfig` accepts (no
diagnostic, any `-D` definitions, any home directory, any regex library) is a sentence of the grammar
parse.y has now - the token kinds the lexer model delivers for it up to the end of the input, in the
modes the grammar's mid-rule actions set (`Lexes`), are the yield of a checked parse tree over
`Gen.productions` whose root is the start symbol.  So the recursive-descent model accepts nothing the
context-free grammar does not derive (it rejects more: the semantic checks); none of the two `error`
productions is used.  Not stated: that the tree is the one the LALR automaton builds (the grammar is
ambiguous without the `%left` declarations, which are regenerated as data, `Gen.grammarPrecedence`,
but not interpreted). -/
theorem C14_model_parser_uses_grammar (home : Bytes) (defs : List (Bytes × Bytes)) (rxOk : Pat → Bool) (input : Bytes)
    (blocks : List PBlock) (h : parseConfig home defs rxOk input = .ok blocks) :
    ∃ t : Spec.Cfg.Tree, t.ok Gen.productions = true ∧ t.root = Gen.grammarStart ∧
      Spec.Cfg.Lexes false input t.yield :=
  Proofs.Cfg.accepted_in_grammar h

/-- Non-vacuity: an accepted file with a macro definition, a comment, a bare string, a date with a unit
prefix, a pattern with another delimiter and an attachment block (none of which `Spec.printBlocks` writes). -/
example : ∃ b bs, parseConfig [] [] (fun _ => true)
    "d = \"x\" # comment\nmaildir \"${d}\" { match header \"To\" |a/b|i or date access < 3 we attachment { match all exec \"t\" } }".toUTF8.toList
      = .ok (b :: bs) :=
  Proofs.Conf.ok_of_isOkNonempty (by decide +kernel)

/-- The shape of the grammar the parser model was written for, against what parse.y declares now:
* the precedence declarations are `%left AND OR`, `%left NEG`, `%left ATTACHMENT` in this order (lowest
  first) and no rule has a `%prec` - what `parseBinTail` (one left-associative level for `and` / `or`) and
  `parseUnary` (`!` and `attachment` bind tighter than both) implement;
* the table consists of the productions the two theorems above use (`Proofs.Cfg.usedProductions`: what the
  printer writes and the parser model implements) and of exactly two `error` productions, `grammar: error`
  and `exprs: error` - the error recovery that is not modelled; a production added to parse.y is therefore
  reported here before any generator knows the new syntax;
* `SYNC` is the only declared token no rule mentions. -/
theorem C14_grammar_shape :
    Gen.grammarPrecedence = [("left", ["AND", "OR"]), ("left", ["NEG"]), ("left", ["ATTACHMENT"])] ∧
    Gen.grammarRulePrec = [] ∧
    Gen.productions.all (fun p => Proofs.Cfg.usedProductions.contains p || Gen.errorProductions.contains p) = true ∧
    Proofs.Cfg.usedProductions.all (fun p => Gen.productions.contains p) = true ∧
    Gen.errorProductions = [("grammar", ["error"]), ("exprs", ["error"])] ∧
    Gen.grammarUnusedTokens = ["SYNC"] :=
  ⟨by decide, by decide, Proofs.Cfg.table_is_covered.1, Proofs.Cfg.table_is_covered.2.1, by decide, by decide⟩

/-! ## The whole program from the configuration TEXT (`Model.mainText`, Model/MainText.lean)

`mainText env orc rxOk defs confText files input` is `main` of mdsort.c after `getopt`: the `-D` options
`defs` enter the macro table, `parseConfig` reads the bytes `confText` of the configuration file, and the
loop of `mainP` runs over the trees it built.  It is compared with the real binary along the trace of real
runs (`M conformtext`, tools/props/c14.py), next to `mainP` on the trees the real parser built. -/

/-- Rejected as a whole, from the text: for EVERY byte string `parseConfig` rejects - wherever the
defect is, whatever valid blocks surround it - every environment, population `files`, standard input
and fault plan, the run opens (and closes) the configuration file and issues no other call: no maildir
is opened, no message examined, no command run, no file changed; the exit status is 1, in stdin mode
75.  With the `C14_error_*` theorems: a configuration with one of the listed defects anywhere leaves
every maildir untouched. -/
theorem C14_reject_whole_text (env : PEnv) (orc : EvalOracles) (rxOk : Pat → Bool) (defs : List (Bytes × Bytes))
    (confText : Bytes) (files : Files) (input : Bytes) (line : Nat) (w : World) (plan : Plan)
    (h : parseConfig env.home defs rxOk confText = .error line) :
    let p := mainText env orc rxOk defs confText files input
    let r := runPlan plan p w 0 []
    r.1.2.error = true ∧ r.1.1 = (if env.stdinMode then 75 else 1) ∧
    (Proofs.callsOf plan p w = [.fopen env.confpath] ∨
     ∃ hd, Proofs.callsOf plan p w = [.fopen env.confpath, .fclose hd]) :=
  Proofs.MainText.mainText_rejected env orc rxOk defs confText files input line w plan h

/-- Refused `-D` options (`-D path=...`, the same name twice): the run ends in the option loop - no
call at all, not even the configuration file is opened - with exit status 1 also in stdin mode (the
`-` operand has not been seen when `main` gives up). -/
theorem C14_reject_defs_text (env : PEnv) (orc : EvalOracles) (rxOk : Pat → Bool) (defs : List (Bytes × Bytes))
    (confText : Bytes) (files : Files) (input : Bytes) (w : World) (plan : Plan)
    (h : parseConfig env.home defs rxOk confText = .invalidDefs) :
    let p := mainText env orc rxOk defs confText files input
    (runPlan plan p w 0 []).1.1 = 1 ∧ (runPlan plan p w 0 []).1.2.error = true ∧ Proofs.callsOf plan p w = [] :=
  Proofs.MainText.mainText_invalidDefs env orc rxOk defs confText files input w plan h

/-! ## The command line (package ce13): refused before the configuration is opened -/

/-- A command line `main` refuses - an unknown option, a missing option argument, an operand other than `-`, more than
one operand (usage), `-D` without `=`, `-D` with the name `path` or a name given twice - ends the run with exit status 1
and WITHOUT ANY CALL: the configuration file is not opened, no maildir, no message, no process, under every environment
and fault plan.  (`getopt` and `warnx` write to stderr, which is not a modelled call.) -/
theorem C14_usage_error_no_call (permute : Bool) (args : List Bytes) (raw : RawEnv) (env : PEnv) (orc : EvalOracles)
    (rxOk : Pat → Bool) (confText : Bytes) (files : Files) (input : Bytes) (w : World) (plan : Plan) (e : ArgsErr)
    (h : parseArgs permute args = .error e) :
    let p := mainArgs permute args raw env orc rxOk confText files input
    (runPlan plan p w 0 []).1.1 = 1 ∧ Proofs.callsOf plan p w = [] ∧ (runPlan plan p w 0 []).2.1 = w := by
  intro p
  have hp : p = .ret (earlyExit files) := Proofs.Opts.mainArgs_refused permute args raw env orc rxOk confText files input e h
  rw [hp]
  exact ⟨by rw [(Proofs.Opts.ret_run plan _ w).1]; rfl, (Proofs.Opts.ret_run plan _ w).2, rfl⟩

/-- Which command lines are refused, after any accepted option words (`items`, `Spec.cmdMeaning items {} = .ok o`):
(1) a letter outside `D:df:nv` - alone, clustered after flag letters, `--long`, `-:` - whatever follows: usage;
(2) `-f` / `-D` as the last letter of the last word: usage; (3) `-D` with an argument without `=`: "missing macro
separator"; (4) operands: everything but "none" and "exactly `-`" is usage (also after `--`); (5) the documented
`-D` errors come out of `Spec.cmdline` (`C05_options_select_mode`): the name `path`, a name twice. -/
theorem C14_usage_causes (permute : Bool) (items : List Spec.CmdItem) (hwf : ∀ it ∈ items, it.wf = true) (o : Opts)
    (hm : Spec.cmdMeaning items {} = .ok o) (ls : Bytes) (hl : ls.all Spec.isFlagLetter = true) :
    (∀ c r rest, optLookup Gen.optstring c = none → (ls = [] → ((45 :: c :: r : Bytes) == dashdash) = false) →
      parseArgs permute (Spec.renderCmd items ++ (45 :: (ls ++ c :: r)) :: rest) = .error .usage) ∧
    (∀ c, optLookup Gen.optstring c = some true → c ≠ 45 →
      parseArgs permute (Spec.renderCmd items ++ [45 :: (ls ++ [c])]) = .error .usage) ∧
    (∀ a rest, a.contains 61 = false →
      parseArgs permute (Spec.renderCmd items ++ (45 :: (ls ++ [68])) :: a :: rest) = .error (.macroSeparator a)) ∧
    (∀ ops, ops ≠ [] → ops ≠ [[45]] →
      parseArgs permute (Spec.renderCmd items ++ dashdash :: ops) = .error .usage ∧
      (ops.all isNonOption = true → parseArgs permute (Spec.renderCmd items ++ ops) = .error .usage)) := by
  refine ⟨fun c r rest hc hnd => Proofs.Opts.parseArgs_unknown_option permute items hwf o hm ls hl c r rest hc hnd,
    fun c hc h45 => Proofs.Opts.parseArgs_missing_argument permute items hwf o hm ls hl c hc h45,
    fun a rest ha => Proofs.Opts.parseArgs_missing_separator permute items hwf o hm ls hl a ha rest, ?_⟩
  intro ops h1 h2
  have hu : operandStep o ops = .error .usage := (Proofs.Opts.operandStep_usage o ops).2 ⟨h1, h2⟩
  refine ⟨?_, fun hops => ?_⟩
  · rw [Proofs.Opts.parseArgs_words_dashdash permute items hwf ops, hm]; simp only [hu]
  · rw [Proofs.Opts.parseArgs_words_operands permute items hwf ops hops, hm]; simp only [hu]

/-- The option letters, evaluated on the regenerated option string: `D` and `f` take an argument, `d`, `n`, `v` do not,
nothing else is an option (in particular not `-`, `:`, `h`, `V`, `x`). -/
example :
    Gen.optstring = "D:df:nv".toUTF8.toList ∧
    (List.range 256).filter (fun c => optLookup Gen.optstring c.toUInt8 == some true) = [68, 102] ∧
    (List.range 256).filter (fun c => optLookup Gen.optstring c.toUInt8 == some false) = [100, 110, 118] := by
  decide +kernel

/-- Non-vacuity: each refusal on a concrete command line, also with a valid `-n -f conf` in front and `-` behind. -/
example :
    parseArgs true ["-x".toUTF8.toList] = .error .usage ∧
    parseArgs true ["-n".toUTF8.toList, "-f".toUTF8.toList, "conf".toUTF8.toList, "-dx".toUTF8.toList, "-".toUTF8.toList] = .error .usage ∧
    parseArgs true ["--foo".toUTF8.toList] = .error .usage ∧ parseArgs true ["-d-".toUTF8.toList] = .error .usage ∧
    parseArgs true ["-:".toUTF8.toList] = .error .usage ∧
    parseArgs true ["-n".toUTF8.toList, "-f".toUTF8.toList] = .error .usage ∧ parseArgs true ["-nD".toUTF8.toList] = .error .usage ∧
    parseArgs true ["-D".toUTF8.toList, "a".toUTF8.toList] = .error (.macroSeparator "a".toUTF8.toList) ∧
    parseArgs true ["-Da".toUTF8.toList, "-x".toUTF8.toList] = .error (.macroSeparator "a".toUTF8.toList) ∧
    parseArgs true ["-x".toUTF8.toList, "-Da".toUTF8.toList] = .error .usage ∧
    parseArgs true ["-Dpath=x".toUTF8.toList] = .error (.macroInvalid "path".toUTF8.toList) ∧
    parseArgs true ["-Da=1".toUTF8.toList, "-D".toUTF8.toList, "a=2".toUTF8.toList] = .error (.macroInvalid "a".toUTF8.toList) ∧
    parseArgs true ["x".toUTF8.toList] = .error .usage ∧ parseArgs true ["-".toUTF8.toList, "-".toUTF8.toList] = .error .usage ∧
    parseArgs true ["--".toUTF8.toList, "-n".toUTF8.toList] = .error .usage ∧
    parseArgs true ["".toUTF8.toList] = .error .usage ∧
    (parseArgs true ["-f".toUTF8.toList, "--".toUTF8.toList, "--".toUTF8.toList, "-".toUTF8.toList]).toOption.map
      (fun o => (o.confpath, o.stdinMode)) = some (some "--".toUTF8.toList, true) ∧
    (parseArgs true ["-D=v".toUTF8.toList, "-Da=b=c".toUTF8.toList, "-Dmatch=".toUTF8.toList]).toOption.map (·.defs) =
      some [([], "v".toUTF8.toList), ("a".toUTF8.toList, "b=c".toUTF8.toList), ("match".toUTF8.toList, [])] := by
  decide +kernel

/-- What "after `getopt`" means for the models of `main`: the option string of the `getopt` call in mdsort.c (regenerated:
`Gen.optstring`) declares exactly the options the models take as parameters - `-D name=value` with an argument (the `defs` of
`mainText`), `-d` (`PEnv.dry`), `-f file` with an argument (`confpath`; `fOpt` of `Model.startPaths`), `-n` (syntax check
only), `-v` (verbosity: logging is outside every model) - and no other.  A new or removed option letter in the source makes
this false. -/
theorem C14_getopt_options :
    Model.optSpec Gen.getoptString.toList = [('D', true), ('d', false), ('f', true), ('n', false), ('v', false)] := by
  decide

/-- Accepted text runs its tree: when `parseConfig` accepts, its blocks are trees of the evaluator (no
empty block: `confBlocksOf` succeeds and loses nothing, `toPBlocks conf = blocks`) and `mainText` IS
`mainP` with verdict "accepted" over exactly these trees - as an equality of programs, so every theorem
about `mainP` (C01-C05, C09, C12, C13, C17) holds for the run from the text. -/
theorem C14_accepted_runs_its_tree (env : PEnv) (orc : EvalOracles) (rxOk : Pat → Bool) (defs : List (Bytes × Bytes))
    (confText : Bytes) (files : Files) (input : Bytes) (blocks : List PBlock)
    (h : parseConfig env.home defs rxOk confText = .ok blocks) :
    ∃ conf, confBlocksOf blocks = some conf ∧ Proofs.MainText.toPBlocks conf = blocks ∧
      mainText env orc rxOk defs confText files input = mainP env orc true conf files input :=
  Proofs.MainText.mainText_accepted env orc rxOk defs confText files input blocks h

/-- `parseConfig` has no other outcome (`C14_parser_total` excludes `.fuel`), so the three theorems above
cover every byte string. -/
theorem C14_text_outcomes (home : Bytes) (defs : List (Bytes × Bytes)) (rxOk : Pat → Bool) (confText : Bytes) :
    (∃ blocks, parseConfig home defs rxOk confText = .ok blocks) ∨ (∃ line, parseConfig home defs rxOk confText = .error line) ∨
    parseConfig home defs rxOk confText = .invalidDefs := by
  have := (C14_parser_total home defs rxOk confText).1
  cases h : parseConfig home defs rxOk confText with
  | ok b => exact Or.inl ⟨b, rfl⟩
  | error l => exact Or.inr (Or.inl ⟨l, rfl⟩)
  | invalidDefs => exact Or.inr (Or.inr rfl)
  | fuel => exact absurd h this

/-- The property in one statement, for every byte string, environment, population and fault plan: a run
that issues any call besides opening and closing the configuration file comes from a configuration that
was accepted and all of whose blocks are well formed (`Spec.blockOK`: the shape of mdsort.conf(5) with
every side condition of `C14_error_classes_*`).  Contrapositive: a configuration with a defect anywhere
leaves every maildir untouched. -/
theorem C14_well_formed_or_untouched (env : PEnv) (orc : EvalOracles) (rxOk : Pat → Bool) (defs : List (Bytes × Bytes))
    (confText : Bytes) (files : Files) (input : Bytes) (w : World) (plan : Plan) :
    (∃ blocks, parseConfig env.home defs rxOk confText = .ok blocks ∧ ∀ b ∈ blocks, Spec.blockOK rxOk b = true) ∨
    (∀ c ∈ Proofs.callsOf plan (mainText env orc rxOk defs confText files input) w,
      c = .fopen env.confpath ∨ ∃ h, c = .fclose h) := by
  rcases C14_text_outcomes env.home defs rxOk confText with ⟨b, hb⟩ | ⟨l, hl⟩ | hd
  · exact Or.inl ⟨b, hb, C14_accepted_well_formed _ _ _ _ _ hb⟩
  · right
    have h3 := Proofs.MainText.mainText_rejected env orc rxOk defs confText files input l w plan hl
    simp only at h3
    intro c hc
    rcases h3.2.2 with h | ⟨hd, h⟩
    · rw [h] at hc
      simp only [List.mem_singleton] at hc
      exact Or.inl hc
    · rw [h] at hc
      simp only [List.mem_cons, List.not_mem_nil, or_false] at hc
      rcases hc with rfl | rfl
      · exact Or.inl rfl
      · exact Or.inr ⟨hd, rfl⟩
  · right
    have h3 := Proofs.MainText.mainText_invalidDefs env orc rxOk defs confText files input w plan hd
    simp only at h3
    intro c hc
    rw [h3.2.2] at hc
    cases hc

/-- Non-vacuity: a rejected text with valid blocks around the defect, an accepted text, refused options
(`home` = `/h`). -/
example :
    Proofs.Conf.isErrorAt 3 (parseConfig [47, 104] [] (fun _ => true)
      "maildir \"~/a\" { match all move \"b\" }\nstdin { match all discard }\nmaildir \"c\" { match all exec body \"x\" }".toUTF8.toList) = true ∧
    Proofs.Conf.isOkNonempty (parseConfig [47, 104] [] (fun _ => true)
      "maildir \"~/a\" { match all move \"b\" }\nstdin { match all discard }".toUTF8.toList) = true ∧
    Proofs.MainText.mt_isInvalidDefs (parseConfig [47, 104] [("path".toUTF8.toList, [120])] (fun _ => true)
      "stdin { match all discard }".toUTF8.toList) = true := by
  decide +kernel

/-! ## Diagnostics of the lexer as error classes -/

/-- Every diagnostic of the lexer is a diagnostic of the parser: at every position where the parser reads
a token (`peek` without lookahead, in the lexer modes of that position) a lexer call that reports a
diagnostic ends the parse with an error - there is no handler, an error passes through every
continuation.  (`parseConfig` reads tokens only through `peek`.) -/
theorem C14_error_lexer_diagnostic (cx : PCtx) (pf sf : Bool) (s : ParseSt) (hla : s.la = none)
    (herr : (lex1 pf sf s.afterMacro s.rest).errors > 0) :
    (∃ s', peek cx pf sf s = .err (lexErrLine cx.nl s.afterMacro s.rest) s') ∧
    (∀ {α β : Type} (m : PM α) (f : α → PM β) (s0 s1 : ParseSt) (l : Nat), m s0 = .err l s1 → (m >>= f) s0 = .err l s1) :=
  ⟨Proofs.MainText.mt_peek_lex_error cx pf sf s hla herr, fun m f s0 s1 l h => Proofs.MainText.mt_bind_err m f s0 s1 l h⟩

/-- The lexer-level classes, in every mode and at every position of every file: a pattern token carrying
both `l` and `u`, and a time unit that is a prefix of several units (`scalar none`), come with a
diagnostic; so does an integer literal of 2^32 or more (`C14_int_literals`), and an integer token never
exceeds 32 bits otherwise. -/
theorem C14_error_classes_lexer (pf sf am : Bool) (input : Bytes) :
    (∀ src i, (lex1 pf sf am input).tok = .pattern src i true true → (lex1 pf sf am input).errors > 0) ∧
    ((lex1 pf sf am input).tok = .scalar none → (lex1 pf sf am input).errors > 0) ∧
    (∀ n, (lex1 pf sf am input).tok = .int n → (lex1 pf sf am input).errors > 0 ∨ n < 2 ^ 32) :=
  ⟨fun src i h => Proofs.MainText.mt_lex_pattern_lu pf sf am input src i h,
   fun h => Proofs.MainText.mt_lex_unit_ambiguous pf sf am input h,
   fun n h => Proofs.MainText.mt_lex_int_bound pf sf am input n h⟩

/-- The lexer-level classes as a statement about whole files: for EVERY byte string `parseConfig` accepts,
no pattern anywhere in its trees carries both `l` and `u`, and every age is `n * unit` for an `n` below
2^32 and `unit` one of the values of `Gen.scalars`, the table `scalars[]` of parse.y regenerated on every run (that
this table is the documented one - seven units, 1 ... 31536000 - is `C15_units`; an ambiguous or unknown unit, or an
integer that does not fit, never gets into a tree).  So a configuration in which the parser reads such a token - in any block, at any
depth, next to whatever else - is not accepted. -/
theorem C14_error_classes_tokens (home : Bytes) (defs : List (Bytes × Bytes)) (rxOk : Pat → Bool) (input : Bytes) (e : Expr)
    (h : Proofs.Conf.AcceptedNode home defs rxOk input (.leaf e)) :
    (∀ l p, e = .body l p → (p.lcase && p.ucase) = false) ∧
    (∀ l ns p, e = .header l ns p → (p.lcase && p.ucase) = false) ∧
    (∀ l f c age, e = .date l f c age →
      ∃ n v, age = n * v ∧ n < 2 ^ 32 ∧ v ∈ Gen.scalars.map (·.2)) := by
  have hc := Proofs.MainText.accepted_leaf_clean h
  refine ⟨fun l p he => by subst he; exact hc, fun l ns p he => by subst he; exact hc, fun l f c age he => ?_⟩
  subst he
  exact hc

/-- Non-vacuity: an accepted file with a `date` leaf and a `body` leaf (`2 w` = 2 * 604800). -/
example :
    (∃ l f c age, Proofs.Conf.AcceptedNode [] [] (fun _ => true)
      "maildir \"q\" { match date > 2 w and body /a/il break }".toUTF8.toList (.leaf (.date l f c age))) ∧
    (∃ l p, Proofs.Conf.AcceptedNode [] [] (fun _ => true)
      "maildir \"q\" { match date > 2 w and body /a/il break }".toUTF8.toList (.leaf (.body l p))) :=
  Proofs.MainText.acceptedLeaves_of (by decide +kernel)

/-- An unknown unit is no unit token (it is lexed as a macro name, or a keyword): where the grammar expects
the unit of an age, anything but a unit token is a syntax error on the line of that token. -/
theorem C14_error_unknown_unit (cx : PCtx) (s : ParseSt) (t : Tk) (hla : s.la = some t)
    (ht : ∀ v, t ≠ .scalar (some v)) : parseScalar cx s = .err s.tokLine s :=
  Proofs.MainText.mt_parseScalar_not_unit cx s t hla ht

/-- The classes are not empty: whole files with these defects are rejected on the expected line, next to
valid blocks. -/
example :
    Proofs.Conf.isErrorAt 2 (parseConfig [] [] (fun _ => true)
      "stdin { match all discard }\nmaildir \"q\" { match body /a/lu break }".toUTF8.toList) = true ∧
    Proofs.Conf.isErrorAt 1 (parseConfig [] [] (fun _ => true) "maildir \"q\" { match date > 1 m break }".toUTF8.toList) = true ∧
    Proofs.Conf.isErrorAt 1 (parseConfig [] [] (fun _ => true) "maildir \"q\" { match date > 1 foo break }".toUTF8.toList) = true ∧
    Proofs.Conf.isErrorAt 3 (parseConfig [] [] (fun _ => true)
      "maildir \"q\" {\n match date >\n 4294967296 seconds break }".toUTF8.toList) = true ∧
    (lex1 true false false " /a/lu x".toUTF8.toList).errors = 1 ∧ (lex1 false true false " m x".toUTF8.toList).errors = 1 := by
  decide +kernel

/-! ## Error classes at EVERY position of a written configuration

The theorems `C14_error_second_stdin`, `C14_error_macro_reference`, `C14_error_unknown_unit`, `C14_error_exec_option_repeated`
above speak of one
parser function started in an arbitrary state.  `C14_error_anywhere_rejects_file` lifts them to whole files: take
what `Spec.printBlocks` writes of a configuration of `Spec.ConfOK` up to ANY position (`Spec.RulePos`: behind any
number of complete blocks, in a `stdin` or `maildir` block, behind any number of complete rules, and - to any
depth - inside the nested block of a rule or the block of an `attachment` action; `Spec.ActPos`: behind
`match cond` and any number of complete actions of a rule there; `Spec.CondPos`: in the condition of a rule
there, behind any sequence of `!`, `attachment`, `(`, `( cond and`, `( cond or`), write the defect, and then
ANYTHING (`tl`: nothing, or a blank and arbitrary bytes - in particular the rest of the well-formed file):
`parseConfig` reports a diagnostic, and the first one is on line 1 (the written part has no newline; `tl`
may have).  With `C14_reject_whole_text`: such a file leaves every maildir untouched.

The proof is the lifting lemma the local theorems lacked: the read-back lemmas behind
`C14_accepts_grammar_partial` hold in front of arbitrary text and for any postcondition of the error outcome
(Proofs/ConfRT1-5.lean: `Up cx tl s ts`, `RT`, `Goal`), so they bring the parser to the position; there the
local function fails (Proofs/ConfAnywhere2-3.lean), and an error passes through every continuation
(`wpl_bind`; Proofs/ConfAnywhere1, 4).  The budget of `parseConfig` is not exhausted (`C14_parser_total`). -/

/-- A string with a macro reference that cannot be expanded in a written configuration (which defines no macro):
its first `$` starts `${name}`, and `name` is not `path` - or the string stands where `${path}` is not allowed
(`action = false`: everywhere but in `move`, `label`, `exec` and the value of `add-header`). -/
example : Spec.BadRef true "in${box}/x".toUTF8.toList ∧ Spec.BadRef false "${path}".toUTF8.toList ∧
    ¬ Spec.strOK "in${box}/x".toUTF8.toList = true :=
  ⟨⟨by decide +kernel, "in".toUTF8.toList, "box".toUTF8.toList, "/x".toUTF8.toList, by decide +kernel, by decide +kernel,
      by decide +kernel, by decide +kernel⟩,
   ⟨by decide +kernel, [], "path".toUTF8.toList, [], by decide +kernel, by decide +kernel, by decide +kernel, fun _ => rfl⟩,
   by decide +kernel⟩

/-- A defect of one of the classes "stdin already defined", "unknown macro" / "macro used in wrong context", unknown or
ambiguous unit, "exec options cannot be repeated", written at ANY position of a written configuration - behind any well-formed
blocks, rules, actions and parts of a condition, at any nesting depth (`Spec.RulePos`, `ActPos`, `CondPos`, all of whose
parts must be well formed: `.ok`) - and followed by ANY text `tl`, makes `parseConfig` report a diagnostic; the first one is
on line 1 (the written prefix is one line).  Hypotheses besides `.ok`: `Spec.BadRef` (the FIRST `$` of the string starts the
reference, the name is not `path` or the context is not an action, the string itself is one STRING token), the strings before it in
the same list mean themselves, the number of a `date` fits 32 bits, the unit word is a word (`Spec.badUnitWord`) and ends where
it ends.  Not covered: files in another layout than `Spec.printBlocks` writes (checked by differential execution, stage 1c' of
tools/props/c14.py), macro definitions before the defect, the lexer's own diagnostics. -/
theorem C14_error_anywhere_rejects_file (home : Bytes) (rxOk : Pat → Bool) (tl : Bytes) (htl : Spec.tailOK tl = true) :
    -- "stdin already defined": a block written `stdin` behind a block that reads from stdin, at any two positions
    (∀ (pre : List PBlock) (b1 : PBlock) (mid : List PBlock) (b2 : PBlock) (post : List PBlock),
      Spec.ConfOK rxOk (pre ++ b1 :: mid) = true → b1.paths.any isStdinStr = true → b2.paths = [stdinStr] →
      parseConfig home [] rxOk (Spec.printBlocks (pre ++ b1 :: (mid ++ b2 :: post))) = .error 1) ∧
    (∀ (pre : List PBlock), Spec.ConfOK rxOk pre = true → (pre.any fun x => x.paths.any isStdinStr) = true →
      parseConfig home [] rxOk (Spec.render (pre.flatMap Spec.blockToks ++ [.kw .stdin]) ++ tl) = .error 1) ∧
    -- "unknown macro" / "macro used in wrong context" in a string of an action: any action, any action position
    (∀ (p : Spec.ActPos) (site : Spec.ActSite) (b : Bytes), p.ok rxOk = true → site.ok = true → Spec.BadRef site.action b →
      parseConfig home [] rxOk (Spec.render (p.toks ++ site.toks b) ++ tl) = .error 1) ∧
    -- ... in a string of a condition: `header`, `isdirectory`, `command`, at any operand position of any condition
    (∀ (p : Spec.CondPos) (site : Spec.CondSite) (b : Bytes), p.ok rxOk = true → site.ok = true → Spec.BadRef false b →
      parseConfig home [] rxOk (Spec.render (p.toks ++ site.toks b) ++ tl) = .error 1) ∧
    -- ... in a path of a `maildir` block, behind any complete blocks
    (∀ (pre : List PBlock) (l1 l2 : List Bytes) (b : Bytes), Spec.ConfOK rxOk pre = true → l1.all Spec.strOK = true →
      l2.all Spec.strLexOK = true → Spec.BadRef false b →
      parseConfig home [] rxOk
        (Spec.render (pre.flatMap Spec.blockToks ++ (.kw .maildir :: Spec.strsToks (l1 ++ b :: l2))) ++ tl) = .error 1) ∧
    -- "unknown unit": a `date` condition, at any operand position of any condition, whose unit is a word that is a
    -- keyword, or a prefix of no unit, or of several ("ambiguous keyword")
    (∀ (p : Spec.CondPos) (f : DateField) (c : DateCmp) (n : Nat) (w tail : Bytes), p.ok rxOk = true → n < 2 ^ 32 →
      Spec.badUnitWord w = true → (∀ x, tail.head? = some x → isKwChar x = false) →
      parseConfig home [] rxOk
        (Spec.render (p.toks ++ (.kw .date :: (Spec.fieldToks f ++ [Spec.cmpTok c, .int n]))) ++ 32 :: (w ++ tail)) = .error 1) ∧
    -- "exec options cannot be repeated": `exec` with `stdin` or `body` twice among its options, at any action position
    (∀ (p : Spec.ActPos) (opts : List Kw), p.ok rxOk = true → Spec.optsRepeat opts = true →
      parseConfig home [] rxOk (Spec.render (p.toks ++ (.kw .exec :: opts.map Spec.PTok.kw)) ++ tl) = .error 1) :=
  ⟨fun pre b1 mid b2 post h1 h2 h3 => Proofs.Conf.second_stdin_file home rxOk pre b1 mid b2 post h1 h2 h3,
   fun pre h1 h2 => Proofs.Conf.anywhere_second_stdin home rxOk pre h1 h2 tl htl,
   fun p site b hp hs hb => Proofs.Conf.anywhere_action_string home rxOk p hp site hs b hb tl htl,
   fun p site b hp hs hb => Proofs.Conf.anywhere_cond_string home rxOk p hp site hs b hb tl htl,
   fun pre l1 l2 b hpre h1 h2 hb => Proofs.Conf.anywhere_path home rxOk pre hpre l1 l2 h1 h2 b hb tl htl,
   fun p f c n w tail hp hn hw ht => Proofs.Conf.anywhere_unit home rxOk p hp f c n hn w tail hw ht,
   fun p opts hp ho => Proofs.Conf.anywhere_exec_option home rxOk p hp opts ho tl htl⟩

/-! Non-vacuity of `C14_error_anywhere_rejects_file`, on concrete files: the positions and sites satisfy the
hypotheses, the text is the one shown, the well-formed file is accepted and the file with the defect rejected on line 1. -/

/-- A string in the fourth action-carrying rule, three blocks deep (a nested block, an attachment block), behind another
block: `exec stdin { "z" "${u}" "w" }`. -/
example :
    let p : Spec.ActPos :=
      { rp := { pre := [⟨[[97]], .block 1 (.mtch 1 (.leaf (.all 1)) (.leaf (.brk 1)))⟩], paths := [stdinStr],
                steps := [.rule (.mtch 1 (.leaf (.new 1)) (.leaf (.pass 1))), .nested (.leaf (.old 1)),
                          .attach (.leaf (.all 1)) [.leaf (.exec 1 false false [[120]])]] },
        cond := .leaf (.all 1), acts := [.leaf (.exec 1 false false [[121]])] }
    let site : Spec.ActSite := .exec true false [[122]] [[119]]
    let close : Bytes := Spec.render [.rbrace, .rbrace, .rbrace]
    p.ok (fun _ => true) = true ∧ site.ok = true ∧ site.action = true ∧ Spec.tailOK close = true ∧
    Spec.render (p.toks ++ site.toks "${u}".toUTF8.toList) ++ close =
      (" maildir { \"a\" } { match all break } stdin { match new pass match old { match all exec { \"x\" } attachment {" ++
       " match all exec { \"y\" } exec stdin { \"z\" \"${u}\" \"w\" } } } }").toUTF8.toList ∧
    Proofs.Conf.isOkNonempty (parseConfig [] [] (fun _ => true) (Spec.render (p.toks ++ site.toks [118]) ++ close)) = true ∧
    Proofs.Conf.isErrorAt 1 (parseConfig [] [] (fun _ => true)
      (Spec.render (p.toks ++ site.toks "${u}".toUTF8.toList) ++ close)) = true ∧
    -- the same position, `exec stdin body stdin { "z" } } } }`
    Spec.optsRepeat [.stdin, .body, .stdin] = true ∧ Spec.optsRepeat [.stdin, .body] = false ∧
    Proofs.Conf.isOkNonempty (parseConfig [] [] (fun _ => true)
      (Spec.render (p.toks ++ (.kw .exec :: [Kw.stdin, .body].map Spec.PTok.kw)) ++ Spec.render (Spec.strsToks [[122]]) ++ close)) = true ∧
    Proofs.Conf.isErrorAt 1 (parseConfig [] [] (fun _ => true)
      (Spec.render (p.toks ++ (.kw .exec :: [Kw.stdin, .body, .stdin].map Spec.PTok.kw)) ++ (Spec.render (Spec.strsToks [[122]]) ++ close))) = true := by
  decide +kernel

/-- An operand deep in a condition of a rule of a nested block: `isdirectory "${path}"`, and `date > 3` with the words
`foo` (no unit), `m` (`minutes` or `months`), `match` (a keyword) instead of a unit; `se` is a unit. -/
example :
    let p : Spec.CondPos :=
      { rp := { pre := [], paths := [[109]], steps := [.nested (.leaf (.all 1))] },
        steps := [.bang, .andR (.leaf (.new 1)), .att, .lpar] }
    let rest : Bytes := Spec.render [.kw .or, .kw .old, .rparen, .rparen, .kw .brk, .rbrace, .rbrace]
    let date : List Spec.PTok := .kw .date :: (Spec.fieldToks .header ++ [Spec.cmpTok .gt, .int 3])
    p.ok (fun _ => true) = true ∧ Spec.tailOK rest = true ∧
    Spec.render (p.toks ++ date) ++ 32 :: ("foo".toUTF8.toList ++ rest) =
      " maildir { \"m\" } { match all { match ! ( new and attachment ( date > 3 foo or old ) ) break } }".toUTF8.toList ∧
    Spec.badUnitWord "foo".toUTF8.toList = true ∧ Spec.badUnitWord "m".toUTF8.toList = true ∧
    Spec.badUnitWord "match".toUTF8.toList = true ∧ Spec.badUnitWord "se".toUTF8.toList = false ∧
    Proofs.Conf.isOkNonempty (parseConfig [] [] (fun _ => true)
      (Spec.render (p.toks ++ date) ++ 32 :: ("se".toUTF8.toList ++ rest))) = true ∧
    Proofs.Conf.isErrorAt 1 (parseConfig [] [] (fun _ => true)
      (Spec.render (p.toks ++ date) ++ 32 :: ("foo".toUTF8.toList ++ rest))) = true ∧
    Proofs.Conf.isErrorAt 1 (parseConfig [] [] (fun _ => true)
      (Spec.render (p.toks ++ date) ++ 32 :: ("m".toUTF8.toList ++ rest))) = true ∧
    Proofs.Conf.isErrorAt 1 (parseConfig [] [] (fun _ => true)
      (Spec.render (p.toks ++ date) ++ 32 :: ("match".toUTF8.toList ++ rest))) = true ∧
    Proofs.Conf.isOkNonempty (parseConfig [] [] (fun _ => true)
      (Spec.render (p.toks ++ Spec.CondSite.isdirectory.toks [100]) ++ rest)) = true ∧
    Proofs.Conf.isErrorAt 1 (parseConfig [] [] (fun _ => true)
      (Spec.render (p.toks ++ Spec.CondSite.isdirectory.toks "${path}".toUTF8.toList) ++ rest)) = true := by
  decide +kernel

/-- A path of the second `maildir` block; a block written `stdin` behind a `maildir` block one of whose paths is the
standard input, with a block between them and one behind. -/
example :
    let b : PBlock := ⟨[[97]], .block 1 (.mtch 1 (.leaf (.all 1)) (.leaf (.brk 1)))⟩
    let b1 : PBlock := ⟨[[98], stdinStr], .block 1 (.mtch 1 (.leaf (.all 1)) (.leaf (.brk 1)))⟩
    let b2 : PBlock := ⟨[stdinStr], .block 1 (.mtch 1 (.leaf (.all 1)) (.leaf (.discard 1)))⟩
    let body : Bytes := Spec.render [.lbrace, .kw .mtch, .kw .all, .kw .brk, .rbrace]
    Spec.ConfOK (fun _ => true) [b] = true ∧ Spec.ConfOK (fun _ => true) ([b] ++ b1 :: [b]) = true ∧
    b1.paths.any isStdinStr = true ∧ Spec.tailOK body = true ∧
    Proofs.Conf.isOkNonempty (parseConfig [] [] (fun _ => true)
      (Spec.render ([b].flatMap Spec.blockToks ++ (.kw .maildir :: Spec.strsToks ([[99]] ++ [100] :: [[101]]))) ++ body)) = true ∧
    Proofs.Conf.isErrorAt 1 (parseConfig [] [] (fun _ => true)
      (Spec.render ([b].flatMap Spec.blockToks ++ (.kw .maildir :: Spec.strsToks ([[99]] ++ "~${x}".toUTF8.toList.tail :: [[101]]))) ++ body)) = true ∧
    Proofs.Conf.isOkNonempty (parseConfig [] [] (fun _ => true) (Spec.printBlocks ([b] ++ b1 :: ([b] ++ [b])))) = true ∧
    Proofs.Conf.isErrorAt 1 (parseConfig [] [] (fun _ => true) (Spec.printBlocks ([b] ++ b1 :: ([b] ++ b2 :: [b])))) = true := by
  decide +kernel

/-- The macro class stated on trees, for the positions that need no descent: a configuration written by
`Spec.printBlocks` in which ONE string of ONE action holds a macro reference that cannot be expanded - the action being
any of the six that take strings (`Spec.ActSite`; its leaf is `site.expr b`), at any place `as1 | as2` among the actions
of a rule, the rule at any place `rs1 | rs2` among the rules of a block, the block at any place `pre | post` of the
configuration - is rejected on line 1, provided what is written BEFORE the string is well formed (`hpos`: the blocks
`pre` are a configuration of `Spec.ConfOK`, the paths can be written, the block is not a second `stdin` block, the rules
`rs1`, the condition `c` and the actions `as1` are well formed).  Nothing is asked of `as2`, `rs2`, `post`.  (Strings in
rules of nested blocks and of attachment blocks, in conditions and in paths: `C14_error_anywhere_rejects_file`.) -/
theorem C14_error_action_string_rejects_file (home : Bytes) (rxOk : Pat → Bool) (pre post : List PBlock) (paths : List Bytes)
    (rs1 rs2 : List CTree) (c : CTree) (as1 as2 : List CTree) (site : Spec.ActSite) (b : Bytes)
    (hpos : ({ rp := { pre := pre, paths := paths, steps := rs1.map .rule }, cond := c, acts := as1 } : Spec.ActPos).ok rxOk = true)
    (hsite : site.ok = true) (hb : Spec.BadRef site.action b) :
    parseConfig home [] rxOk (Spec.printBlocks (pre ++
      ⟨paths, Spec.blockOfRules (rs1 ++ Spec.ruleOfActs c (as1 ++ .leaf (site.expr b) :: as2) :: rs2)⟩ :: post)) = .error 1 :=
  Proofs.Conf.action_string_file home rxOk pre post paths rs1 rs2 c as1 as2 site b hpos hsite hb

/-- Non-vacuity: the second action of the second rule of the second block, `move "in${box}"`; with `move "in"` the
configuration is in `Spec.ConfOK` and accepted. -/
example :
    let b0 : PBlock := ⟨[stdinStr], .block 1 (.mtch 1 (.leaf (.all 1)) (.leaf (.discard 1)))⟩
    let r : CTree := .mtch 1 (.leaf (.new 1)) (.leaf (.pass 1))
    let conf (b : Bytes) : List PBlock := [b0] ++
      ⟨[[97]], Spec.blockOfRules ([r] ++ Spec.ruleOfActs (.leaf (.old 1)) ([.leaf (.brk 1)] ++ .leaf (Spec.ActSite.move.expr b) :: [.leaf (.pass 1)]) :: [r])⟩ :: [b0]
    ({ rp := { pre := [b0], paths := [[97]], steps := [r].map .rule }, cond := .leaf (.old 1), acts := [.leaf (.brk 1)] } : Spec.ActPos).ok
      (fun _ => true) = true ∧
    Spec.printBlocks (conf "in${box}".toUTF8.toList) =
      " stdin { match all discard } maildir { \"a\" } { match new pass match old break move \"in${box}\" pass match new pass } stdin { match all discard }".toUTF8.toList ∧
    Spec.ConfOK (fun _ => true) ((conf "in".toUTF8.toList).take 2) = true ∧
    Proofs.Conf.isOkNonempty (parseConfig [] [] (fun _ => true) (Spec.printBlocks ((conf "in".toUTF8.toList).take 2))) = true ∧
    Proofs.Conf.isErrorAt 1 (parseConfig [] [] (fun _ => true) (Spec.printBlocks (conf "in${box}".toUTF8.toList))) = true := by
  decide +kernel

end Mdsort.Props
