import Mdsort.Proofs.World
import Mdsort.Proofs.WorldFrameMain
import Mdsort.Proofs.WorldStdinExample
import Mdsort.Proofs.EvalPFail

/-!
# C04 - the exit status tells the truth (MDA contract, error isolation)
-/

namespace Mdsort.Props
open Mdsort Mdsort.Model

/-- The status table: 0/1 from the sticky error flag in maildir mode; with `-`: 75 iff an error
occurred, else 1 iff a reject was executed, else 0 (constants regenerated from mdsort.c). -/
theorem C04_status_table (env : PEnv) (orc : EvalOracles) (ok : Bool) (conf : List ConfBlock) (files : Files) (input : Bytes)
    (w : World) (plan : Plan) :
    let r := (runPlan plan (mainP env orc ok conf files input) w 0 []).1
    r.1 = exitStatus env r.2 ∧ Gen.exTempfail = 75 ∧ Gen.exPermfail = 1 :=
  ⟨Proofs.exit_status_table env orc ok conf files input w plan, by decide, by decide⟩

/-- A rejected or unreadable configuration is an error, and nothing but the configuration file
is touched. -/
theorem C04_config_error (env : PEnv) (orc : EvalOracles) (conf : List ConfBlock) (files : Files) (input : Bytes)
    (w : World) (plan : Plan) :
    let r := runPlan plan (mainP env orc false conf files input) w 0 []
    r.1.2.error = true ∧
    (Proofs.callsOf plan (mainP env orc false conf files input) w = [.fopen env.confpath] ∨
     ∃ h, Proofs.callsOf plan (mainP env orc false conf files input) w = [.fopen env.confpath, .fclose h]) :=
  Proofs.bad_config_only_reads_config env orc conf files input w plan

/-! ## Frame and error isolation (world level, arbitrary call results)

`runOracle orcl p i tr` runs `p` when the trace so far is `tr`, giving the `j`-th call the ARBITRARY
result `orcl j c`; the statements therefore hold for every behaviour of the file system, every fault
and every interleaving with other processes.  `createdNames tr` are the names for which an exclusive
create succeeded in `tr` (Model/Plan.lean).

`Proofs.Framed src tr c` (Proofs/WorldFrameOwn.lean) is the frame condition on a call `c` issued when
the trace is `tr`, for the message named `src`:

* `unlinkat _ n`: `n` is `src` or a name this run created;
* `renameat _ n1 _ n2`: `n1` is `src` or a name this run created, and `n2` is a name this run created;
* `utimensat _ n ..`: `n` is a name this run created;
* `write fd _`, `fprintf fd _`: `fd` is a descriptor of a file this run created (`Proofs.ownFds`: result
  of a successful exclusive create or `mkostemp`, or a duplicate of such a descriptor);
* `unlink p`: `p` is the template of a temporary file this run created with `mkostemp`;
* `mkdtemp`, `mkdir`, `rmdir`, `readdir`: never;
* anything else (`openExcl`, which creates a fresh name or fails; `mkostemp`; the calls that change
  nothing): allowed. -/

/-- **Frame.**  Processing one message mentions, in its mutating calls, only the message's own name
and names this run created itself - for every oracle of results and from every trace so far. -/
theorem C04_frame (env : PEnv) (orc : EvalOracles) (expr : Expr) (md : Maildir) (name : Bytes) (st : MainSt)
    (orcl : Nat → Call → Res) (i0 : Nat) (tr0 : List (Call × Res)) :
    ∀ i c r, tr0.length ≤ i → (runOracle orcl (processMessage env orc expr md name st) i0 tr0).2[i]? = some (c, r) →
      Proofs.Framed name ((runOracle orcl (processMessage env orc expr md name st) i0 tr0).2.take i) c :=
  Proofs.processMessage_frame env orc expr md name st orcl i0 tr0

/-- **Isolation of the calls of a walk.**  `Proofs.FramedW tr c`: `c` is a `readdir`, or satisfies
`Framed n tr` for the name `n` the most recent `readdir` of `tr` returned (`Proofs.lastName`: the
message being processed at that point); before any name was returned `c` is not mutating.  So for
a walk over a directory with messages `n1 … nk`, whatever the calls return, a mutating call that
mentions a name which existed before the run mentions the name of the message being processed at
that point, and no other. -/
theorem C04_isolation_calls (env : PEnv) (orc : EvalOracles) (expr : Expr) (fuel : Nat) (md : Maildir) (st : MainSt)
    (orcl : Nat → Call → Res) (i0 : Nat) (tr0 : List (Call × Res)) :
    ∀ i c r, tr0.length ≤ i → (runOracle orcl (walk env orc expr fuel md st) i0 tr0).2[i]? = some (c, r) →
      Proofs.FramedW ((runOracle orcl (walk env orc expr fuel md st) i0 tr0).2.take i) c :=
  Proofs.walk_frame env orc expr fuel md st orcl i0 tr0

/-- Non-vacuity of the frame: `match all discard` on the message `1` of `/m/new` (directory handle 3;
every call succeeds, `read` returns end of file at once): the run is `openat`, `read`, `unlinkat` of
the message's own name, `close`. -/
example :
    ((runOracle (fun _ c => match c with | .read _ => .ok 0 | _ => .ok 7)
      (processMessage Proofs.examplePEnv Proofs.exampleOracles (.mtch 1 (.all 1) (.discard 1))
        { root := [47, 109], path := [47, 109, 47, 110, 101, 119], dirH := some 3, subdir := .new, walk := true, stdin := false }
        [49]
        { files := [([47, 109, 47, 110, 101, 119], [49], [83, 117, 98, 106, 101, 99, 116, 58, 32, 120, 10, 10, 98, 10])],
          error := false, reject := false, log := [] }) 0 []).2.map (·.1)) =
      [.openRd 3 [49], .read 7, .unlinkat 3 [49], .close 7] := by
  simp only [processMessage, evalP, evalTop, evalT, eval]
  decide +kernel

/-- **Error isolation.**  In a walk, when `readdir` returns the name `n` (not `.` or `..`), the run is
the `readdir`, the run of `processMessage` for `n`, and then the run of the rest of the walk on the
SAME maildir from the state `processMessage` returned - whatever that state is, in particular whether
or not the message set `error`: the next call is the next `readdir`.  The flag is sticky: set before
the message it is set after it, and set after the message it is set at the end of the walk. -/
theorem C04_error_isolated (env : PEnv) (orc : EvalOracles) (expr : Expr) (fuel : Nat) (md : Maildir) (st : MainSt)
    (d : Handle) (n : Bytes) (orcl : Nat → Call → Res) (tr : List (Call × Res))
    (hd : md.dirH = some d) (hr : orcl tr.length (.readdir d) = .name n) (hn : (n == [46] || n == [46, 46]) = false) :
    let one := runOracle orcl (processMessage env orc expr md n st) (tr.length + 1) (tr ++ [(.readdir d, .name n)])
    let all := runOracle orcl (walk env orc expr (fuel + 1) md st) tr.length tr
    all = runOracle orcl (walk env orc expr fuel md one.1.1) one.2.length one.2 ∧
    one.1.2 = md ∧
    (fuel ≠ 0 → all.2[one.2.length]? = some (.readdir d, orcl one.2.length (.readdir d))) ∧
    (one.1.1.error = true → all.1.1.error = true) ∧
    (st.error = true → one.1.1.error = true) :=
  Proofs.walk_isolated env orc expr fuel md st d n orcl tr hd hr hn

/-- Non-vacuity: an open maildir whose `readdir` returns the name `1`. -/
example :
    let md : Maildir := { root := [47, 109], path := [47, 109, 47, 110, 101, 119], dirH := some 3, subdir := .new,
                          walk := true, stdin := false }
    md.dirH = some 3 ∧ (fun (_ : Nat) (_ : Call) => Res.name [49]) ([] : List (Call × Res)).length (.readdir 3) = .name [49] ∧
      (([49] : Bytes) == [46] || ([49] : Bytes) == [46, 46]) = false := by
  decide

/-- **The error flag never influences what is done.**  The walk (and one message's processing) from a
state whose flag is or-ed with `b` is the same program - the same calls for all results, the same
final state - as from the state itself, except that the final flag is or-ed with `b`. -/
theorem C04_error_flag_inert (env : PEnv) (orc : EvalOracles) (expr : Expr) (fuel : Nat) (md : Maildir) (name : Bytes)
    (st : MainSt) (b : Bool) :
    walk env orc expr fuel md { st with error := b || st.error } =
      (walk env orc expr fuel md st).bind (fun x => pure ({ x.1 with error := b || x.1.error }, x.2)) ∧
    processMessage env orc expr md name { st with error := b || st.error } =
      (processMessage env orc expr md name st).bind (fun x => pure ({ x.1 with error := b || x.1.error }, x.2)) :=
  ⟨Proofs.Own.walk_setErr env orc expr fuel md st b, Proofs.Own.processMessage_setErr env orc expr md name st b⟩

/-! ## Where the error flag comes from

`Proofs.Own.runO orcl p i` is `runOracle` without the accumulator: the value of `p`, the calls it
issued, and the index of the next call (`Proofs.Own.runOracle_eq`). -/

/-- **One message.**  After processing a message the flag is the flag before or-ed with the
message's own error bit `Proofs.msgError` (Proofs/WorldFrameErr.lean): the file is unknown to the
model, `message_parse` failed (open/read failure, over-long path or name, invalid flag suffix), the
rules' verdict IN THIS RUN is an evaluation error or an interpolation failure, or - not in a dry run - the action
list reported an error.  Evaluation is part of the run (`Model.evalP`): the verdict is `Proofs.evVerdict` of the value
`evalP` returns on the results `orcl` gives to its calls, so the evaluation errors include the conditions the operating
system could not answer - `C04_evaluation_failure_is_error`, `C04_command_failure_causes`, `C04_date_stat_failure`,
`C04_message_error_of_eval_error` below. -/
theorem C04_message_error_iff (env : PEnv) (orc : EvalOracles) (expr : Expr) (md : Maildir) (name : Bytes) (st : MainSt)
    (orcl : Nat → Call → Res) (i : Nat) (tr : List (Call × Res)) :
    (runOracle orcl (processMessage env orc expr md name st) i tr).1.1.error =
      (st.error || Proofs.msgError env orc expr md name st orcl i) :=
  Proofs.processMessage_error_oracle env orc expr md name st orcl i tr

/-- **One maildir.**  After a walk the flag is set iff it was set before or one of the causes
`Proofs.WalkErr` occurred in this run: `readdir` failed; the path of `cur` does not fit or `cur`
cannot be opened; or the error bit of some message the walk reached is set (`message`, with `later` /
`afterDot` / `inCur` locating it in the run). -/
theorem C04_walk_error_iff (env : PEnv) (orc : EvalOracles) (expr : Expr) (fuel : Nat) (md : Maildir) (st : MainSt)
    (orcl : Nat → Call → Res) (i : Nat) (tr : List (Call × Res)) :
    (runOracle orcl (walk env orc expr fuel md st) i tr).1.1.error = true ↔
      st.error = true ∨ Proofs.WalkErr env orc expr orcl fuel md st i :=
  Proofs.walk_error_oracle_iff env orc expr fuel md st orcl i tr

/-- **The whole run (`C04_error_iff`, with the per-message action failures kept as the error value of
`matchesExec`).**  The error flag `main` derives its exit status from is set iff one of the causes
`Proofs.MainErr` (Proofs/WorldFrameMain.lean) occurred in this run: the configuration file cannot be
opened; the configuration is not valid; or - unless `-n` - for some block and some selected path of
it (`Proofs.PathsErr`, `Proofs.BlocksErr`): the stdin spool cannot be set up, the path or path +
`/new` does not fit, `new` cannot be opened, or a cause `Proofs.WalkErr` occurs in the walk
(`readdir` failure, `cur` not joinable / not openable, or some message's error bit
`Proofs.msgError`: unknown file, parse failure, evaluation error, interpolation failure, action
failure). -/
theorem C04_error_iff_partial (env : PEnv) (orc : EvalOracles) (orcl : Nat → Call → Res) (confOk : Bool)
    (conf : List ConfBlock) (files : Files) (input : Bytes) :
    (runOracle orcl (mainP env orc confOk conf files input) 0 []).1.2.error = true ↔
      Proofs.MainErr env orc orcl confOk conf files input :=
  Proofs.mainP_error_oracle_iff env orc orcl confOk conf files input

/-- Non-vacuity: with every call succeeding and no block configured, an invalid configuration is a
cause and a valid one leaves none. -/
example :
    Proofs.MainErr Proofs.examplePEnv Proofs.exampleOracles (fun _ _ => .ok 0) false [] [] [] ∧
    ¬ Proofs.MainErr Proofs.examplePEnv Proofs.exampleOracles (fun _ _ => .ok 0) true [] [] [] := by
  simp [Proofs.MainErr, Proofs.BlocksErr]

/-- **Isolation of the calls of a whole run in maildir mode** (`-` not given): every call is a
`readdir` or satisfies the frame condition for the name the last `readdir` returned (between walks
only the configuration file, `opendir` and `closedir` are used). -/
theorem C04_isolation_calls_main (env : PEnv) (orc : EvalOracles) (ok : Bool) (conf : List ConfBlock) (files : Files)
    (input : Bytes) (hm : env.stdinMode = false) (orcl : Nat → Call → Res) :
    ∀ i c r, (runOracle orcl (mainP env orc ok conf files input) 0 []).2[i]? = some (c, r) →
      Proofs.FramedW ((runOracle orcl (mainP env orc ok conf files input) 0 []).2.take i) c :=
  Proofs.mainP_frame env orc ok conf files input hm orcl

/-- Non-vacuity: maildir mode. -/
example : Proofs.examplePEnv.stdinMode = false := rfl
/-- The spool is complete or `maildir_stdin` fails (finding F9, repaired: the copy loop continues a
short `write`): for every input and EVERY fault plan, if `maildir_stdin` reports success then the
spool entry it names (in the `new` directory of the temporary maildir) is bound to a file whose
visible AND durable content is exactly the input - a short or failed `read` / `write` / `fsync` /
`close` never yields success with truncated content. -/
theorem C04_stdin_spool_complete (env : PEnv) (input : Bytes) (w : World) (plan : Plan) (hin : Proofs.World.StdinIs w input) :
    let r := runPlan plan (maildirStdin env input) w 0 []
    r.1.2.1 = false →
      ∃ name fid, r.1.2.2 = some name ∧ r.2.1.lookup r.1.1.path name = some fid ∧
        r.2.1.file fid = some { data := input, durable := input } :=
  Proofs.stdin_spool_complete env input w plan hin

/-! Non-vacuity: a 10-byte input; the fault-free plan and a plan whose first `write` transfers
only 3 bytes both end with `failed = false`, so the conclusion says the spool holds all 10 bytes. -/
example : (runPlan Plan.none (maildirStdin Proofs.StdinExample.env0 Proofs.StdinExample.input0)
    Proofs.StdinExample.w0 0 []).1.2.1 = false := Proofs.StdinExample.ex_stdin_ok
example : (runPlan Proofs.StdinExample.shortWrite (maildirStdin Proofs.StdinExample.env0 Proofs.StdinExample.input0)
    Proofs.StdinExample.w0 0 []).1.2.1 = false := Proofs.StdinExample.ex_stdin_short_ok
example :
    let r := runPlan Proofs.StdinExample.shortWrite (maildirStdin Proofs.StdinExample.env0 Proofs.StdinExample.input0)
      Proofs.StdinExample.w0 0 []
    ∃ name fid, r.1.2.2 = some name ∧ r.2.1.lookup r.1.1.path name = some fid ∧
      r.2.1.file fid = some { data := Proofs.StdinExample.input0, durable := Proofs.StdinExample.input0 } :=
  C04_stdin_spool_complete _ _ _ _ Proofs.StdinExample.ex_stdinIs Proofs.StdinExample.ex_stdin_short_ok

/-- The spool is always removed: in stdin mode, for every configuration with one `stdin` block, every
rule set and action list (moves, flags, label, add-header, discard, exec, reject, in any number and
order - no hypothesis on them), every input and every fault plan that injects nothing from the first
call of the cleanup on (`Proofs.stdinCleanupStart` = number of calls made before `maildir_close`; in
particular every plan whose faults all lie before the cleanup): every directory that exists when
`main` returns existed before.  So neither the directory `mkdtemp` made, nor its `new`, nor any
entry below them is left - on EVERY path: `mkdtemp` fails (nothing to remove), `mkdir` fails (root
removed), `opendir` fails, `maildir_genname` fails, the copy fails, parse / evaluation /
interpolation / action failure, no match, dry run, success. -/
theorem C04_stdin_spool_removed (env : PEnv) (orc : EvalOracles) (conf : List ConfBlock) (files : Files) (input : Bytes)
    (expr : Expr) (w : World) (plan : Plan) (hm : env.stdinMode = true) (hs : env.syntaxOnly = false)
    (hc : Proofs.World.stdinExprs conf = [expr]) (hin : Proofs.World.StdinIs w input)
    (hfresh : Proofs.World.SpoolFresh env w)
    (hplan : ∀ j, Proofs.stdinCleanupStart plan env orc expr files input w ≤ j → plan j = none) :
    ∀ q, ((runPlan plan (mainP env orc true conf files input) w 0 []).2.1.dir q).isSome → (w.dir q).isSome :=
  Proofs.stdin_spool_removed env orc conf files input expr w plan hm hs hc hin hfresh hplan

/-! Non-vacuity: the example run (10-byte message, `stdin { match all move "/m/inbox" }`) under the
fault-free plan. -/
example : ∀ q, ((runPlan Plan.none (mainP Proofs.StdinExample.env0 Proofs.StdinExample.orc0 true Proofs.StdinExample.conf0 []
    Proofs.StdinExample.input0) Proofs.StdinExample.w0 0 []).2.1.dir q).isSome → (Proofs.StdinExample.w0.dir q).isSome :=
  C04_stdin_spool_removed _ _ _ _ _ _ _ _ rfl rfl Proofs.StdinExample.ex_stdinExprs Proofs.StdinExample.ex_stdinIs
    Proofs.StdinExample.ex_fresh (fun _ _ => rfl)

/-- Exit status 0 means stored (= `C02_stdin_exit0`; see there and `C02_stdin_exit0_stored`). -/
theorem C04_stdin_zero_means_stored (env : PEnv) (orc : EvalOracles) (conf : List ConfBlock) (files : Files) (input : Bytes)
    (expr : Expr) (w : World) (plan : Plan) (hm : env.stdinMode = true) (hs : env.syntaxOnly = false)
    (hc : Proofs.World.stdinExprs conf = [expr]) (hin : Proofs.World.StdinIs w input)
    (hfresh : Proofs.World.SpoolFresh env w) :
    let r := runPlan plan (mainP env orc true conf files input) w 0 []
    r.1.1 = 0 → Proofs.Delivered env orc expr input r.2.1 :=
  Proofs.stdin_exit0 env orc conf files input expr w plan hm hs hc hin hfresh

/-- In stdin mode the status is 75 iff an error occurred, else 1 iff a reject was executed, else 0 -
as equivalences on the final loop state, for every configuration, input and fault plan. -/
theorem C04_stdin_status (env : PEnv) (orc : EvalOracles) (ok : Bool) (conf : List ConfBlock) (files : Files) (input : Bytes)
    (w : World) (plan : Plan) (hm : env.stdinMode = true) :
    let r := (runPlan plan (mainP env orc ok conf files input) w 0 []).1
    (r.1 = 75 ↔ r.2.error = true) ∧ (r.1 = 1 ↔ (r.2.error = false ∧ r.2.reject = true)) ∧
      (r.1 = 0 ↔ (r.2.error = false ∧ r.2.reject = false)) :=
  Proofs.stdin_status env orc ok conf files input w plan hm

/-- A reject action sets the reject flag and does nothing else: the program it contributes is a
plain `return` (no libc call at all, hence no mutating call). -/
theorem C04_reject_no_call (env : PEnv) (mh : Match) (st : ExecSt) (h : mh.ty = .reject) :
    execOne env mh st = Prog.ret ({ st with reject := true }, false) :=
  Proofs.execOne_reject env mh st h

example (st : ExecSt) : execOne Proofs.StdinExample.env0 { ty := .reject, lno := 1, part := 0 } st =
    Prog.ret ({ st with reject := true }, false) :=
  C04_reject_no_call _ _ _ rfl


/-! ## Evaluation errors caused by the operating system

`command`, `isdirectory` and the file-time `date` conditions ask the operating system while the rules are evaluated
(`Model.evalP`, Model/EvalP.lean; `C03_evaluation_calls`).  `Proofs.FailAns tf q a`: the answer `a` to the question `q`
is a failure - the value of `exec(argv, -1)` is negative (`command`), or `stat` of the message's path failed / `time_format`
returned NULL (file-time `date`).  `isdirectory` has no failing answer: a path that cannot be stat'ed is not a directory
(`expr_eval_stat`; the condition is false, nothing is reported). -/

/-- **A question the operating system could not answer makes the evaluation an error, at once** - for every rule tree,
wherever the condition stands in it (inside `and` / `or` / `!` / nested blocks / `attachment`), whatever the other
calls return: if in the run of `evalP` the answer to question number `k` is a failure, the value is *error* and no
further question is asked (`EXPR_ERROR` is passed up through every `expr_eval_*`). -/
theorem C04_evaluation_failure_is_error (env : Env) (tf : Int → Option Bytes) (e : Expr) (m : Msg) (fl : MFlags)
    (orcl : Nat → Call → Res) (i : Nat) (k : Nat) (q : Req) (a : SysAns)
    (hq : (evalR env tf e m fl ((evalTop env tf e m fl).answers orcl i)).2[k]? = some q)
    (ha : ((evalTop env tf e m fl).answers orcl i)[k]? = some a) (hF : Proofs.FailAns tf q a) :
    (Proofs.Own.runO orcl (evalP env tf e m fl) i).1.1 = .error ∧
    (evalR env tf e m fl ((evalTop env tf e m fl).answers orcl i)).2.length = k + 1 :=
  Proofs.evalP_error_of_fail env tf e m fl orcl i k q a hq ha hF

/-- Non-vacuity: `match command "t" or all move "/d"` when `fork` fails: one question, a failing answer. -/
example :
    let e : Expr := .mtch 1 (.or 1 (.command 1 [[116]]) (.all 1)) (.move 1 [47, 100])
    let env := Proofs.msgEnv Proofs.examplePEnv Proofs.exampleOracles [47, 109, 47, 110, 101, 119, 47, 49]
    let m := parseMessage [83, 117, 98, 106, 101, 99, 116, 58, 32, 120, 10, 10, 98, 10]
    let orcl : Nat → Call → Res := fun _ c => match c with | .fork => .err "EAGAIN" | _ => .ok 0
    (evalTop env (fun _ => none) e m MFlags.empty).answers orcl 0 = [.status (-1)] ∧
    (evalR env (fun _ => none) e m MFlags.empty [.status (-1)]).2 = [.command [[116]]] ∧
    Proofs.FailAns (fun _ => none) (.command [[116]]) (.status (-1)) ∧
    (Proofs.Own.runO orcl (evalP env (fun _ => none) e m MFlags.empty) 0).1.1 = .error := by
  simp only [evalP, evalR, evalTop, evalT, eval]
  refine ⟨by decide +kernel, by decide +kernel, ?_, by decide +kernel⟩
  show ((-1 : Int) < 0)
  decide

/-- **Which call results make a `command` condition fail**: its answer is the value of util.c `exec(argv, -1)` on the
results of `open("/dev/null")`, `fork`, `waitpid` (`Proofs.execValue`), and that value is negative exactly when
`/dev/null` cannot be opened, `fork` fails, `waitpid` fails, or the child exited with status 127 (`execvp` failed).
Every other status - 0, another exit code, death by a signal - is match / no match, not an error. -/
theorem C04_command_failure_causes (av : List Bytes) (orcl : Nat → Call → Res) (j : Nat) :
    (Proofs.Own.runO orcl (sysCall (.command av)) j).1 =
      .status (match orcl j (.openPath (ofString "/dev/null")) with
        | .ok _ => Proofs.execValue true (orcl (j + 1) .fork) (orcl (j + 2) .waitpid)
        | _ => Proofs.execValue false (orcl (j + 1) .fork) (orcl (j + 2) .waitpid)) ∧
    ∀ (d : Bool) (f w : Res), Proofs.execValue d f w < 0 ↔
      d = false ∨ (∀ v, f ≠ .ok v) ∨ (∀ s, w ≠ .ok s) ∨ ∃ s, w = .ok s ∧ s % 128 = 0 ∧ (s / 256) % 256 = 127 :=
  ⟨Proofs.sysCall_command_value av orcl j, Proofs.execValue_neg_iff⟩

/-- **A failing `stat` of the message's path makes a file-time `date` condition fail**: the answer to the question is
what `stat` returned, and a `stat` that does not succeed (`EACCES`, `EIO`, `ENOENT`: the message was removed meanwhile)
is a failing answer. -/
theorem C04_date_stat_failure (tf : Int → Option Bytes) (p : Bytes) (f : DateField) (orcl : Nat → Call → Res) (j : Nat) :
    (Proofs.Own.runO orcl (sysCall (.fileTime p f)) j).1 = .stat (statAnswer (orcl j (.stat p))) ∧
    ((∀ v, orcl j (.stat p) ≠ .ok v) → Proofs.FailAns tf (.fileTime p f) (.stat (statAnswer (orcl j (.stat p))))) :=
  ⟨Proofs.sysCall_fileTime_value p f orcl j, Proofs.failAns_fileTime_of_stat_failed tf p f _⟩

example : (∀ v, (Res.err "EACCES") ≠ .ok v) := fun _ h => by cases h

/-- **... and an evaluation error is an error of that message** (`C04_message_error_iff`): if the message was parsed and
the evaluation of the rules in this run says *error*, the message's error bit is set. -/
theorem C04_message_error_of_eval_error (env : PEnv) (orc : EvalOracles) (expr : Expr) (md : Maildir) (name : Bytes)
    (st : MainSt) (orcl : Nat → Call → Res) (i : Nat) (d : Handle) (content : Bytes) (ms : MsgSt)
    (hd : md.dirH = some d) (hf : st.files.get md.path name = some content)
    (hparse : (Proofs.Own.runO orcl (messageParseP d md.path name content) i).1 = some ms)
    (hev : (Proofs.Own.runO orcl (Proofs.evalMs env orc expr ms)
      (Proofs.Own.runO orcl (messageParseP d md.path name content) i).2.2).1.1 = .error) :
    Proofs.msgError env orc expr md name st orcl i = true := by
  unfold Proofs.msgError
  simp only [hd, hf, hparse]
  generalize (Proofs.Own.runO orcl (Proofs.evalMs env orc expr ms)
    (Proofs.Own.runO orcl (messageParseP d md.path name content) i).2.2).1 = ev at hev ⊢
  obtain ⟨t, est⟩ := ev
  dsimp only at hev
  subst hev
  rfl

end Mdsort.Props
