import Mdsort.Proofs.World

/-!
# C04 - the exit status tells the truth (MDA contract, error isolation)
-/

namespace Mdsort.Props
open Mdsort Mdsort.Model

/-- The status table: 0/1 from the sticky error flag in maildir mode; with `-`: 75 iff an error
occurred, else 1 iff a reject was executed, else 0 (constants regenerated from mdsort.c). -/
theorem C04_status_table (env : PEnv) (orc : EvalOracles) (ok : Bool) (conf : List ConfBlock) (files : Files) (input : Bytes)
    (w : World) (plan : Plan) :
    let r := (runPlan plan (mainP env orc ok conf files input) w 0 []).1
    r.1 = exitStatus env r.2 ∧ Gen.exTempfail = 75 ∧ Gen.exPermfail = 1 :=
  ⟨Proofs.exit_status_table env orc ok conf files input w plan, by decide, by decide⟩

/-- A rejected or unreadable configuration is an error, and nothing but the configuration file
is touched. -/
theorem C04_config_error (env : PEnv) (orc : EvalOracles) (conf : List ConfBlock) (files : Files) (input : Bytes)
    (w : World) (plan : Plan) :
    let r := runPlan plan (mainP env orc false conf files input) w 0 []
    r.1.2.error = true ∧
    (Proofs.callsOf plan (mainP env orc false conf files input) w = [.fopen env.confpath] ∨
     ∃ h, Proofs.callsOf plan (mainP env orc false conf files input) w = [.fopen env.confpath, .fclose h]) :=
  Proofs.bad_config_only_reads_config env orc conf files input w plan

end Mdsort.Props
