import Mdsort.Proofs.Opts
import Mdsort.Proofs.World
import Mdsort.Proofs.WorldFrameMain
import Mdsort.Proofs.WorldStdinExample
import Mdsort.Proofs.EvalErrProp
import Mdsort.Proofs.EvalAtt
import Mdsort.Proofs.ExecStatus
import Mdsort.Proofs.WorldFuelConform
import Mdsort.Proofs.EvalPFail
import Mdsort.Proofs.WorldIndependent

/-!
# C04 - the exit status tells the truth (MDA contract, error isolation)
-/

namespace Mdsort.Props
open Mdsort Mdsort.Model

/-- The status table: 0/1 from the sticky error flag in maildir mode; with `-`: 75 iff an error
occurred, else 1 iff a reject was executed, else 0 (constants regenerated from mdsort.c).

(Audit au1: the first conjunct is how `mainP` ends - `finish st = (exitStatus env st, st)` on every path - and holds by
unfolding; the content is the two regenerated constants and, through the correspondence run, that `main` of mdsort.c ends the
same way.  WHICH events set `error` / `reject` is `C04_error_iff_partial`; that `reject` is set ONLY by an executed reject
action ("1 only for a matched reject") is not a theorem of this file.) -/
theorem C04_status_table (env : PEnv) (orc : EvalOracles) (ok : Bool) (conf : List ConfBlock) (files : Files) (input : Bytes)
    (w : World) (plan : Plan) :
    let r := (runPlan plan (mainP env orc ok conf files input) w 0 []).1
    r.1 = exitStatus env r.2 ∧ Gen.exTempfail = 75 ∧ Gen.exPermfail = 1 :=
  ⟨Proofs.exit_status_table env orc ok conf files input w plan, by decide, by decide⟩

/-- A rejected or unreadable configuration is an error, and nothing but the configuration file
is touched. -/
theorem C04_config_error (env : PEnv) (orc : EvalOracles) (conf : List ConfBlock) (files : Files) (input : Bytes)
    (w : World) (plan : Plan) :
    let r := runPlan plan (mainP env orc false conf files input) w 0 []
    r.1.2.error = true ∧
    (Proofs.callsOf plan (mainP env orc false conf files input) w = [.fopen env.confpath] ∨
     ∃ h, Proofs.callsOf plan (mainP env orc false conf files input) w = [.fopen env.confpath, .fclose h]) :=
  Proofs.bad_config_only_reads_config env orc conf files input w plan

/-! ## Frame and error isolation (world level, arbitrary call results)

`runOracle orcl p i tr` runs `p` when the trace so far is `tr`, giving the `j`-th call the ARBITRARY
result `orcl j c`; the statements therefore hold for every behaviour of the file system, every fault
and every interleaving with other processes.  `createdNames tr` are the names for which an exclusive
create succeeded in `tr` (Model/Plan.lean).

`Proofs.Framed src tr c` (Proofs/WorldFrameOwn.lean) is the frame condition on a call `c` issued when
the trace is `tr`, for the message named `src`:

* `unlinkat _ n`: `n` is `src` or a name this run created;
* `renameat _ n1 _ n2`: `n1` is `src` or a name this run created, and `n2` is a name this run created;
* `utimensat _ n ..`: `n` is a name this run created;
* `write fd _`, `fprintf fd _`: `fd` is a descriptor of a file this run created (`Proofs.ownFds`: result
  of a successful exclusive create or `mkostemp`, or a duplicate of such a descriptor);
* `unlink p`: `p` is the template of a temporary file this run created with `mkostemp`;
* `mkdtemp`, `mkdir`, `rmdir`, `readdir`: never;
* anything else (`openExcl`, which creates a fresh name or fails; `mkostemp`; the calls that change
  nothing): allowed. -/

/-- **Frame.**  Processing one message mentions, in its mutating calls, only the message's own name
and names this run created itself - for every oracle of results and from every trace so far.

(Audit au1: `Framed` constrains NAMES, not (directory, name) pairs - the directory handle of `unlinkat` / `renameat` /
`utimensat` is unconstrained, so an entry of the same name in ANOTHER directory is inside the frame.  The world-level
frame with directories is `C01_message_no_loss`, second conjunct, for `runPlan`.) -/
theorem C04_frame (env : PEnv) (orc : EvalOracles) (expr : Expr) (md : Maildir) (name : Bytes) (st : MainSt)
    (orcl : Nat → Call → Res) (i0 : Nat) (tr0 : List (Call × Res)) :
    ∀ i c r, tr0.length ≤ i → (runOracle orcl (processMessage env orc expr md name st) i0 tr0).2[i]? = some (c, r) →
      Proofs.Framed name ((runOracle orcl (processMessage env orc expr md name st) i0 tr0).2.take i) c :=
  Proofs.processMessage_frame env orc expr md name st orcl i0 tr0

/-- **Isolation of the calls of a walk.**  `Proofs.FramedW tr c`: `c` is a `readdir`, or satisfies
`Framed n tr` for the name `n` the most recent `readdir` of `tr` returned (`Proofs.lastName`: the
message being processed at that point); before any name was returned `c` is not mutating.  So for
a walk over a directory with messages `n1 … nk`, whatever the calls return, a mutating call that
mentions a name which existed before the run mentions the name of the message being processed at
that point, and no other. -/
theorem C04_isolation_calls (env : PEnv) (orc : EvalOracles) (expr : Expr) (fuel : Nat) (md : Maildir) (st : MainSt)
    (orcl : Nat → Call → Res) (i0 : Nat) (tr0 : List (Call × Res)) :
    ∀ i c r, tr0.length ≤ i → (runOracle orcl (walk env orc expr fuel md st) i0 tr0).2[i]? = some (c, r) →
      Proofs.FramedW ((runOracle orcl (walk env orc expr fuel md st) i0 tr0).2.take i) c :=
  Proofs.walk_frame env orc expr fuel md st orcl i0 tr0

/-- Non-vacuity of the frame: `match all discard` on the message `1` of `/m/new` (directory handle 3;
every call succeeds, `read` returns end of file at once): the run is `openat`, `read`, `unlinkat` of
the message's own name, `close`. -/
example :
    ((runOracle (fun _ c => match c with | .read _ => .ok 0 | _ => .ok 7)
      (processMessage Proofs.examplePEnv Proofs.exampleOracles (.mtch 1 (.all 1) (.discard 1))
        { root := [47, 109], path := [47, 109, 47, 110, 101, 119], dirH := some 3, subdir := .new, walk := true, stdin := false }
        [49]
        { files := [([47, 109, 47, 110, 101, 119], [49], [83, 117, 98, 106, 101, 99, 116, 58, 32, 120, 10, 10, 98, 10])],
          error := false, reject := false, log := [] }) 0 []).2.map (·.1)) =
      [.openRd 3 [49], .read 7, .unlinkat 3 [49], .close 7] := by
  simp only [processMessage, evalP, evalTop, evalT, eval]
  decide +kernel

/-- **Error isolation.**  In a walk, when `readdir` returns the name `n` (not `.` or `..`), the run is
the `readdir`, the run of `processMessage` for `n`, and then the run of the rest of the walk on the
SAME maildir from the state `processMessage` returned - whatever that state is, in particular whether
or not the message set `error`: the next call is the next `readdir`.  The flag is sticky: set before
the message it is set after it, and set after the message it is set at the end of the walk. -/
theorem C04_error_isolated (env : PEnv) (orc : EvalOracles) (expr : Expr) (fuel : Nat) (md : Maildir) (st : MainSt)
    (d : Handle) (n : Bytes) (orcl : Nat → Call → Res) (tr : List (Call × Res))
    (hd : md.dirH = some d) (hr : orcl tr.length (.readdir d) = .name n) (hn : (n == [46] || n == [46, 46]) = false) :
    let one := runOracle orcl (processMessage env orc expr md n st) (tr.length + 1) (tr ++ [(.readdir d, .name n)])
    let all := runOracle orcl (walk env orc expr (fuel + 1) md st) tr.length tr
    all = runOracle orcl (walk env orc expr fuel md one.1.1) one.2.length one.2 ∧
    one.1.2 = md ∧
    (fuel ≠ 0 → all.2[one.2.length]? = some (.readdir d, orcl one.2.length (.readdir d))) ∧
    (one.1.1.error = true → all.1.1.error = true) ∧
    (st.error = true → one.1.1.error = true) :=
  Proofs.walk_isolated env orc expr fuel md st d n orcl tr hd hr hn

/-- Non-vacuity: an open maildir whose `readdir` returns the name `1`. -/
example :
    let md : Maildir := { root := [47, 109], path := [47, 109, 47, 110, 101, 119], dirH := some 3, subdir := .new,
                          walk := true, stdin := false }
    md.dirH = some 3 ∧ (fun (_ : Nat) (_ : Call) => Res.name [49]) ([] : List (Call × Res)).length (.readdir 3) = .name [49] ∧
      (([49] : Bytes) == [46] || ([49] : Bytes) == [46, 46]) = false := by
  decide

/-- **The error flag never influences what is done.**  The walk (and one message's processing) from a
state whose flag is or-ed with `b` is the same program - the same calls for all results, the same
final state - as from the state itself, except that the final flag is or-ed with `b`. -/
theorem C04_error_flag_inert (env : PEnv) (orc : EvalOracles) (expr : Expr) (fuel : Nat) (md : Maildir) (name : Bytes)
    (st : MainSt) (b : Bool) :
    walk env orc expr fuel md { st with error := b || st.error } =
      (walk env orc expr fuel md st).bind (fun x => pure ({ x.1 with error := b || x.1.error }, x.2)) ∧
    processMessage env orc expr md name { st with error := b || st.error } =
      (processMessage env orc expr md name st).bind (fun x => pure ({ x.1 with error := b || x.1.error }, x.2)) :=
  ⟨Proofs.Own.walk_setErr env orc expr fuel md st b, Proofs.Own.processMessage_setErr env orc expr md name st b⟩

/-! ## No hidden state: what is done for a message does not depend on the messages before it (package ce14)

`C04_error_flag_inert` says that the error FLAG left by earlier messages is never looked at.  The statements below say it of
the whole loop state `MainSt` - the flags, the `-d` log and every entry of the registry `files` except the one the message
itself reads, `st.files.get md.path name` (its content) - and of the position in the run.  `Proofs.MsgEffect`
(Proofs/WorldIndependent.lean) is what a message contributes: an error bit, a reject bit, its `-d` lines and where its own file
is afterwards; `e.apply dir name st` or-s the bits into the flags of `st`, appends the lines and replaces the entry
`(dir, name)`.  They are what makes the metamorphic oracle of `tools/isolation.py` (the outcome for a message in a run over a
whole population = its outcome in a run on that message alone) a consequence of the model rather than an assumption. -/

/-- **`processMessage` has no hidden state.**  `processMessage`, regarded as a function of the loop state, factors through the
one entry the message reads: there is a program `q` over effects - depending on the configuration, the maildir and the name,
NOT on the state - such that from every state `st` the program is `q (st.files.get md.path name)` followed by applying the
effect to `st`; the maildir is returned as it was.  So the calls issued for a message (for all call results) and its
contribution to the error / reject flags and to the log are a function of (configuration, maildir, name, content, results of
its own calls), whatever earlier messages left in `MainSt`.  (The witness is `Proofs.messageEffect`; `C04_error_flag_inert`
for `processMessage` is the special case of two states that differ in the error flag.) -/
theorem C04_message_independent (env : PEnv) (orc : EvalOracles) (expr : Expr) (md : Maildir) (name : Bytes) :
    ∃ q : Option Bytes → Prog Proofs.MsgEffect, ∀ st : MainSt,
      processMessage env orc expr md name st =
        (q (st.files.get md.path name)).bind fun e => Prog.ret (e.apply md.path name st, md) :=
  ⟨Proofs.messageEffect env orc expr md name, fun st => Proofs.processMessage_effect env orc expr md name st⟩

/-- **Independence of the runs** (the form the isolation stage uses).  Take two runs of `processMessage` for the same message:
from ANY two loop states that agree on the message's own entry (`hfile`), at ANY two positions (next call index `i` / `i'`,
trace so far `tr` / `tr'` - e.g. after k earlier messages, and alone), against ARBITRARY call results that agree on the
message's own calls (`hres`: the `k`-th call of the one run gets the result of the `k`-th call of the other).  Then both runs
issue the same calls with the same results, and both change their loop state by the same effect `e`: the same error bit, the
same reject bit, the same `-d` lines, the same new place and content of the file.  `hfile` is where an earlier message CAN
reach a later one: only by changing the entry `(md.path, name)` itself, i.e. by being moved to exactly that directory and name
(`C04_message_effect_frame`) - known finding F21 and a destination that is walked later. -/
theorem C04_message_independent_runs (env : PEnv) (orc : EvalOracles) (expr : Expr) (md : Maildir) (name : Bytes)
    (st st' : MainSt) (hfile : st.files.get md.path name = st'.files.get md.path name)
    (orcl orcl' : Nat → Call → Res) (i i' : Nat) (tr tr' : List (Call × Res))
    (hres : ∀ k c, orcl (i + k) c = orcl' (i' + k) c) :
    ∃ (e : Proofs.MsgEffect) (calls : List (Call × Res)),
      runOracle orcl (processMessage env orc expr md name st) i tr = ((e.apply md.path name st, md), tr ++ calls) ∧
      runOracle orcl' (processMessage env orc expr md name st') i' tr' = ((e.apply md.path name st', md), tr' ++ calls) :=
  Proofs.processMessage_independent env orc expr md name st st' hfile orcl orcl' i i' tr tr' hres

/-- The maildir, message and two loop states of the non-vacuity examples: `match all discard` on the message `1` of `/m/new`;
the second state is what earlier messages may have left: another registered file, the error flag, a `-d` line. -/
def indepMd : Maildir :=
  { root := [47, 109], path := [47, 109, 47, 110, 101, 119], dirH := some 3, subdir := .new, walk := true, stdin := false }
def indepMsg : Bytes := [83, 117, 98, 106, 101, 99, 116, 58, 32, 120, 10, 10, 98, 10]
def indepSt : MainSt := { files := [(indepMd.path, [49], indepMsg)], error := false, reject := false, log := [] }
def indepSt' : MainSt :=
  { files := [([47, 120], [50], [65]), (indepMd.path, [49], indepMsg)], error := true, reject := false, log := [[49]] }
def indepOrcl : Nat → Call → Res := fun _ c => match c with | .read _ => .ok 0 | _ => .ok 7

/-- Non-vacuity of `C04_message_independent_runs`: the two states differ (flag, log, another entry) and agree on the message's
own entry; the results agree on the message's own calls (the run alone starts at call 0, the other at call 17). -/
example :
    indepSt.files.get indepMd.path [49] = indepSt'.files.get indepMd.path [49] ∧ indepSt.error ≠ indepSt'.error ∧
    indepSt.log ≠ indepSt'.log ∧ (∀ k c, indepOrcl (0 + k) c = indepOrcl (17 + k) c) :=
  ⟨by decide +kernel, by decide, by decide, fun _ _ => rfl⟩

/-- ... and what the theorem then gives for them: the same four calls (`openat`, `read`, `unlinkat` of the message's own name,
`close`, cf. the example under `C04_isolation_calls`), appended to whatever went before, and one effect for both states. -/
example (tr' : List (Call × Res)) :
    ∃ (e : Proofs.MsgEffect) (calls : List (Call × Res)),
      runOracle indepOrcl (processMessage Proofs.examplePEnv Proofs.exampleOracles (.mtch 1 (.all 1) (.discard 1)) indepMd [49]
        indepSt) 0 [] = ((e.apply indepMd.path [49] indepSt, indepMd), [] ++ calls) ∧
      runOracle indepOrcl (processMessage Proofs.examplePEnv Proofs.exampleOracles (.mtch 1 (.all 1) (.discard 1)) indepMd [49]
        indepSt') 17 tr' = ((e.apply indepMd.path [49] indepSt', indepMd), tr' ++ calls) :=
  C04_message_independent_runs _ _ _ indepMd [49] indepSt indepSt' (by decide +kernel) indepOrcl indepOrcl 0 17 [] tr'
    (fun _ _ => rfl)

/-- **What an effect does to the other entries of the registry.**  Applying a message's effect leaves `files.get d' n'`
unchanged for every `(d', n')` other than the message's own entry and the place its file was taken to.  With
`C04_message_independent_runs`: the entry a LATER message reads - hence everything done for it - is the initial one unless an
earlier message was moved to exactly that directory and name. -/
theorem C04_message_effect_frame (dir name : Bytes) (e : Proofs.MsgEffect) (st : MainSt) (d' n' : Bytes)
    (hown : ¬ (d' = dir ∧ n' = name))
    (hdst : ∀ x, e.file = some (some x) → ¬ (d' = x.1 ∧ n' = x.2.1)) :
    (e.apply dir name st).files.get d' n' = st.files.get d' n' :=
  Proofs.MsgEffect.apply_files_frame dir name e st d' n' hown hdst

/-- Non-vacuity: the effect "moved to `/d/new` as `8`" of the message `1` of `/m/new` and the entry `2` of `/m/new`. -/
example :
    let e : Proofs.MsgEffect := ⟨false, false, [], some (some ([47, 100, 47, 110, 101, 119], [56], indepMsg))⟩
    ¬ (indepMd.path = indepMd.path ∧ ([50] : Bytes) = [49]) ∧
    (∀ x, e.file = some (some x) → ¬ (indepMd.path = x.1 ∧ ([50] : Bytes) = x.2.1)) := by
  refine ⟨by decide, ?_⟩
  intro x hx
  cases hx
  decide

/-! ## Where the error flag comes from

`Proofs.Own.runO orcl p i` is `runOracle` without the accumulator: the value of `p`, the calls it
issued, and the index of the next call (`Proofs.Own.runOracle_eq`). -/

/-- **One message.**  After processing a message the flag is the flag before or-ed with the
message's own error bit `Proofs.msgError` (Proofs/WorldFrameErr.lean): the file is unknown to the
model, `message_parse` failed (open/read failure, over-long path or name, invalid flag suffix), the
rules' verdict IN THIS RUN is an evaluation error or an interpolation failure, or - not in a dry run - the action
list reported an error.  Evaluation is part of the run (`Model.evalP`): the verdict is `Proofs.evVerdict` of the value
`evalP` returns on the results `orcl` gives to its calls, so the evaluation errors include the conditions the operating
system could not answer - `C04_evaluation_failure_is_error`, `C04_command_failure_causes`, `C04_date_stat_failure`,
`C04_message_error_of_eval_error` below. -/
theorem C04_message_error_iff (env : PEnv) (orc : EvalOracles) (expr : Expr) (md : Maildir) (name : Bytes) (st : MainSt)
    (orcl : Nat → Call → Res) (i : Nat) (tr : List (Call × Res)) :
    (runOracle orcl (processMessage env orc expr md name st) i tr).1.1.error =
      (st.error || Proofs.msgError env orc expr md name st orcl i) :=
  Proofs.processMessage_error_oracle env orc expr md name st orcl i tr

/-- **One maildir.**  After a walk the flag is set iff it was set before or one of the causes
`Proofs.WalkErr` occurred in this run: `readdir` failed; the path of `cur` does not fit or `cur`
cannot be opened; or the error bit of some message the walk reached is set (`message`, with `later` /
`afterDot` / `inCur` locating it in the run). -/
theorem C04_walk_error_iff (env : PEnv) (orc : EvalOracles) (expr : Expr) (fuel : Nat) (md : Maildir) (st : MainSt)
    (orcl : Nat → Call → Res) (i : Nat) (tr : List (Call × Res)) :
    (runOracle orcl (walk env orc expr fuel md st) i tr).1.1.error = true ↔
      st.error = true ∨ Proofs.WalkErr env orc expr orcl fuel md st i :=
  Proofs.walk_error_oracle_iff env orc expr fuel md st orcl i tr

/-- **The whole run (`C04_error_iff`, with the per-message action failures kept as the error value of
`matchesExec`).**  (Audit au1: `Proofs.MainErr` / `PathsErr` / `WalkErr` / `msgError` are written as a mirror of the loops of
`mainP`, re-running the sub-programs (`runO orcl (walk ...)`, `runO orcl (matchesExec ...)`) to obtain the state and call index
of the next step; the theorem therefore says: the flag is the disjunction of the enumerated top-level causes and of the error
values of the sub-programs, nothing is swallowed in between and nothing else sets it.  It does not by itself say which libc
failures make `matchesExec` / `messageParseP` report an error - that is `C01_fault_reported` and the `All`-lemmas on the
scripts.  Fuel (package p12): the walks inside are `walk .. (2n+8+env.extraFuel)` / `walk .. (64+env.extraFuel)`; an oracle whose
`readdir` keeps returning names makes the MODEL stop when the fuel is spent, where mdsort would go on.  That is no longer
silent: the final state then has `fuelOut = true`.  What is covered: the theorem holds for EVERY `env`, hence every
allowance; for a run that ends with `fuelOut = false` it is a statement about the run of the unbounded loops
(`C04_fuel_irrelevant`: the same run for every larger allowance); for a run that ends with `fuelOut = true` it is a
statement about a truncation, which the conformance check reports as a divergence.)  The error flag `main` derives its exit status from is set iff one of the causes
`Proofs.MainErr` (Proofs/WorldFrameMain.lean) occurred in this run: the configuration file cannot be
opened; the configuration is not valid; or - unless `-n` - for some block and some selected path of
it (`Proofs.PathsErr`, `Proofs.BlocksErr`): the stdin spool cannot be set up, the path or path +
`/new` does not fit, `new` cannot be opened, or a cause `Proofs.WalkErr` occurs in the walk
(`readdir` failure, `cur` not joinable / not openable, or some message's error bit
`Proofs.msgError`: unknown file, parse failure, evaluation error, interpolation failure, action
failure). -/
theorem C04_error_iff_partial (env : PEnv) (orc : EvalOracles) (orcl : Nat → Call → Res) (confOk : Bool)
    (conf : List ConfBlock) (files : Files) (input : Bytes) :
    (runOracle orcl (mainP env orc confOk conf files input) 0 []).1.2.error = true ↔
      Proofs.MainErr env orc orcl confOk conf files input :=
  Proofs.mainP_error_oracle_iff env orc orcl confOk conf files input

/-- Non-vacuity: with every call succeeding and no block configured, an invalid configuration is a
cause and a valid one leaves none. -/
example :
    Proofs.MainErr Proofs.examplePEnv Proofs.exampleOracles (fun _ _ => .ok 0) false [] [] [] ∧
    ¬ Proofs.MainErr Proofs.examplePEnv Proofs.exampleOracles (fun _ _ => .ok 0) true [] [] [] := by
  simp [Proofs.MainErr, Proofs.BlocksErr]

/-- **Isolation of the calls of a whole run in maildir mode** (`-` not given): every call is a
`readdir` or satisfies the frame condition for the name the last `readdir` returned (between walks
only the configuration file, `opendir` and `closedir` are used).  (Audit au1 / package p12: each walk inside `mainP` has fuel `2n+8+env.extraFuel`, `n` =
registered files of the maildir; under an oracle that lists more entries than that the model's run is shorter than
mdsort's - and then ends with `fuelOut = true`.  Covered: every `env` (every allowance); a run with `fuelOut = false` is the
run of the unbounded loops (`C04_fuel_irrelevant`).  The walk-level statement `C04_isolation_calls` holds for EVERY fuel.) -/
theorem C04_isolation_calls_main (env : PEnv) (orc : EvalOracles) (ok : Bool) (conf : List ConfBlock) (files : Files)
    (input : Bytes) (hm : env.stdinMode = false) (orcl : Nat → Call → Res) :
    ∀ i c r, (runOracle orcl (mainP env orc ok conf files input) 0 []).2[i]? = some (c, r) →
      Proofs.FramedW ((runOracle orcl (mainP env orc ok conf files input) 0 []).2.take i) c :=
  Proofs.mainP_frame env orc ok conf files input hm orcl

/-- Non-vacuity: maildir mode. -/
example : Proofs.examplePEnv.stdinMode = false := rfl
/-- The spool is complete or `maildir_stdin` fails (finding F9, repaired: the copy loop continues a
short `write`): for every input and EVERY fault plan, if `maildir_stdin` reports success then the
spool entry it names (in the `new` directory of the temporary maildir) is bound to a file whose
visible AND durable content is exactly the input - a short or failed `read` / `write` / `fsync` /
`close` never yields success with truncated content. -/
theorem C04_stdin_spool_complete (env : PEnv) (input : Bytes) (w : World) (plan : Plan) (hin : Proofs.World.StdinIs w input) :
    let r := runPlan plan (maildirStdin env input) w 0 []
    r.1.2.1 = false →
      ∃ name fid, r.1.2.2 = some name ∧ r.2.1.lookup r.1.1.path name = some fid ∧
        r.2.1.file fid = some { data := input, durable := input } :=
  Proofs.stdin_spool_complete env input w plan hin

/-! Non-vacuity: a 10-byte input; the fault-free plan and a plan whose first `write` transfers
only 3 bytes both end with `failed = false`, so the conclusion says the spool holds all 10 bytes. -/
example : (runPlan Plan.none (maildirStdin Proofs.StdinExample.env0 Proofs.StdinExample.input0)
    Proofs.StdinExample.w0 0 []).1.2.1 = false := Proofs.StdinExample.ex_stdin_ok
example : (runPlan Proofs.StdinExample.shortWrite (maildirStdin Proofs.StdinExample.env0 Proofs.StdinExample.input0)
    Proofs.StdinExample.w0 0 []).1.2.1 = false := Proofs.StdinExample.ex_stdin_short_ok
example :
    let r := runPlan Proofs.StdinExample.shortWrite (maildirStdin Proofs.StdinExample.env0 Proofs.StdinExample.input0)
      Proofs.StdinExample.w0 0 []
    ∃ name fid, r.1.2.2 = some name ∧ r.2.1.lookup r.1.1.path name = some fid ∧
      r.2.1.file fid = some { data := Proofs.StdinExample.input0, durable := Proofs.StdinExample.input0 } :=
  C04_stdin_spool_complete _ _ _ _ Proofs.StdinExample.ex_stdinIs Proofs.StdinExample.ex_stdin_short_ok

/-- The spool is always removed: in stdin mode, for every configuration with one `stdin` block, every
rule set and action list (moves, flags, label, add-header, discard, exec, reject, in any number and
order - no hypothesis on them), every input and every fault plan that injects nothing from the first
call of the cleanup on (`Proofs.stdinCleanupStart` = number of calls made before `maildir_close`; in
particular every plan whose faults all lie before the cleanup): every directory that exists when
`main` returns existed before.  So neither the directory `mkdtemp` made, nor its `new`, nor any
entry below them is left - on EVERY path: `mkdtemp` fails (nothing to remove), `mkdir` fails (root
removed), `opendir` fails, `maildir_genname` fails, the copy fails, parse / evaluation /
interpolation / action failure, no match, dry run, success. -/
theorem C04_stdin_spool_removed (env : PEnv) (orc : EvalOracles) (conf : List ConfBlock) (files : Files) (input : Bytes)
    (expr : Expr) (w : World) (plan : Plan) (hm : env.stdinMode = true) (hs : env.syntaxOnly = false)
    (hc : Proofs.World.stdinExprs conf = [expr]) (hin : Proofs.World.StdinIs w input)
    (hfresh : Proofs.World.SpoolFresh env w)
    (hplan : ∀ j, Proofs.stdinCleanupStart plan env orc expr files input w ≤ j → plan j = none) :
    ∀ q, ((runPlan plan (mainP env orc true conf files input) w 0 []).2.1.dir q).isSome → (w.dir q).isSome :=
  Proofs.stdin_spool_removed env orc conf files input expr w plan hm hs hc hin hfresh hplan

/-! Non-vacuity: the example run (10-byte message, `stdin { match all move "/m/inbox" }`) under the
fault-free plan. -/
example : ∀ q, ((runPlan Plan.none (mainP Proofs.StdinExample.env0 Proofs.StdinExample.orc0 true Proofs.StdinExample.conf0 []
    Proofs.StdinExample.input0) Proofs.StdinExample.w0 0 []).2.1.dir q).isSome → (Proofs.StdinExample.w0.dir q).isSome :=
  C04_stdin_spool_removed _ _ _ _ _ _ _ _ rfl rfl Proofs.StdinExample.ex_stdinExprs Proofs.StdinExample.ex_stdinIs
    Proofs.StdinExample.ex_fresh (fun _ _ => rfl)

/-- Exit status 0 means stored (= `C02_stdin_exit0`; see there and `C02_stdin_exit0_stored`). -/
theorem C04_stdin_zero_means_stored (env : PEnv) (orc : EvalOracles) (conf : List ConfBlock) (files : Files) (input : Bytes)
    (expr : Expr) (w : World) (plan : Plan) (hm : env.stdinMode = true) (hs : env.syntaxOnly = false)
    (hc : Proofs.World.stdinExprs conf = [expr]) (hin : Proofs.World.StdinIs w input)
    (hfresh : Proofs.World.SpoolFresh env w) :
    let r := runPlan plan (mainP env orc true conf files input) w 0 []
    r.1.1 = 0 → Proofs.Delivered env orc expr input r.2.1 :=
  Proofs.stdin_exit0 env orc conf files input expr w plan hm hs hc hin hfresh

/-- In stdin mode the status is 75 iff an error occurred, else 1 iff a reject was executed, else 0 -
as equivalences on the final loop state, for every configuration, input and fault plan.  (Audit au1: a reading of
`exitStatus` on the two flags of the final state - "a reject was executed" is the flag `reject`, not an event of the run.) -/
theorem C04_stdin_status (env : PEnv) (orc : EvalOracles) (ok : Bool) (conf : List ConfBlock) (files : Files) (input : Bytes)
    (w : World) (plan : Plan) (hm : env.stdinMode = true) :
    let r := (runPlan plan (mainP env orc ok conf files input) w 0 []).1
    (r.1 = 75 ↔ r.2.error = true) ∧ (r.1 = 1 ↔ (r.2.error = false ∧ r.2.reject = true)) ∧
      (r.1 = 0 ↔ (r.2.error = false ∧ r.2.reject = false)) :=
  Proofs.stdin_status env orc ok conf files input w plan hm

/-- A reject action sets the reject flag and does nothing else: the program it contributes is a
plain `return` (no libc call at all, hence no mutating call). -/
theorem C04_reject_no_call (env : PEnv) (mh : Match) (st : ExecSt) (h : mh.ty = .reject) :
    execOne env mh st = Prog.ret ({ st with reject := true }, false) :=
  Proofs.execOne_reject env mh st h

example (st : ExecSt) : execOne Proofs.StdinExample.env0 { ty := .reject, lno := 1, part := 0 } st =
    Prog.ret ({ st with reject := true }, false) :=
  C04_reject_no_call _ _ _ rfl

/-! ### "1 only for a matched reject" at the level of one action list (added by audit au1)

`C04_reject_no_call` says what a reject entry does.  The converse - nothing ELSE sets the flag - was not a theorem: -/

/-- Every leaf of `execOne`: the reject flag is set only if it was set before or the entry is a reject. -/
theorem all_execOne_reject (env : PEnv) (mh : Match) (st : ExecSt) :
    Proofs.World.All (fun r => r.1.reject = true → st.reject = true ∨ mh.ty = .reject) (execOne env mh st) := by
  unfold execOne
  cases hty : mh.ty <;> simp only [Proofs.World.bind_eq, Proofs.World.pure_eq] <;>
    repeat' (first
      | exact (fun h => Or.inl h)
      | exact (fun _ => Or.inr trivial)
      | (apply Proofs.World.All.bind_of_forall; intro _)
      | split
      | intro _)

theorem all_mono_au1 {α} {R P : α → Prop} {p : Prog α} (hp : Proofs.World.All R p) (h : ∀ a, R a → P a) :
    Proofs.World.All P p := by
  induction p with
  | ret a => exact h a hp
  | call c k ih => intro r; exact ih r (hp r)

/-- Every leaf of `matchesExec`: the flag is set only if it was set before or the list contains a reject entry. -/
theorem all_matchesExec_reject (env : PEnv) (ml : MatchList) (st : ExecSt) :
    Proofs.World.All (fun r => r.1.reject = true → st.reject = true ∨ ∃ m ∈ ml, m.ty = .reject) (matchesExec env ml st) := by
  induction ml generalizing st with
  | nil =>
    unfold matchesExec
    simp only [Proofs.World.bind_eq, Proofs.World.pure_eq]
    split
    · exact Proofs.World.All.bind_of_forall _ fun _ => (fun h => Or.inl h)
    · exact fun h => Or.inl h
  | cons mh rest ih =>
    unfold matchesExec
    simp only [Proofs.World.bind_eq, Proofs.World.pure_eq]
    refine Proofs.World.All.bind (all_mono_au1 (all_execOne_reject env mh st) ?_)
    rintro ⟨st', e⟩ h1
    have key : st'.reject = true → st.reject = true ∨ ∃ m ∈ mh :: rest, m.ty = .reject := by
      intro h
      rcases h1 h with h | h
      · exact .inl h
      · exact .inr ⟨mh, List.mem_cons_self, h⟩
    dsimp only
    split
    · split
      · exact Proofs.World.All.bind_of_forall _ fun _ => key
      · exact key
    · refine all_mono_au1 (ih st') ?_
      intro r hr h
      rcases hr h with h | ⟨m, hm, hmt⟩
      · exact key h
      · exact .inr ⟨m, List.mem_cons_of_mem _ hm, hmt⟩

/-- **The reject flag comes from a reject entry only.**  For every action list, start state whose flag is clear (as
`processMessage` starts it: `reject := false`) and ARBITRARY call results: if `matches_exec` returns with the flag set, the
list contains a reject entry.  With `C04_stdin_status` (status 1 iff no error and the flag) and the line
`reject := st1.reject || xs.reject` of `processMessage` this is "1 only for a matched reject" for one message; the lift
through `walk` / `mainP` (the flag of the loop state is the disjunction over the messages) is NOT proved here. -/
theorem C04_reject_only_by_reject (env : PEnv) (ml : MatchList) (st : ExecSt) (orcl : Nat → Call → Res) (i : Nat)
    (tr : List (Call × Res)) (hs : st.reject = false)
    (h : (runOracle orcl (matchesExec env ml st) i tr).1.1.reject = true) : ∃ m ∈ ml, m.ty = .reject := by
  have hall := Proofs.Own.all_runO (all_matchesExec_reject env ml st) orcl i
  rw [Proofs.Own.runOracle_eq] at h
  rcases hall h with h' | h'
  · rw [hs] at h'; cases h'
  · exact h'

/-- Non-vacuity: the one-entry list `reject` from a state with the flag clear returns with the flag set (no call at all). -/
example (st : ExecSt) (hs : st.reject = false) :
    (runOracle (fun _ _ => .ok 0) (matchesExec Proofs.StdinExample.env0 [{ ty := .reject, lno := 1, part := 0 }] st) 0 []).1.1.reject = true ∧
    st.reject = false := by
  refine ⟨?_, hs⟩
  unfold matchesExec
  rw [show execOne Proofs.StdinExample.env0 { ty := .reject, lno := 1, part := 0 } st = Prog.ret ({ st with reject := true }, false)
    from C04_reject_no_call _ _ _ rfl]
  unfold matchesExec
  cases hc : st.chsrc <;> simp [Proofs.World.bind_eq, Proofs.World.pure_eq, Prog.bind, runOracle, maildirClose] <;>
    (cases st.src.dirH <;> simp [runOracle, Prog.bind])

/-! ## An evaluation error reaches the root of the rule tree

"Any ... matching ... error yields a non-zero status": `C04_message_error_iff` reduces the error bit of
a message to the verdict of `Model.eval` on the rule tree of the block; the statements below are about
that verdict.  `Proofs/EvalErrProp.lean`: an *evaluation point* `Proofs.EvalPt` is an expression evaluated
on a message (regarded as part `part`) from a state; `Proofs.EvalStep env root a b` says that evaluating `a`
evaluates `b` directly (the second operand of `and` only after the first matched, the right-hand side of
a rule only after its condition matched, part `i` of an `attachment` condition only after the parts
before it said *no match*, part `i` of an attachment block only after the block ran without error on the
parts before it), `Proofs.Evaluated` is its reflexive-transitive closure. -/

/-- **An error of anything that is actually evaluated is the result of the root** - for EVERY
expression, message, state and environment: no grammar domain, no hypothesis on pending `pass` /
`break` entries, attachment conditions and attachment blocks included.  (In `expr_eval_block` this is
the early `if (ev == EXPR_ERROR) return EXPR_ERROR;`: without it a pending `pass` turns the error of a
later rule into *match* / *no match*.) -/
theorem C04_eval_error_reaches_root (env : Env) (root : Msg) (a b : Proofs.EvalPt)
    (h : Proofs.Evaluated env root a b) (hb : (b.res env root).1 = .error) : (a.res env root).1 = .error :=
  Proofs.evaluated_error h hb

/-- ... and conversely an error result has an origin among the evaluated points (`Proofs.Origin`: its
result is an error although nothing it evaluates directly is an error): the verdict *error* is never made
up by a composite node. -/
theorem C04_eval_error_iff_origin (env : Env) (root : Msg) (a : Proofs.EvalPt) :
    (a.res env root).1 = .error ↔ ∃ b, Proofs.Evaluated env root a b ∧ Proofs.Origin env root b :=
  ⟨Proofs.error_origin (sizeOf a.e) a (Nat.le_refl _), fun ⟨_, hb, ho⟩ => Proofs.evaluated_error hb ho.1⟩

/-- What an origin is (`Proofs.OriginShape`): a leaf - a matcher (`body` on an undecodable body, `date`
on an unparsable date, `command` that cannot be run, ...) or an action (invalid flag letter, over-long
destination) -, a `match` node whose sentinel entry cannot be appended, or an `attachment` condition /
attachment block on a message whose parts cannot be had (malformed multipart, nesting beyond the limit);
never a block, `and`, `or` or `!` node. -/
theorem C04_eval_error_origin_shape (env : Env) (root : Msg) (b : Proofs.EvalPt) (h : Proofs.Origin env root b) :
    Proofs.OriginShape env b :=
  Proofs.origin_shape h

/-! Non-vacuity: the shape of the rule tree for which the early return matters.
```
match all label "x" pass
match command "c" move "/e"
```
in an environment in which no command can be run (`command` = -1).  The `command` matcher is evaluated
(after the first rule matched, collected its label and `pass`-ed) and is an error; the theorem gives the
error of the root although a `pass` and an action are pending. -/

def errEnv : Env where
  rx := fun p _ => if p.src == [49] then .ok [some (0, 0)] else .nomatch
  command := fun _ => -1
  isDir := fun _ => false
  now := 0
  strptime := fun _ => none
  zoneName := fun _ => none
  fileTime := fun _ => none
  dryrun := false
  path := [47, 109, 47, 110, 101, 119, 47, 49]

def errMsg : Msg := { headers := [], body := [] }

def errRule1 : Expr := .mtch 2 (.all 2) (.and 2 (.label 2 [[120]]) (.pass 2))
def errRule2 : Expr := .mtch 3 (.command 3 [[99]]) (.move 3 [47, 101])
def errTree : Expr := .block 1 (.or 1 errRule1 errRule2)

def errSt0 : St := { ml := [], flags := MFlags.empty }
/-- State after the first rule: its `match` sentinel, the label and the PASS entry. -/
def errSt1 : St := (eval errEnv errMsg errRule1 0 errMsg errSt0).2
/-- The point at which the `command` matcher is evaluated. -/
def errPt : Proofs.EvalPt :=
  ⟨.command 3 [[99]], 0, errMsg,
    { errSt1 with ml := (matchesAppend errEnv errSt1.ml { ty := .mtch, lno := 3, part := 0 }).1 }⟩

theorem err_rule1 : (eval errEnv errMsg errRule1 0 errMsg errSt0).1 = .nomatch ∧
    errSt1.ml.map (fun x => (x.ty, x.lno)) = [(.mtch, 2), (.label, 2), (.pass, 2)] := by
  simp only [errSt1, errRule1, errSt0, eval]
  decide +kernel

theorem err_evaluated : Proofs.Evaluated errEnv errMsg ⟨errTree, 0, errMsg, errSt0⟩ errPt :=
  .step _ _ _ (.block 1 _ 0 errMsg errSt0)
    (.step _ _ _ (Proofs.EvalStep.orR' 1 errRule1 errRule2 0 errMsg errSt0 err_rule1.1)
      (.step _ _ _ (Proofs.EvalStep.mtchC' 3 _ _ 0 errMsg errSt1 (by simp only [errSt1, errRule1, errSt0, eval]; decide +kernel))
        (.refl _)))

theorem err_command : (errPt.res errEnv errMsg).1 = .error := by
  simp only [Proofs.EvalPt.res, errPt, errSt1, errRule1, errSt0, eval]
  decide +kernel

example : (eval errEnv errMsg errTree 0 errMsg errSt0).1 = .error :=
  C04_eval_error_reaches_root errEnv errMsg ⟨errTree, 0, errMsg, errSt0⟩ errPt err_evaluated err_command

/-- The `command` point is an origin, and has the shape of one (a leaf). -/
example : Proofs.OriginShape errEnv errPt := trivial

/-! ### With the documented semantics

`Spec.evalBlockA` (Spec/RulesAtt.lean) is the documented reading of mdsort.conf(5): rules in order, the
first condition that cannot be evaluated is an error of the whole evaluation.  Whenever it says *error*
the evaluator says *error* - on the domain and outside the two recorded deviation classes of
`C03_eval_refines_spec_att` (`crosses` = F11, `leaks` = F24), of which this is a corollary.  Both
hypotheses are needed (witnesses below): with a nested block that completes while a pass is pending, or
with actions leaked by an attachment block that matched on no part, `expr_eval_block` reports a MATCH
where the documented evaluation goes on to the next rule - whose condition, an error, is then never
evaluated.  That is a deviation in WHAT is evaluated (known findings F11 / F24 of C03), not an error that
is lost: `C04_eval_error_reaches_root` has no such hypothesis. -/

/-- The documented evaluation says *error* (a condition that is evaluated cannot be evaluated, an action
is invalid, a multipart is malformed) ⇒ the evaluator's verdict is *error*. -/
theorem C04_eval_error_propagates (env : Env) (root : Msg) (f : MFlags) (e : Expr) (rules : List Spec.RuleA)
    (hp : Spec.parseBlockA e = some rules) (hd : Proofs.InDomainA env e = true)
    (hc : (Spec.evalBlockA (Proofs.partCtx env root f) Proofs.actionErr root rules).crosses = false)
    (hl : (Spec.evalBlockA (Proofs.partCtx env root f) Proofs.actionErr root rules).leaks = false)
    (herr : (Spec.evalBlockA (Proofs.partCtx env root f) Proofs.actionErr root rules).res = .error) :
    (eval env root e 0 root { ml := [], flags := f }).1 = .error := by
  have h := (Proofs.att_eval_refines_spec env root f e rules hp hd hc hl).1
  rw [herr] at h
  exact h

/-- The statement without the two hypotheses ... -/
def C04_eval_error_propagates_unrestricted : Prop :=
  ∀ (env : Env) (root : Msg) (f : MFlags) (e : Expr) (rules : List Spec.RuleA),
    Spec.parseBlockA e = some rules → Proofs.InDomainA env e = true →
    (Spec.evalBlockA (Proofs.partCtx env root f) Proofs.actionErr root rules).res = .error →
    (eval env root e 0 root { ml := [], flags := f }).1 = .error

def errRules : List Spec.RuleA :=
  [.acts 2 (.all 2) [.plain (.label 2 [[120]])] .pass,
   .acts 3 (.command 3 [[99]]) [.plain (.move 3 [47, 101])] .none]

abbrev errCtx := Proofs.partCtx errEnv errMsg MFlags.empty

theorem err_v_all (k l : Nat) (m : Msg) : errCtx.v k m (.all l) = .match := by
  simp only [errCtx, Proofs.partCtx, eval]
theorem err_v_command : errCtx.v 0 errMsg (.command 3 [[99]]) = .error := by
  simp only [errCtx, Proofs.partCtx, eval]
  decide +kernel
theorem err_v_header : errCtx.v 0 errMsg (.header 5 [[88]] { src := [51] }) = .nomatch := by
  simp only [errCtx, Proofs.partCtx, eval]
  decide +kernel
theorem err_getAtt : getAttachments errMsg = some [] := by decide +kernel
theorem err_parts : errCtx.parts errMsg = some [] := err_getAtt

/-- Non-vacuity of `C04_eval_error_propagates`: the two-rule tree above is in the domain, the documented
evaluation is an error without any recorded deviation, and the theorem gives the evaluator's error. -/
theorem C04_eval_error_propagates_nonvacuous :
    Spec.parseBlockA errTree = some errRules ∧ Proofs.InDomainA errEnv errTree = true ∧
    Spec.evalBlockA errCtx Proofs.actionErr errMsg errRules = { res := .error, actions := [], crosses := false, leaks := false } ∧
    (eval errEnv errMsg errTree 0 errMsg { ml := [], flags := MFlags.empty }).1 = .error := by
  have hp : Spec.parseBlockA errTree = some errRules := by
    simp [errTree, errRule1, errRule2, errRules, Spec.parseBlockA, Spec.parseRulesA, Spec.parseRuleA, Spec.parseChainA,
      Spec.parseActA, Spec.isCond, Spec.isCtlExpr, Spec.isActionExpr]
  have hd : Proofs.InDomainA errEnv errTree = true := by decide +kernel
  have ho : Spec.evalBlockA errCtx Proofs.actionErr errMsg errRules =
      { res := .error, actions := [], crosses := false, leaks := false } := by
    simp [errRules, Spec.evalBlockA, Spec.evalRulesA, Spec.evalActsA, Spec.condValA, err_v_all, err_v_command,
      Proofs.actionErr]
  exact ⟨hp, hd, ho, C04_eval_error_propagates errEnv errMsg MFlags.empty errTree errRules hp hd (by rw [ho]) (by rw [ho])
    (by rw [ho])⟩

/-! The two hypotheses are needed.  (1) `crosses`:
```
match all label "x" pass
match all { match header "X" /3/ move "/d" }
match command "c" move "/e"
```
the nested block matches nothing; documented: go on to the third rule, whose condition is an error.
`expr_eval_block` finds the PASS entry of the root block at the end of the nested block and reports a
match (the label is pending): the third rule is never evaluated.  (2) `leaks`:
```
match all { match all label "x" attachment { match body /3/ exec "c" }
            match all pass }
match command "c" move "/e"
```
the first rule of the nested block stops at its attachment block (no part) but its label stays in the
match list; at the end of the nested block the PASS entry of the second rule is found and - because of
the leaked label - a match is reported; documented: the nested block collected nothing, no match, go on
to the rule whose condition is an error. -/

def errTreeCross : Expr :=
  .block 1 (.or 1 (.or 1 errRule1
    (.mtch 4 (.all 4) (.block 4 (.mtch 5 (.header 5 [[88]] { src := [51] }) (.move 5 [47, 100])))))
    errRule2)

def errRulesCross : List Spec.RuleA :=
  [.acts 2 (.all 2) [.plain (.label 2 [[120]])] .pass,
   .blk 4 (.all 4) [.acts 5 (.header 5 [[88]] { src := [51] }) [.plain (.move 5 [47, 100])] .none],
   .acts 3 (.command 3 [[99]]) [.plain (.move 3 [47, 101])] .none]

theorem C04_eval_error_crosses_needed :
    Spec.parseBlockA errTreeCross = some errRulesCross ∧ Proofs.InDomainA errEnv errTreeCross = true ∧
    Spec.evalBlockA errCtx Proofs.actionErr errMsg errRulesCross =
      { res := .error, actions := [], crosses := true, leaks := false } ∧
    (eval errEnv errMsg errTreeCross 0 errMsg { ml := [], flags := MFlags.empty }).1 = .match := by
  refine ⟨?_, by decide +kernel, ?_, ?_⟩
  · simp [errTreeCross, errRule1, errRule2, errRulesCross, Spec.parseBlockA, Spec.parseRulesA, Spec.parseRuleA,
      Spec.parseChainA, Spec.parseActA, Spec.isCond, Spec.isCtlExpr, Spec.isActionExpr]
  · simp [errRulesCross, Spec.evalBlockA, Spec.evalRulesA, Spec.evalActsA, Spec.condValA, err_v_all, err_v_command,
      err_v_header, Proofs.actionErr]
  · simp only [errTreeCross, errRule1, errRule2, eval]
    decide +kernel

def errTreeLeak : Expr :=
  .block 1 (.or 1
    (.mtch 4 (.all 4) (.block 4 (.or 4
      (.mtch 5 (.all 5) (.and 5 (.label 5 [[120]])
        (.attBlock 5 (.block 5 (.mtch 6 (.body 6 { src := [51] }) (.exec 6 false false [[99]]))))))
      (.mtch 7 (.all 7) (.pass 7)))))
    errRule2)

def errRulesLeak : List Spec.RuleA :=
  [.blk 4 (.all 4)
     [.acts 5 (.all 5) [.plain (.label 5 [[120]]),
        .att 5 [.acts 6 (.body 6 { src := [51] }) [.plain (.exec 6 false false [[99]])] .none]] .none,
      .acts 7 (.all 7) [] .pass],
   .acts 3 (.command 3 [[99]]) [.plain (.move 3 [47, 101])] .none]

theorem C04_eval_error_leaks_needed :
    Spec.parseBlockA errTreeLeak = some errRulesLeak ∧ Proofs.InDomainA errEnv errTreeLeak = true ∧
    Spec.evalBlockA errCtx Proofs.actionErr errMsg errRulesLeak =
      { res := .error, actions := [], crosses := false, leaks := true } ∧
    (eval errEnv errMsg errTreeLeak 0 errMsg { ml := [], flags := MFlags.empty }).1 = .match := by
  refine ⟨?_, by decide +kernel, ?_, ?_⟩
  · simp [errTreeLeak, errRule2, errRulesLeak, Spec.parseBlockA, Spec.parseRulesA, Spec.parseRuleA,
      Spec.parseChainA, Spec.parseActA, Spec.isCond, Spec.isCtlExpr, Spec.isActionExpr]
  · simp [errRulesLeak, Spec.evalBlockA, Spec.evalRulesA, Spec.evalActsA, Spec.forParts, Spec.condValA, err_v_all,
      err_v_command, err_parts, Proofs.actionErr]
  · simp only [errTreeLeak, errRule2, eval, err_getAtt, eval.loopB]
    decide +kernel

/-- ... is false for the evaluator as it is (each of the two witnesses refutes it). -/
theorem C04_eval_error_propagates_unrestricted_false : ¬ C04_eval_error_propagates_unrestricted := by
  intro h
  obtain ⟨hp, hd, ho, hm⟩ := C04_eval_error_crosses_needed
  have := h errEnv errMsg MFlags.empty errTreeCross errRulesCross hp hd (by rw [ho])
  rw [hm] at this
  cases this

/-! ## Command errors: the status of a child (anchor "command/exec exit status mapping")

`Proofs.BadChild tr`: somewhere in the trace `tr` a `fork` returned no pid, or a `waitpid` failed or reported a wait status
other than "exited with 0" - i.e. a non-zero exit code (127 included) or death by a signal
(`Proofs.waitKind`, `Model.execStatus`: Props/C13.lean `C13_exec_status_mapping`). -/

/-- **Every non-zero or signalled status of an `exec` action is an error of the message, and no later action of that message
issues a call.**  Arbitrary call results; with or without `stdin` / `stdin body`; for the message or a part inside an
`attachment { }` block: if, while the entry is executed, `fork` fails, `waitpid` fails or the child did anything but exit with
0, then the entry reports an error, `matches_exec` reports an error for the message, and the calls of the whole list are the
same whatever follows the entry (so they are the calls of the list that ends with it). -/
theorem C04_exec_status_is_error (env : PEnv) (mh : Match) (rest rest' : MatchList) (st : ExecSt) (orc : Nat → Call → Res)
    (hty : mh.ty = .exec) (hb : Proofs.BadChild (runOracle orc (execOne env mh st) 0 []).2) :
    (runOracle orc (execOne env mh st) 0 []).1.2 = true ∧
    (runOracle orc (matchesExec env (mh :: rest) st) 0 []).1.2 = true ∧
    (runOracle orc (matchesExec env (mh :: rest) st) 0 []).2 = (runOracle orc (matchesExec env (mh :: rest') st) 0 []).2 :=
  have he := Proofs.execOne_bad_child env mh st orc hty hb
  ⟨he, Proofs.error_stops_list env mh rest rest' st orc he⟩

/-- Non-vacuity: `exec "x"` whose child exits with status 1 (wait status 256): the trace is open /dev/null, fork, waitpid,
close; it is a `BadChild` trace; the theorem applies. -/
example (st : ExecSt) :
    let orc : Nat → Call → Res := fun i _ => if i == 2 then .ok 256 else .ok 3
    let mh : Match := { ty := .exec, lno := 1, part := 0, argv := [[120]] }
    (runOracle orc (execOne Proofs.StdinExample.env0 mh st) 0 []).2 =
      [(.openPath (ofString "/dev/null"), .ok 3), (.fork [[120]] 3, .ok 3), (.waitpid, .ok 256), (.close 3, .ok 3)] ∧
    Proofs.BadChild (runOracle orc (execOne Proofs.StdinExample.env0 mh st) 0 []).2 ∧
    (runOracle orc (execOne Proofs.StdinExample.env0 mh st) 0 []).1.2 = true := by
  intro orc mh
  have htr : (runOracle orc (execOne Proofs.StdinExample.env0 mh st) 0 []).2 =
      [(.openPath (ofString "/dev/null"), .ok 3), (.fork [[120]] 3, .ok 3), (.waitpid, .ok 256), (.close 3, .ok 3)] := rfl
  have hb : Proofs.BadChild (runOracle orc (execOne Proofs.StdinExample.env0 mh st) 0 []).2 := by
    rw [htr]
    refine .inr ⟨.ok 256, by simp, ?_⟩
    intro s hs
    cases hs
    decide
  exact ⟨htr, hb, (C04_exec_status_is_error _ mh [] [] st orc rfl hb).1⟩

/-- **A `command` condition that cannot be run is an error, not "no match".**  When /dev/null cannot be opened, `fork` or
`waitpid` fails, or the child exits with 127 (its `execvp` failed), the condition evaluates to ERROR - the verdict
`C04_message_error_iff` turns into the error flag of the run - and the match list is untouched.  (Hypothesis `hrc`: the
environment's command oracle is `exec()`, see `C13_status`; inside the run of `Model.processMessage` the condition issues the
calls itself and the oracle IS `exec()` on their results: `C04_command_failure_is_error_run` below.) -/
theorem C04_command_failure_is_error (env : Env) (root : Msg) (lno : Nat) (argv av : List Bytes) (part : Nat) (m : Msg) (st : St)
    (hav : argv.mapM (interpolate st.ml none) = some av)
    (d : Bool) (f w : Res) (hrc : env.command av = Model.execValue d f w)
    (h : Proofs.childOutcome d f w = .cannotRun ∨ Proofs.childOutcome d f w = .waited (.exited 127)) :
    eval env root (.command lno argv) part m st = (.error, st) := by
  rw [Proofs.eval_command, hav]
  simp only [hrc, Proofs.execValue_outcome, Proofs.commandTri_outcome]
  rw [(Proofs.outcomeTri_error_iff _).2 h]

/-- An environment whose command oracle is `exec()` on a child that exited with 127 (its `execvp` failed). -/
def c04exCmdEnv : Env where
  rx := fun _ _ => .nomatch
  command := fun _ => Model.execValue true (.ok 7) (.ok (127 * 256))
  isDir := fun _ => false
  now := 0
  strptime := fun _ => none
  zoneName := fun _ => none
  fileTime := fun _ => none
  dryrun := false
  path := []

/-- Non-vacuity, all hypotheses at once (added by audit au1): `command "x"` in that environment evaluates to ERROR by the
theorem. -/
example : (eval c04exCmdEnv (parseMessage []) (.command 1 [[120]]) 0 (parseMessage []) { ml := [], flags := ⟨0, 0⟩ }).1 = .error := by
  rw [C04_command_failure_is_error c04exCmdEnv (parseMessage []) 1 [[120]] [[120]] 0 (parseMessage []) { ml := [], flags := ⟨0, 0⟩ }
    (by decide +kernel) true (.ok 7) (.ok (127 * 256)) rfl (.inr (by decide))]

/-- Non-vacuity: the child's `execvp` failed (exit 127, wait status 127 * 256); `fork` failed. -/
example :
    Proofs.childOutcome true (.ok 7) (.ok (127 * 256)) = .waited (.exited 127) ∧
    Proofs.childOutcome true (.err "EAGAIN") (.ok 0) = .cannotRun := by decide

/-! ### Death by a signal of a `command` condition: what the code does (candidate finding, not claimed)

The anchor of C04 says "127 and signals are errors".  For `exec` actions that is `C04_exec_status_is_error`.  For `command`
conditions the unchanged code makes death by a signal "no match" (`exec()` returns 128 + signal > 0, `expr_eval_command` only
treats negative values as errors): the reading below is FALSE of the model, and of the binary (tools/cmdstatus.py pins it,
design-notes/pkg-ce5.md has the reproduction). -/

/-- The reading "a `command` condition whose program is killed by a signal is an error". -/
def C04_command_signal_is_error : Prop :=
  ∀ (env : Env) (root : Msg) (lno : Nat) (argv av : List Bytes) (part : Nat) (m : Msg) (st : St) (pid s g : Nat),
    argv.mapM (interpolate st.ml none) = some av → Proofs.waitKind s = .signaled g →
    env.command av = Model.execValue true (.ok pid) (.ok s) →
    (eval env root (.command lno argv) part m st).1 = .error

/-- An environment whose command oracle is `exec()` on a child killed by SIGSEGV (wait status 11). -/
def segvCommandEnv : Env where
  rx := fun _ _ => .nomatch
  command := fun _ => Model.execValue true (.ok 7) (.ok 11)
  isDir := fun _ => false
  now := 0
  strptime := fun _ => none
  zoneName := fun _ => none
  fileTime := fun _ => none
  dryrun := false
  path := []

/-- It does not hold: `command "x"` whose program dies of SIGSEGV evaluates to "no match". -/
theorem C04_command_signal_is_error_false : ¬ C04_command_signal_is_error := by
  intro h
  have h1 := h segvCommandEnv (parseMessage []) 1 [[120]] [[120]] 0 (parseMessage []) { ml := [], flags := ⟨0, 0⟩ } 7 11 11
    (by decide +kernel) (by decide) rfl
  rw [Proofs.eval_command] at h1
  revert h1
  decide +kernel

/-! ## Evaluation errors caused by the operating system

`command`, `isdirectory` and the file-time `date` conditions ask the operating system while the rules are evaluated
(`Model.evalP`, Model/EvalP.lean; `C03_evaluation_calls`).  `Proofs.FailAns tf q a`: the answer `a` to the question `q`
is a failure - the value of `exec(argv, -1)` is negative (`command`), or `stat` of the message's path failed / `time_format`
returned NULL (file-time `date`).  `isdirectory` has no failing answer: a path that cannot be stat'ed is not a directory
(`expr_eval_stat`; the condition is false, nothing is reported). -/

/-- **A question the operating system could not answer makes the evaluation an error, at once** - for every rule tree,
wherever the condition stands in it (inside `and` / `or` / `!` / nested blocks / `attachment`), whatever the other
calls return: if in the run of `evalP` the answer to question number `k` is a failure, the value is *error* and no
further question is asked (`EXPR_ERROR` is passed up through every `expr_eval_*`). -/
theorem C04_evaluation_failure_is_error (env : Env) (e : Expr) (m : Msg) (fl : MFlags)
    (orcl : Nat → Call → Res) (i : Nat) (k : Nat) (q : Req) (a : SysAns)
    (hq : (evalR env e m fl ((evalTop env e m fl).answers orcl i)).2[k]? = some q)
    (ha : ((evalTop env e m fl).answers orcl i)[k]? = some a) (hF : Proofs.FailAns env.timeFormat q a) :
    (Proofs.Own.runO orcl (evalP env e m fl) i).1.1 = .error ∧
    (evalR env e m fl ((evalTop env e m fl).answers orcl i)).2.length = k + 1 :=
  Proofs.evalP_error_of_fail env e m fl orcl i k q a hq ha hF

/-- Non-vacuity: `match command "t" or all move "/d"` when `fork` fails: one question, a failing answer. -/
example :
    let e : Expr := .mtch 1 (.or 1 (.command 1 [[116]]) (.all 1)) (.move 1 [47, 100])
    let env := Proofs.msgEnv Proofs.examplePEnv Proofs.exampleOracles [47, 109, 47, 110, 101, 119, 47, 49]
    let m := parseMessage [83, 117, 98, 106, 101, 99, 116, 58, 32, 120, 10, 10, 98, 10]
    let orcl : Nat → Call → Res := fun _ c => match c with | .fork .. => .err "EAGAIN" | _ => .ok 0
    (evalTop env e m MFlags.empty).answers orcl 0 = [.status (-1)] ∧
    (evalR env e m MFlags.empty [.status (-1)]).2 = [.command [[116]]] ∧
    Proofs.FailAns env.timeFormat (.command [[116]]) (.status (-1)) ∧
    (Proofs.Own.runO orcl (evalP env e m MFlags.empty) 0).1.1 = .error := by
  simp only [evalP, evalR, evalTop, evalT, eval]
  refine ⟨by decide +kernel, by decide +kernel, ?_, by decide +kernel⟩
  show ((-1 : Int) < 0)
  decide

/-- **Which call results make a `command` condition fail**: its answer is the value of util.c `exec(argv, -1)` on the
results of `open("/dev/null")`, `fork`, `waitpid` (`Model.execValue`), and that value is negative exactly when the child
could not be run (`Proofs.childOutcome … = .cannotRun`: `/dev/null` cannot be opened, `fork` fails, `waitpid` fails -
`C13_child_outcome`) or exited with status 127 (`execvp` failed).  Every other status - 0, another exit code, death by
a signal - is match / no match, not an error (`C13_command_status`). -/
theorem C04_command_failure_causes (av : List Bytes) (orcl : Nat → Call → Res) (j : Nat) :
    (Proofs.Own.runO orcl (sysCall (.command av)) j).1 =
      .status (match orcl j (.openPath (ofString "/dev/null")) with
        | .ok h => Model.execValue true (orcl (j + 1) (.fork (av.map cstr) h)) (orcl (j + 2) .waitpid)
        | r => Model.execValue false (orcl (j + 1) (.fork (av.map cstr) (Proofs.Own.okHandle r))) (orcl (j + 2) .waitpid)) ∧
    ∀ (d : Bool) (f w : Res), Model.execValue d f w < 0 ↔
      Proofs.childOutcome d f w = .cannotRun ∨ Proofs.childOutcome d f w = .waited (.exited 127) :=
  ⟨Proofs.sysCall_command_value av orcl j, Proofs.execValue_neg_iff⟩

/-- **`C04_command_failure_is_error` inside the run** (its corollary through `Proofs.evalT_command_run`: the oracle of the
evaluator-level statement IS `exec()` on the results of the three calls of this run): a `command` condition evaluated at
step `j` of a run in which `/dev/null` cannot be opened, `fork` or `waitpid` fails, or the child exits with 127, evaluates to
ERROR and leaves the match list as it was. -/
theorem C04_command_failure_is_error_run (env : Env) (root : Msg) (lno : Nat) (argv av : List Bytes) (part : Nat) (m : Msg)
    (st : St) (hav : argv.mapM (interpolate st.ml none) = some av) (orcl : Nat → Call → Res) (j : Nat)
    (h : let o := Proofs.childOutcome (match orcl j (.openPath (ofString "/dev/null")) with | .ok _ => true | _ => false)
            (orcl (j + 1) (.fork (av.map cstr) (Proofs.Own.okHandle (orcl j (.openPath (ofString "/dev/null")))))) (orcl (j + 2) .waitpid)
         o = .cannotRun ∨ o = .waited (.exited 127)) :
    (Proofs.Own.runO orcl (evalT env root (.command lno argv) part m st).toProg j).1 = (.error, st) := by
  rw [Proofs.evalT_command_run]
  exact C04_command_failure_is_error _ root lno argv av part m st hav _ _ _ rfl h

/-- **A failing `stat` of the message's path makes a file-time `date` condition fail**: the answer to the question is
what `stat` returned, and a `stat` that does not succeed (`EACCES`, `EIO`, `ENOENT`: the message was removed meanwhile)
is a failing answer. -/
theorem C04_date_stat_failure (tf : Int → Option Bytes) (p : Bytes) (f : DateField) (orcl : Nat → Call → Res) (j : Nat) :
    (Proofs.Own.runO orcl (sysCall (.fileTime p f)) j).1 = .stat (statAnswer (orcl j (.stat p))) ∧
    ((∀ v, orcl j (.stat p) ≠ .ok v) → Proofs.FailAns tf (.fileTime p f) (.stat (statAnswer (orcl j (.stat p))))) :=
  ⟨Proofs.sysCall_fileTime_value p f orcl j, Proofs.failAns_fileTime_of_stat_failed tf p f _⟩

example : (∀ v, (Res.err "EACCES") ≠ .ok v) := fun _ h => by cases h

/-- **... and an evaluation error is an error of that message** (`C04_message_error_iff`): if the message was parsed and
the evaluation of the rules in this run says *error*, the message's error bit is set. -/
theorem C04_message_error_of_eval_error (env : PEnv) (orc : EvalOracles) (expr : Expr) (md : Maildir) (name : Bytes)
    (st : MainSt) (orcl : Nat → Call → Res) (i : Nat) (d : Handle) (content : Bytes) (ms : MsgSt)
    (hd : md.dirH = some d) (hf : st.files.get md.path name = some content)
    (hparse : (Proofs.Own.runO orcl (messageParseP d md.path name content) i).1 = some ms)
    (hev : (Proofs.Own.runO orcl (Proofs.evalMs env orc expr ms)
      (Proofs.Own.runO orcl (messageParseP d md.path name content) i).2.2).1.1 = .error) :
    Proofs.msgError env orc expr md name st orcl i = true := by
  unfold Proofs.msgError
  simp only [hd, hf, hparse]
  generalize (Proofs.Own.runO orcl (Proofs.evalMs env orc expr ms)
    (Proofs.Own.runO orcl (messageParseP d md.path name content) i).2.2).1 = ev at hev ⊢
  obtain ⟨t, est⟩ := ev
  dsimp only at hev
  subst hev
  rfl

/-! ## The command line (package ce13): exit statuses before the configuration is read -/

/-- The exit status of a run from `argv`.  A refused command line (usage, `-D` errors) and a `readenv` / `defaultconf`
failure end the run with status 1 - ALSO when `-` is among the arguments: `usage()` calls `exit(1)`, the `-D` errors
`goto out` before the operand `-` has been looked at (`OPTION_STDIN` is not set yet, so `EX_TEMPFAIL` does not
apply), `errc(1, ...)` exits.  Every other run is `mainP` in the modes the options select, and its status is the
table of `C04_status_table` for THAT mode: 75 / 1 / 0 iff `-` is the operand. -/
theorem C04_usage_status (permute : Bool) (args : List Bytes) (raw : RawEnv) (env : PEnv) (orc : EvalOracles)
    (rxOk : Pat → Bool) (confText : Bytes) (files : Files) (input : Bytes) (w : World) (plan : Plan) :
    let r := (runPlan plan (mainArgs permute args raw env orc rxOk confText files input) w 0 []).1
    (∀ e, parseArgs permute args = .error e → r.1 = 1) ∧
    (∀ o, parseArgs permute args = .ok o →
      (r.1 = 1 ∧ Proofs.callsOf plan (mainArgs permute args raw env orc rxOk confText files input) w = []) ∨
      ∃ home tmpdir confpath, startPaths raw o.confpath = .ok (home, tmpdir, confpath) ∧
        r.1 = exitStatus (Proofs.Opts.runEnv env o home tmpdir confpath) r.2) := by
  intro r
  refine ⟨fun e h => ?_, fun o h => ?_⟩
  · show (runPlan plan (mainArgs permute args raw env orc rxOk confText files input) w 0 []).1.1 = 1
    rw [Proofs.Opts.mainArgs_refused permute args raw env orc rxOk confText files input e h, (Proofs.Opts.ret_run plan _ w).1]; rfl
  · rcases Proofs.Opts.mainArgs_accepted permute args raw env orc rxOk confText files input o h with h1 | ⟨home, tmpdir, confpath, ok, conf, hs, h2⟩
    · left
      show (runPlan plan (mainArgs permute args raw env orc rxOk confText files input) w 0 []).1.1 = 1 ∧ _
      rw [h1]
      exact ⟨by rw [(Proofs.Opts.ret_run plan _ w).1]; rfl, (Proofs.Opts.ret_run plan _ w).2⟩
    · right
      refine ⟨home, tmpdir, confpath, hs, ?_⟩
      show (runPlan plan (mainArgs permute args raw env orc rxOk confText files input) w 0 []).1.1 = exitStatus _ (runPlan plan (mainArgs permute args raw env orc rxOk confText files input) w 0 []).1.2
      rw [h2]
      exact (C04_status_table (Proofs.Opts.runEnv env o home tmpdir confpath) orc ok conf files input w plan).1

/-- Non-vacuity: refused command lines that DO contain the operand `-` (status 1, not 75), and an accepted one whose
mode is stdin. -/
example :
    parseArgs true ["-x".toUTF8.toList, "-".toUTF8.toList] = .error .usage ∧
    parseArgs true ["-".toUTF8.toList, "-x".toUTF8.toList] = .error .usage ∧
    parseArgs true ["-".toUTF8.toList, "-D".toUTF8.toList, "a".toUTF8.toList] = .error (.macroSeparator "a".toUTF8.toList) ∧
    parseArgs true ["-".toUTF8.toList, "extra".toUTF8.toList] = .error .usage ∧
    (parseArgs true ["-".toUTF8.toList]).toOption.map (·.stdinMode) = some true ∧
    (parseArgs true ["--".toUTF8.toList, "-".toUTF8.toList]).toOption.map (·.stdinMode) = some true := by
  decide +kernel
/-! ## the fuel of the model's `readdir` loops (package p12; audit au1, W4)

mdsort's loops over a directory are unbounded (`while ((ent = readdir(dir)))`); a `Prog` is a well-founded tree, so the
model's `walk` (maildir: `2n+8`, spool: `64`) and `closeStdin.loop` (`64`) carry fuel, now plus the ghost `env.extraFuel`.
Running out of fuel used to end the loop SILENTLY; it now sets `MainSt.fuelOut` (never cleared; `closeStdin` reports it),
and the conformance check treats it as a divergence (`tools/world.py`, driver answer `FUELOUT`).

Every theorem about `mainP` - for arbitrary call results: `C04_error_iff_partial`, `C04_isolation_calls_main`,
`C05_dry_stdin`, `C13_fd_hygiene`, `C18_no_truncated_path`, ...; under fault plans: C01, C02, C05 - is quantified over `env`
and therefore holds for every value of the allowance.  The theorems below say what that covers:

* a run that ends with `fuelOut = false` is THE SAME RUN for every larger allowance (`C04_fuel_irrelevant*`): the theorem
  speaks about the run of the unbounded loops;
* along an observed trace, an allowance of the length of the trace always suffices (`C04_fuel_suffices_conform`) - the
  driver uses exactly that allowance, so a `done` answer of the conformance check is never a truncated walk;
* a run that ends with `fuelOut = true` is a truncation of mdsort's run (witness: `C01_fuel_can_run_out`). -/

/-- **Arbitrary call results** (`orcl i c` = the result of the i-th call: every behaviour of the file system, of faults and
of other parties): if the run of `mainP` ends with `fuelOut = false`, then for EVERY larger allowance `k` the run is the
same - same exit status, same final state, same calls with the same results. -/
theorem C04_fuel_irrelevant (env : PEnv) (orc : EvalOracles) (confOk : Bool) (conf : List ConfBlock) (files : Files)
    (input : Bytes) (orcl : Nat → Call → Res) (k : Nat) (hk : env.extraFuel ≤ k)
    (h : (runOracle orcl (mainP env orc confOk conf files input) 0 []).1.2.fuelOut = false) :
    runOracle orcl (mainP { env with extraFuel := k } orc confOk conf files input) 0 [] =
      runOracle orcl (mainP env orc confOk conf files input) 0 [] :=
  Proofs.Fuel.fuel_irrelevant_oracle env orc confOk conf files input orcl k hk h

/-- The same on the abstract file system under a fault plan (value, final world, the world after every call). -/
theorem C04_fuel_irrelevant_plan (env : PEnv) (orc : EvalOracles) (confOk : Bool) (conf : List ConfBlock) (files : Files)
    (input : Bytes) (plan : Plan) (w : World) (k : Nat) (hk : env.extraFuel ≤ k)
    (h : (runPlan plan (mainP env orc confOk conf files input) w 0 []).1.2.fuelOut = false) :
    runPlan plan (mainP { env with extraFuel := k } orc confOk conf files input) w 0 [] =
      runPlan plan (mainP env orc confOk conf files input) w 0 [] :=
  Proofs.Fuel.fuel_irrelevant_plan env orc confOk conf files input plan w k hk h

/-- The same for the conformance walk along an observed trace: a `done` answer without `fuelOut` is the `done` answer for
every larger allowance. -/
theorem C04_fuel_irrelevant_conform (env : PEnv) (orc : EvalOracles) (confOk : Bool) (conf : List ConfBlock) (files : Files)
    (input : Bytes) (w : World) (tr : List (Call × Res)) (k : Nat) (hk : env.extraFuel ≤ k)
    (a : Nat × MainSt) (w' : World) (rest : List (Call × Res))
    (hd : conform (mainP env orc confOk conf files input) w tr 0 = .done a w' rest) (h : a.2.fuelOut = false) :
    conform (mainP { env with extraFuel := k } orc confOk conf files input) w tr 0 = .done a w' rest :=
  Proofs.Fuel.fuel_irrelevant_conform env orc confOk conf files input w tr k hk hd h

/-- **Along an observed trace an allowance of the length of the trace suffices** - for EVERY trace (results possible in
the abstract file system or not): if `env.extraFuel ≥ |tr|` and the conformance walk ends (`done`), no loop of the model
stopped for lack of fuel.  Bound: every iteration of a loop issues a call and a `done` walk consumes one element of the
trace per call, so no loop makes more than `|tr|` iterations; the allowance is ADDED to the standard one. -/
theorem C04_fuel_suffices_conform (env : PEnv) (orc : EvalOracles) (confOk : Bool) (conf : List ConfBlock) (files : Files)
    (input : Bytes) (w : World) (tr : List (Call × Res)) (hlen : tr.length ≤ env.extraFuel)
    (a : Nat × MainSt) (w' : World) (rest : List (Call × Res))
    (hd : conform (mainP env orc confOk conf files input) w tr 0 = .done a w' rest) : a.2.fuelOut = false :=
  Proofs.Fuel.fuel_suffices_conform env orc confOk conf files input w tr hlen hd

/-- Non-vacuity of the hypotheses `fuelOut = false` / `hk` / `hlen`: `C01_fuel_can_run_out` (Props/C01.lean) evaluates a run
that ends WITH the flag under the standard allowance and WITHOUT it under an allowance of 5; `0 ≤ 5`. -/
example : Proofs.examplePEnv.extraFuel ≤ 5 ∧ ([] : List (Call × Res)).length ≤ Proofs.examplePEnv.extraFuel := ⟨by decide, by decide⟩

end Mdsort.Props
