import Mdsort.Model.MainText
import Mdsort.Model.Start

/-!
# mdsort.c `main` up to `readenv`: the command line

```
while ((c = getopt(argc, argv, "D:df:nv")) != -1) switch (c) { ... default: dousage = 1; goto out; }
argc -= optind; argv += optind;
if (argc > 0) { if (strcmp(*argv, "-") != 0) usage; argc--; argv++; env.ev_options |= OPTION_STDIN; }
if (argc > 0) usage;
if ((env.ev_options & OPTION_DRYRUN) && log_level < 1) log_level = 1;
```

`getopt` is the platform's (glibc 2.36; mdsort has no replacement of its own).  What is transcribed here
is `_getopt_internal_r` for a NULL `longopts` and an option string of plain letters and `x:` (the
translator `gen_tables.py` refuses every other form, `Gen.optstring` is regenerated from mdsort.c):

* an argv element is a NON-OPTION when it does not start with `-` or is exactly `-`;
* glibc PERMUTES by default: non-options are skipped and collected, the scan goes on, and when it ends
  `optind` points at the collected non-options followed by whatever stood after a `--`; with
  `POSIXLY_CORRECT` in the environment (`permute = false`) the scan stops at the first non-option;
* `--` ends the scan; it is not an operand;
* every other element is a cluster of option letters: a letter that is not in the option string (or is
  `:` / `;`) yields `?`; a letter with `:` takes the rest of the element as its argument, or - when the
  element ends there - the NEXT element whatever it looks like; if there is none: `?` (the option
  string does not start with `:`).

`argv[0]` is not part of `args`.  (With `argc = 0` glibc returns -1 at once and `main` computes
`argc = -1`: a run without options; Linux >= 5.18 does not start a program that way.)
-/

namespace Mdsort.Model
open Mdsort

/-- `strchr(optstring, c)` as `getopt` uses it: `none` - not an option (`?`); `some true` - followed by
`:`.  glibc: `if (temp == NULL || c == ':' || c == ';')` is the invalid-option case. -/
def optLookup (optstring : Bytes) (c : UInt8) : Option Bool :=
  if c == 58 || c == 59 then none
  else
    match optstring.dropWhile (· != c) with
    | [] => none
    | _ :: 58 :: _ => some true
    | _ => some false

/-- One return of `getopt`. -/
inductive OptEv where
  | flag (c : UInt8)                 -- an option without argument
  | arg (c : UInt8) (a : Bytes)      -- an option with `optarg`
  | bad                              -- `?`: letter not in the option string, or argument missing
deriving Repr, DecidableEq

/-- The letters of one argv element (after its `-`): the events, and the letter left waiting for its argument
when the element ends with an option that takes one. -/
def cluster (os : Bytes) : Bytes → List OptEv × Option UInt8
  | [] => ([], none)
  | c :: r =>
    match optLookup os c with
    | none => (.bad :: (cluster os r).1, (cluster os r).2)
    | some false => (.flag c :: (cluster os r).1, (cluster os r).2)
    | some true => if r.isEmpty then ([], some c) else ([.arg c r], none)

/-- `argv[i][0] != '-' || argv[i][1] == '\0'`. -/
def isNonOption : Bytes → Bool
  | 45 :: _ :: _ => false
  | _ => true

/-- `"--"`. -/
def dashdash : Bytes := [45, 45]

structure GetoptOut where
  events : List OptEv        -- what successive calls return until -1
  operands : List Bytes      -- `argv[optind ..]` after the -1
deriving Repr, DecidableEq

/-- The whole `getopt` loop over `argv[1..]`; `skipped`: the non-options passed over so far (permute mode). -/
def getoptScan (os : Bytes) (permute : Bool) : List Bytes → List Bytes → GetoptOut
  | [], skipped => ⟨[], skipped⟩
  | a :: rest, skipped =>
    if a == dashdash then ⟨[], skipped ++ rest⟩
    else if isNonOption a then
      if permute then getoptScan os permute rest (skipped ++ [a]) else ⟨[], skipped ++ a :: rest⟩
    else
      match (cluster os (a.drop 1)).2 with
      | none => ⟨(cluster os (a.drop 1)).1 ++ (getoptScan os permute rest skipped).events, (getoptScan os permute rest skipped).operands⟩
      | some c =>
        match rest with
        | [] => ⟨(cluster os (a.drop 1)).1 ++ [.bad], skipped⟩       -- "option requires an argument"
        | b :: rest' =>
          ⟨(cluster os (a.drop 1)).1 ++ .arg c b :: (getoptScan os permute rest' skipped).events, (getoptScan os permute rest' skipped).operands⟩

/-- What `main` has collected when the option loop and the operand test are through. -/
structure Opts where
  dryrun : Bool := false                    -- OPTION_DRYRUN
  syntaxOnly : Bool := false                -- OPTION_SYNTAX
  stdinMode : Bool := false                 -- OPTION_STDIN
  confpath : Option Bytes := none           -- env.ev_confpath (`none`: NULL, the default is used)
  defs : List (Bytes × Bytes) := []         -- the `-D` macros in the order given
  verbosity : Nat := 0                      -- log_level
deriving Repr, DecidableEq

/-- The three ways `main` ends before `readenv`; each with exit status 1. -/
inductive ArgsErr where
  | usage                               -- `usage()`: the synopsis on stderr, `exit(1)`
  | macroSeparator (arg : Bytes)        -- `missing macro separator: <arg>`
  | macroInvalid (name : Bytes)         -- `invalid macro: <name>`
deriving Repr, DecidableEq

instance : DecidableEq (Except ArgsErr Opts) := fun a b =>
  match a, b with
  | .ok x, .ok y => if h : x = y then isTrue (by rw [h]) else isFalse (fun e => h (by injection e))
  | .error x, .error y => if h : x = y then isTrue (by rw [h]) else isFalse (fun e => h (by injection e))
  | .ok _, .error _ => isFalse (fun e => by cases e)
  | .error _, .ok _ => isFalse (fun e => by cases e)

/-- `strchr(optarg, '=')`, `*eq = '\0'`: name and value of `-D name=value`. -/
def splitEq (a : Bytes) : Option (Bytes × Bytes) :=
  if a.contains 61 then some (a.takeWhile (· != 61), (a.dropWhile (· != 61)).drop 1) else none

/-- The state of the option loop: the options, and `cl.cl_macros`. -/
structure OptSt where
  opts : Opts := {}
  macros : List Macro := []
deriving Repr

/-- The body of the `switch (c)`. -/
def optStep (st : OptSt) : OptEv → Except ArgsErr OptSt
  | .arg 68 a =>                                                               -- 'D'
    match splitEq a with
    | none => .error (.macroSeparator a)
    | some (name, value) =>
      match macrosInsert st.macros name value 0 true with                      -- MACRO_FLAG_CONST | MACRO_FLAG_STICKY, lno 0
      | none => .error (.macroInvalid name)
      | some ms => .ok { opts := { st.opts with defs := st.opts.defs ++ [(name, value)] }, macros := ms }
  | .flag 100 => .ok { st with opts := { st.opts with dryrun := true } }       -- 'd'
  | .arg 102 a => .ok { st with opts := { st.opts with confpath := some a } }  -- 'f'
  | .flag 110 => .ok { st with opts := { st.opts with syntaxOnly := true } }   -- 'n'
  | .flag 118 => .ok { st with opts := { st.opts with verbosity := st.opts.verbosity + 1 } }   -- 'v'
  | _ => .error .usage                                                         -- default:

/-- The `while` loop: the first event that ends it decides. -/
def optLoop : List OptEv → OptSt → Except ArgsErr OptSt
  | [], st => .ok st
  | e :: r, st =>
    match optStep st e with
    | .ok st' => optLoop r st'
    | .error x => .error x

/-- The operands: none, or exactly `-`. -/
def operandStep (o : Opts) : List Bytes → Except ArgsErr Opts
  | [] => .ok o
  | [a] => if a == [45] then .ok { o with stdinMode := true } else .error .usage
  | _ :: _ :: _ => .error .usage

/-- `if ((env.ev_options & OPTION_DRYRUN) && log_level < 1) log_level = 1;` -/
def dryVerbosity (o : Opts) : Opts :=
  if o.dryrun && o.verbosity < 1 then { o with verbosity := 1 } else o

/-- `main` from its first statement to `readenv(&env)`, with the option string as a parameter. -/
def parseArgsWith (os : Bytes) (permute : Bool) (args : List Bytes) : Except ArgsErr Opts :=
  let g := getoptScan os permute args []
  match optLoop g.events {} with
  | .error e => .error e
  | .ok st =>
    match operandStep st.opts g.operands with
    | .error e => .error e
    | .ok o => .ok (dryVerbosity o)

/-- `main` from its first statement to `readenv(&env)`.  `permute = false`: `POSIXLY_CORRECT` is set. -/
def parseArgs (permute : Bool) (args : List Bytes) : Except ArgsErr Opts := parseArgsWith Gen.optstring permute args

/-- The state a run is left in when it ends before the configuration is opened. -/
def earlyExit (files : Files) : Nat × MainSt := (1, { files := files, error := true, reject := false, log := [] })

/-- The whole program from `argv[1..]`, the raw environment and the text of the configuration file:
`parseArgs`, `readenv`, `defaultconf`, then `mainText` with the options, paths and `-D` macros just computed.
`env` supplies what `readenv` takes from the system (`now`, `pid`, `host`, `random`); its paths and mode flags
are overwritten.  The verbosity does not occur: nothing but stderr depends on it. -/
def mainArgs (permute : Bool) (args : List Bytes) (raw : RawEnv) (env : PEnv) (orc : EvalOracles) (rxOk : Pat → Bool)
    (confText : Bytes) (files : Files) (input : Bytes) : Prog (Nat × MainSt) :=
  match parseArgs permute args with
  | .error _ => .ret (earlyExit files)
  | .ok o =>
    match startPaths raw o.confpath with
    | .error _ => .ret (earlyExit files)
    | .ok (home, tmpdir, confpath) =>
      mainText { env with home := home, tmpdir := tmpdir, confpath := confpath, dryrun := o.dryrun, syntaxOnly := o.syntaxOnly,
                          stdinMode := o.stdinMode } orc rxOk o.defs confText files input

end Mdsort.Model
