import Mdsort.Bytes
import Mdsort.Gen.Tables

/-!
# Model of maildir flags and path helpers

message.c: `message_flags_parse/resolve/set/clr/isset/str`, `strflags`;
maildir.c: `msgflags`, `parsesubdir`; util.c: `pathjoin`, `pathslice`;
compat `strlcpy`.  Fixed-size buffers are modelled by their size: a setter
returns `none` where the C function reports that the result does not fit.
-/

namespace Mdsort.Model
open Mdsort

/-- `struct message_flags`: two 26-bit sets. -/
structure MFlags where
  upper : Nat
  lower : Nat
deriving Repr, DecidableEq

def MFlags.empty : MFlags := ⟨0, 0⟩

/-- `message_flags_resolve` + set: `none` for "unknown flag". -/
def flagsSet (mf : MFlags) (c : UInt8) : Option MFlags :=
  if isupper c then some { mf with upper := mf.upper ||| (1 <<< (c.toNat - 65)) }
  else if islower c then some { mf with lower := mf.lower ||| (1 <<< (c.toNat - 97)) }
  else none

def flagsClr (mf : MFlags) (c : UInt8) : Option MFlags :=
  if isupper c then some { mf with upper := mf.upper &&& (2 ^ 32 - 1 - (1 <<< (c.toNat - 65))) }
  else if islower c then some { mf with lower := mf.lower &&& (2 ^ 32 - 1 - (1 <<< (c.toNat - 97))) }
  else none

def flagsIsSet (mf : MFlags) (c : UInt8) : Bool :=
  if isupper c then mf.upper.testBit (c.toNat - 65)
  else if islower c then mf.lower.testBit (c.toNat - 97)
  else false

/-- Suffix after the last occurrence of `c` (`strrchr`), including `c`. -/
def strrchr (s : Bytes) (c : UInt8) : Option Bytes :=
  match s with
  | [] => none
  | x :: r =>
    match strrchr r c with
    | some t => some t
    | none => if x == c then some (x :: r) else none

def flagsSetAll (mf : MFlags) : Bytes → Option MFlags
  | [] => some mf
  | c :: r => match flagsSet mf c with
    | none => none
    | some mf' => flagsSetAll mf' r

/-- `message_flags_parse(mf, name)` starting from zeroed flags: `none` is the error return. -/
def flagsParse (name : Bytes) : Option MFlags :=
  match strrchr name 58 with
  | none => some MFlags.empty
  | some p =>
    match p with
    | _ :: 50 :: 44 :: fl => flagsSetAll MFlags.empty fl
    | _ => none

/-- `strflags(flags, offset, buf, bufsiz)`: letters for the set bits, ascending;
`none` when they do not fit in `bufsiz - 1`. -/
def strflagsLoop (offset : UInt8) (room : Nat) : Nat → Nat → Nat → Bytes → Option Bytes
  | 0, _, _, acc => some acc
  | fuel + 1, flags, bit, acc =>
    if flags == 0 then some acc
    else if flags % 2 == 0 then strflagsLoop offset room fuel (flags / 2) (bit + 1) acc
    else if acc.length ≥ room then none
    else strflagsLoop offset room fuel (flags / 2) (bit + 1) (acc ++ [offset + bit.toUInt8])

def strflags (flags : Nat) (offset : UInt8) (bufsiz : Nat) : Option Bytes :=
  strflagsLoop offset (bufsiz - 1) 33 flags 0 []

/-- `message_flags_str(mf, buf, bufsiz)`. -/
def flagsStr (mf : MFlags) (bufsiz : Nat) : Option Bytes :=
  if bufsiz < 4 then none
  else
    match strflags mf.upper 65 (bufsiz - 3) with
    | none => none
    | some u =>
      match strflags mf.lower 97 (bufsiz - 3 - u.length) with
      | none => none
      | some l => some ([58, 50, 44] ++ u ++ l)

inductive Subdir | new | cur
deriving Repr, DecidableEq

/-- `msgflags(src, dst, msg, buf, bufsiz)` with `FLAGS_MAX`. -/
def msgflags (src dst : Subdir) (mf : MFlags) : Option Bytes :=
  let mf' :=
    match src, dst with
    | .new, .cur => flagsSet mf 83
    | .cur, .new => flagsClr mf 83
    | _, _ => some mf
  match mf' with
  | none => none
  | some f => flagsStr f Gen.flagsMax

/-! ## paths -/

/-- `pathjoin(buf, bufsiz, dirname, filename)`. -/
def pathjoin (bufsiz : Nat) (dir file : Bytes) : Option Bytes :=
  let r := dir ++ [47] ++ file
  if r.length ≥ bufsiz then none else some r

/-- `strlcpy(dst, src, siz) >= siz` as an option. -/
def strlcpyFits (siz : Nat) (src : Bytes) : Option Bytes :=
  if src.length ≥ siz then none else some src

/-- Number of '/' in the path. -/
def countSlash (s : Bytes) : Nat := (s.filter (· == 47)).length

/-- State of the copy loop of `pathslice`. -/
structure SliceSt where
  p : Bytes          -- remaining input (`p`)
  out : Bytes        -- bytes written to `buf`
  room : Nat         -- `bufsiz` left
  isabs : Bool
deriving Repr

/-- Copy the remainder of one component (`for (p++; *p != '/' && *p != '\0'; p++)`). -/
def sliceComp (docopy : Bool) : Bytes → Bytes → Nat → Option (Bytes × Bytes × Nat)
  | [], out, room => some ([], out, room)
  | c :: r, out, room =>
    if c == 47 then some (c :: r, out, room)
    else if !docopy then sliceComp docopy r out room
    else if room == 0 then none
    else sliceComp docopy r (out ++ [c]) (room - 1)

/-- The `for (i = 0; i < ncomps; i++)` loop. -/
def sliceLoop (isrange : Bool) (beg end_ : Int) : Nat → Nat → SliceSt → Option SliceSt
  | 0, _, st => some st
  | n + 1, i, st =>
    match st.p with
    | [] => some st                                   -- `*p == '\0'`: break
    | c :: r =>
      let docopy := decide (beg ≤ (i : Int)) && decide ((i : Int) ≤ end_)
      let st1 : Option SliceSt :=
        if docopy then
          if st.room == 0 then none
          else if st.isabs && isrange then some { st with out := st.out ++ [47], room := st.room - 1 }
          else if !st.isabs then some { st with out := st.out ++ [c], room := st.room - 1 }
          else some st
        else some st
      match st1 with
      | none => none
      | some st1 =>
        match sliceComp docopy r st1.out st1.room with
        | none => none
        | some (p', out', room') =>
          sliceLoop isrange beg end_ n (i + 1) { p := p', out := out', room := room', isabs := true }

/-- `pathslice(path, buf, bufsiz, beg, end)`. -/
def pathslice (path : Bytes) (bufsiz : Nat) (beg end_ : Int) : Option Bytes :=
  let isabs := match path with | 47 :: _ => true | _ => false
  let ncomps : Int := (if isabs then 0 else 1) + (countSlash path : Int)
  let isrange := !(end_ - beg == 0)
  let r : Int := if isrange then 1 else 0
  let end1 := if end_ < 0 then ncomps + end_ - r else end_
  let beg1 := if beg < 0 then ncomps + beg - r else beg
  if beg1 < 0 || beg1 > end1 || end1 < 0 || end1 ≥ ncomps then none
  else
    match sliceLoop isrange beg1 end1 ncomps.toNat 0 { p := path, out := [], room := bufsiz, isabs := isabs } with
    | none => none
    | some st => if st.room == 0 then none else some st.out

/-- `parsesubdir(path, &subdir)` with `NAME_MAX + 1 = 256`. -/
def parseSubdir (path : Bytes) : Option Subdir :=
  match pathslice path 256 (-1) (-1) with
  | none => none
  | some b =>
    if b == [110, 101, 119] then some .new
    else if b == [99, 117, 114] then some .cur
    else none

end Mdsort.Model
