import Mdsort.Bytes
import Mdsort.Gen.Tables

/-!
# Model of decode.c

Transcription of `b64_pton`, `base64_decode`, `htoa`,
`quoted_printable_decode_buffer`, `quoted_printable_decode`, `rfc2047_decode`.
Pointers into the NUL-terminated input are the remaining suffix (`List UInt8`),
`*p == '\0'` is the empty suffix; the libks buffer is the list of bytes appended
so far.  Same order of tests as the C code.
-/

namespace Mdsort.Model
open Mdsort

/-! ## b64_pton -/

/-- `strchr(Base64, ch) - Base64` -/
def b64idx (c : UInt8) : Option UInt8 :=
  match Gen.base64Alphabet.idxOf? c with
  | some i => some i.toUInt8
  | none => none

/-- Decoder state: `state`, the bytes `target[0, tarindex)`, and `target[tarindex]`. -/
structure B64St where
  state : Nat
  out : Bytes
  pend : UInt8
deriving Repr, DecidableEq

def B64St.init : B64St := { state := 0, out := [], pend := 0 }

/-- One alphabet character with index `v` (the `switch (state)`), target size `n`. -/
def b64step (n : Nat) (st : B64St) (v : UInt8) : Option B64St :=
  let tarindex := st.out.length
  match st.state with
  | 0 =>
    if tarindex ≥ n then none
    else some { state := 1, out := st.out, pend := v <<< 2 }
  | 1 =>
    if tarindex ≥ n then none
    else
      let b := st.pend ||| (v >>> 4)
      let nextbyte := (v &&& 0x0f) <<< 4
      if tarindex + 1 < n then some { state := 2, out := st.out ++ [b], pend := nextbyte }
      else if nextbyte != 0 then none
      else some { state := 2, out := st.out ++ [b], pend := nextbyte }
  | 2 =>
    if tarindex ≥ n then none
    else
      let b := st.pend ||| (v >>> 2)
      let nextbyte := (v &&& 0x03) <<< 6
      if tarindex + 1 < n then some { state := 3, out := st.out ++ [b], pend := nextbyte }
      else if nextbyte != 0 then none
      else some { state := 3, out := st.out ++ [b], pend := nextbyte }
  | _ =>
    if tarindex ≥ n then none
    else some { state := 0, out := st.out ++ [st.pend ||| v], pend := 0 }

/-- Outcome of the main `while` loop. -/
inductive B64P1 where
  | err
  | eos (st : B64St)                -- reached the terminating NUL
  | pad (st : B64St) (rest : Bytes) -- saw Pad64; `rest` follows it
deriving Repr, DecidableEq

def b64loop (n : Nat) : Bytes → B64St → B64P1
  | [], st => .eos st
  | c :: r, st =>
    if isspace c then b64loop n r st
    else if c == Gen.pad64 then .pad st r
    else match b64idx c with
      | none => .err
      | some v =>
        match b64step n st v with
        | none => .err
        | some st' => b64loop n r st'

/-- The tail after the pad character(s): only white space may follow, and the
bits that slopped past the last full byte must be zero. -/
def b64tail (n : Nat) (st : B64St) (r : Bytes) : Option Bytes :=
  if r.all isspace then
    if st.out.length < n && st.pend != 0 then none else some st.out
  else none

/-- `b64_pton(src, target, targsize)` with a non-NULL target: `some bytes` for a
return value `bytes.length`, `none` for `-1`. -/
def b64pton (src : Bytes) (n : Nat) : Option Bytes :=
  match b64loop n src B64St.init with
  | .err => none
  | .eos st => if st.state != 0 then none else some st.out
  | .pad st r =>
    match st.state with
    | 0 => none
    | 1 => none
    | 2 =>
      -- skip any number of spaces, then require another pad
      match r.dropWhile isspace with
      | c :: r' => if c == Gen.pad64 then b64tail n st r' else none
      | [] => none
    | _ => b64tail n st r

/-- `base64_decode(str)`: the raw decoded bytes (`dec[0, n)`), `none` for NULL. -/
def base64DecodeRaw (s : Bytes) : Option Bytes := b64pton s (s.length + 1)

/-- What the caller of `base64_decode` sees (a C string). -/
def base64Decode (s : Bytes) : Option Bytes := (base64DecodeRaw s).map cstr

/-! ## quoted-printable -/

def htoa (c : UInt8) : Option UInt8 :=
  if 65 ≤ c && c ≤ 70 then some (10 + (c - 65))
  else if 48 ≤ c && c ≤ 57 then some (c - 48)
  else none

/-- `quoted_printable_decode_buffer(bf, str, len, dospace)`: `s` is `str[i, len)`,
`out` the buffer contents. -/
def qpLoop (dospace : Bool) (s : Bytes) (out : Bytes) : Bytes :=
  match s with
  | [] => out
  | c :: r =>
    if c == 95 && dospace then qpLoop dospace r (out ++ [32])
    else if c != 61 then qpLoop dospace r (out ++ [c])
    else match r with
      | [] => out ++ [c]                            -- `i + 1 == len`: copy as is, break
      | d :: r' =>
        if d == 10 then qpLoop dospace r' out       -- soft line break
        else match r' with
          | [] => qpLoop dospace [d] (out ++ [61])  -- too few characters
          | l :: r'' =>
            match htoa d, htoa l with
            | some hi, some lo => qpLoop dospace r'' (out ++ [(hi <<< 4) ||| lo])
            | _, _ => qpLoop dospace (d :: l :: r'') (out ++ [61])
termination_by s.length

/-- `quoted_printable_decode(str)`: raw buffer (before the C-string view). -/
def qpDecodeRaw (s : Bytes) : Bytes := qpLoop false s []
def qpDecode (s : Bytes) : Bytes := cstr (qpDecodeRaw s)

/-! ## rfc2047_decode -/

/-- One encoded word starting right after `"=?"`: returns the bytes to append
and the suffix after `"?="`, or `none` for `goto err`. -/
def rfc2047Word (es : Bytes) : Option (Bytes × Bytes) :=
  match strchr es 63 with              -- es = strchr(es, '?')
  | none => none
  | some q =>
    match q.drop 1 with                -- es += 1
    | [] => none                       -- *es == '\0'
    | enc :: es2 =>                    -- enc = *es; es += 1
      match es2 with
      | 63 :: es3 =>                   -- *es == '?'; es += 1
        match findSub [63, 61] es3 with   -- ee = strstr(es, "?=")
        | none => none
        | some len =>
          let text := es3.take len
          let rest := es3.drop (len + 2)
          match toupper enc with
          | 66 =>                       -- 'B'
            match base64Decode text with
            | none => none
            | some dst => some (dst, rest)   -- buffer_printf("%s", dst)
          | 81 => some (qpLoop true text [], rest)   -- 'Q'
          | _ => none
      | _ => none

/-- Spaces between encoded words are ignored: if the first `"=?"` in `es` is
preceded by white space only, skip that white space. -/
def rfc2047SkipSpace (es : Bytes) : Bytes :=
  match findSub [61, 63] es with
  | none => es
  | some k => if (es.takeWhile isspace).length == k then es.drop k else es

theorem strchr_length_le {s q : Bytes} {c : UInt8} (h : strchr s c = some q) :
    q.length ≤ s.length := by
  induction s with
  | nil => simp [strchr] at h
  | cons x r ih =>
    unfold strchr at h
    split at h
    · cases h; simp
    · have := ih h; simp; omega

theorem rfc2047Word_rest_lt {es out rest : Bytes} (h : rfc2047Word es = some (out, rest)) :
    rest.length ≤ es.length := by
  unfold rfc2047Word at h
  split at h
  · contradiction
  · rename_i q hq
    have hq' := strchr_length_le hq
    split at h
    · contradiction
    · rename_i enc es2 hes2
      have h2 : es2.length < q.length := by
        have : (q.drop 1).length = (enc :: es2).length := by rw [hes2]
        simp at this; omega
      split at h
      · rename_i es3
        split at h
        · contradiction
        · rename_i len hl
          have hrest : (es3.drop (len + 2)).length ≤ es3.length := by simp
          have h3 : es3.length < (63 :: es3).length := by simp
          simp only at h
          split at h
          · split at h
            · contradiction
            · cases h; omega
          · cases h; omega
          · contradiction
      · contradiction

theorem rfc2047SkipSpace_le (es : Bytes) : (rfc2047SkipSpace es).length ≤ es.length := by
  unfold rfc2047SkipSpace
  split
  · exact Nat.le_refl _
  · split <;> simp

/-- The main loop of `rfc2047_decode`; `none` = `goto err`. -/
def rfc2047Loop (es : Bytes) (out : Bytes) : Option Bytes :=
  match es with
  | [] => some out
  | 61 :: 63 :: es' =>
    match h : rfc2047Word es' with
    | none => none
    | some (w, rest) =>
      have : rest.length ≤ es'.length := rfc2047Word_rest_lt h
      have := rfc2047SkipSpace_le rest
      rfc2047Loop (rfc2047SkipSpace rest) (out ++ w)
  | c :: r => rfc2047Loop r (out ++ [c])
termination_by es.length
decreasing_by all_goals (simp_wf; try omega)

/-- `rfc2047_decode(str)`: raw buffer; on error the input itself. -/
def rfc2047DecodeRaw (s : Bytes) : Bytes :=
  match rfc2047Loop s [] with
  | some out => out
  | none => s

def rfc2047Decode (s : Bytes) : Bytes := cstr (rfc2047DecodeRaw s)

end Mdsort.Model
