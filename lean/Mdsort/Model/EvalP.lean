import Mdsort.Model.Scripts

/-!
# Evaluation inside the world model: the conditions that make system calls

Three conditions of expr.c ask the operating system while the rules are being evaluated, in
evaluation order, only when they are reached (short-circuit), possibly several times per message:

* `command "prog" ...`  -> `expr_eval_command` -> util.c `exec(argv, -1)` = `open("/dev/null")`, `fork`,
  `waitpid`, `close`;
* `isdirectory "path"`  -> `expr_eval_stat` -> `stat(path)` after interpolation (a failing `stat` is "no match");
* `date modified|created|access` -> `expr_eval_date` -> `stat(message path)` (a failing `stat` is an error).

`Model.eval` (Model/Eval.lean) gives these conditions pure oracles keyed by their argument, which is what the
documented semantics quantifies over (C03) - but two identical requests of ONE evaluation can be answered
differently by the world (a fault hits the second `fork`; a directory is removed in between), so the world
model needs an evaluator whose questions are asked one after the other.  This file has

* `Ask`: a computation that asks the operating system questions (`Req`) and continues with the answers (`SysAns`);
* `evalT`: `expr_eval` as such a computation.  The composite nodes and the three asking conditions are transcribed
  from expr.c again; every node that asks nothing is `Model.eval` itself (delegated, same code);
* `Ask.run`: the pure reading - the k-th question gets the k-th answer of a list supplied in advance (`evalR`);
* `sysCall`: the calls one question issues (`execP none` = util.c `exec(argv, -1)`, or `stat`) and its answer;
  `Ask.toProg`: the computation as a program over calls, `evalP` = `evalT` as a program.

Proofs/EvalPReplay.lean: the calls of `evalP` are exactly the questions of the pure evaluation `evalR` with the
answers the world gave, in order, and its value is that evaluation's value (`evalP_replay`); and `evalR` IS
`Model.eval` with pure oracles whenever the answers are consistent with such oracles (`evalR_eq_eval`), so the
theorems about `eval` transfer.
-/

namespace Mdsort.Model
open Mdsort

/-! ## what `stat` reports -/

/-- What mdsort reads from a `struct stat`: the directory bit (`isdirectory`) and the three time stamps
(`Model.FileTimes`, the same record the pure evaluator's oracle `Env.fileTime` returns). -/
structure StatInfo where
  isDir : Bool
  times : FileTimes
deriving Repr, DecidableEq

def two64 : Nat := 18446744073709551616

/-- A 64-bit two's complement word as a `time_t`. -/
def wordToInt (n : Nat) : Int :=
  if n % two64 < two64 / 2 then ((n % two64 : Nat) : Int) else ((n % two64 : Nat) : Int) - (two64 : Int)

def intToWord (i : Int) : Nat := (i % (two64 : Int)).toNat

/-- The payload `v` of a successful `stat` (`Res.ok v`): bit 0 = `S_ISDIR`, then `st_atim.tv_sec`, `st_mtim.tv_sec`,
`st_ctim.tv_sec` as 64-bit words (tools/world.py writes the same number). -/
def statDecode (v : Nat) : StatInfo :=
  let r := v / 2
  { isDir := v % 2 == 1,
    times := { atime := wordToInt r, mtime := wordToInt (r / two64), ctime := wordToInt (r / two64 / two64) } }

def statEncode (s : StatInfo) : Nat :=
  (if s.isDir then 1 else 0) +
    2 * (intToWord s.times.atime + two64 * (intToWord s.times.mtime + two64 * intToWord s.times.ctime))

/-- `ts = &st.st_atim | &st.st_mtim | &st.st_ctim` by field, `tim = ts->tv_sec` (as in `Model.eval`). -/
def FileTimes.time (sb : FileTimes) : DateField → Int
  | .access => sb.atime
  | .modified => sb.mtime
  | .created => sb.ctime
  | .header => 0

/-! ## questions and answers -/

/-- One question evaluation asks the operating system. -/
inductive Req where
  | command (argv : List Bytes)                 -- `exec(argv, -1)`
  | isDir (path : Bytes)                        -- `stat(path)`, used for `S_ISDIR`
  | fileTime (path : Bytes) (f : DateField)     -- `stat(message path)`, used for one of the three times
deriving Repr, DecidableEq

inductive SysAns where
  | status (rc : Int)                           -- the value of `exec()`: 0, > 0, < 0
  | stat (si : Option StatInfo)                 -- `none`: `stat` failed
deriving Repr, DecidableEq

/-- `exec()`'s value as read from an answer (an answer of the other kind: failed). -/
def ansStatus : SysAns → Int
  | .status rc => rc
  | _ => -1

def ansStat : SysAns → Option StatInfo
  | .stat si => si
  | _ => none

/-- `stat(path) == 0 && S_ISDIR(st.st_mode)`. -/
def ansIsDir (a : SysAns) : Bool :=
  match ansStat a with
  | some si => si.isDir
  | none => false

/-- What `stat(message path)` reported to a file-time `date` condition: the three time stamps, `none` = -1. -/
def ansTimes (a : SysAns) : Option FileTimes := (ansStat a).map (·.times)

/-- The time of field `f` and its `time_format` (`tf` = `Env.timeFormat`: `localtime` + `strftime`, `none` = NULL);
`none` = `EXPR_ERROR`. -/
def ansFileTime (tf : Int → Option Bytes) (f : DateField) (a : SysAns) : Option (Int × Bytes) :=
  match ansTimes a with
  | some sb => (tf (sb.time f)).map fun s => (sb.time f, s)
  | none => none

/-- A computation that asks questions. -/
inductive Ask (α : Type) where
  | ret (a : α)
  | ask (q : Req) (k : SysAns → Ask α)

def Ask.bind {α β} : Ask α → (α → Ask β) → Ask β
  | .ret a, f => f a
  | .ask q k, f => .ask q (fun a => (k a).bind f)

instance : Monad Ask where
  pure := .ret
  bind := Ask.bind

/-- Ask one question. -/
def ask (q : Req) : Ask SysAns := .ask q .ret

/-! ## `expr_eval` as a computation that asks -/

/-- `expr_eval`: the result and the state.  The three oracle fields `command`, `isDir`, `fileTime` of `env` are not used (the
questions are asked instead); `env.timeFormat` is `time_format`, as for `Model.eval`. -/
def evalT (env : Env) (root : Msg) : Expr → (part : Nat) → Msg → St → Ask (Tri × St)
  | .block _ e, part, m, st =>
    (evalT env root e part m st).bind fun
      | (.error, st1) => .ret (.error, st1)
      | (ev, st1) =>
        if (matchesFind st1.ml .brk).isSome then
          .ret (.nomatch, { st1 with ml := (matchesRemove st1.ml .brk).1 })
        else if (matchesFind st1.ml .pass).isSome then
          let (ml2, n) := matchesRemove st1.ml .pass
          .ret (if n == 0 then .nomatch else .match, { st1 with ml := ml2 })
        else .ret (ev, st1)
  | .and _ l r, part, m, st =>
    (evalT env root l part m st).bind fun
      | (.match, st1) => evalT env root r part m st1
      | other => .ret other
  | .or _ l r, part, m, st =>
    (evalT env root l part m st).bind fun
      | (.nomatch, st1) => evalT env root r part m st1
      | other => .ret other
  | .neg _ e, part, m, st =>
    let n := st.ml.length
    (evalT env root e part m st).bind fun
      | (.error, st1) => .ret (.error, st1)
      | (.nomatch, st1) => .ret (.match, st1)
      | (.match, st1) => .ret (.nomatch, { st1 with ml := st1.ml.take n })
  | .mtch lno c rhs, part, m, st =>
    let (ml, failed) := matchesAppend env st.ml { ty := .mtch, lno := lno, part := part }
    if failed then .ret (.error, { st with ml := ml })
    else
      (evalT env root c part m { st with ml := ml }).bind fun
        | (.match, st1) => evalT env root rhs part m st1
        | other => .ret other
  | .attachment _ e, part, m, st =>
    match getAttachments m with
    | none => .ret (.error, st)
    | some parts =>
      let rec loop (ps : List Msg) (i : Nat) (st : St) : Ask (Tri × St) :=
        match ps with
        | [] => .ret (.nomatch, st)
        | p :: rest =>
          (evalT env root e (if part == 0 then i + 1 else part) p st).bind fun
            | (.nomatch, st1) => loop rest (i + 1) st1
            | other => .ret other
      loop parts 0 st
  | .attBlock _ blk, part, m, st =>
    match getAttachments m with
    | none => .ret (.error, st)
    | some parts =>
      let rec loopB (ps : List Msg) (i : Nat) (ev : Tri) (st : St) : Ask (Tri × St) :=
        match ps with
        | [] => .ret (ev, st)
        | p :: rest =>
          (evalT env root blk (if part == 0 then i + 1 else part) p st).bind fun
            | (.error, st1) => .ret (.error, st1)
            | (.match, st1) => loopB rest (i + 1) .match st1
            | (.nomatch, st1) => loopB rest (i + 1) ev st1
      loopB parts 0 .nomatch st
  | .date lno .header cmp age, part, m, st => .ret (eval env root (.date lno .header cmp age) part m st)
  | .date lno field cmp age, part, _, st =>
    -- `stat(message_get_path(msg))`, then `time_format`
    (ask (.fileTime env.path field)).bind fun a =>
      match ansFileTime env.timeFormat field a with
      | none => .ret (.error, st)
      | some (tim, date) =>
        if !dateMatches cmp age env.now tim then .ret (.nomatch, st)
        else .ret (exprRegexec env .date lno part { src := [46, 42] } (ofString "Date") date st)
  | .stat lno path, part, _, st =>
    let mh : Match := { ty := .stat, lno := lno, part := part, strings := [path] }
    let (ml, failed) := matchesAppend env st.ml mh
    let st' : St := { st with ml := ml.dropLast }
    if failed then .ret (.error, st')
    else
      match strlcpyFits PATH_MAX path with
      | none => .ret (.error, st')
      | some p =>
        match interpolate ml.dropLast none p with
        | none => .ret (.error, st')
        | some ip =>
          match strlcpyFits PATH_MAX ip with
          | none => .ret (.error, st')
          | some ip => (ask (.isDir ip)).bind fun a => .ret (if ansIsDir a then .match else .nomatch, st')
  | .command lno argv, part, _, st =>
    let mh : Match := { ty := .command, lno := lno, part := part, strings := argv }
    let (ml, failed) := matchesAppend env st.ml mh
    let st' : St := { st with ml := ml.dropLast }
    if failed then .ret (.error, st')
    else
      match argv.mapM (interpolate ml.dropLast none) with
      | none => .ret (.error, st')
      | some av =>
        (ask (.command av)).bind fun a =>
          let rc := ansStatus a
          .ret (if rc == 0 then .match else if rc < 0 then .error else .nomatch, st')
  -- every other node asks nothing: `expr_eval` as it is
  | e, part, m, st => .ret (eval env root e part m st)

/-! ## the pure reading: answers supplied in advance -/

/-- Run with the list of answers: question k reads answer k (a missing answer reads as "failed"; `evalP` never
runs short, `Proofs.evalP_replay`).  Returns the value and the questions asked, oldest first. -/
def Ask.run {α} : Ask α → List SysAns → α × List Req
  | .ret a, _ => (a, [])
  | .ask q k, as =>
    let x := (k (as.headD (.status (-1)))).run as.tail
    (x.1, q :: x.2)

/-- The evaluation of the rules `e` on the parsed message `m` (flags `fl`) as a computation. -/
def evalTop (env : Env) (e : Expr) (m : Msg) (fl : MFlags) : Ask (Tri × St) :=
  evalT env m e 0 m { ml := [], flags := fl }

/-- `expr_eval` with positional answers: the result, the state and the questions asked. -/
def evalR (env : Env) (e : Expr) (m : Msg) (fl : MFlags) (as : List SysAns) : (Tri × St) × List Req :=
  (evalTop env e m fl).run as

/-! ## one question as calls -/

/-- What a `stat` call answered. -/
def statAnswer : Res → Option StatInfo
  | .ok v => some (statDecode v)
  | _ => none

/-- The calls of one question and its answer: util.c `exec(argv, -1)` (`execP none`: `open("/dev/null")`, `fork`,
`waitpid`, `close`), or `stat(path)`. -/
def sysCall : Req → Prog SysAns
  | .command av => (execP (av.map cstr) none).bind fun rc => .ret (.status rc)
  | .isDir p => (call (.stat p)).bind fun r => .ret (.stat (statAnswer r))
  | .fileTime p _ => (call (.stat p)).bind fun r => .ret (.stat (statAnswer r))

/-- A computation that asks, as a program over calls. -/
def Ask.toProg {α} : Ask α → Prog α
  | .ret a => .ret a
  | .ask q k => (sysCall q).bind fun a => (k a).toProg

/-- `expr_eval(root rules, message)` in the world model. -/
def evalP (env : Env) (e : Expr) (m : Msg) (fl : MFlags) : Prog (Tri × St) :=
  (evalTop env e m fl).toProg

end Mdsort.Model
