import Mdsort.Bytes
import Mdsort.Gen.Tables

/-!
# Model of time.c and of the date parts of parse.y / expr.c

`tzoff`, `tzparse`, `time_parse` (after the `fix:` commit it uses `timegm` and the
zone of the header only), the age comparison of `expr_eval_date`, the unit table
with its prefix matching in the lexer, and `date_age` with its 32-bit overflow test.

`strptime` and the zone-name lookup (`setenv TZ; tzset; localtime`) are parameters.
`timegm` is modelled: days from the proleptic Gregorian civil date.
-/

namespace Mdsort.Model
open Mdsort

/-- Broken-down time as filled in by `strptime` (the fields `timegm` reads). -/
structure Tm where
  year : Int      -- full year (tm_year + 1900)
  mon : Int       -- 0..11
  mday : Int
  hour : Int
  min : Int
  sec : Int
deriving Repr, DecidableEq

def digitVal (c : UInt8) : Option Nat := if isdigit c then some (c.toNat - 48) else none

/-- `tzoff(str, &tz)`: sign, two digits of hours (≤ 23), two digits of minutes (≤ 59);
whatever follows is ignored.  `none` is the non-zero return. -/
def tzoff (s : Bytes) : Option Int :=
  match s with
  | sg :: h1 :: h2 :: m1 :: m2 :: _ =>
    let sign : Option Int := if sg == 43 then some 1 else if sg == 45 then some (-1) else none
    match sign, digitVal h1, digitVal h2, digitVal m1, digitVal m2 with
    | some sign, some a, some b, some c, some d =>
      let hours := a * 10 + b
      let minutes := c * 10 + d
      if hours > 23 then none
      else if minutes > 59 then none
      else some (sign * ((hours : Int) * 60 * 60 + (minutes : Int) * 60))
    | _, _, _, _, _ => none
  | _ => none

/-- Days from 1970-01-01 to the civil date y-m-d (m in 1..12), proleptic Gregorian.
(Hinnant's `days_from_civil`; the linear part in `d` is what normalises an
out-of-range day of month the way `timegm` does.) -/
def daysFromCivil (y : Int) (m : Int) (d : Int) : Int :=
  let y' := if m ≤ 2 then y - 1 else y
  let era := (if y' ≥ 0 then y' else y' - 399) / 400
  let yoe := y' - era * 400
  let mp := (m + 9) % 12
  let doy := (153 * mp + 2) / 5 + d - 1
  let doe := yoe * 365 + yoe / 4 - yoe / 100 + doy
  era * 146097 + doe - 719468

/-- `timegm(&tm)` for `tm_mon` in 0..11. -/
def timegm (tm : Tm) : Int :=
  daysFromCivil tm.year (tm.mon + 1) tm.mday * 86400 + tm.hour * 3600 + tm.min * 60 + tm.sec

/-- `tzparse`: numeric offset, else the zone-name oracle (`tzabbr`). -/
def tzparse (zoneName : Bytes → Option Int) (s : Bytes) : Option Int :=
  match tzoff s with
  | some z => some z
  | none => if s.isEmpty then none else zoneName s

/-- `time_parse(str, &res, env)`: `strp` is `timeparse` (the three layouts tried in
order), returning the broken-down time and the unparsed rest. -/
def timeParse (strp : Bytes → Option (Tm × Bytes)) (zoneName : Bytes → Option Int) (s : Bytes) : Option Int :=
  match strp s with
  | none => none
  | some (tm, rest) =>
    let tim := timegm tm
    if tim == -1 then none
    else
      match tzparse zoneName (rest.drop (nspaces rest)) with
      | none => none
      | some tz => some (tim - tz)

inductive DateCmp | lt | gt
deriving Repr, DecidableEq

/-- The age test of `expr_eval_date`. -/
def dateMatches (cmp : DateCmp) (age now tim : Int) : Bool :=
  let delta := now - tim
  match cmp with
  | .lt => decide (delta < age)
  | .gt => decide (delta > age)

/-! ## units and ages (parse.y) -/

/-- Outcome of matching a lexeme against the scalar table under `sflag`. -/
inductive ScalarRes where
  | value (v : Nat)
  | ambiguous
  | unknown
deriving Repr, DecidableEq

/-- The loop over `scalars[]`: `strncmp(lexeme, scalars[i].str, len) == 0`. -/
def scalarLookup (lexeme : String) : ScalarRes :=
  let ms := Gen.scalars.filter fun (name, _) => lexeme.toList.isPrefixOf name.toList
  match ms with
  | [] => .unknown
  | [(_, v)] => .value v
  | _ => .ambiguous

/-- `date_age`: `u32_mul_overflow(n, unit)`. -/
def dateAge (n unit : Nat) : Option Nat :=
  if n * unit ≥ 2 ^ 32 then none else some (n * unit)

/-- The integer lexer: decimal digits with the `u32` overflow flag. -/
def lexInt : List Nat → Nat → Option Nat
  | [], acc => some acc
  | d :: r, acc => if acc * 10 + d ≥ 2 ^ 32 then none else lexInt r (acc * 10 + d)

end Mdsort.Model
