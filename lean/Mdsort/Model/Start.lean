import Mdsort.Model.Main

/-!
# mdsort.c between option parsing and `config_parse`: `readenv`, `defaultconf`

The paths every later step is built from - the home directory (`~` expansion, the default configuration), the
temporary directory (stdin spool, `exec stdin body`) and the configuration path itself - are copied into fixed
buffers here.  As everywhere in the model a setter returns `none` exactly when the C code reports that the value does
not fit; to show that the test has to be the one the code uses, `snprintf` is modelled with what it leaves in the
buffer (the truncated bytes) and what it returns (the full length).
-/

namespace Mdsort.Model
open Mdsort

/-- The literal part of the format `"%s/.mdsort.conf"` of `defaultconf` (regenerated from mdsort.c: `Gen.defaultconfSuffix`). -/
def confSuffix : Bytes := Gen.defaultconfSuffix

/-- `snprintf(buf, siz, fmt, ...)` whose format and arguments produce `s`: what the buffer holds afterwards (at most
`siz - 1` bytes, then the NUL) and the return value (the length that was needed). -/
def snprintfInto (siz : Nat) (s : Bytes) : Bytes × Nat := (s.take (siz - 1), s.length)

/-- mdsort.c `defaultconf(home)` with the size test left open: `snprintf(path, siz, "%s/.mdsort.conf", home)`,
`if (reject n siz) errc(1, ENAMETOOLONG, ...)`, `return path`.  `none` = the process exits with status 1. -/
def defaultconfWith (reject : Nat → Nat → Bool) (siz : Nat) (home : Bytes) : Option Bytes :=
  let r := snprintfInto siz (home ++ confSuffix)
  if reject r.2 siz then none else some r.1

/-- `defaultconf` as in mdsort.c: `if (n < 0 || (size_t)n >= siz)`. -/
def defaultconf (siz : Nat) (home : Bytes) : Option Bytes := defaultconfWith (fun n siz => n ≥ siz) siz home

/-- What `getenv` and `getpwuid` deliver to `readenv`. -/
structure RawEnv where
  home : Option Bytes        -- getenv("HOME")
  pwdir : Option Bytes       -- getpwuid(getuid())->pw_dir; `none`: no entry
  tmpdir : Option Bytes      -- getenv("TMPDIR")
  tz : Option Bytes          -- getenv("TZ")
  pathTmp : Bytes            -- _PATH_TMP of <paths.h>
deriving Repr

/-- Why the run ends with status 1 before the configuration is read. -/
inductive StartErr where
  | noHome | homeTooLong | tmpdirTooLong | tzTooLong | confTooLong
deriving Repr, DecidableEq

/-- `sizeof(env->ev_tz.t_buf)` (extern.h `t_buf[256]`, regenerated: `Gen.tzBufSize`). -/
def TZ_BUF : Nat := Gen.tzBufSize

/-- `env->ev_tz.t_state` as `readenv` sets it: `TZ_STATE_LOCAL` (0) when TZ is unset, `TZ_STATE_UTC` (1) when it is empty,
`TZ_STATE_SET` (2) otherwise. -/
def tzState : Option Bytes → Nat
  | none => 0
  | some [] => 1
  | some (_ :: _) => 2

/-- Where the home directory comes from: `getenv("HOME")`, or the password entry when that is unset or empty. -/
def homeSource (raw : RawEnv) : Option Bytes :=
  match raw.home with
  | some h => if h.isEmpty then raw.pwdir else some h
  | none => raw.pwdir

/-- `getenv("TMPDIR")`, or `_PATH_TMP` when unset or empty. -/
def tmpSource (raw : RawEnv) : Bytes :=
  match raw.tmpdir with
  | some t => if t.isEmpty then raw.pathTmp else t
  | none => raw.pathTmp

/-- mdsort.c `readenv`, the three strings it copies: HOME (or the password entry), TMPDIR (or `_PATH_TMP`), TZ - each
by `strlcpy(dst, p, siz) >= siz` => `errc(1, ENAMETOOLONG, ...)`. -/
def readenv (raw : RawEnv) : Except StartErr (Bytes × Bytes × Option Bytes) :=
  match homeSource raw with
  | none => .error .noHome                                       -- errx(1, "cannot find home directory")
  | some p =>
    match strlcpyFits Gen.evHomeSize p with                    -- sizeof(env->ev_home)
    | none => .error .homeTooLong
    | some home =>
      match strlcpyFits Gen.evTmpdirSize (tmpSource raw) with   -- sizeof(env->ev_tmpdir)
      | none => .error .tmpdirTooLong
      | some tmpdir =>
        match raw.tz with
        | none => .ok (home, tmpdir, none)
        | some z =>
          match strlcpyFits TZ_BUF z with
          | none => .error .tzTooLong
          | some z => .ok (home, tmpdir, some z)

/-- `main` from `readenv(&env)` to the argument of `config_parse`: home, tmpdir and the configuration path (`-f file`
or the default). -/
def startPaths (raw : RawEnv) (fOpt : Option Bytes) : Except StartErr (Bytes × Bytes × Bytes) :=
  match readenv raw with
  | .error e => .error e
  | .ok (home, tmpdir, _) =>
    match fOpt with
    | some f => .ok (home, tmpdir, f)
    | none =>
      match defaultconf Gen.defaultconfSize home with           -- sizeof(path)
      | none => .error .confTooLong
      | some c => .ok (home, tmpdir, c)

/-- The whole run from the raw environment: an over-long HOME / TMPDIR / TZ / default configuration path ends it with
status 1 before any file is touched (`errc(1, ...)`); otherwise `mainP` with the paths just computed. -/
def mainFromEnv (raw : RawEnv) (fOpt : Option Bytes) (env : PEnv) (orc : EvalOracles) (confOk : Bool) (conf : List ConfBlock)
    (files : Files) (input : Bytes) : Prog (Nat × MainSt) :=
  match startPaths raw fOpt with
  | .error _ => .ret (1, { files := files, error := true, reject := false, log := [] })
  | .ok (home, tmpdir, confpath) => mainP { env with home := home, tmpdir := tmpdir, confpath := confpath } orc confOk conf files input

end Mdsort.Model
