import Mdsort.Bytes
import Mdsort.Gen.Tables
import Mdsort.Model.Lex
import Mdsort.Model.Eval
import Mdsort.Model.Limits

/-!
# Model of the configuration parser (parse.y: grammar, semantic actions, macro.c)

`parseConfig home defs rxOk input` transcribes `config_parse`: the LALR(1) parser bison generates
from the grammar of parse.y, driven over `lex1` (Model/Lex.lean), with the semantic actions that
count diagnostics.  It is a hand-written recursive-descent parser that reads its lookahead token at
exactly the grammar positions where the generated automaton does: bison reduces by *default
reduction* without reading a lookahead in every state whose only action is one reduction (checked
against `parse.output`: states 1, 5, 7, 8, 10-12, 15, 17, 18, 20, 21, 23-25, 27, 32, 33, 37-39,
41-45, 47-49, 53, 54, 56-58, 60-63, 66-68, 73-77, 79, 81, 82, 84-87, 89-95), so

* the lexer modes `pflag` / `sflag` are switched by the mid-rule actions before the PATTERN / SCALAR
  token is read;
* `lineno` (recorded in every `struct expr` as `ex_lno`) is the line the lexer has reached when the
  node is allocated, which is after the lookahead token only in the states that need one;
* `yyerror` reports `yylval.lineno`, the line on which the most recently read token starts.

The result is the first diagnostic (its line), or the list of configuration blocks.  Error
*recovery* (`yyrecover`, bison's `error` token) is not modelled: after the first diagnostic only
"non-zero" matters.  Not modelled either: bison's parser stack limit (`YYMAXDEPTH` = 10000 states;
deeper nesting is rejected with "memory exhausted").

The tree is `CTree`: `Model.Expr` for the leaves, plus the inner nodes, plus the one tree `Expr`
cannot express - a block with no rule (`ex_lhs == NULL`), which the parser accepts as the body of an
`attachment { }` action.
-/

namespace Mdsort.Model
open Mdsort

/-! ## The tree the parser builds -/

/-- `struct expr` as built by the parser.  Conditions and actions without sub-expressions are
`leaf`s holding the corresponding `Expr` constructor. -/
inductive CTree where
  | leaf (e : Expr)
  | block (lno : Nat) (body : CTree)
  | emptyBlock (lno : Nat)
  | and (lno : Nat) (l r : CTree)
  | or (lno : Nat) (l r : CTree)
  | neg (lno : Nat) (e : CTree)
  | mtch (lno : Nat) (cond rhs : CTree)
  | attachment (lno : Nat) (e : CTree)
  | attBlock (lno : Nat) (blk : CTree)
deriving Repr

/-- `ex_lno` of an `Expr` node. -/
def Expr.lno : Expr → Nat
  | .block l _ | .and l _ _ | .or l _ _ | .neg l _ | .mtch l _ _ | .all l | .attachment l _ | .body l _
  | .date l _ _ _ | .header l _ _ | .new l | .old l | .stat l _ | .command l _ | .move l _ | .flag l _
  | .flags l _ | .discard l | .brk l | .label l _ | .pass l | .reject l | .exec l _ _ _ | .attBlock l _
  | .addHeader l _ _ => l

def CTree.lno : CTree → Nat
  | .leaf e => e.lno
  | .block l _ | .emptyBlock l | .and l _ _ | .or l _ _ | .neg l _ | .mtch l _ _ | .attachment l _ | .attBlock l _ => l

/-- `EXPR_FLAG_ACTION` of a leaf (expr_alloc). -/
def Expr.leafAction : Expr → Bool
  | .move .. | .flag .. | .flags .. | .discard _ | .brk _ | .label .. | .pass _ | .reject _ | .exec ..
  | .addHeader .. => true
  | _ => false

def Expr.isDiscard : Expr → Bool | .discard _ => true | _ => false
def Expr.isReject : Expr → Bool | .reject _ => true | _ => false
def Expr.isExec : Expr → Bool | .exec .. => true | _ => false

/-- `expr_count_actions`: the nodes carrying `EXPR_FLAG_ACTION`, in the whole tree (an attachment
block counts itself and the actions inside it). -/
def CTree.countActions : CTree → Nat
  | .leaf e => if e.leafAction then 1 else 0
  | .block _ b => b.countActions
  | .emptyBlock _ => 0
  | .and _ l r | .or _ l r | .mtch _ l r => l.countActions + r.countActions
  | .neg _ e | .attachment _ e => e.countActions
  | .attBlock _ b => 1 + b.countActions

/-- `expr_count(ex, type)` for a leaf type. -/
def CTree.countLeaf (p : Expr → Bool) : CTree → Nat
  | .leaf e => if p e then 1 else 0
  | .block _ b => b.countLeaf p
  | .emptyBlock _ => 0
  | .and _ l r | .or _ l r | .mtch _ l r => l.countLeaf p + r.countLeaf p
  | .neg _ e | .attachment _ e | .attBlock _ e => e.countLeaf p

/-- The tree as an `Expr`, when it has no empty block. -/
def CTree.toExpr : CTree → Option Expr
  | .leaf e => some e
  | .block l b => b.toExpr.map (.block l)
  | .emptyBlock _ => none
  | .and l a b => match a.toExpr, b.toExpr with | some a, some b => some (.and l a b) | _, _ => none
  | .or l a b => match a.toExpr, b.toExpr with | some a, some b => some (.or l a b) | _, _ => none
  | .mtch l a b => match a.toExpr, b.toExpr with | some a, some b => some (.mtch l a b) | _, _ => none
  | .neg l e => e.toExpr.map (.neg l)
  | .attachment l e => e.toExpr.map (.attachment l)
  | .attBlock l e => e.toExpr.map (.attBlock l)

/-- An `Expr` as the parser's tree. -/
def CTree.ofExpr : Expr → CTree
  | .block l e => .block l (ofExpr e)
  | .and l a b => .and l (ofExpr a) (ofExpr b)
  | .or l a b => .or l (ofExpr a) (ofExpr b)
  | .neg l e => .neg l (ofExpr e)
  | .mtch l a b => .mtch l (ofExpr a) (ofExpr b)
  | .attachment l e => .attachment l (ofExpr e)
  | .attBlock l e => .attBlock l (ofExpr e)
  | e => .leaf e

/-- One `struct config`: the maildir paths and the rules. -/
structure PBlock where
  paths : List Bytes
  tree : CTree
deriving Repr

/-! ## Tokens as the grammar sees them -/

inductive Kw where
  | access | addheader | all | and | attachment | body | brk | command | created | date | discard | exec
  | flag | flags | header | isdirectory | label | maildir | mtch | modified | move | new | old | or | pass
  | reject | stdin
deriving Repr, DecidableEq

/-- Token name (second column of `Gen.keywords`) to grammar terminal. -/
def Kw.ofName (n : String) : Option Kw :=
  if n == "ACCESS" then some .access else if n == "ADDHEADER" then some .addheader
  else if n == "ALL" then some .all else if n == "AND" then some .and
  else if n == "ATTACHMENT" then some .attachment else if n == "BODY" then some .body
  else if n == "BREAK" then some .brk else if n == "COMMAND" then some .command
  else if n == "CREATED" then some .created else if n == "DATE" then some .date
  else if n == "DISCARD" then some .discard else if n == "EXEC" then some .exec
  else if n == "FLAG" then some .flag else if n == "FLAGS" then some .flags
  else if n == "HEADER" then some .header else if n == "ISDIRECTORY" then some .isdirectory
  else if n == "LABEL" then some .label else if n == "MAILDIR" then some .maildir
  else if n == "MATCH" then some .mtch else if n == "MODIFIED" then some .modified
  else if n == "MOVE" then some .move else if n == "NEW" then some .new
  else if n == "OLD" then some .old else if n == "OR" then some .or
  else if n == "PASS" then some .pass else if n == "REJECT" then some .reject
  else if n == "STDIN" then some .stdin else none

/-- Terminal symbols of the grammar. -/
inductive Tk where
  | eof | neg
  | str (s : Bytes)
  | pat (p : Pat)
  | int (n : Nat)
  | scalar (v : Option Nat)
  | macro (name : Bytes)
  | kw (k : Kw)
  | lbrace | rbrace | lparen | rparen | lt | gt | eq
  | other (c : UInt8)                   -- a character (or unknown keyword name) no rule mentions
deriving Repr, DecidableEq

def Tk.ofToken : Token → Tk
  | .eof => .eof
  | .neg => .neg
  | .str s => .str s
  | .pattern src i l u => .pat { src := src, icase := i, lcase := l, ucase := u }
  | .int n => .int n
  | .scalar v => .scalar v
  | .macro n => .macro n
  | .keyword k => match Kw.ofName k with | some k => .kw k | none => .other 0
  | .char c =>
    if c == 123 then .lbrace else if c == 125 then .rbrace else if c == 40 then .lparen
    else if c == 41 then .rparen else if c == 60 then .lt else if c == 62 then .gt
    else if c == 61 then .eq else .other c

/-! ## Macros (macro.c) -/

/-- `struct macro`. -/
structure Macro where
  name : Bytes
  value : Bytes
  refs : Nat := 0
  defs : Nat := 0
  lno : Nat := 0
  sticky : Bool := false
deriving Repr, DecidableEq

/-- `macro_context(name) == MACRO_CTX_ACTION`: only `path`. -/
def isPathMacro (name : Bytes) : Bool := name == [112, 97, 116, 104]

/-- `macros_insert` for the macro list of a configuration (`ml_ctx = MACRO_CTX_DEFAULT`).
`none`: `MACRO_ERR_CTX` or `MACRO_ERR_EXIST`; a definition shadowed by a `-D` definition
(`MACRO_ERR_STICKY`) is dropped silently, once. -/
def macrosInsert (ms : List Macro) (name value : Bytes) (lno : Nat) (sticky : Bool) : Option (List Macro) :=
  if isPathMacro name then none
  else if ms.any (fun m => m.name == name) then
    if ms.any (fun m => m.name == name && m.sticky && !sticky && m.defs == 0) then
      some (ms.map fun m => if m.name == name then { m with defs := m.defs + 1 } else m)
    else none
  else some (ms ++ [{ name := name, value := value, refs := 0, defs := 0, lno := lno, sticky := sticky }])

/-- The macros given with `-D name=value`, inserted before the file is read (mdsort.c). -/
def macrosOfDefs : List (Bytes × Bytes) → List Macro → Option (List Macro)
  | [], ms => some ms
  | (n, v) :: r, ms =>
    match macrosInsert ms n v 0 true with
    | some ms' => macrosOfDefs r ms'
    | none => none

/-- `macros_find` + `macro_ref`: the value and the table with the reference counted. -/
def macrosUse (ms : List Macro) (name : Bytes) : Option (Bytes × List Macro) :=
  match ms.find? (fun m => m.name == name) with
  | none => none
  | some m => some (m.value, ms.map fun x => if x.name == name then { x with refs := x.refs + 1 } else x)

/-- `ismacro`: `none` - no macro here; `some none` - `${` without `}`; `some (some (name, n))` -
a macro reference of `n` bytes. -/
def ismacro (s : Bytes) : Option (Option (Bytes × Nat)) :=
  match s with
  | 36 :: 123 :: r =>
    let name := r.takeWhile (fun c => c != 125)
    if name.length < r.length then some (some (name, name.length + 3)) else some none
  | _ => none

/-- `expandmacros(str, macros, curctx)`; `action`: `curctx == MACRO_CTX_ACTION`.  `none`: a
diagnostic (unterminated macro, macro used in wrong context, unknown macro). -/
def expandMacros (action : Bool) : Nat → Bytes → List Macro → Bytes → Option (Bytes × List Macro)
  | 0, _, ms, acc => some (acc, ms)
  | fuel + 1, s, ms, acc =>
    match s with
    | [] => some (acc, ms)
    | c :: r =>
      match ismacro s with
      | none => expandMacros action fuel r ms (acc ++ [c])
      | some none => none
      | some (some (name, n)) =>
        if isPathMacro name then
          if action then expandMacros action fuel r ms (acc ++ [c])     -- expansion delayed until the action runs
          else none
        else
          match macrosUse ms name with
          | none => none
          | some (v, ms') => expandMacros action fuel (s.drop n) ms' (acc ++ v)

/-- `expandtilde`: `none` is "path too long" (`Model.expandTildeL`, the size of the buffer being a parameter). -/
def expandTilde (home str : Bytes) : Option Bytes := expandTildeL (.fin PATH_MAX) home str

/-- `expand(str, curctx)`. -/
def expandStr (l : Lim) (home : Bytes) (action : Bool) (ms : List Macro) (str : Bytes) : Option (Bytes × List Macro) :=
  match expandTildeL l home str with
  | none => none
  | some s => expandMacros action (s.length + 1) s ms []

/-- `expandstrings`. -/
def expandStrs (l : Lim) (home : Bytes) (action : Bool) : List Macro → List Bytes → Option (List Bytes × List Macro)
  | ms, [] => some ([], ms)
  | ms, s :: r =>
    match expandStr l home action ms s with
    | none => none
    | some (s', ms') =>
      match expandStrs l home action ms' r with
      | none => none
      | some (r', ms'') => some (s' :: r', ms'')

/-- `isstdin`. -/
def isStdinStr (p : Bytes) : Bool := p == [47, 100, 101, 118, 47, 115, 116, 100, 105, 110]
def stdinStr : Bytes := [47, 100, 101, 118, 47, 115, 116, 100, 105, 110]

/-! ## Lines -/

def countNl (s : Bytes) : Nat := s.count 10

/-- `lineno` when the lexer has `rest` left to read, in a file with `nl` newlines. -/
def lineOf (nl : Nat) (rest : Bytes) : Nat := 1 + nl - countNl rest

/-- White space and comments before a token (the `again:` loop of `yylex1`). -/
def skipBlank : Nat → Bytes → Bytes
  | 0, s => s
  | fuel + 1, s =>
    match s.dropWhile isspace with
    | 35 :: r =>
      match r.dropWhile (fun c => c != 10) with
      | [] => []
      | _ :: r2 => skipBlank fuel r2
    | s' => s'

/-- `yylval.lineno` after a call of the lexer on `rest`: the line on which the token starts. -/
def tokLineOf (nl : Nat) (rest : Bytes) : Nat := lineOf nl (skipBlank (rest.length + 1) rest)

/-- The line of the first diagnostic of a lexer call that reports one: "unknown keyword" is reported
on the line the previous call stopped at (`yypushl(lno)`), everything else on the token's line. -/
def lexErrLine (nl : Nat) (afterMacro : Bool) (rest : Bytes) : Nat :=
  if afterMacro && (rest.dropWhile isspace).head? != some 61 then lineOf nl rest else tokLineOf nl rest

/-! ## Parser state and monad -/

structure PCtx where
  nl : Nat                       -- newlines in the file
  home : Bytes                   -- `ev_home`
  rxOk : Pat → Bool              -- `regcomp` succeeds
  pathMax : Lim := .fin PATH_MAX -- the buffer of `expandtilde` (`PATH_MAX`; a parameter for C18)

structure ParseSt where
  rest : Bytes                   -- what the lexer has not read yet
  la : Option Tk := none         -- bison's `yychar` when it holds a token
  tokLine : Nat := 0             -- `yylval.lineno`
  afterMacro : Bool := false     -- `last_token == MACRO`
  macros : List Macro := []      -- `cl_macros`
  nlex : Nat := 0                -- calls of `yylex` so far
deriving Repr

inductive PRes (α : Type) where
  | ok (a : α) (s : ParseSt)
  | err (line : Nat) (s : ParseSt)      -- first diagnostic
  | fuel (s : ParseSt)                  -- recursion budget exhausted (shown unreachable)

def PM (α : Type) := ParseSt → PRes α

@[inline] def PM.pure {α} (a : α) : PM α := fun s => .ok a s
@[inline] def PM.bind {α β} (m : PM α) (f : α → PM β) : PM β := fun s =>
  match m s with
  | .ok a s' => f a s'
  | .err l s' => .err l s'
  | .fuel s' => .fuel s'

instance : Monad PM where
  pure := PM.pure
  bind := PM.bind

/-- `yyerror` with the current `yylval.lineno` (also: bison's "syntax error"). -/
def failTok {α} : PM α := fun s => .err s.tokLine s
def failAt {α} (line : Nat) : PM α := fun s => .err line s
def outOfFuel {α} : PM α := fun s => .fuel s

/-- Make sure the lookahead token is read (lexer modes `pf`, `sf`) and return it. -/
def peek (cx : PCtx) (pf sf : Bool) : PM Tk := fun s =>
  match s.la with
  | some t => .ok t s
  | none =>
    let r := lex1 pf sf s.afterMacro s.rest
    let t := Tk.ofToken r.tok
    let s' : ParseSt := { s with rest := r.rest, la := some t, tokLine := tokLineOf cx.nl s.rest,
                                 afterMacro := (match r.tok with | .macro _ => true | _ => false), nlex := s.nlex + 1 }
    if r.errors > 0 then .err (lexErrLine cx.nl s.afterMacro s.rest) s' else .ok t s'

/-- Shift the lookahead token.  (End of input is never shifted.) -/
def shift : PM Unit := fun s =>
  match s.la with
  | some .eof => .ok () s
  | _ => .ok () { s with la := none }

/-- `lineno`. -/
def curLine (cx : PCtx) : PM Nat := fun s => .ok (lineOf cx.nl s.rest) s

def getMacros : PM (List Macro) := fun s => .ok s.macros s
def setMacros (ms : List Macro) : PM Unit := fun s => .ok () { s with macros := ms }

/-- `expand(str, ctx)` in a semantic action: a diagnostic is reported on `yylval.lineno`. -/
def expandOne (cx : PCtx) (action : Bool) (str : Bytes) : PM Bytes := fun s =>
  match expandStr cx.pathMax cx.home action s.macros str with
  | none => .err s.tokLine s
  | some (v, ms) => .ok v { s with macros := ms }

/-- `expandmacros(str, macros, ctx)` alone in a semantic action, without tilde expansion: the strings of add-header and
flags (/repo commit 441105a). -/
def expandMac (action : Bool) (str : Bytes) : PM Bytes := fun s =>
  match expandMacros action (str.length + 1) str s.macros [] with
  | none => .err s.tokLine s
  | some (v, ms) => .ok v { s with macros := ms }

def expandAll (cx : PCtx) (action : Bool) (strs : List Bytes) : PM (List Bytes) := fun s =>
  match expandStrs cx.pathMax cx.home action s.macros strs with
  | none => .err s.tokLine s
  | some (v, ms) => .ok v { s with macros := ms }

/-! ## The grammar -/

/-- The next token must be `tk` (never end of input); shift it. -/
def expectTk (cx : PCtx) (tk : Tk) : PM Unit := do
  let t ← peek cx false false
  if t = tk then shift else failTok

/-- `STRING`. -/
def parseStr (cx : PCtx) : PM Bytes := do
  let t ← peek cx false false
  match t with
  | .str s => do shift; pure s
  | _ => failTok

/-- `stringblock` after `{`. -/
def parseStringBlock (cx : PCtx) : Nat → List Bytes → PM (List Bytes)
  | 0, _ => outOfFuel
  | fuel + 1, acc => do
    let t ← peek cx false false
    match t with
    | .str s => do shift; parseStringBlock cx fuel (acc ++ [s])
    | .rbrace => do shift; pure acc
    | _ => failTok

/-- `strings`. -/
def parseStrings (cx : PCtx) (fuel : Nat) : PM (List Bytes) := do
  let t ← peek cx false false
  match t with
  | .str s => do shift; pure [s]
  | .lbrace => do shift; parseStringBlock cx fuel []
  | _ => failTok

/-- `pattern`: the mid-rule action sets `pflag` before the token is read. -/
def parsePattern (cx : PCtx) : PM Pat := do
  let t ← peek cx true false
  match t with
  | .pat p => do shift; pure p
  | _ => failTok

/-- `expr_set_pattern` fails: "invalid pattern". -/
def checkPattern (cx : PCtx) (p : Pat) : PM Unit :=
  if cx.rxOk p then pure () else failTok

/-- `date_field` (state 29: anything but a field keyword reduces the empty rule). -/
def parseDateField (cx : PCtx) : PM DateField := do
  let t ← peek cx false false
  match t with
  | .kw .access => do shift; pure DateField.access
  | .kw .created => do shift; pure DateField.created
  | .kw .header => do shift; pure DateField.header
  | .kw .modified => do shift; pure DateField.modified
  | _ => pure DateField.header

def parseDateCmp (cx : PCtx) : PM DateCmp := do
  let t ← peek cx false false
  match t with
  | .lt => do shift; pure DateCmp.lt
  | .gt => do shift; pure DateCmp.gt
  | _ => failTok

def parseInt (cx : PCtx) : PM Nat := do
  let t ← peek cx false false
  match t with
  | .int n => do shift; pure n
  | _ => failTok

/-- `scalar`: the mid-rule action sets `sflag` before the token is read. -/
def parseScalar (cx : PCtx) : PM Nat := do
  let t ← peek cx false true
  match t with
  | .scalar (some v) => do shift; pure v
  | _ => failTok

/-- `DATE date_field date_cmp date_age` after `DATE`. -/
def parseDate (cx : PCtx) : PM CTree := do
  let field ← parseDateField cx
  let cmp ← parseDateCmp cx
  let n ← parseInt cx
  let v ← parseScalar cx
  if n * v ≥ 2 ^ 32 then failTok        -- `u32_mul_overflow`: "integer too large"
  else do
    let l ← curLine cx
    pure (.leaf (.date l field cmp (n * v)))

/-- `exec_flags`: `(stdin, body)`; a repeated option is a diagnostic. -/
def parseExecFlags (cx : PCtx) : Nat → Bool → Bool → PM (Bool × Bool)
  | 0, _, _ => outOfFuel
  | fuel + 1, si, bo => do
    let t ← peek cx false false
    match t with
    | .kw .stdin => do shift; if si then failTok else parseExecFlags cx fuel true bo
    | .kw .body => do shift; if bo then failTok else parseExecFlags cx fuel si true
    | _ => pure (si, bo)

/-- `optneg`. -/
def parseOptNeg (cx : PCtx) : PM Bool := do
  let t ← peek cx false false
  match t with
  | .neg => do shift; pure true
  | _ => pure false

/-- `expr_validate` for a non-empty action list. -/
def validateActions (a : CTree) : PM Unit :=
  if a.countActions > 1 && (a.countLeaf Expr.isDiscard > 0 || a.countLeaf Expr.isReject > 0) then failAt a.lno
  else pure ()

/-- `expractions: expractions expraction`: the first action alone, later ones under an AND node. -/
def andJoin (cx : PCtx) (acc : Option CTree) (a : CTree) : PM (Option CTree) := do
  let l ← curLine cx
  pure (match acc with | none => some a | some p => some (.and l p a))

def leafAt (cx : PCtx) (mk : Nat → Expr) : PM CTree := do
  let l ← curLine cx
  pure (.leaf (mk l))

/-- The operands that start with keyword `k` (the keyword is the lookahead): the `expr3` alternatives
without parentheses, and `attachment` applied to an operand (`unary` parses one); `none`: `k` starts no
operand. -/
def parseCondKw (cx : PCtx) (fuel : Nat) (unary : PM CTree) (k : Kw) : Option (PM CTree) :=
  match k with
  | .attachment => some (do
      shift
      let e ← unary
      let l ← curLine cx
      pure (.attachment l e))
  | .all => some (do shift; leafAt cx .all)
  | .new => some (do shift; leafAt cx .new)
  | .old => some (do shift; leafAt cx .old)
  | .body => some (do
      shift
      let p ← parsePattern cx
      let l ← curLine cx
      checkPattern cx p
      pure (.leaf (.body l p)))
  | .header => some (do
      shift
      let ss ← parseStrings cx fuel
      let p ← parsePattern cx
      let l ← curLine cx
      checkPattern cx p
      let ss' ← expandAll cx false ss
      pure (.leaf (.header l ss' p)))
  | .date => some (do shift; parseDate cx)
  | .isdirectory => some (do
      shift
      let s ← parseStr cx
      let l ← curLine cx
      let p ← expandOne cx false s
      pure (.leaf (.stat l p)))
  | .command => some (do
      shift
      let ss ← parseStrings cx fuel
      let l ← curLine cx
      let ss' ← expandAll cx false ss
      pure (.leaf (.command l ss')))
  | _ => none

mutual

/-- One operand of `and` / `or`: `expr3`, or `!` / `attachment` applied to an operand. -/
def parseUnary (cx : PCtx) : Nat → PM CTree
  | 0 => outOfFuel
  | fuel + 1 => do
    let t ← peek cx false false
    match t with
    | .neg => do
      shift
      let e ← parseUnary cx fuel
      let l ← curLine cx
      pure (.neg l e)
    | .lparen => do
      shift
      let e ← parseUnary cx fuel
      let e' ← parseBinTail cx fuel e
      expectTk cx .rparen
      pure e'
    | .kw k =>
      match parseCondKw cx fuel (parseUnary cx fuel) k with
      | some p => p
      | none => failTok
    | _ => failTok

/-- `expr1 AND expr1 | expr1 OR expr1` with `%left AND OR`: a left-associative chain of operands. -/
def parseBinTail (cx : PCtx) : Nat → CTree → PM CTree
  | 0, _ => outOfFuel
  | fuel + 1, lhs => do
    let t ← peek cx false false
    match t with
    | .kw .and => do
      shift
      let r ← parseUnary cx fuel
      let l ← curLine cx
      parseBinTail cx fuel (.and l lhs r)
    | .kw .or => do
      shift
      let r ← parseUnary cx fuel
      let l ← curLine cx
      parseBinTail cx fuel (.or l lhs r)
    | _ => pure lhs

end

/-- `MATCH expr1 expr2` after `MATCH`; `exprs` and `actions` parse a nested block (after `{`) and an
action list. -/
def parseRuleWith (cx : PCtx) (fuel : Nat) (exprs : PM CTree) (actions : PM (Option CTree)) : PM CTree := do
  let c0 ← parseUnary cx fuel
  let c ← parseBinTail cx fuel c0
  let t ← peek cx false false
  match t with
  | .lbrace => do
    shift
    let b ← exprs
    if b.countActions == 0 then failTok          -- "empty nested match block"
    else do
      let l ← curLine cx
      pure (.mtch l c b)
  | _ => do
    let acts ← actions
    match acts with
    | none => failTok                            -- "missing action"
    | some a => do
      validateActions a
      let l ← curLine cx
      pure (.mtch l c a)

/-- The `expraction` alternative that starts with keyword `k` (the keyword is the lookahead);
`exprs` parses the block of an `attachment { }` action after its `{`.  `none`: `k` starts no action. -/
def parseActionWith (cx : PCtx) (fuel : Nat) (exprs : PM CTree) (k : Kw) : Option (PM CTree) :=
  match k with
  | .brk => some (do shift; leafAt cx .brk)
  | .discard => some (do shift; leafAt cx .discard)
  | .pass => some (do shift; leafAt cx .pass)
  | .reject => some (do shift; leafAt cx .reject)
  | .move => some (do
      shift
      let s ← parseStr cx
      let l ← curLine cx
      let p ← expandOne cx true s
      pure (.leaf (.move l p)))
  | .flag => some (do
      shift
      let ng ← parseOptNeg cx
      expectTk cx (.kw .new)
      let l ← curLine cx
      pure (.leaf (.flag l (if ng then [99, 117, 114] else [110, 101, 119]))))
  | .flags => some (do
      shift
      let s ← parseStr cx
      let l ← curLine cx
      let s' ← expandMac false s
      pure (.leaf (.flags l s')))
  | .label => some (do
      shift
      let ss ← parseStrings cx fuel
      let l ← curLine cx
      let ss' ← expandAll cx true ss
      pure (.leaf (.label l ss')))
  | .exec => some (do
      shift
      let fl ← parseExecFlags cx fuel false false
      let ss ← parseStrings cx fuel
      let l ← curLine cx
      let ss' ← expandAll cx true ss
      if fl.2 && !fl.1 then failTok                -- "invalid exec options"
      else pure (.leaf (.exec l fl.1 fl.2 ss')))
  | .attachment => some (do
      shift
      expectTk cx .lbrace
      let b ← exprs
      if b.countActions == 0 then failTok          -- "empty nested match block" (/repo commit e1b4ff1)
      else if b.countActions > b.countLeaf Expr.isExec then failTok   -- "attachment cannot be combined with action(s)"
      else do
        let l ← curLine cx
        pure (.attBlock l b))
  | .addheader => some (do
      shift
      let k ← parseStr cx
      let v ← parseStr cx
      let l ← curLine cx
      let k' ← expandMac false k
      let v' ← expandMac true v
      pure (.leaf (.addHeader l k' v')))
  | _ => none

mutual

/-- `exprs '}'` (the `{` is shifted): the rules of a block, joined by OR nodes. -/
def parseExprs (cx : PCtx) : Nat → Option CTree → PM CTree
  | 0, _ => outOfFuel
  | fuel + 1, acc => do
    let t ← peek cx false false
    match t with
    | .kw .mtch => do
      shift
      let r ← parseRuleWith cx fuel (parseExprs cx fuel none) (parseActions cx fuel none)
      let l ← curLine cx
      parseExprs cx fuel (match acc with | none => some r | some a => some (.or l a r))
    | .rbrace => do
      shift
      let l ← curLine cx
      pure (match acc with | none => .emptyBlock l | some a => .block l a)
    | _ => failTok

/-- `expractions`: the actions of a rule, joined by AND nodes. -/
def parseActions (cx : PCtx) : Nat → Option CTree → PM (Option CTree)
  | 0, _ => outOfFuel
  | fuel + 1, acc => do
    let t ← peek cx false false
    match t with
    | .kw k =>
      match parseActionWith cx fuel (parseExprs cx fuel none) k with
      | some p => do
        let a ← p
        let acc' ← andJoin cx acc a
        parseActions cx fuel acc'
      | none => pure acc
    | _ => pure acc

end

/-- `maildir: maildir_paths exprblock` after `maildir_paths`. -/
def parseMaildirBody (cx : PCtx) (fuel : Nat) (paths : List Bytes) : PM PBlock := do
  expectTk cx .lbrace
  let b ← parseExprs cx fuel none
  if b.countActions == 0 then failTok                                  -- "empty match block"
  else if paths.any (fun p => !isStdinStr p) && b.countLeaf Expr.isReject > 0 then failTok   -- "reject cannot be used outside stdin"
  else pure { paths := paths, tree := b }

/-- `macro: MACRO '=' STRING` after the name. -/
def parseMacroDef (cx : PCtx) (name : Bytes) : PM Unit := do
  expectTk cx .eq                   -- the lexer reports "unknown keyword" unless `=` follows
  let v ← parseStr cx
  let l ← curLine cx
  let v' ← expandOne cx false v
  let ms ← getMacros
  match macrosInsert ms name v' l false with
  | none => failTok                                                    -- "macro already defined"
  | some ms' => setMacros ms'

/-- `grammar`: macro definitions and maildir / stdin blocks up to the end of the input. -/
def parseTop (cx : PCtx) : Nat → List PBlock → PM (List PBlock)
  | 0, _ => outOfFuel
  | fuel + 1, blocks => do
    let t ← peek cx false false
    match t with
    | .eof => pure blocks
    | .kw .maildir => do
      shift
      let ss ← parseStrings cx fuel
      let paths ← expandAll cx false ss
      let b ← parseMaildirBody cx fuel paths
      parseTop cx fuel (blocks ++ [b])
    | .kw .stdin => do
      shift
      if blocks.any (fun b => b.paths.any isStdinStr) then failTok      -- "stdin already defined"
      else do
        let b ← parseMaildirBody cx fuel [stdinStr]
        parseTop cx fuel (blocks ++ [b])
    | .macro name => do
      shift
      parseMacroDef cx name
      parseTop cx fuel blocks
    | _ => failTok

/-- `macros_validate`: the first macro never referenced. -/
def firstUnused (ms : List Macro) : Option Macro := ms.find? (fun m => m.refs == 0)

inductive ParseResult where
  | ok (blocks : List PBlock)
  | error (line : Nat)            -- at least one diagnostic; the first one is reported on `line`
  | invalidDefs                   -- mdsort refuses the `-D` options before reading the file
  | fuel                          -- never (see `Proofs/Conf*.lean`)
deriving Repr

structure ParseOut where
  res : ParseResult
  nlex : Nat                      -- number of calls of the lexer

/-- `config_parse` (after the `-D` options have been entered). -/
def parseConfigFull (home : Bytes) (defs : List (Bytes × Bytes)) (rxOk : Pat → Bool) (input : Bytes) : ParseOut :=
  match macrosOfDefs defs [] with
  | none => { res := .invalidDefs, nlex := 0 }
  | some ms =>
    let cx : PCtx := { nl := countNl input, home := home, rxOk := rxOk }
    match parseTop cx (input.length + 1) [] { rest := input, macros := ms } with
    | .ok blocks s =>
      match firstUnused s.macros with
      | some m => { res := .error m.lno, nlex := s.nlex }             -- "unused macro"
      | none => { res := .ok blocks, nlex := s.nlex }
    | .err l s => { res := .error l, nlex := s.nlex }
    | .fuel s => { res := .fuel, nlex := s.nlex }

/-- `config_parse` with the buffer of `expandtilde` as a parameter (C18); `parseConfigFull` is the instance at `PATH_MAX`. -/
def parseConfigFullL (l : Lim) (home : Bytes) (defs : List (Bytes × Bytes)) (rxOk : Pat → Bool) (input : Bytes) : ParseOut :=
  match macrosOfDefs defs [] with
  | none => { res := .invalidDefs, nlex := 0 }
  | some ms =>
    let cx : PCtx := { nl := countNl input, home := home, rxOk := rxOk, pathMax := l }
    match parseTop cx (input.length + 1) [] { rest := input, macros := ms } with
    | .ok blocks s =>
      match firstUnused s.macros with
      | some m => { res := .error m.lno, nlex := s.nlex }
      | none => { res := .ok blocks, nlex := s.nlex }
    | .err l s => { res := .error l, nlex := s.nlex }
    | .fuel s => { res := .fuel, nlex := s.nlex }

def parseConfigL (l : Lim) (home : Bytes) (defs : List (Bytes × Bytes)) (rxOk : Pat → Bool) (input : Bytes) : ParseResult :=
  (parseConfigFullL l home defs rxOk input).res

def parseConfig (home : Bytes) (defs : List (Bytes × Bytes)) (rxOk : Pat → Bool) (input : Bytes) : ParseResult :=
  (parseConfigFull home defs rxOk input).res

end Mdsort.Model
