import Mdsort.Bytes
import Mdsort.Gen.Tables

/-!
# Model of the configuration lexer (parse.y: `yylex1`, `yypeek`, `yygetc`, `yyungetc`)

The input is the remaining bytes of the file; `fgetc` returning EOF is the empty list.  The lexer
modes are inputs of each call, exactly as the grammar's mid-rule actions set them: `pflag` (a
pattern is expected), `sflag` (a time unit is expected), and whether the previous token was a MACRO
(an unknown keyword is then reported unless `=` follows).  Line counting is the number of newlines
consumed.  The lexeme buffer is `BUFSIZ` (8192) bytes.
-/

namespace Mdsort.Model
open Mdsort

def BUFSIZ : Nat := 8192

inductive Token where
  | eof
  | neg
  | str (s : Bytes)
  | pattern (src : Bytes) (icase lcase ucase : Bool)
  | int (n : Nat)
  | keyword (name : String)
  | scalar (v : Option Nat)          -- none: ambiguous (an error was reported)
  | macro (name : Bytes)
  | char (c : UInt8)
deriving Repr, DecidableEq

/-- Result of one call: the token, the remaining input, the number of diagnostics emitted. -/
structure LexRes where
  tok : Token
  rest : Bytes
  errors : Nat
deriving Repr, DecidableEq

/-- The loop that collects a string or pattern up to the unescaped delimiter (`yypeek(delim)` then
`yygetc`).  `none`: end of file before the delimiter; `some (none, _)`: lexeme buffer full. -/
def collect (delim : UInt8) : Nat → Bytes → Bytes → Option (Option Bytes × Bytes)
  | 0, _, _ => none
  | fuel + 1, s, acc =>
    match s with
    | [] => none                                            -- unterminated
    | c :: r =>
      if c == delim then some (some acc, r)
      else
        -- yypeek: a backslash directly followed by the delimiter is dropped, the delimiter is then data
        let (s', ch) : Bytes × Option UInt8 :=
          if c == 92 then
            match r with
            | d :: r2 => if d == delim then (r2, some d) else (r, some c)
            | [] => (r, some c)
          else (r, some c)
        match ch with
        | none => none
        | some ch =>
          if acc.length == BUFSIZ - 1 then some (none, s')    -- `string too long` / `pattern too long`
          else collect delim fuel s' (acc ++ [ch])

/-- Pattern flags after the closing delimiter. -/
def patFlags : Nat → Bytes → Bool → Bool → Bool → Nat → (Bool × Bool × Bool) × Bytes × Nat
  | 0, s, i, l, u, e => ((i, l, u), s, e)
  | fuel + 1, s, i, l, u, e =>
    match s with
    | 105 :: r => patFlags fuel r true l u e
    | 108 :: r => patFlags fuel r i true u (if u then e + 1 else e)
    | 117 :: r => patFlags fuel r i l true (if l then e + 1 else e)
    | _ => ((i, l, u), s, e)

/-- Decimal integer with the 32-bit overflow test (one diagnostic on overflow, digits still consumed). -/
def lexDigits : Nat → Bytes → Nat → Bool → Nat → Nat × Bytes × Nat
  | 0, s, n, _, e => (n, s, e)
  | fuel + 1, s, n, ovf, e =>
    match s with
    | c :: r =>
      if isdigit c then
        if ovf then lexDigits fuel r n true e
        else
          let n' := n * 10 + (c.toNat - 48)
          -- `number` keeps whatever the overflowing builtin left in it; only the diagnostic matters
          if n * 10 ≥ 2 ^ 32 || n' ≥ 2 ^ 32 then lexDigits fuel r (n' % 2 ^ 32) true (e + 1)
          else lexDigits fuel r n' false e
      else (n, s, e)
    | [] => (n, s, e)

def isKwChar (c : UInt8) : Bool := islower c || c == 45

/-- `yylex1`.  `afterMacro`: the previous token was MACRO. -/
def lex1 (pflag sflag afterMacro : Bool) (input : Bytes) : LexRes :=
  -- leading white space; a comment is only recognised when a token could start (not in pattern mode: `#` may be a delimiter there? no: the comment test comes first)
  let s0 := input.dropWhile isspace
  let macroErr (c : Option UInt8) : Nat := if afterMacro && c != some 61 then 1 else 0
  match s0 with
  | [] => { tok := .eof, rest := [], errors := macroErr none }
  | c :: r =>
    let e0 := macroErr (some c)
    if c == 33 then { tok := .neg, rest := r, errors := e0 }
    else if c == 35 then
      -- comment: to end of line, then start over (the MACRO check is not repeated with the same lexeme... it is: `goto again`)
      match (r.dropWhile (· != 10)) with
      | [] => { tok := .eof, rest := [], errors := e0 }
      | _ :: r2 =>
        let sub := lex1Aux pflag sflag afterMacro r2 input.length
        { sub with errors := sub.errors + e0 }
    else lexTok pflag sflag c r e0
where
  /-- Everything after the first significant byte `c`. -/
  lexTok (pflag sflag : Bool) (c : UInt8) (r : Bytes) (e0 : Nat) : LexRes :=
    if c == 34 then
      match collect 34 (r.length + 1) r [] with
      | none => { tok := .eof, rest := [], errors := e0 + 1 }               -- unterminated string
      | some (none, rest) => { tok := .eof, rest := rest, errors := e0 + 1 } -- string too long
      | some (some lexeme, rest) =>
        let s := cstr lexeme
        { tok := .str s, rest := rest, errors := e0 + (if s.isEmpty then 1 else 0) }
    else if pflag then
      match collect c (r.length + 1) r [] with
      | none => { tok := .eof, rest := [], errors := e0 + 1 }
      | some (none, rest) => { tok := .eof, rest := rest, errors := e0 + 1 }
      | some (some lexeme, rest) =>
        let ((i, l, u), rest2, e) := patFlags (rest.length + 1) rest false false false 0
        { tok := .pattern (cstr lexeme) i l u, rest := rest2, errors := e0 + e }
    else if isdigit c then
      let (n, rest, e) := lexDigits (r.length + 2) (c :: r) 0 false 0
      { tok := .int n, rest := rest, errors := e0 + e }
    else if islower c then
      let word := (c :: r).takeWhile isKwChar
      let rest := (c :: r).dropWhile isKwChar
      if word.length > BUFSIZ - 1 then
        -- `keyword too long`: the lexer stops after filling the buffer
        { tok := .eof, rest := (c :: r).drop BUFSIZ, errors := e0 + 1 }
      else
        let w := String.ofList (word.map fun b => Char.ofNat b.toNat)
        match Gen.keywords.find? (fun kv => kv.1 == w) with
        | some kv => { tok := .keyword kv.2, rest := rest, errors := e0 }
        | none =>
          if sflag then
            let ms := Gen.scalars.filter fun (name, _) => w.toList.isPrefixOf name.toList
            match ms with
            | [] => { tok := .macro word, rest := rest, errors := e0 }
            | [(_, v)] => { tok := .scalar (some v), rest := rest, errors := e0 }
            | _ => { tok := .scalar none, rest := rest, errors := e0 + 1 }
          else { tok := .macro word, rest := rest, errors := e0 }
    else if c == 0 then { tok := .eof, rest := r, errors := e0 }   -- `return c` with c = 0 is the end-of-input token
    else { tok := .char c, rest := r, errors := e0 }
  /-- Re-entry after a comment (bounded by the input length). -/
  lex1Aux (pflag sflag afterMacro : Bool) (input : Bytes) : Nat → LexRes
    | 0 => { tok := .eof, rest := [], errors := 0 }
    | fuel + 1 =>
      let s0 := input.dropWhile isspace
      let macroErr (c : Option UInt8) : Nat := if afterMacro && c != some 61 then 1 else 0
      match s0 with
      | [] => { tok := .eof, rest := [], errors := macroErr none }
      | c :: r =>
        let e0 := macroErr (some c)
        if c == 33 then { tok := .neg, rest := r, errors := e0 }
        else if c == 35 then
          match (r.dropWhile (· != 10)) with
          | [] => { tok := .eof, rest := [], errors := e0 }
          | _ :: r2 =>
            let sub := lex1Aux pflag sflag afterMacro r2 fuel
            { sub with errors := sub.errors + e0 }
        else lexTok pflag sflag c r e0

end Mdsort.Model
