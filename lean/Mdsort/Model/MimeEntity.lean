import Mdsort.Model.Mime
import Mdsort.Spec.Mime

/-! The entity reader with which the MIME specification is instantiated for C11:
header access and entity parsing are the model's (their own correctness is C08/C10). -/

namespace Mdsort.Model

def entity : Spec.Entity Msg where
  read := parseHeaders
  contentType := fun m => getHeader1 m contentTypeName
  cte := fun m => getHeader1 m cteName
  body := fun m => m.body

end Mdsort.Model
