import Mdsort.Model.Eval
import Mdsort.Spec.Dest

/-!
# Model of the destination of a sequence of move / flag / flags actions

The entries `expr_eval_move/flag/flags` hand to `matches_append`, `matches_append` over all of them
in order (what `eval` does for the `and`-chain of a rule's actions), and the place the message is
in after `matches_exec` ran over the resulting list: every move/flag/flags entry makes
`maildir_move` move the message to `mh_path`, so this is the `mh_path` of the last such entry.
-/

namespace Mdsort.Model
open Mdsort

/-- The entry built by `expr_eval_move`, `expr_eval_flag`, `expr_eval_flags` (see `eval`). -/
def pathEntry (lno part : Nat) : Spec.PathAction → Match
  | .move p => { ty := .move, lno := lno, part := part, maildir := p, strings := [p] }
  | .flag sd => { ty := .flag, lno := lno, part := part, subdir := sd, strings := [sd] }
  | .flags fl => { ty := .flags, lno := lno, part := part, strings := [fl] }

/-- `matches_append` for each entry in turn; `none` as soon as one fails (evaluation error). -/
def appendAll (env : Env) : MatchList → List Match → Option MatchList
  | ml, [] => some ml
  | ml, mh :: rest =>
    match matchesAppend env ml mh with
    | (_, true) => none
    | (ml', false) => appendAll env ml' rest

/-- Does `matches_exec` move the message for this entry? -/
def Match.moves (mh : Match) : Bool := mh.ty == .move || mh.ty == .flag || mh.ty == .flags

/-- `mh_path` of the last move/flag/flags entry: where the message is after `matches_exec`. -/
def lastPath (ml : MatchList) : Option Bytes :=
  ((ml.filter Match.moves).getLast?).map (·.path)

/-- Directory the message ends in when the actions are evaluated after the match list `ml0`
(the entries of the rule's conditions) and then executed; `none`: evaluation error, or nothing moves it. -/
def finalPlace (env : Env) (ml0 : MatchList) (actions : List Spec.PathAction) : Option Bytes :=
  match appendAll env ml0 (actions.map (pathEntry 0 0)) with
  | none => none
  | some ml => lastPath ml

end Mdsort.Model
