import Mdsort.Model.Conf
import Mdsort.Model.Main

/-!
# The whole program from the configuration TEXT

`mainText` is `main` of mdsort.c with the configuration given as the bytes of the file: the `-D`
options are entered into the macro table (a refused option ends the run before the configuration is
opened: `goto out` in the `getopt` loop, exit status 1 - the `-` operand has not been seen yet), then
`config_parse` (Model/Conf.lean: `parseConfig`) decides whether the loop runs and over which trees.
`mainP` (Model/Main.lean) is the same program with the parser's verdict and trees as parameters.
-/

namespace Mdsort.Model
open Mdsort

/-- The parser's blocks as the evaluator's (`struct config` with `conf->expr`).  `none`: a tree holds
an empty block `{ }` (`ex_lhs == NULL`), which no accepted configuration does
(`Proofs.MainText.confBlocksOf_accepted`). -/
def confBlocksOf : List PBlock → Option (List ConfBlock)
  | [] => some []
  | b :: r =>
    match b.tree.toExpr, confBlocksOf r with
    | some e, some r' => some ({ paths := b.paths, expr := e } :: r')
    | _, _ => none

/-- How `getopt(3)` reads its option string: each letter is an option, a following `:` says it takes an argument. -/
def optSpec : List Char → List (Char × Bool)
  | [] => []
  | c :: ':' :: r => (c, true) :: optSpec r
  | c :: r => (c, false) :: optSpec r

/-- `main` after `getopt`, from the text of the configuration file and the `-D name=value` options.
The home directory used by `~` expansion is `env.home`; `rxOk` is `regcomp`. -/
def mainText (env : PEnv) (orc : EvalOracles) (rxOk : Pat → Bool) (defs : List (Bytes × Bytes))
    (confText : Bytes) (files : Files) (input : Bytes) : Prog (Nat × MainSt) :=
  match parseConfig env.home defs rxOk confText with
  | .invalidDefs => pure (1, { files := files, error := true, reject := false, log := [] })
  | .ok blocks =>
    match confBlocksOf blocks with
    | some conf => mainP env orc true conf files input
    | none => mainP env orc false [] files input          -- never: `confBlocksOf_accepted`
  | .error _ => mainP env orc false [] files input
  | .fuel => mainP env orc false [] files input            -- never: `C14_parser_total`

end Mdsort.Model
