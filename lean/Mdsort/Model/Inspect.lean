import Mdsort.Model.Eval

/-!
# Model of the dry-run output: `matches_inspect` (match.c) and `expr_inspect` (expr.c)

The display width is a parameter: `width str len` stands for `strnwidth(str, len)` of expr.c, where
`str` is the rest of the value from the position the C pointer addresses (the C function reads a
multibyte character to its end even when it extends beyond `len`, so the bytes after `len` matter).
`strnwidth` below transcribes the C loop over the platform's `mbtowc` and `wcwidth` (parameters; the
driver supplies them through the FFI under the locale of its environment).  In the C locale every
printable ASCII byte and every byte >= 0x80 has width 1 and control characters width 0 (`widthC`).
-/

namespace Mdsort.Model
open Mdsort

/-- `strnwidth` in the C locale, of a byte string. -/
def widthC (s : Bytes) : Nat := (s.filter fun b => b ≥ 128 || (32 ≤ b && b ≤ 126)).length

/-- `strnwidth(str, len)` in the C locale (every character is one byte: nothing beyond `len` is read). -/
def widthCn (str : Bytes) (len : Nat) : Nat := widthC (str.take len)

/-- `strnwidth(str, len)` (expr.c).  `mb s` is what `mbtowc(&wc, s, MB_CUR_MAX)` answers on the
NUL-terminated bytes `s`: `none` for -1 (invalid or incomplete sequence), `some (0, _)` at the NUL (here: the end
of the list), `some (n, wc)` for a character of `n` bytes; `wcw wc` is `wcwidth(wc)`.  `rem` is `len - i`:
an invalid byte counts one column and one byte; a character counts `wcwidth` columns when that is positive
and ALL its bytes, also those beyond `len` (`rem - n` truncates at 0, the loop test `i < len` then fails). -/
def strnwidth (mb : Bytes → Option (Nat × Nat)) (wcw : Nat → Int) (str : Bytes) (len : Nat) : Nat :=
  go len len str 0
where
  go : Nat → Nat → Bytes → Nat → Nat
    | 0, _, _, w => w
    | fuel + 1, rem, s, w =>
      if rem == 0 then w
      else match mb s with
        | none => go fuel (rem - 1) (s.drop 1) (w + 1)
        | some (0, _) => w
        | some (n + 1, wc) => go fuel (rem - (n + 1)) (s.drop (n + 1)) (w + (wcw wc).toNat)

def spaces (n : Nat) : Bytes := List.replicate n 32

/-- Offset of the beginning of the line of `val` that contains offset `beg` (the loop over `strchr(lbeg, '\n')`). -/
def lineStart (val : Bytes) (beg : Nat) : Nat → Nat → Nat
  | 0, lbeg => lbeg
  | fuel + 1, lbeg =>
    match (val.drop lbeg).findIdx? (· == 10) with
    | none => lbeg
    | some k => if lbeg + k > beg then lbeg else lineStart val beg fuel (lbeg + k + 1)

/-- The two pieces `expr_inspect_prefix` prints in front of `:lno: `: `~` if the configuration path starts with HOME
(else nothing), and the path (without HOME in the first case). -/
def inspectPath (home confpath : Bytes) : Bytes × Bytes :=
  if home.isPrefixOf confpath then ([126], confpath.drop home.length) else ([], confpath)

/-- `:lno: ` -/
def inspectLno (lno : Nat) : Bytes := [58] ++ (toString lno).toUTF8.toList ++ [58, 32]

/-- `expr_inspect_prefix`: `~` if the configuration path starts with HOME, then `path:lno: `. -/
def inspectPrefix (home confpath : Bytes) (lno : Nat) : Bytes :=
  (inspectPath home confpath).1 ++ (inspectPath home confpath).2 ++ inspectLno lno

/-- What `expr_inspect_prefix` returns (since fix 951a0f1): the bytes `fprintf` reported with the path counted in
columns - `nwrite += n - strlen(path) + strnwidth(path, strlen(path))`, plus 1 for the `~`. -/
def inspectPrefixWidth (width : Bytes → Nat → Nat) (home confpath : Bytes) (lno : Nat) : Nat :=
  (inspectPath home confpath).1.length + width (inspectPath home confpath).2 (inspectPath home confpath).2.length +
    (inspectLno lno).length

/-- The columns `expr_inspect` accounts for the head `conf:lno: key: ` (since fix 951a0f1):
`pindent = strnwidth(key, strlen(key)) + 2`, then `pindent += expr_inspect_prefix()`. -/
def inspectHeadWidth (width : Bytes → Nat → Nat) (home confpath : Bytes) (lno : Nat) (key : Bytes) : Nat :=
  width key key.length + 2 + inspectPrefixWidth width home confpath lno

/-- `expr_inspect(ex, mh, env)`: the text printed for one match-list entry. -/
def exprInspect (width : Bytes → Nat → Nat) (home confpath : Bytes) (mh : Match) : Bytes :=
  if !mh.ty.isInspect then []
  else
    match mh.key, mh.val with
    | some key, some val =>
      let rec go (subs : List Sub) (printkey : Bool) (pindent : Nat) (out : Bytes) : Bytes :=
        match subs with
        | [] => out
        | s :: rest =>
          match s.off with
          | none => go rest printkey pindent out
          | some (beg, end_) =>
            if beg == end_ then go rest printkey pindent out
            else
              let l0 := lineStart val beg (val.length + 1) 0
              let lbeg := l0 + nspaces (val.drop l0)
              let line := (val.drop lbeg).takeWhile (· != 10)
              let w := width (val.drop beg) (end_ - beg)
              let len := if w ≥ 2 then w - 2 else 0
              let (pindent', head) :=
                if printkey then
                  let pre := inspectPrefix home confpath mh.lno
                  (pindent + inspectPrefixWidth width home confpath mh.lno, pre ++ key ++ [58, 32])
                else (pindent, spaces pindent)
              -- `beg - (lbeg - val)` is computed in size_t: when the match starts inside the skipped
              -- leading blanks it wraps and the width of the whole rest of the value is taken
              let plen := if lbeg ≤ beg then beg - lbeg else (val.length - lbeg)
              let indent := pindent' + width (val.drop lbeg) plen
              go rest false pindent' (out ++ head ++ line ++ [10] ++ spaces indent ++ [94] ++ spaces len ++ [36, 10])
      go mh.subs true (width key key.length + 2) []
    | _, _ => []

/-- `matches_inspect(ml, env)`: for every action its `path -> destination` line and, in a dry run,
the explanation of every entry since the previous action. -/
def matchesInspect (width : Bytes → Nat → Nat) (home confpath : Bytes) (stdinMode dryrun : Bool) (path : Bytes) (ml : MatchList) : Bytes :=
  let rec go (rest : MatchList) (pending : MatchList) (out : Bytes) : Bytes :=
    match rest with
    | [] => out
    | mh :: more =>
      if !mh.ty.isAction then go more (pending ++ [mh]) out
      else
        let dest := match mh.ty.info.label with
          | some l => l.toUTF8.toList
          | none => mh.path
        let line := (if stdinMode then ofString "<stdin>" else path) ++ ofString " -> " ++ dest ++ [10]
        if !dryrun then go more [] (out ++ line)
        else go more [] (out ++ line ++ (pending.flatMap (exprInspect width home confpath)))
  go ml [] []

end Mdsort.Model
