import Mdsort.Model.Eval

/-!
# The platform limits as parameters: setters and the evaluator

mdsort fills fixed-size buffers of three sizes: `PATH_MAX` (paths), `NAME_MAX + 1` (file names, the
`new`/`cur` component) and 256 (`ev_hostname`).  `Model/Eval.lean`, `Scripts.lean`, `Main.lean` are
written at the platform's values.  Here the same functions take the three sizes as a parameter
(`Limits`); a size is a number of bytes or `Lim.inf`, the ideal string that always fits.  Every
definition below is the corresponding definition of the model with `PATH_MAX` / `NAME_MAX1` replaced
by the parameter and nothing else changed; `Proofs/LimitsBridge.lean` proves that at `stdLimits` they
ARE the functions of the model (`evalL_std`, `processMessageL_std`, `mainPL_std`, ...), so what the
correspondence run compares with the real binary is the instance at `stdLimits`.
-/

namespace Mdsort.Model
open Mdsort

/-- The size of a buffer: `fin n` = `n` bytes, terminator included; `inf` = an ideal, unbounded string. -/
inductive Lim where
  | fin (n : Nat)
  | inf
deriving Repr, DecidableEq

/-- A string of `len` characters fits (with its terminator). -/
def Lim.fits : Lim → Nat → Bool
  | .fin n, len => decide (len < n)
  | .inf, _ => true

/-- `a ≤ b`: every string that fits `a` fits `b`. -/
def Lim.le : Lim → Lim → Prop
  | .fin a, .fin b => a ≤ b
  | _, .inf => True
  | .inf, .fin _ => False

instance : LE Lim := ⟨Lim.le⟩

/-- The three buffer sizes of mdsort. -/
structure Limits where
  pathMax : Lim        -- `PATH_MAX`: md_root, md_path, me_path, mh_path, mh_maildir, ev_home, ev_tmpdir, the templates
  nameMax1 : Lim       -- `NAME_MAX + 1`: me_name, mh_subdir, generated names, the `new`/`cur` component
  hostMax : Lim        -- `sizeof(ev_hostname)` = `Gen.evHostnameSize` (extern.h, regenerated)
deriving Repr, DecidableEq

/-- The platform: the values the rest of the model is written at. -/
def stdLimits : Limits := { pathMax := .fin PATH_MAX, nameMax1 := .fin NAME_MAX1, hostMax := .fin Gen.evHostnameSize }

/-- Ideal strings: nothing ever overflows. -/
def Limits.unbounded : Limits := { pathMax := .inf, nameMax1 := .inf, hostMax := .inf }

def Limits.le (a b : Limits) : Prop := a.pathMax ≤ b.pathMax ∧ a.nameMax1 ≤ b.nameMax1 ∧ a.hostMax ≤ b.hostMax

instance : LE Limits := ⟨Limits.le⟩

/-! ## the setters -/

/-- `pathjoin(buf, bufsiz, dirname, filename)`. -/
def pathjoinL : Lim → Bytes → Bytes → Option Bytes
  | .fin n, d, f => pathjoin n d f
  | .inf, d, f => some (d ++ [47] ++ f)

/-- `strlcpy(dst, src, siz) >= siz`. -/
def strlcpyL : Lim → Bytes → Option Bytes
  | .fin n, s => strlcpyFits n s
  | .inf, s => some s

/-- `pathslice(path, buf, bufsiz, beg, end)`; no slice is longer than the path, so `|path| + 1` bytes are as good as
unbounded (`Proofs.Limits.pathslice_big`). -/
def pathsliceL (path : Bytes) : Lim → Int → Int → Option Bytes
  | .fin n, b, e => pathslice path n b e
  | .inf, b, e => pathslice path (path.length + 1) b e

/-- `parsesubdir(path, &subdir)`. -/
def parseSubdirL (l : Lim) (path : Bytes) : Option Subdir :=
  match pathsliceL path l (-1) (-1) with
  | none => none
  | some b =>
    if b == [110, 101, 119] then some .new
    else if b == [99, 117, 114] then some .cur
    else none

/-- The `snprintf(buf, bufsiz, "%lld.%d_%u.%s%s", ...)` of `maildir_genname` with its size test. -/
def gennameBufL (l : Lim) (name : Bytes) : Option Bytes := if l.fits name.length then some name else none

/-- The `snprintf(buf, siz, "%s%s", home, str + 1)` of `expandtilde` (parse.y) with its size test; `none` is "path too long". -/
def expandTildeL (l : Lim) (home str : Bytes) : Option Bytes :=
  match str with
  | 126 :: r => if l.fits (home.length + r.length) then some (home ++ r) else none
  | _ => some str

/-- `readenv`: `gethostname(env->ev_hostname, sizeof(env->ev_hostname))` - it fails (`err(1, "gethostname")`, `none`) when
the name with its terminator does not fit (glibc: `ENAMETOOLONG`; the shim does the same) - then the name is cut at its
first dot.  (`defaultconf` and the `strlcpy` of HOME / TMPDIR / TZ in `readenv` are modelled separately: `Model/Start.lean`, package ce8.) -/
def readHostL (l : Lim) (kernelName : Bytes) : Option Bytes :=
  (strlcpyL l kernelName).map fun h => h.takeWhile (· != 46)

/-! ## match.c, expr.c -/

/-- `matches_append(ml, mh)`. -/
def matchesAppendL (L : Limits) (env : Env) (ml : MatchList) (mh : Match) : MatchList × Bool :=
  let (ml1, mh1) := matchesMerge ml mh
  if !mh1.ty.isPath then (ml1 ++ [mh1], false)
  else
    let md : Option Bytes := if mh1.maildir.isEmpty then pathsliceL env.path L.pathMax 0 (-2) else some mh1.maildir
    match md with
    | none => (ml1 ++ [mh1], true)
    | some maildir =>
      let mh2 := { mh1 with maildir := maildir }
      let sd : Option Bytes := if mh2.subdir.isEmpty then pathsliceL env.path L.nameMax1 (-2) (-2) else some mh2.subdir
      match sd with
      | none => (ml1 ++ [mh2], true)
      | some subdir =>
        let mh3 := { mh2 with subdir := subdir }
        match pathjoinL L.pathMax maildir subdir with
        | none => (ml1 ++ [mh3], true)
        | some p => (ml1 ++ [{ mh3 with path := p }], false)

/-- `expr_regexec`. -/
def exprRegexecL (L : Limits) (env : Env) (ty : MType) (lno part : Nat) (p : Pat) (key val : Bytes) (st : St) : Tri × St :=
  match env.rx p val with
  | .nomatch => (.nomatch, st)
  | .error => (.error, st)
  | .ok groups =>
    let mh : Match := { ty := ty, lno := lno, part := part, subs := matchCopy p val groups, pat := some p }
    let (ml, failed) := matchesAppendL L env st.ml mh
    if failed then (.error, { st with ml := ml })
    else if env.dryrun then
      (.match, { st with ml := ml.dropLast ++ (ml.getLast?.map fun m => { m with key := some key, val := some val }).toList })
    else (.match, { st with ml := ml })

/-- `expr_match` and the entries that only append. -/
def exprAppendL (L : Limits) (env : Env) (mh : Match) (st : St) (ok : Tri) : Tri × St :=
  let (ml, failed) := matchesAppendL L env st.ml mh
  (if failed then .error else ok, { st with ml := ml })

/-- `expr_eval`. -/
def evalL (L : Limits) (env : Env) (root : Msg) : Expr → (part : Nat) → Msg → St → Tri × St
  | .block _ e, part, m, st =>
    match evalL L env root e part m st with
    | (.error, st1) => (.error, st1)
    | (ev, st1) =>
      if (matchesFind st1.ml .brk).isSome then
        (.nomatch, { st1 with ml := (matchesRemove st1.ml .brk).1 })
      else if (matchesFind st1.ml .pass).isSome then
        let (ml2, n) := matchesRemove st1.ml .pass
        (if n == 0 then .nomatch else .match, { st1 with ml := ml2 })
      else (ev, st1)
  | .and _ l r, part, m, st =>
    match evalL L env root l part m st with
    | (.match, st1) => evalL L env root r part m st1
    | other => other
  | .or _ l r, part, m, st =>
    match evalL L env root l part m st with
    | (.nomatch, st1) => evalL L env root r part m st1
    | other => other
  | .neg _ e, part, m, st =>
    let n := st.ml.length
    match evalL L env root e part m st with
    | (.error, st1) => (.error, st1)
    | (.nomatch, st1) => (.match, st1)
    | (.match, st1) => (.nomatch, { st1 with ml := st1.ml.take n })
  | .mtch lno c rhs, part, m, st =>
    let (ml, failed) := matchesAppendL L env st.ml { ty := .mtch, lno := lno, part := part }
    if failed then (.error, { st with ml := ml })
    else
      match evalL L env root c part m { st with ml := ml } with
      | (.match, st1) => evalL L env root rhs part m st1
      | other => other
  | .all _, _, _, st => (.match, st)
  | .attachment _ e, part, m, st =>
    match getAttachments m with
    | none => (.error, st)
    | some parts =>
      let rec loop (ps : List Msg) (i : Nat) (st : St) : Tri × St :=
        match ps with
        | [] => (.nomatch, st)
        | p :: rest =>
          match evalL L env root e (if part == 0 then i + 1 else part) p st with
          | (.nomatch, st1) => loop rest (i + 1) st1
          | other => other
      loop parts 0 st
  | .attBlock _ blk, part, m, st =>
    match getAttachments m with
    | none => (.error, st)
    | some parts =>
      let rec loopB (ps : List Msg) (i : Nat) (ev : Tri) (st : St) : Tri × St :=
        match ps with
        | [] => (ev, st)
        | p :: rest =>
          match evalL L env root blk (if part == 0 then i + 1 else part) p st with
          | (.error, st1) => (.error, st1)
          | (.match, st1) => loopB rest (i + 1) .match st1
          | (.nomatch, st1) => loopB rest (i + 1) ev st1
      loopB parts 0 .nomatch st
  | .body lno p, part, m, st =>
    match getBody m with
    | none => (.error, st)
    | some b => exprRegexecL L env .body lno part p (ofString "Body") b st
  | .date lno field cmp age, part, m, st =>
    let dt : Option (Option (Int × Bytes)) :=
      match field with
      | .header =>
        match getHeader1 m (ofString "Date") with
        | none => some none
        | some d =>
          match timeParse env.strptime env.zoneName d with
          | none => none
          | some t => some (some (t, d))
      | f =>
        match env.fileTime env.path with
        | none => none
        | some sb =>
          let tim : Int := match f with
            | .access => sb.atime
            | .modified => sb.mtime
            | .created => sb.ctime
            | .header => 0
          match env.timeFormat tim with
          | none => none
          | some s => some (some (tim, s))
    match dt with
    | none => (.error, st)
    | some none => (.nomatch, st)
    | some (some (tim, date)) =>
      if !dateMatches cmp age env.now tim then (.nomatch, st)
      else exprRegexecL L env .date lno part { src := [46, 42] } (ofString "Date") date st
  | .header lno names p, part, m, st =>
    let rec keys (ks : List Bytes) (st : St) : Tri × St :=
      match ks with
      | [] => (.nomatch, st)
      | k :: rest =>
        match getHeader m k with
        | none => keys rest st
        | some vals =>
          let rec values (vs : List Bytes) (st : St) : Option (Tri × St) :=
            match vs with
            | [] => none
            | v :: more =>
              match exprRegexecL L env .header lno part p k v st with
              | (.nomatch, st1) => values more st1
              | other => some other
          match values vals st with
          | some r => r
          | none => keys rest st
    keys names st
  | .new _, _, _, st =>
    (if pathsliceL env.path L.nameMax1 (-2) (-2) == some [110, 101, 119] then .match else .nomatch, st)
  | .old _, part, _, st =>
    if flagsIsSet (if part == 0 then st.flags else MFlags.empty) 83 then (.nomatch, st)
    else (if pathsliceL env.path L.nameMax1 (-2) (-2) == some [99, 117, 114] then .match else .nomatch, st)
  | .stat lno path, part, _, st =>
    let mh : Match := { ty := .stat, lno := lno, part := part, strings := [path] }
    let (ml, failed) := matchesAppendL L env st.ml mh
    let ev : Tri :=
      if failed then .error
      else
        match strlcpyL L.pathMax path with
        | none => .error
        | some p =>
          match interpolate ml.dropLast none p with
          | none => .error
          | some ip =>
            match strlcpyL L.pathMax ip with
            | none => .error
            | some ip => if env.isDir ip then .match else .nomatch
    (ev, { st with ml := ml.dropLast })
  | .command lno argv, part, _, st =>
    let mh : Match := { ty := .command, lno := lno, part := part, strings := argv }
    let (ml, failed) := matchesAppendL L env st.ml mh
    let ev : Tri :=
      if failed then .error
      else
        match argv.mapM (interpolate ml.dropLast none) with
        | none => .error
        | some av =>
          let rc := env.command av
          if rc == 0 then .match else if rc < 0 then .error else .nomatch
    (ev, { st with ml := ml.dropLast })
  | .move lno path, part, _, st =>
    match strlcpyL L.pathMax path with
    | none => (.error, st)
    | some p => exprAppendL L env { ty := .move, lno := lno, part := part, maildir := p, strings := [path] } st .match
  | .flag lno subdir, part, _, st =>
    match strlcpyL L.nameMax1 subdir with
    | none => (.error, st)
    | some sd => exprAppendL L env { ty := .flag, lno := lno, part := part, subdir := sd, strings := [subdir] } st .match
  | .flags lno fl, part, _, st =>
    let rec setAll (cs : Bytes) (mf : MFlags) (err : Bool) : MFlags × Bool :=
      match cs with
      | [] => (mf, err)
      | c :: r => match flagsSet mf c with
        | none => setAll r mf true
        | some mf' => setAll r mf' err
    let (mf, err) := setAll fl st.flags false
    if err then (.error, { st with flags := mf })
    else exprAppendL L env { ty := .flags, lno := lno, part := part, strings := [fl] } { st with flags := mf } .match
  | .discard lno, part, _, st => exprAppendL L env { ty := .discard, lno := lno, part := part } st .match
  | .brk lno, part, _, st => exprAppendL L env { ty := .brk, lno := lno, part := part } st .match
  | .label lno ls, part, _, st => exprAppendL L env { ty := .label, lno := lno, part := part, strings := ls } st .match
  | .pass lno, part, _, st => exprAppendL L env { ty := .pass, lno := lno, part := part } st .nomatch
  | .reject lno, part, _, st => exprAppendL L env { ty := .reject, lno := lno, part := part } st .match
  | .exec lno si bo argv, part, _, st =>
    exprAppendL L env { ty := .exec, lno := lno, part := part, strings := argv, execStdin := si, execBody := bo } st .match
  | .addHeader lno k v, part, _, st =>
    exprAppendL L env { ty := .addHeader, lno := lno, part := part, hkey := k, hval := v } st .match

/-- `match_interpolate(mh, macros)`: only the `stat` / `move` entries copy a path into a buffer (`mh_path`); every other
entry is handled as in the model. -/
def matchInterpolateL (L : Limits) (macros : Option (List (Bytes × Bytes))) (ml : MatchList) (i : Nat) (mh : Match)
    (msgs : Nat → Msg) : Option (Match × Option (Nat × Msg)) :=
  match mh.ty with
  | .stat | .move =>
    match interpolate (ml.take i) macros mh.path with
    | none => none
    | some p => (strlcpyL L.pathMax p).map fun p => ({ mh with path := p }, none)
  | _ => matchInterpolate macros ml i mh msgs

/-- `matches_interpolate(ml)`. -/
def matchesInterpolateL (L : Limits) (env : Env) (ml : MatchList) (msgs : Nat → Msg) : Option (MatchList × (Nat → Msg)) :=
  let macros := some [(ofString "path", env.path)]
  let rec go (i : Nat) (rest : MatchList) (cur : MatchList) (msgs : Nat → Msg) : Option (MatchList × (Nat → Msg)) :=
    match rest with
    | [] => some (cur, msgs)
    | mh :: more =>
      match matchInterpolateL L macros cur i mh msgs with
      | none => none
      | some (mh', upd) =>
        let cur' := cur.set i mh'
        let msgs' := match upd with
          | none => msgs
          | some (k, m) => fun j => if j == k then m else msgs j
        go (i + 1) more cur' msgs'
  go 0 ml ml msgs

end Mdsort.Model
