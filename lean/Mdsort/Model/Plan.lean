import Mdsort.Model.Main

/-!
# Execution of a program under a fault plan

`predict w c` is the result the abstract file system gives call `c` when nothing goes wrong
(including the failures that are part of normal operation: `EEXIST` on an exclusive create of
an existing name, `EXDEV` on a rename across devices, `ENOENT` for a missing name).  A plan
maps the index of a call to a fault: fail with an errno, or transfer fewer bytes.  `runPlan`
executes a program call by call and records the world after every call, which is what the
crash-point statements quantify over.
-/

namespace Mdsort.Model
open Mdsort

inductive Fault where
  | fail (errno : String)
  | short (n : Nat)           -- a read/write transfers only n > 0 bytes (fewer than asked)
deriving Repr, DecidableEq

abbrev Plan := Nat → Option Fault

def predict (w : World) : Call → Res
  | .opendir p => if (w.dir p).isSome then .ok w.handles.length else .err "ENOENT"
  | .readdir d =>
    match w.obj d with
    | .dir p snap pos =>
      let names := snap.getD ((w.dir p).map sortedNames |>.getD [])
      match names[pos]? with
      | some n => .name n
      | none => .eof
    | _ => .err "EBADF"
  | .rewinddir _ => .ok 0
  | .closedir _ => .ok 0
  | .openRd d n =>
    match (w.dirPath d).bind fun p => w.lookup p n with
    | some _ => .ok w.handles.length
    | none => .err "ENOENT"
  | .openExcl d n =>
    match w.dirPath d with
    | none => .err "EBADF"
    | some p => if (w.lookup p n).isSome then .err "EEXIST" else .ok w.handles.length
  | .openPath _ => .ok w.handles.length
  | .fopen _ => .ok w.handles.length
  | .read fd =>
    match w.obj fd with
    | .file fid off _ => .ok (((w.file fid).map fun f => f.data.length - off).getD 0)
    | _ => .ok 0
  | .write _ data => .ok data.length
  | .fprintf _ data => .ok data.length
  | .dupfd _ => .ok w.handles.length
  | .mkostemp _ => .ok w.handles.length
  | .mkdtemp t => .name t
  | .renameat d1 n1 d2 _ =>
    match w.dirPath d1, w.dirPath d2 with
    | some p1, some p2 =>
      if w.device p1 != w.device p2 then .err "EXDEV"
      else if (w.lookup p1 n1).isSome then .ok 0 else .err "ENOENT"
    | _, _ => .err "EBADF"
  | .unlinkat d n =>
    match (w.dirPath d).bind fun p => w.lookup p n with
    | some _ => .ok 0
    | none => .err "ENOENT"
  | .fstatat d n =>
    match (w.dirPath d).bind fun p => w.lookup p n with
    | some fid => .ok (w.mtime fid)
    | none => .err "ENOENT"
  | .utimensat d n _ _ =>
    match (w.dirPath d).bind fun p => w.lookup p n with
    | some _ => .ok 0
    | none => .err "ENOENT"
  | .rmdir p => match w.dir p with
    | some [] => .ok 0
    | some _ => .err "ENOTEMPTY"
    | none => .err "ENOENT"
  | .waitpid => .ok 0
  | _ => .ok 0

/-- The result of call number `i` under the plan. -/
def planResult (plan : Plan) (i : Nat) (w : World) (c : Call) : Res :=
  match plan i with
  | none => predict w c
  | some (.fail e) => .err e
  | some (.short n) =>
    match c, predict w c with
    | .read _, .ok m => if 0 < n && n < m then .ok n else .ok m
    | .write _ _, .ok m => if 0 < n && n < m then .ok n else .ok m
    | _, r => r

/-- Apply a result; an impossible result (never produced by `planResult` on a consistent
world) leaves the world unchanged. -/
def stepWorld (w : World) (c : Call) (r : Res) : World :=
  let w1 := (applyOk w c r).getD w
  { w1 with trace := w1.trace ++ [(c, r)] }

/-- Run a program: final value, final world, and the world after each call (oldest first). -/
def runPlan {α} (plan : Plan) : Prog α → World → Nat → List World → α × World × List World
  | .ret a, w, _, hist => (a, w, hist)
  | .call c k, w, i, hist =>
    let r := planResult plan i w c
    let w' := stepWorld w c r
    runPlan plan (k r) w' (i + 1) (hist ++ [w'])

def Plan.none : Plan := fun _ => Option.none

/-- Number of faults a plan injects among the first `n` calls. -/
def Plan.count (plan : Plan) (n : Nat) : Nat := ((List.range n).filter fun i => (plan i).isSome).length

end Mdsort.Model

namespace Mdsort.Model

/-- Run a program against ARBITRARY results (`orc i c` is the result of the i-th call): this
covers every behaviour of the file system, of faults and of other parties acting in between.
Returns the value and the trace of calls with their results. -/
def runOracle {α} (orc : Nat → Call → Res) : Prog α → Nat → List (Call × Res) → α × List (Call × Res)
  | .ret a, _, tr => (a, tr)
  | .call c k, i, tr => runOracle orc (k (orc i c)) (i + 1) (tr ++ [(c, orc i c)])

/-- Names this run created with a successful exclusive create. -/
def createdNames (tr : List (Call × Res)) : List Bytes :=
  tr.filterMap fun
    | (.openExcl _ n, .ok _) => some n
    | _ => none

end Mdsort.Model
