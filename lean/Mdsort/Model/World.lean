import Mdsort.Bytes

/-!
# World model: libc calls, their results, an abstract file system, and programs over them

Every libc call mdsort makes on the file system or on processes is a `Call`; a program is a
tree of calls whose continuation receives the call's `Res`ult (`Prog`).  The same program is
interpreted in two ways:

* `runPlan`: results are what the abstract file system predicts, except where a fault plan
  injects a failure or a short transfer - this is what the theorems quantify over;
* `conform`: results are the ones observed in a trace of the real binary - this ties the
  program to the implementation (the next call the program issues must be the next call of
  the trace, and the observed result must be possible in the abstract file system).

Descriptors are handles numbered in order of creation (the trace is canonicalised the same way).

The one call that starts another program, `fork argv stdin`, carries what the child does before it is that program:
`dup2(stdin, 0)` of THAT handle, `execvp(argv[0], argv)` of THAT vector (util.c `exec()`); the shim observes both in the
real child, `conform` compares them (package p14).
-/

namespace Mdsort.Model
open Mdsort

abbrev Handle := Nat

inductive Call where
  | opendir (path : Bytes)
  | readdir (d : Handle)
  | rewinddir (d : Handle)
  | closedir (d : Handle)
  | openRd (d : Handle) (name : Bytes)            -- openat(dirfd, name, O_RDONLY|O_CLOEXEC)
  | openExcl (d : Handle) (name : Bytes)          -- openat(dirfd, name, O_WRONLY|O_CREAT|O_EXCL|O_CLOEXEC)
  | openPath (path : Bytes)                       -- open(path, O_RDONLY|O_CLOEXEC)
  | fopen (path : Bytes)                          -- the configuration file
  | read (fd : Handle)
  | write (fd : Handle) (data : Bytes)            -- the bytes the program hands to write(2)
  | fsync (fd : Handle)
  | close (fd : Handle)
  | dupfd (fd : Handle)                           -- fcntl(F_DUPFD_CLOEXEC)
  | fdopen (fd : Handle)
  | fprintf (fd : Handle) (data : Bytes)          -- the bytes the format produces
  | fflush (fd : Handle)
  | fclose (fd : Handle)
  | renameat (d1 : Handle) (n1 : Bytes) (d2 : Handle) (n2 : Bytes)
  | unlinkat (d : Handle) (name : Bytes)
  | unlink (path : Bytes)
  | fstatat (d : Handle) (name : Bytes)
  | stat (path : Bytes)
  | utimensat (d : Handle) (name : Bytes) (atime mtime : Option Nat)   -- `none` = UTIME_OMIT; times in ns, 0 = "now"
  | lseek (fd : Handle)
  | mkostemp (template : Bytes)
  | mkdtemp (template : Bytes)
  | mkdir (path : Bytes)
  | rmdir (path : Bytes)
  | fork (argv : List Bytes) (stdin : Handle)      -- fork(); in the child: dup2(stdin, 0); execvp(argv[0], argv)
  | waitpid
deriving Repr, DecidableEq

/-- Is this call one that changes a maildir or TMPDIR (creates, renames, removes, writes, touches)? -/
def Call.mutating : Call → Bool
  | .openExcl .. | .write .. | .fprintf .. | .renameat .. | .unlinkat .. | .unlink .. | .utimensat ..
  | .mkostemp .. | .mkdtemp .. | .mkdir .. | .rmdir .. => true
  | _ => false

/-- Is this call a `fork` (whatever the child is going to run)? -/
def Call.isFork : Call → Bool
  | .fork .. => true
  | _ => false

theorem Call.not_mutating_of_isFork {c : Call} (h : c.isFork = true) : c.mutating = false := by
  cases c <;> first | rfl | cases h

theorem Call.isFork_iff {c : Call} : c.isFork = true ↔ ∃ argv s, c = .fork argv s := by
  cases c <;> simp [Call.isFork]

inductive Res where
  | ok (v : Nat)               -- 0, a byte count, a new handle, a wait status
  | name (n : Bytes)           -- readdir entry, mkdtemp/mkostemp created path
  | eof                        -- readdir END
  | err (errno : String)
deriving Repr, DecidableEq

/-- Same call, disregarding the payload of write/fprintf (a trace only shows the byte count).  Every other
constructor is compared with all its arguments: for `fork` that is the argument vector the child hands to `execvp`
and the handle it makes its standard input. -/
def Call.same : Call → Call → Bool
  | .write a _, .write b _ => a == b
  | .fprintf a _, .fprintf b _ => a == b
  | a, b => a == b

def Res.isErr : Res → Bool
  | .err _ => true
  | _ => false

/-- Programs: a call and what to do with its result, or a final value. -/
inductive Prog (α : Type) where
  | ret (a : α)
  | call (c : Call) (k : Res → Prog α)

def Prog.bind {α β} : Prog α → (α → Prog β) → Prog β
  | .ret a, f => f a
  | .call c k, f => .call c (fun r => (k r).bind f)

instance : Monad Prog where
  pure := .ret
  bind := Prog.bind

def call (c : Call) : Prog Res := .call c .ret

/-! ## abstract file system -/

structure File where
  data : Bytes                 -- what a reader sees
  durable : Bytes              -- content as of the last successful fsync
deriving Repr, DecidableEq

/-- What an open handle refers to. -/
inductive Obj where
  | dir (path : Bytes) (snapshot : Option (List Bytes)) (pos : Nat)    -- directory stream
  | file (fid : Nat) (off : Nat) (writable : Bool)
  | stream (fid : Nat) (buf : Bytes)       -- stdio stream on a file: `buf` not yet written
  | other                                   -- /dev/null, the configuration file
  | closed
deriving Repr, DecidableEq

structure World where
  dirs : List (Bytes × List (Bytes × Nat))    -- directory path -> name -> file id
  files : List (Nat × File)
  nextFid : Nat
  handles : List Obj                           -- handle h is handles[h]
  devs : List (Bytes × Nat)                    -- directory path prefix -> device (default 0)
  mtimes : List (Nat × Nat) := []              -- file id -> modification time in ns; absent / 0 = set while this process ran
  trace : List (Call × Res)                    -- calls issued so far, oldest first
deriving Repr

def World.file (w : World) (fid : Nat) : Option File := (w.files.find? (·.1 == fid)).map (·.2)
def World.dir (w : World) (path : Bytes) : Option (List (Bytes × Nat)) := (w.dirs.find? (·.1 == path)).map (·.2)
def World.lookup (w : World) (path name : Bytes) : Option Nat :=
  (w.dir path).bind fun es => (es.find? (·.1 == name)).map (·.2)
def World.obj (w : World) (h : Handle) : Obj := w.handles.getD h .closed
def World.mtime (w : World) (fid : Nat) : Nat := ((w.mtimes.find? (·.1 == fid)).map (·.2)).getD 0
def World.setMtime (w : World) (fid t : Nat) : World := { w with mtimes := (fid, t) :: w.mtimes.filter (·.1 != fid) }

def World.setFile (w : World) (fid : Nat) (f : File) : World :=
  { w with files := (w.files.filter (·.1 != fid)) ++ [(fid, f)] }
def World.setDir (w : World) (path : Bytes) (es : List (Bytes × Nat)) : World :=
  { w with dirs := w.dirs.map fun d => if d.1 == path then (path, es) else d }
def World.bind (w : World) (path name : Bytes) (fid : Nat) : World :=
  match w.dir path with
  | some es => w.setDir path ((es.filter (·.1 != name)) ++ [(name, fid)])
  | none => w
def World.unbind (w : World) (path name : Bytes) : World :=
  match w.dir path with
  | some es => w.setDir path (es.filter (·.1 != name))
  | none => w
def World.newHandle (w : World) (o : Obj) : World × Handle :=
  ({ w with handles := w.handles ++ [o] }, w.handles.length)
def World.setObj (w : World) (h : Handle) (o : Obj) : World := { w with handles := w.handles.set h o }

def World.dirPath (w : World) (h : Handle) : Option Bytes :=
  match w.obj h with
  | .dir p _ _ => some p
  | _ => none

def World.device (w : World) (path : Bytes) : Nat :=
  match (w.devs.filter fun d => d.1.isPrefixOf path) with
  | [] => 0
  | ds => (ds.foldl (fun best d => if d.1.length > best.1.length then d else best) ([], 0)).2

/-- Sorted names of a directory as the shim's snapshot presents them (`.`, `..` first). -/
def sortedNames (es : List (Bytes × Nat)) : List Bytes :=
  (([46] : Bytes) :: ([46, 46] : Bytes) :: es.map (fun e => e.1)).mergeSort (fun a b => decide (a ≤ b))

/-- Data transferred by a successful `write` / `fprintf` (the program knows what it wrote). -/
def applyWrite (w : World) (fd : Handle) (data : Bytes) (n : Nat) : World :=
  match w.obj fd with
  | .file fid off wr =>
    match w.file fid with
    | some f => (w.setFile fid { f with data := f.data ++ data.take n }).setObj fd (.file fid (off + n) wr)
    | none => w
  | .stream fid buf => w.setObj fd (.stream fid (buf ++ data.take n))
  | _ => w

/-- The effect of a call that SUCCEEDED with result `r` on the abstract world, `none` if such a
result is impossible in this world (e.g. a successful rename of a name that is not bound).
Failed calls have no effect, except that `close`/`fclose`/`closedir` always release the handle. -/
def applyOk (w : World) (c : Call) (r : Res) : Option World :=
  match c, r with
  | .opendir p, .ok _ => (w.dir p).map fun _ => (w.newHandle (.dir p none 0)).1
  | .readdir d, .name n =>
    match w.obj d with
    | .dir p snap pos =>
      let names := snap.getD ((w.dir p).map sortedNames |>.getD [])
      if names[pos]? == some n then some (w.setObj d (.dir p (some names) (pos + 1))) else none
    | _ => none
  | .readdir d, .eof =>
    match w.obj d with
    | .dir p snap pos =>
      let names := snap.getD ((w.dir p).map sortedNames |>.getD [])
      if pos ≥ names.length then some (w.setObj d (.dir p (some names) pos)) else none
    | _ => none
  | .rewinddir d, .ok _ =>
    match w.obj d with
    | .dir p _ _ => some (w.setObj d (.dir p none 0))
    | _ => none
  | .closedir d, _ => some (w.setObj d .closed)
  | .openRd d n, .ok _ =>
    (w.dirPath d).bind fun p => (w.lookup p n).map fun fid => (w.newHandle (.file fid 0 false)).1
  | .openExcl d n, .ok _ =>
    (w.dirPath d).bind fun p =>
      match w.lookup p n with
      | some _ => none                     -- O_EXCL cannot succeed on an existing name
      | none =>
        let fid := w.nextFid
        let w1 := { w with nextFid := fid + 1 }
        let w2 := (w1.setFile fid { data := [], durable := [] }).bind p n fid
        some (w2.newHandle (.file fid 0 true)).1
  | .openPath _, .ok _ => some (w.newHandle .other).1
  | .fopen _, .ok _ => some (w.newHandle .other).1
  | .read fd, .ok n =>
    match w.obj fd with
    | .file fid off wr =>
      (w.file fid).bind fun f =>
        if off + n ≤ f.data.length && (n > 0 || off == f.data.length) then some (w.setObj fd (.file fid (off + n) wr)) else none
    | .other => some w
    | _ => none
  | .write fd data, .ok n =>
    if n == 0 || n > data.length then none else some (applyWrite w fd data n)
  | .fsync fd, .ok _ =>
    match w.obj fd with
    | .file fid _ _ => (w.file fid).map fun f => w.setFile fid { f with durable := f.data }
    | .stream fid _ => (w.file fid).map fun f => w.setFile fid { f with durable := f.data }
    | _ => none
  | .close fd, _ => some (w.setObj fd .closed)
  | .dupfd fd, .ok _ =>
    match w.obj fd with
    | .file fid off wr => some (w.newHandle (.file fid off wr)).1
    | .other => some (w.newHandle .other).1
    | _ => none
  | .fdopen fd, .ok _ =>
    match w.obj fd with
    | .file fid _ _ => some (w.setObj fd (.stream fid []))
    | _ => none
  | .fprintf fd data, .ok n =>
    if n != data.length then none else some (applyWrite w fd data n)
  | .fflush fd, .ok _ =>
    match w.obj fd with
    | .stream fid buf => (w.file fid).map fun f => (w.setFile fid { f with data := f.data ++ buf }).setObj fd (.stream fid [])
    | _ => none
  | .fclose fd, res =>
    match w.obj fd with
    | .stream fid buf =>
      -- a successful fclose has flushed the buffer; a failed one may or may not have (kept as not)
      (w.file fid).map fun f =>
        (if res.isErr then w else w.setFile fid { f with data := f.data ++ buf }).setObj fd .closed
    | .other => some (w.setObj fd .closed)
    | _ => none
  | .renameat d1 n1 d2 n2, .ok _ =>
    (w.dirPath d1).bind fun p1 => (w.dirPath d2).bind fun p2 =>
      (w.lookup p1 n1).map fun fid => ((w.unbind p1 n1).bind p2 n2 fid)
  | .unlinkat d n, .ok _ =>
    (w.dirPath d).bind fun p => (w.lookup p n).map fun _ => w.unbind p n
  | .unlink _, .ok _ => some w           -- the unlinked temporary file lives outside every maildir
  | .fstatat d n, .ok v =>
    -- the value of a successful fstatat is the file's modification time (the only field mdsort uses)
    (w.dirPath d).bind fun p => (w.lookup p n).bind fun fid =>
      if w.mtime fid == v then some w else none
  | .stat _, .ok _ => some w
  | .utimensat d n _ mt, .ok _ =>
    (w.dirPath d).bind fun p => (w.lookup p n).map fun fid =>
      match mt with
      | some t => w.setMtime fid t
      | none => w
  | .lseek _, .ok _ => some w
  | .mkostemp _, .ok _ =>
    let fid := w.nextFid
    let w1 := ({ w with nextFid := fid + 1 }).setFile fid { data := [], durable := [] }
    some (w1.newHandle (.file fid 0 true)).1
  | .mkdtemp _, .name p => some { w with dirs := w.dirs ++ [(p, [])] }
  | .mkdir p, .ok _ => some { w with dirs := w.dirs ++ [(p, [])] }
  | .rmdir p, .ok _ =>
    match w.dir p with
    | some [] => some { w with dirs := w.dirs.filter (·.1 != p) }
    | _ => none
  | .fork _ _, .ok _ => some w
  | .waitpid, .ok _ => some w
  | _, .err _ => some w
  | _, _ => none

end Mdsort.Model
