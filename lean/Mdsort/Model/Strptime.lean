import Mdsort.Model.Time

/-!
# Model of `strptime(3)` in the C locale, for the directives of `formats[]` (time.c)

mdsort calls `setlocale(LC_CTYPE, "")` only, so `LC_TIME` is always the C locale: the names `strptime` knows are
the English ones.  This file is an INTERPRETER of a format string following glibc 2.36
(`time/strptime_l.c`, `__strptime_internal`):

* a white-space character of the format matches zero or more white-space characters of the input;
* any other character but `%` must be matched by the same character;
* `%a` day of week, `%b` month: every full and every abbreviated name is compared with the input,
  case-insensitively (`strncasecmp_l`), and the LONGEST one that matches is taken (`rp_longest`); no white space is
  skipped in front of a name;
* `%d` `%H` `%M` `%S` `%Y` are `get_number(from, to, n)`: white space is skipped, at least one digit is required, digits
  are taken `while (--n > 0 && val * 10 <= to && '0' <= *rp && *rp <= '9')`, and the value must lie in `from..to`
  (`%d` 1..31, `%H` 0..23, `%M` 0..59, `%S` 0..61, 2 digits; `%Y` 0..9999, 4 digits, no sign);
* every other directive (and a `%` at the end of the format) is UNKNOWN to this interpreter: `parseFmt` fails and
  so does every parse with that format.  A layout of `formats[]` using another directive therefore falsifies
  `C15_layouts` and the end-to-end theorems instead of being silently misread.

The fields are written into the caller's `struct tm` as the directives are met and stay written when a later
directive fails; `timeparse` (time.c) passes the SAME `struct tm` to `strptime` for one layout after the other.
`strptimeFrom` therefore takes the broken-down time it starts from and returns the one it leaves, also on failure.

Not modelled: `tm_wday` / `tm_yday` (computed by glibc at the end of a successful parse; `timegm` ignores both), so the
day NAME has no influence on the result at all.  Bytes above 127 are neither letters nor white space (C, C.utf8,
POSIX locales; checked against the platform by the `strp` stage of the C15 check).
-/

namespace Mdsort.Model
open Mdsort

/-- One element of a format string. -/
inductive Dir where
  | lit (c : UInt8)     -- an ordinary character
  | space               -- a white-space character of the format
  | wday                -- %a
  | month               -- %b
  | mday                -- %d
  | year                -- %Y
  | hour                -- %H
  | minute              -- %M
  | second              -- %S
deriving Repr, DecidableEq

/-- The conversion characters this interpreter knows. -/
def dirOf (c : UInt8) : Option Dir :=
  if c == 97 then some .wday          -- a
  else if c == 98 then some .month    -- b
  else if c == 100 then some .mday    -- d
  else if c == 89 then some .year     -- Y
  else if c == 72 then some .hour     -- H
  else if c == 77 then some .minute   -- M
  else if c == 83 then some .second   -- S
  else none

/-- The format string as a list of directives; `none` for a conversion this interpreter does not know
(flags and `E`/`O` modifiers included) and for a `%` at the end.  `pct`: the previous character was the `%`. -/
def parseFmtAux : (pct : Bool) → Bytes → Option (List Dir)
  | false, [] => some []
  | true, [] => none
  | false, c :: r =>
    if isspace c then (parseFmtAux false r).map (Dir.space :: ·)
    else if c == 37 then parseFmtAux true r
    else (parseFmtAux false r).map (Dir.lit c :: ·)
  | true, d :: r =>
    match dirOf d with
    | none => none
    | some x => (parseFmtAux false r).map (x :: ·)

def parseFmt (fmt : Bytes) : Option (List Dir) := parseFmtAux false fmt

/-! ## names -/

/-- `weekday_name` / `ab_weekday_name` of strptime_l.c (= `DAY_1..`, `ABDAY_1..` of the C locale): Sunday first. -/
def weekdayNames : List (String × String) :=
  [("Sunday", "Sun"), ("Monday", "Mon"), ("Tuesday", "Tue"), ("Wednesday", "Wed"), ("Thursday", "Thu"),
   ("Friday", "Fri"), ("Saturday", "Sat")]

/-- `month_name` / `ab_month_name` (= `MON_1..`, `ABMON_1..`, and the `ALTMON` names, of the C locale). -/
def monthNames : List (String × String) :=
  [("January", "Jan"), ("February", "Feb"), ("March", "Mar"), ("April", "Apr"), ("May", "May"), ("June", "Jun"),
   ("July", "Jul"), ("August", "Aug"), ("September", "Sep"), ("October", "Oct"), ("November", "Nov"), ("December", "Dec")]

/-- `match_string(name, rp)` as a test: `strncasecmp(name, rp, strlen(name)) == 0`. -/
def nameMatches : (name s : Bytes) → Bool
  | [], _ => true
  | _ :: _, [] => false
  | n :: ns, c :: s => tolower n == tolower c && nameMatches ns s

/-- The loop over the names: index and length of the longest name (full or abbreviated) the input begins with;
a later name replaces an earlier one only when it is strictly longer (`trp > rp_longest`). -/
def bestName : (tbl : List (Bytes × Bytes)) → (idx : Nat) → (best : Option (Nat × Nat)) → (s : Bytes) → Option (Nat × Nat)
  | [], _, best, _ => best
  | (full, ab) :: tbl, idx, best, s =>
    let longer (b : Option (Nat × Nat)) (n : Bytes) : Option (Nat × Nat) :=
      if nameMatches n s && (match b with | none => true | some (_, l) => decide (l < n.length)) then some (idx, n.length) else b
    bestName tbl (idx + 1) (longer (longer best full) ab) s

def nameTable (t : List (String × String)) : List (Bytes × Bytes) := t.map fun (a, b) => (ofString a, ofString b)

/-- `%a` / `%b`: the index of the name and the input behind it. -/
def matchName (t : List (String × String)) (s : Bytes) : Option (Nat × Bytes) :=
  match bestName (nameTable t) 0 none s with
  | none => none
  | some (i, l) => some (i, s.drop l)

/-! ## numbers -/

/-- The `do ... while (--n > 0 && val * 10 <= to && isdigit(*rp))` of `get_number`, after the first digit:
`k` is the number of further digits allowed. -/
def numLoop (hi : Nat) : (k : Nat) → (val : Nat) → Bytes → Nat × Bytes
  | 0, v, s => (v, s)
  | k + 1, v, s =>
    if v * 10 ≤ hi then
      match s with
      | [] => (v, s)
      | c :: r =>
        match digitVal c with
        | some d => numLoop hi k (v * 10 + d) r
        | none => (v, s)
    else (v, s)

/-- `get_number(lo, hi, n)`. -/
def getNumber (lo hi n : Nat) (s : Bytes) : Option (Nat × Bytes) :=
  match s.dropWhile isspace with
  | [] => none
  | c :: r =>
    match digitVal c with
    | none => none
    | some d =>
      let (v, rest) := numLoop hi (n - 1) d r
      if v < lo || hi < v then none else some (v, rest)

/-! ## the interpreter -/

/-- One directive: the broken-down time with the field written, and the input behind what was consumed. -/
def stepDir (d : Dir) (s : Bytes) (tm : Tm) : Option (Tm × Bytes) :=
  match d with
  | .space => some (tm, s.dropWhile isspace)
  | .lit c =>
    match s with
    | x :: r => if x == c then some (tm, r) else none
    | [] => none
  | .wday => (matchName weekdayNames s).map fun (_, r) => (tm, r)          -- tm_wday: not a field of `Tm`
  | .month => (matchName monthNames s).map fun (i, r) => ({ tm with mon := (i : Int) }, r)
  | .mday => (getNumber 1 31 2 s).map fun (v, r) => ({ tm with mday := (v : Int) }, r)
  | .year => (getNumber 0 9999 4 s).map fun (v, r) => ({ tm with year := (v : Int) }, r)
  | .hour => (getNumber 0 23 2 s).map fun (v, r) => ({ tm with hour := (v : Int) }, r)
  | .minute => (getNumber 0 59 2 s).map fun (v, r) => ({ tm with min := (v : Int) }, r)
  | .second => (getNumber 0 61 2 s).map fun (v, r) => ({ tm with sec := (v : Int) }, r)

/-- The directives in order; what was written before a failing directive stays written. -/
def runDirs : List Dir → Bytes → Tm → Tm × Option Bytes
  | [], s, tm => (tm, some s)
  | d :: ds, s, tm =>
    match stepDir d s tm with
    | none => (tm, none)
    | some (tm', s') => runDirs ds s' tm'

/-- `strptime(s, fmt, &tm)` with `tm` as found: the `struct tm` afterwards and the unparsed rest (`none` = NULL). -/
def strptimeFrom (fmt : Bytes) (s : Bytes) (tm : Tm) : Tm × Option Bytes :=
  match parseFmt fmt with
  | none => (tm, none)
  | some ds => runDirs ds s tm

/-- `memset(&tm, 0, sizeof(tm))`: `tm_year = 0` is the year 1900. -/
def tmZero : Tm := { year := 1900, mon := 0, mday := 0, hour := 0, min := 0, sec := 0 }

/-- `strptime(s, fmt, &tm)` on a zeroed `struct tm`. -/
def strptimeC (fmt : Bytes) (s : Bytes) : Option (Tm × Bytes) :=
  match strptimeFrom fmt s tmZero with
  | (tm, some rest) => some (tm, rest)
  | (_, none) => none

/-- The loop of `timeparse` over `formats[]`: the first layout on which `strptime` succeeds, every call writing into
the same `struct tm`. -/
def timeparseFrom : List String → Bytes → Tm → Option (Tm × Bytes)
  | [], _, _ => none
  | f :: fs, s, tm =>
    match strptimeFrom (ofString f) s tm with
    | (tm', some rest) => some (tm', rest)
    | (tm', none) => timeparseFrom fs s tm'

/-- `timeparse(str, &tm)` of time.c after the `memset` of `time_parse`, the layouts READ FROM THE REGENERATED TABLE. -/
def timeparseC (s : Bytes) : Option (Tm × Bytes) := timeparseFrom Gen.dateFormats s tmZero

end Mdsort.Model
