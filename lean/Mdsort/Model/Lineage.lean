import Mdsort.Model.Plan

/-!
# Lineage of files in the sequential world model: which initial file does a file descend from?

The loss-freedom statements of C01 / C02 used to say "some entry is bound to a file whose BYTES are a complete
version of the message": a byte-identical other message satisfies that whatever happens to the message itself
(audit au1, W1).  Here the identity of a message is followed through a run instead.

A file of the abstract file system has an identity (`fid`) that `rename` preserves; only two calls make new files:
`openat(O_CREAT|O_EXCL)` (`maildir_genname`: the placeholder of a move, the target of a cross-device copy, the new
version written by `label` / `add-header`, the stdin spool) and `mkostemp` (the temporary file of `exec stdin`).
mdsort processes one message at a time, and the processing of a message starts with `message_parse` opening it
(`openat(dirfd, name, O_RDONLY|O_CLOEXEC)`, call `openRd`).  So, reading a trace from the left:

* `cur` - the file the most recent successful `openRd` opened: the message being processed (after `maildir_write`
  the rewritten message is opened again: it is its own successor);
* `org g` - the file `g` descends from: a file created by this run descends from what `cur` descended from at
  the moment of its creation (the message whose action list wrote it); a file that existed before is its own origin
  (`Lin.init`), and so is a file created while nothing has been opened (the stdin spool).

`lineage w l tr` replays a trace `tr` (calls with their results) from the world `w`, `origin w tr` is the resulting
`org` from the initial state.  Nothing here depends on the program that produced the trace.
-/

namespace Mdsort.Model
open Mdsort

structure Lin where
  cur : Option Nat
  org : Nat → Nat

def Lin.init : Lin := { cur := none, org := id }

/-- The file a successful `openat(dirfd, name, O_RDONLY)` opens in `w`. -/
def openedFile (w : World) : Call → Res → Option Nat
  | .openRd d n, .ok _ => (w.dirPath d).bind fun p => w.lookup p n
  | _, _ => none

/-- Does the call make a new file in `w` (its id is then `w.nextFid`)?  An exclusive create of a free name of an open
directory, or `mkostemp`. -/
def createsFile (w : World) : Call → Res → Bool
  | .openExcl d n, .ok _ =>
    match w.dirPath d with
    | some p => (w.lookup p n).isNone
    | none => false
  | .mkostemp _, .ok _ => true
  | _, _ => false

/-- One call: a new file inherits the origin of the message being processed; a successful `openRd` changes the
message being processed. -/
def linStep (w : World) (c : Call) (r : Res) (l : Lin) : Lin :=
  let l1 : Lin :=
    if createsFile w c r then
      { l with org := fun g => if g = w.nextFid then (match l.cur with | some f => l.org f | none => g) else l.org g }
    else l
  match openedFile w c r with
  | some g => { l1 with cur := some g }
  | none => l1

/-- The world after the calls of `tr` with the results recorded there. -/
def replay (w : World) : List (Call × Res) → World
  | [] => w
  | (c, r) :: rest => replay (stepWorld w c r) rest

/-- The lineage after the calls of `tr`, starting from `l` in world `w`. -/
def lineage (w : World) (l : Lin) : List (Call × Res) → Lin
  | [] => l
  | (c, r) :: rest => lineage (stepWorld w c r) (linStep w c r l) rest

/-- `origin w tr g`: the initial file of `w` that `g` descends from after the trace `tr` (`g` itself if `g` existed in
`w`, or was made while no message was open). -/
def origin (w : World) (tr : List (Call × Res)) (g : Nat) : Nat := (lineage w Lin.init tr).org g

/-- The part of the trace of `w'` that was issued after `w`. -/
def traceSince (w w' : World) : List (Call × Res) := w'.trace.drop w.trace.length

/-- The origin of `g` in a world `w'` reached from `w` (read from the trace recorded in `w'`). -/
def originAt (w w' : World) (g : Nat) : Nat := origin w (traceSince w w') g

end Mdsort.Model
