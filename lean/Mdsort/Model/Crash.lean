import Mdsort.Model.Lineage

/-!
# The state after a power failure (C02), as an object of the model

Storage model named by the property: directory operations (create, rename, unlink) persist IN ORDER; the content of a
file persists as of its last successful `fsync`.  A power failure after call `j` therefore leaves the directory entries
of the world after SOME earlier call `i ≤ j` together with, for every file, the `durable` content it has after call `j`.
-/

namespace Mdsort.Model
open Mdsort

/-- The state after a power failure: the directories of `wd` (the world after the metadata operations that reached the
disk), every file holding what `wf` (the world at the moment of the failure) has on stable storage; no descriptor is
open. -/
def crashState (wd wf : World) : World :=
  { wd with
    files := wf.files.map fun x => (x.1, { data := x.2.durable, durable := x.2.durable }),
    handles := [] }

/-- The worlds after the first `i` calls of the trace `tr` issued from `w` (`i = 0`: `w` itself). -/
def worldAt (w : World) (tr : List (Call × Res)) (i : Nat) : World := replay w (tr.take i)

/-- The crash states of a world `w'` reached from `w`: one for every prefix of the calls issued since `w`. -/
def crashStates (w w' : World) : List World :=
  (List.range ((traceSince w w').length + 1)).map fun i => crashState (worldAt w (traceSince w w') i) w'

end Mdsort.Model
