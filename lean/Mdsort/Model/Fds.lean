import Mdsort.Model.World

/-!
# The descriptor table as a view of the trace

A descriptor exists from the call that created it until the call that releases it.  `openFds tr` is
the list of handles created by the calls of `tr` and not yet released, computed from the trace alone
(so it is defined for ARBITRARY results of the calls, not only for executions on the abstract file
system).  The three standard descriptors 0, 1, 2 are not created by a call of the run and are
therefore never in the list: they are the configuration-independent part of the table.

Every constructor of `Call` that creates a descriptor stands for ONE libc call with fixed flags
(Model/World.lean, and the trace canonicaliser `tools/world.py`, which maps an observed call to the
constructor only if its flags are exactly these):

| constructor | libc call | close-on-exec |
|-------------|-----------|---------------|
| `opendir p`    | `opendir(p)`                                         | yes (`O_CLOEXEC` in libc's `opendir`, POSIX.1-2008) |
| `openRd d n`   | `openat(d, n, O_RDONLY\|O_CLOEXEC)`                  | yes |
| `openExcl d n` | `openat(d, n, O_WRONLY\|O_CREAT\|O_EXCL\|O_CLOEXEC)` | yes |
| `openPath p`   | `open(p, O_RDONLY\|O_CLOEXEC)`                       | yes |
| `dupfd fd`     | `fcntl(fd, F_DUPFD_CLOEXEC, 0)`                      | yes |
| `mkostemp t`   | `mkostemp(t, O_CLOEXEC)`                             | yes |
| `fopen p`      | `fopen(p, "r")` (the configuration file)             | NO  |
-/

namespace Mdsort.Model
open Mdsort

/-- A successful call of this kind returns a new descriptor (its `.ok v` is the new handle). -/
def Call.opensFd : Call → Bool
  | .opendir _ | .openRd .. | .openExcl .. | .openPath _ | .fopen _ | .dupfd _ | .mkostemp _ => true
  | _ => false

/-- The descriptor-creating calls whose descriptor has the close-on-exec flag from birth. -/
def Call.cloexec : Call → Bool
  | .opendir _ | .openRd .. | .openExcl .. | .openPath _ | .dupfd _ | .mkostemp _ => true
  | _ => false

/-- The descriptor a call releases (whatever it returns: `close`, `closedir`, `fclose` release even when they fail). -/
def Call.closesFd : Call → Option Handle
  | .close h | .closedir h | .fclose h => some h
  | _ => none

/-- One call's effect on the list of (handle, creating call) pairs. -/
def fdTableStep (acc : List (Handle × Call)) (x : Call × Res) : List (Handle × Call) :=
  match x.1.closesFd with
  | some h => acc.eraseP (·.1 == h)
  | none =>
    match x.2 with
    | .ok v => if x.1.opensFd then acc ++ [(v, x.1)] else acc
    | _ => acc

/-- The descriptors created by the calls of `tr` and not yet released, oldest first, each with the call that created it. -/
def openFdsBy (tr : List (Call × Res)) : List (Handle × Call) := tr.foldl fdTableStep []

/-- The open descriptors (other than 0, 1, 2) after the calls of `tr`. -/
def openFds (tr : List (Call × Res)) : List Handle := (openFdsBy tr).map (·.1)

end Mdsort.Model
