import Mdsort.Bytes
import Mdsort.Model.Decode

/-!
# Model of the header handling of message.c

`skipseparator`, `findheader`, `message_parse_headers`, `message_headers_alloc`,
`cmpheaderkey/id`, `searchheader`, `message_get_header(1)`, `unfoldheader`,
`decodeheader`, `message_set_header`, `message_write` (the bytes it prints).

The message buffer is the C-string view of the file (`cstr`); `findheader`
writes NULs into it, which is modelled by returning the pieces instead.
`qsort` is glibc's stable merge sort (`List.mergeSort`).
-/

namespace Mdsort.Model
open Mdsort

structure Hdr where
  id : Nat
  key : Bytes
  val : Bytes
deriving Repr, DecidableEq, Inhabited

/-- A parsed message (or attachment): header table in its current order and body. -/
structure Msg where
  headers : List Hdr
  body : Bytes
deriving Repr, DecidableEq

/-- `skipseparator`: skip an mbox `From ` line if it is terminated. -/
def skipSeparator (s : Bytes) : Bytes :=
  if startsWith s [70, 114, 111, 109, 32] then
    match strchr s 10 with
    | none => s
    | some p => p.drop 1
  else s

/-- Outcome of `findheader` on the text at `buf`. -/
inductive FindHdr where
  | notHeader                      -- returned 0 before touching the buffer
  | cutAtColon (key : Bytes)       -- wrote NUL at the colon, then found no end of value
  | ok (key val rest : Bytes)
deriving Repr, DecidableEq

/-- The key scan: bytes up to the first `:`, failing on NUL (end) or white space. -/
def scanKey : Bytes → Option (Bytes × Bytes)
  | [] => none
  | c :: r =>
    if c == 58 then some ([], r)
    else if isspace c then none
    else (scanKey r).map fun (k, rest) => (c :: k, rest)

/-- Find the end of the value, honouring line continuations: returns the value
(without the final newline) and what follows that newline.  A newline followed
by a blank (`nspaces > 0`) is a continuation and stays part of the value. -/
def scanValue : Bytes → Option (Bytes × Bytes)
  | [] => none
  | c :: r =>
    if c == 10 then
      match r with
      | b :: _ => if isblank b then (scanValue r).map fun (v, rest) => (c :: v, rest) else some ([], r)
      | [] => some ([], r)
    else (scanValue r).map fun (v, rest) => (c :: v, rest)

/-- Skip the blanks after the colon. -/
def afterColonDrop (s : Bytes) : Bytes := s.drop (nspaces s)

def findHeader (s : Bytes) : FindHdr :=
  match scanKey s with
  | none => .notHeader
  | some (key, afterColon) =>
    match scanValue (afterColonDrop afterColon) with
    | none => .cutAtColon key
    | some (val, rest) => .ok key val rest

theorem scanValue_rest_lt {s v rest : Bytes} (h : scanValue s = some (v, rest)) : rest.length < s.length := by
  induction s generalizing v with
  | nil => simp [scanValue] at h
  | cons c r ih =>
    unfold scanValue at h
    split at h
    · split at h
      · split at h
        · simp only [Option.map_eq_some_iff] at h
          obtain ⟨⟨a, b⟩, hab, heq⟩ := h
          cases heq
          have := ih hab
          simp at this ⊢; omega
        · cases h; simp
      · cases h; simp
    · simp only [Option.map_eq_some_iff] at h
      obtain ⟨⟨a, b⟩, hab, heq⟩ := h
      cases heq
      have := ih hab
      simp at this ⊢; omega

theorem scanKey_rest_lt {s k rest : Bytes} (h : scanKey s = some (k, rest)) : rest.length < s.length := by
  induction s generalizing k with
  | nil => simp [scanKey] at h
  | cons c r ih =>
    unfold scanKey at h
    split at h
    · cases h; simp
    · split at h
      · contradiction
      · simp only [Option.map_eq_some_iff] at h
        obtain ⟨⟨a, b⟩, hab, heq⟩ := h
        cases heq
        have := ih hab
        simp at this ⊢; omega

theorem findHeader_rest_lt {s k v rest : Bytes} (h : findHeader s = .ok k v rest) : rest.length < s.length := by
  unfold findHeader at h
  split at h
  · contradiction
  · rename_i key ac hk
    have h1 := scanKey_rest_lt hk
    split at h
    · contradiction
    · rename_i val r hv
      have h2 := scanValue_rest_lt hv
      cases h
      have h3 : (afterColonDrop ac).length ≤ ac.length := by simp [afterColonDrop]
      omega

/-- The loop of `message_parse_headers`: headers in file order with ids 1, 2, ...;
returns them and the text where parsing stopped (`buf`, as a C string). -/
def parseLoop (s : Bytes) (n : Nat) (acc : List Hdr) : List Hdr × Bytes :=
  match h : findHeader s with
  | .notHeader => (acc, s)
  | .cutAtColon key => (acc, key)      -- the NUL written at the colon ends the buffer
  | .ok key val rest =>
    have := findHeader_rest_lt h
    parseLoop rest (n + 1) (acc ++ [{ id := n + 1, key := key, val := val }])
termination_by s.length

def keyLe (a b : Hdr) : Bool := strcasecmp a.key b.key != .gt
def idLe (a b : Hdr) : Bool := a.id ≤ b.id

def sortByKey (hs : List Hdr) : List Hdr := hs.mergeSort keyLe
def sortById (hs : List Hdr) : List Hdr := hs.mergeSort idLe

/-- `message_parse_headers` on a buffer (after `cstr`): table sorted by name, body
with leading newlines skipped. -/
def parseHeaders (buf : Bytes) : Msg :=
  let (hs, rest) := parseLoop (skipSeparator buf) 0 []
  { headers := sortByKey hs, body := rest.dropWhile (· == 10) }

/-- `message_parse` restricted to the content: the file bytes as a C string. -/
def parseMessage (file : Bytes) : Msg := parseHeaders (cstr file)

/-! ## lookup -/

/-- Scan backwards from `mi` for the first matching header (`beg`). -/
def scanBeg (hs : Array Hdr) (key : Bytes) : Nat → Nat
  | 0 => 0
  | beg + 1 => if strcasecmp key hs[beg]!.key != .eq then beg + 1 else scanBeg hs key beg

/-- Scan forwards from `end` for the first non-matching header. -/
def scanEnd (hs : Array Hdr) (key : Bytes) (e : Nat) : Nat :=
  if h : e < hs.size then
    if strcasecmp key hs[e].key != .eq then e else scanEnd hs key (e + 1)
  else e
termination_by hs.size - e

/-- The binary search of `searchheader` on `[lo, hi]`; `none` is `-1`. -/
def bsearch (hs : Array Hdr) (key : Bytes) (lo hi : Nat) (fuel : Nat) : Option (Nat × Nat) :=
  match fuel with
  | 0 => none
  | fuel + 1 =>
    if lo ≤ hi then
      let mi := lo + (hi - lo) / 2
      match strcasecmp key hs[mi]!.key with
      | .eq =>
        let beg := scanBeg hs key mi
        let e := scanEnd hs key (mi + 1)
        some (beg, e - beg)
      | .gt => bsearch hs key (mi + 1) hi fuel
      | .lt => if mi > 0 then bsearch hs key lo (mi - 1) fuel else none
    else none

/-- `searchheader(headers, nmemb, key, &nfound)`: `(index, nfound)`. -/
def searchHeader (hs : List Hdr) (key : Bytes) : Option (Nat × Nat) :=
  if hs.length == 0 then none
  else bsearch hs.toArray key 0 (hs.length - 1) (hs.length + 1)

theorem dropWhile_length_le' {α} (p : α → Bool) (l : List α) : (l.dropWhile p).length ≤ l.length := by
  induction l with
  | nil => simp
  | cons x r ih => simp only [List.dropWhile_cons]; split <;> simp <;> omega

/-- `unfoldheader`, the loop. -/
def unfoldLoop (s : Bytes) : Bytes :=
  match s with
  | [] => []
  | c :: r =>
    let s1 := (c :: r).dropWhile (· == 9)          -- for (; *str == '\t'; str++)
    let line := s1.takeWhile (· != 10)
    match h : s1.dropWhile (· != 10) with
    | [] => line
    | _ :: rest' =>
      have : rest'.length < (c :: r).length := by
        have h1 := dropWhile_length_le' (· != 10) s1
        have h2 := dropWhile_length_le' (· == 9) (c :: r)
        rw [h] at h1
        simp only [s1, List.length_cons] at h1 h2 ⊢
        omega
      line ++ unfoldLoop rest'
termination_by s.length

def unfoldHeader (s : Bytes) : Bytes :=
  if s.contains 10 then unfoldLoop s else s

/-- `decodeheader`: unfold, then RFC 2047 (C-string result). -/
def decodeHeader (v : Bytes) : Bytes := rfc2047Decode (unfoldHeader v)

/-- `message_get_header`: decoded values of all occurrences, `none` if absent. -/
def getHeader (m : Msg) (name : Bytes) : Option (List Bytes) :=
  match searchHeader m.headers name with
  | none => none
  | some (idx, nfound) => some (((m.headers.drop idx).take nfound).map fun h => decodeHeader h.val)

def getHeader1 (m : Msg) (name : Bytes) : Option Bytes :=
  match getHeader m name with
  | some (v :: _) => some v
  | _ => none

/-! ## modification and output -/

/-- The loop at the head of `message_set_header` (/repo 4ac7c48): every `'\n'` and `'\r'` of the value becomes a space. -/
def headerSafe (v : Bytes) : Bytes := v.map fun c => if c == 10 || c == 13 then 32 else c

/-- `message_set_header` after that loop: the table update with the value as it is. -/
def setHeaderRaw (m : Msg) (name val : Bytes) : Msg :=
  match searchHeader m.headers name with
  | none =>
    let h : Hdr := { id := m.headers.length + 1, key := name, val := val }
    { m with headers := sortByKey (m.headers ++ [h]) }
  | some (idx, nfound) =>
    -- keep the first occurrence (with the new value), drop the others
    let before := m.headers.take idx
    let after := m.headers.drop (idx + nfound)
    match m.headers[idx]? with
    | none => m
    | some h => { m with headers := before ++ [{ h with val := val }] ++ after }

/-- `message_set_header(msg, header, val)`: line breaks of the value are replaced in place, then the table is updated. -/
def setHeader (m : Msg) (name val : Bytes) : Msg := setHeaderRaw m name (headerSafe val)

/-- The bytes `message_write` prints for a table in the given order. -/
def render (hs : List Hdr) (body : Bytes) : Bytes :=
  (hs.flatMap fun h => h.key ++ [58, 32] ++ h.val ++ [10]) ++ [10] ++ body

/-- `message_write`: output bytes and the message afterwards (table re-sorted by
name, see the `fix:` commit "restore header ordering by name"). -/
def messageWrite (m : Msg) : Bytes × Msg :=
  let byId := sortById m.headers
  (render byId m.body, { m with headers := sortByKey byId })

end Mdsort.Model
