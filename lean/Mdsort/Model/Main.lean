import Mdsort.Model.Scripts
import Mdsort.Model.EvalP

/-!
# The main loop of mdsort as a program over `Call`, and its two interpreters

`mainP` transcribes `main` (mdsort.c) after option parsing: open and close the configuration
file, walk every configured maildir (or the stdin spool), parse, evaluate, interpolate,
inspect or execute, free.  The configuration arrives already parsed (the tree the real
parser built); the contents of the files that will be parsed are a parameter (`files`),
updated as the program itself renames and rewrites messages.
-/

namespace Mdsort.Model
open Mdsort

structure ConfBlock where
  paths : List Bytes
  expr : Expr
deriving Repr

/-- What the evaluator needs besides the file system (see `Env`).  `timeFormat` is `time_format` (time.c: `localtime` +
`strftime`, `none` = NULL), used by the file-time date conditions: it becomes `Env.timeFormat` of the environment a message
is evaluated in. -/
structure EvalOracles where
  rx : Pat → Bytes → RxRes
  strptime : Bytes → Option (Tm × Bytes)
  zoneName : Bytes → Option Int
  timeFormat : Int → Option Bytes := fun _ => none

/-- Contents of the files below the maildirs, by directory path and name. -/
abbrev Files := List (Bytes × Bytes × Bytes)

def Files.get (fs : Files) (dir name : Bytes) : Option Bytes :=
  (fs.find? fun e => e.1 == dir && e.2.1 == name).map (·.2.2)
def Files.put (fs : Files) (dir name data : Bytes) : Files :=
  (fs.filter fun e => !(e.1 == dir && e.2.1 == name)) ++ [(dir, name, data)]
def Files.del (fs : Files) (dir name : Bytes) : Files :=
  fs.filter fun e => !(e.1 == dir && e.2.1 == name)

structure MainSt where
  files : Files
  error : Bool
  reject : Bool
  log : List Bytes               -- `path -> destination` lines (log_info), for C06
  /-- GHOST: a `readdir` loop of the model (`walk`, `closeStdin`) stopped because its FUEL ran out, not because the
  directory stream ended.  The C loops have no such bound: from that point on the model's run is a truncation of
  mdsort's.  Never cleared.  `C01_walk_fuel_suffices`: it stays `false` in every `runPlan` run whose fuel covers the
  directory listings; `C04_fuel_irrelevant`: a run that ends with `false` does not depend on the fuel. -/
  fuelOut : Bool := false
deriving Repr

def isStdinPath (p : Bytes) : Bool := p == ofString "/dev/stdin"

/-- `buffer_read_fd`: read until 0; `true` = failed. -/
def readAll (fd : Handle) : Nat → Prog Bool
  | 0 => pure true
  | fuel + 1 => do
    let r ← call (.read fd)
    match r with
    | .ok n => if n == 0 then pure false else readAll fd fuel
    | _ => pure true

/-- `message_parse(dir, dirfd, name)` with the content the file has. -/
def messageParseP (d : Handle) (dir name : Bytes) (content : Bytes) : Prog (Option MsgSt) := do
  let r ← call (.openRd d name)
  match r with
  | .ok fd =>
    let failed ← readAll fd (content.length + 2)
    if failed then
      let _ ← call (.close fd)
      pure none
    else
      match pathjoin PATH_MAX dir name, strlcpyFits NAME_MAX1 name with
      | some p, some n =>
        match flagsParse n with
        | some mf =>
          let m := parseMessage content
          pure (some { name := n, path := p, fd := some fd, msg := m, parts := (getAttachments m).getD [], flags := mf,
                       loc := some (dir, name), content := content })
        | none => do
          let _ ← call (.close fd)
          pure none
      | _, _ => do
        let _ ← call (.close fd)
        pure none
  | _ => pure none

/-- What the main-loop state learns from executing the list: where the message's file is now. -/
def afterExec (files : Files) (dir0 name0 : Bytes) (ms : MsgSt) : Files :=
  let fs := files.del dir0 name0
  match ms.loc with
  | none => fs
  | some (dir, name) => fs.put dir name ms.content

/-- The `-> destination` lines of `matches_inspect` (the explanation lines are in Model/Inspect). -/
def inspectLines (env : PEnv) (ml : MatchList) (path : Bytes) : List Bytes :=
  (ml.filter (·.ty.isAction)).map fun mh =>
    (if env.stdinMode then ofString "<stdin>" else path) ++ ofString " -> " ++
      (match mh.ty.info.label with
       | some l => ofString l
       | none => mh.path)

/-- One message: parse, evaluate, interpolate, inspect / execute, free.  Evaluation is `evalP`: the `command`,
`isdirectory` and file-time date conditions issue their calls (`exec(argv, -1)`, `stat`) while the rules are evaluated,
in evaluation order; the three oracle fields of the environment are not used (Model/EvalP.lean). -/
def processMessage (env : PEnv) (orc : EvalOracles) (expr : Expr) (md : Maildir) (name : Bytes) (st : MainSt) :
    Prog (MainSt × Maildir) :=
  match md.dirH with
  | none => pure (st, md)
  | some d =>
    match st.files.get md.path name with
    | none => pure ({ st with error := true }, md)      -- not a file the model knows: treated like a parse failure
    | some content => do
      let pm ← messageParseP d md.path name content
      match pm with
      | none => pure ({ st with error := true }, md)
      | some ms =>
        let eenv : Env := {
          rx := orc.rx, command := fun _ => -1, isDir := fun _ => false, now := env.now,
          strptime := orc.strptime, zoneName := orc.zoneName, fileTime := fun _ => none,
          timeFormat := orc.timeFormat, dryrun := env.dryrun, path := ms.path }
        let free (ms : MsgSt) : Prog Unit :=
          match ms.fd with
          | some h => do let _ ← call (.close h); pure ()
          | none => pure ()
        let ev ← evalP eenv expr ms.msg ms.flags
        match ev with
        | (.error, _) => do free ms; pure ({ st with error := true }, md)
        | (.nomatch, _) => do free ms; pure (st, md)
        | (.match, est) =>
          match matchesInterpolate eenv est.ml (partMsg ms.msg ms.parts) with
          | none => do free ms; pure ({ st with error := true }, md)
          | some (ml, msgs) =>
            let ms1 := { ms with msg := msgs 0, flags := est.flags }
            let st1 := { st with log := st.log ++ inspectLines env ml ms.path }
            if env.dryrun then do free ms1; pure (st1, md)
            else do
              let (xs, e) ← matchesExec env ml { src := md, chsrc := false, ms := ms1, reject := false }
              free xs.ms
              pure ({ st1 with error := st1.error || e, reject := st1.reject || xs.reject,
                               files := afterExec st1.files md.path name xs.ms }, md)

/-- `maildir_read` + `maildir_next`: the walk over `new` then `cur` (or the spool). -/
def walk (env : PEnv) (orc : EvalOracles) (expr : Expr) : Nat → Maildir → MainSt → Prog (MainSt × Maildir)
  | 0, md, st => pure ({ st with fuelOut := true }, md)      -- out of fuel: flagged, never silent
  | fuel + 1, md, st =>
    match md.dirH with
    | none => pure (st, md)
    | some d => do
      let r ← call (.readdir d)
      match r with
      | .name n =>
        if n == [46] || n == [46, 46] then walk env orc expr fuel md st
        else do
          let (st', md') ← processMessage env orc expr md n st
          walk env orc expr fuel md' st'
      | .eof =>
        if md.stdin then pure (st, md)
        else
          match md.subdir with
          | .cur => pure (st, md)
          | .new =>
            match pathjoin PATH_MAX md.root (subdirName .cur) with
            | none => pure ({ st with error := true }, md)
            | some p => do
              let (md', failed) ← maildirOpendir { md with subdir := .cur, path := p } p
              if failed then pure ({ st with error := true }, md') else walk env orc expr fuel md' st
      | _ => pure ({ st with error := true }, md)

/-- `maildir_stdin`: spool standard input into a temporary maildir. `true` = failed. -/
def copyStdin (fd : Handle) : Nat → Bytes → Prog Bool
  | 0, _ => pure true
  | fuel + 1, input => do
    let r ← call (.read 0)
    match r with
    | .ok nr =>
      if nr == 0 then pure false
      else
        let rec wr (fuel2 : Nat) (chunk : Bytes) : Prog Bool :=
          match fuel2 with
          | 0 => pure true
          | f + 1 =>
            if chunk.isEmpty then pure false
            else do
              let w ← call (.write fd chunk)
              match w with
              | .ok nw => if nw == 0 then pure true else wr f (chunk.drop nw)
              | _ => pure true
        do
          let e ← wr (nr + 1) (input.take nr)
          if e then pure true else copyStdin fd fuel (input.drop nr)
    | _ => pure true

def maildirStdin (env : PEnv) (input : Bytes) : Prog (Maildir × Bool × Option Bytes) := do
  let md0 : Maildir := { root := [], path := [], dirH := none, subdir := .new, walk := true, stdin := true }
  match pathjoin PATH_MAX env.tmpdir (ofString "mdsort-XXXXXXXX") with
  | none => pure (md0, true, none)
  | some tmpl =>
    let r ← call (.mkdtemp tmpl)
    match r with
    | .name root =>
      match pathjoin PATH_MAX root (subdirName .new) with
      | none => pure ({ md0 with root := root }, true, none)
      | some p =>
        let md1 := { md0 with root := root, path := p }
        let r2 ← call (.mkdir p)
        if !isOk r2 then pure (md1, true, none)
        else
          let (md2, failed) ← maildirOpendir md1 p
          if failed then pure (md2, true, none)
          else
            let g ← gennameStart env md2 none
            match g with
            | none => pure (md2, true, none)
            | some (fd, name) =>
              let e1 ← copyStdin fd (input.length + 2) input
              let e2 ← (if e1 then pure true else do
                let r ← call (.fsync fd)
                pure (!isOk r))
              let r3 ← call (.close fd)
              pure (md2, e2 || !isOk r3, some name)
    | _ => pure (md0, true, none)

/-- The allowance of the walk over the stdin spool and of the loop that removes it (standard 64 plus the ghost
`env.extraFuel`). -/
def stdinFuel (env : PEnv) : Nat := 64 + env.extraFuel

/-- The loop state after a `closeStdin` that reported `fo` ("out of fuel"). -/
def orFuel (st : MainSt) (fo : Bool) : MainSt := { st with fuelOut := st.fuelOut || fo }

/-- `maildir_close` of the stdin maildir: best-effort removal of the spool.  The value is the ghost flag "the
`readdir` loop ran out of fuel" (`MainSt.fuelOut`); the C function returns nothing. -/
def closeStdin (fuel : Nat) (md : Maildir) : Prog Bool := do
  let fo ← (match md.dirH with
    | some d => do
      let _ ← call (.rewinddir d)
      let rec loop (fuel : Nat) : Prog Bool :=
        match fuel with
        | 0 => pure true      -- out of fuel: flagged, never silent
        | f + 1 => do
          let r ← call (.readdir d)
          match r with
          | .name n =>
            if n == [46] || n == [46, 46] then loop f
            else do
              let _ ← call (.unlinkat d n)
              loop f
          | _ => pure false
      loop fuel
    | none => pure false)
  let _ ← call (.rmdir md.path)
  let _ ← call (.rmdir md.root)
  match md.dirH with
  | some d => let _ ← call (.closedir d)
  | none => pure ()
  pure fo

/-- The exit status `main` computes from its flags. -/
def exitStatus (env : PEnv) (st : MainSt) : Nat :=
  if env.stdinMode then (if st.error then Gen.exTempfail else if st.reject then Gen.exPermfail else 0)
  else (if st.error then 1 else 0)

/-- `main` after option parsing. Returns the exit status and the final loop state. -/
def mainP (env : PEnv) (orc : EvalOracles) (confOk : Bool) (conf : List ConfBlock) (files : Files) (input : Bytes) :
    Prog (Nat × MainSt) := do
  let st0 : MainSt := { files := files, error := false, reject := false, log := [] }
  let finish (st : MainSt) : Nat × MainSt := (exitStatus env st, st)
  let r ← call (.fopen env.confpath)
  match r with
  | .ok h =>
    let _ ← call (.fclose h)
    if !confOk then pure (finish { st0 with error := true })
    else if env.syntaxOnly then pure (finish st0)
    else
      let rec blocks (bs : List ConfBlock) (st : MainSt) : Prog MainSt :=
        match bs with
        | [] => pure st
        | b :: rest => do
          let rec paths (ps : List Bytes) (st : MainSt) : Prog MainSt :=
            match ps with
            | [] => pure st
            | p :: more =>
              if (env.stdinMode && !isStdinPath p) || (!env.stdinMode && isStdinPath p) then paths more st
              else if isStdinPath p then do
                let (md, failed, spooled) ← maildirStdin env input
                if failed then
                  let fo ← closeStdin (stdinFuel env) md
                  paths more (orFuel { st with error := true } fo)
                else
                  let st1 := match spooled with
                    | some n => { st with files := st.files.put md.path n input }
                    | none => st
                  let (st2, md2) ← walk env orc b.expr (stdinFuel env) md st1
                  let fo ← closeStdin (stdinFuel env) md2
                  paths more (orFuel st2 fo)
              else
                match strlcpyFits PATH_MAX p, pathjoin PATH_MAX p (subdirName .new) with
                | some root, some np => do
                  let (md, failed) ← maildirOpendir { root := root, path := np, dirH := none, subdir := .new, walk := true, stdin := false } np
                  if failed then paths more { st with error := true }
                  else
                    let n := (st.files.filter fun e => e.1 == np || e.1 == (root ++ [47] ++ subdirName .cur)).length
                    let (st2, md2) ← walk env orc b.expr (2 * n + 8 + env.extraFuel) md st
                    maildirClose md2
                    paths more st2
                | _, _ => paths more { st with error := true }
          let st' ← paths b.paths st
          blocks rest st'
      let stf ← blocks conf st0
      pure (finish stf)
  | _ => pure (finish { st0 with error := true })

/-! ## interpreters -/

/-- Outcome of checking a program against an observed trace. -/
inductive Conf (α : Type) where
  | done (a : α) (w : World) (rest : List (Call × Res))
  | diverge (pos : Nat) (expected : Call) (got : Option Call)
  | impossible (pos : Nat) (c : Call) (r : Res)          -- result cannot happen in the abstract file system

/-- Walk the observed trace along the program. -/
def conform {α} : Prog α → World → List (Call × Res) → Nat → Conf α
  | .ret a, w, tr, _ => .done a w tr
  | .call c k, w, tr, pos =>
    match tr with
    | [] => .diverge pos c none
    | (c', r) :: rest =>
      if !c.same c' then .diverge pos c (some c')
      else
        match applyOk w c r with
        | none => .impossible pos c r
        | some w1 => conform (k r) { w1 with trace := w1.trace ++ [(c, r)] } rest (pos + 1)

end Mdsort.Model
