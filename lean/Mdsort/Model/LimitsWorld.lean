import Mdsort.Model.Limits
import Mdsort.Model.MainText

/-!
# The platform limits as parameters: the programs over libc calls

`Model/Scripts.lean` and `Model/Main.lean` with the buffer sizes as a parameter (see `Model/Limits.lean`).  Functions
that fill no buffer (`maildirOpendir`, `maildirClose`, `maildirUnlink`, `messageWriteP`, `writeAll`, `execP`,
`readAll`, `copyStdin`, `closeStdin`, `afterExec`, `inspectLines`, `exitStatus`) are used as they are.
`Proofs/LimitsBridge.lean`: at `stdLimits` each function below is the function of the model.
-/

namespace Mdsort.Model
open Mdsort

/-! ## maildir.c -/

/-- `maildir_genname`. -/
def gennameL (L : Limits) (env : PEnv) (md : Maildir) (flags : Option Bytes) : Nat → Nat → Prog (Option (Handle × Bytes))
  | 0, _ => pure none
  | fuel + 1, count =>
    let count := count + 1
    let name := decimalInt env.now ++ [46] ++ decimal env.pid ++ [95] ++ decimal (count % gennameWrap) ++ [46] ++ env.host ++ flags.getD []
    match gennameBufL L.nameMax1 name with
    | none => pure none
    | some name =>
      match md.dirH with
      | none => pure none
      | some d => do
        let r ← call (.openExcl d name)
        match r with
        | .ok h => pure (some (h, name))
        | .err e => if e == "EEXIST" then gennameL L env md flags fuel count else pure none
        | _ => pure none

def gennameStartL (L : Limits) (env : PEnv) (md : Maildir) (flags : Option Bytes) : Prog (Option (Handle × Bytes)) :=
  gennameL L env md flags gennameAttempts (env.random % Gen.gennameModulus)

/-- `maildir_open(path, 0, env)`: destination of a move / flag / flags action. -/
def maildirOpenDstL (L : Limits) (path : Bytes) : Prog (Option Maildir) :=
  match parseSubdirL L.nameMax1 path with
  | none => pure none
  | some sd =>
    match pathsliceL path L.pathMax 0 (-1) with
    | none => pure none
    | some root =>
      match pathjoinL L.pathMax root (subdirName sd) with
      | none => pure none
      | some p => do
        let (md, failed) ← maildirOpendir { root := root, path := p, dirH := none, subdir := sd, walk := false, stdin := false } p
        if failed then pure none else pure (some md)

/-! ## message.c -/

/-- `message_set_file(msg, path, name, fd)`. -/
def messageSetFileL (L : Limits) (ms : MsgSt) (dir name : Bytes) (fd : Option Handle) : Prog (MsgSt × Bool) :=
  match pathjoinL L.pathMax dir name with
  | none => pure (ms, true)
  | some p =>
    match strlcpyL L.nameMax1 name with
    | none => pure ({ ms with path := p }, true)
    | some n =>
      match fd with
      | some h => do
        match ms.fd with
        | some old => let _ ← call (.close old)
        | none => pure ()
        pure ({ ms with path := p, name := n, fd := some h }, false)
      | none => pure ({ ms with path := p, name := n }, false)

/-- The end of a successful `maildir_move`. -/
def messageSetFileMovedL (L : Limits) (ms : MsgSt) (src dst : Subdir) (dir name : Bytes) : Prog (MsgSt × Bool) :=
  match pathjoinL L.pathMax dir name with
  | none => pure (ms, true)
  | some p =>
    match strlcpyL L.nameMax1 name with
    | none => pure ({ ms with path := p }, true)
    | some n => pure ({ ms with path := p, name := n, flags := adjustSeen src dst ms.flags }, false)

/-- `maildir_move(src, dst, msg, env)`. -/
def maildirMoveL (L : Limits) (env : PEnv) (src dst : Maildir) (ms : MsgSt) : Prog (MsgSt × Bool) := do
  if src.stdin && src.root == dst.root then pure (ms, true)
  else
    match src.dirH, dst.dirH with
    | some sh, some dh =>
      let mt ← (if !src.stdin then do
          let r ← call (.fstatat sh ms.name)
          pure (statMtime r)
        else pure none)
      let doutime := mt.isSome
      match msgflags src.subdir dst.subdir ms.flags with
      | none => pure (ms, true)
      | some fl =>
        let g ← gennameStartL L env dst (some fl)
        match g with
        | none => pure (ms, true)
        | some (fd, dstname) =>
          let r ← call (.renameat sh ms.name dh dstname)
          let (err1, ms) ← (match r with
            | .err e =>
              if e == "EXDEV" then do
                let we ← messageWriteP ms.msg fd
                if we then pure (true, ms)
                else do
                  let ue ← maildirUnlink src ms.name
                  pure (ue, if ue then ms else { ms with loc := some (dst.path, dstname), content := (messageWrite ms.msg).1 })
              else pure (true, ms)
            | _ => pure (false, { ms with loc := some (dst.path, dstname) }))
          if err1 then
            let _ ← maildirUnlink dst dstname
            pure ()
          let _ ← call (.close fd)
          let err2 ← (if !err1 && doutime then do
              let r ← call (.utimensat dh dstname none mt)
              pure (!isOk r)
            else pure err1)
          if err2 then pure (ms, true)
          else messageSetFileMovedL L ms src.subdir dst.subdir dst.path dstname
    | _, _ => pure (ms, true)

/-- `maildir_write(md, msg, env)`. -/
def maildirWriteL (L : Limits) (env : PEnv) (md : Maildir) (ms : MsgSt) : Prog (MsgSt × Bool) := do
  match msgflags md.subdir md.subdir ms.flags with
  | none => pure (ms, true)
  | some fl =>
    let g ← gennameStartL L env md (some fl)
    match g with
    | none => pure (ms, true)
    | some (fd, name) =>
      let we ← messageWriteP ms.msg fd
      let _ ← call (.close fd)
      let err ← (if we then pure true else maildirUnlink md ms.name)
      if err then
        let _ ← maildirUnlink md name
        pure (ms, true)
      else
        let ms := { ms with loc := some (md.path, name), content := (messageWrite ms.msg).1 }
        match md.dirH with
        | none => pure (ms, true)
        | some d =>
          let r ← call (.openRd d name)
          match r with
          | .ok rdfd =>
            let (ms', e) ← messageSetFileL L ms md.path name (some rdfd)
            if e then
              let _ ← call (.close rdfd)
              pure (ms', true)
            else pure (ms', false)
          | _ => pure (ms, true)

/-- `writefd(dir)`. -/
def writefdL (L : Limits) (tmpdir : Bytes) : Prog (Option Handle) :=
  match pathjoinL L.pathMax tmpdir (ofString "mdsort-XXXXXXXX") with
  | none => pure none
  | some tmpl => do
    let r ← call (.mkostemp tmpl)
    match r with
    | .ok fd =>
      let r2 ← call (.unlink tmpl)
      if isOk r2 then pure (some fd)
      else
        let _ ← call (.close fd)
        pure none
    | _ => pure none

/-- `message_get_fd(msg, env, dobody)`. -/
def messageGetFdL (L : Limits) (env : PEnv) (ms : MsgSt) (part : Option Msg) (dobody : Bool) : Prog (Option Handle) := do
  let target := part.getD ms.msg
  let fdo ← (if dobody then
      match getBody target with
      | none => pure none
      | some body => do
        let f ← writefdL L env.tmpdir
        match f with
        | none => pure none
        | some fd =>
          let e ← writeAll fd (body.length + 1) (cstr body)
          if e then
            let _ ← call (.close fd)
            pure none
          else pure (some fd)
    else if part.isSome then do
      let f ← writefdL L env.tmpdir
      match f with
      | none => pure none
      | some fd =>
        let e ← messageWriteP target fd
        if e then
          let _ ← call (.close fd)
          pure none
        else pure (some fd)
    else
      match ms.fd with
      | none => pure none
      | some mfd => do
        let r ← call (.dupfd mfd)
        pure (resHandle r))
  match fdo with
  | none => pure none
  | some fd =>
    let r ← call (.lseek fd)
    if isOk r then pure (some fd)
    else
      let _ ← call (.close fd)
      pure none

/-! ## match.c: matches_exec -/

/-- One iteration of the `TAILQ_FOREACH` of `matches_exec`. -/
def execOneL (L : Limits) (env : PEnv) (mh : Match) (st : ExecSt) : Prog (ExecSt × Bool) :=
  match mh.ty with
  | .move | .flag | .flags => do
    let d ← maildirOpenDstL L mh.path
    match d with
    | none => pure (st, true)
    | some dst =>
      let (ms', e) ← maildirMoveL L env st.src dst st.ms
      if e then
        maildirClose dst
        pure ({ st with ms := ms' }, true)
      else if st.src.subdir != dst.subdir || st.src.root != dst.root then
        if st.chsrc then maildirClose st.src
        pure ({ st with src := dst, chsrc := true, ms := ms' }, false)
      else
        maildirClose dst
        pure ({ st with ms := ms' }, false)
  | .discard => do
    let e ← maildirUnlink st.src st.ms.name
    pure (if e then st else { st with ms := { st.ms with loc := none } }, e)
  | .label | .addHeader => do
    let (ms', e) ← maildirWriteL L env st.src st.ms
    pure ({ st with ms := ms' }, e)
  | .reject => pure ({ st with reject := true }, false)
  | .exec => do
    let part : Option Msg := if mh.part == 0 then none else st.ms.parts[mh.part - 1]?
    let fdr ← (if mh.execStdin then do
        let f ← messageGetFdL L env st.ms part mh.execBody
        pure (f.map some)
      else pure (some none))
    match fdr with
    | none => pure (st, true)
    | some fd =>
      let rc ← execP mh.argv fd
      match fd with
      | some h => let _ ← call (.close h)
      | none => pure ()
      pure (st, rc != 0)
  | _ => pure (st, false)

def matchesExecL (L : Limits) (env : PEnv) (ml : MatchList) (st : ExecSt) : Prog (ExecSt × Bool) :=
  match ml with
  | [] => do
    if st.chsrc then maildirClose st.src
    pure (st, false)
  | mh :: rest => do
    let (st', e) ← execOneL L env mh st
    if e then
      if st'.chsrc then maildirClose st'.src
      pure (st', true)
    else matchesExecL L env rest st'

/-! ## mdsort.c -/

/-- `message_parse(dir, dirfd, name)`. -/
def messageParsePL (L : Limits) (d : Handle) (dir name : Bytes) (content : Bytes) : Prog (Option MsgSt) := do
  let r ← call (.openRd d name)
  match r with
  | .ok fd =>
    let failed ← readAll fd (content.length + 2)
    if failed then
      let _ ← call (.close fd)
      pure none
    else
      match pathjoinL L.pathMax dir name, strlcpyL L.nameMax1 name with
      | some p, some n =>
        match flagsParse n with
        | some mf =>
          let m := parseMessage content
          pure (some { name := n, path := p, fd := some fd, msg := m, parts := (getAttachments m).getD [], flags := mf,
                       loc := some (dir, name), content := content })
        | none => do
          let _ ← call (.close fd)
          pure none
      | _, _ => do
        let _ ← call (.close fd)
        pure none
  | _ => pure none

/-- `message_free`. -/
def freeMsg (ms : MsgSt) : Prog Unit :=
  match ms.fd with
  | some h => do let _ ← call (.close h); pure ()
  | none => pure ()

/-- `Model.evalT` with the limits as a parameter: the composite nodes and the three asking conditions, every other node
is `evalL L`.  Every limit of an asking condition is checked before its question is asked. -/
def evalTL (L : Limits) (env : Env) (root : Msg) : Expr → (part : Nat) → Msg → St → Ask (Tri × St)
  | .block _ e, part, m, st =>
    (evalTL L env root e part m st).bind fun
      | (.error, st1) => .ret (.error, st1)
      | (ev, st1) =>
        if (matchesFind st1.ml .brk).isSome then
          .ret (.nomatch, { st1 with ml := (matchesRemove st1.ml .brk).1 })
        else if (matchesFind st1.ml .pass).isSome then
          let (ml2, n) := matchesRemove st1.ml .pass
          .ret (if n == 0 then .nomatch else .match, { st1 with ml := ml2 })
        else .ret (ev, st1)
  | .and _ l r, part, m, st =>
    (evalTL L env root l part m st).bind fun
      | (.match, st1) => evalTL L env root r part m st1
      | other => .ret other
  | .or _ l r, part, m, st =>
    (evalTL L env root l part m st).bind fun
      | (.nomatch, st1) => evalTL L env root r part m st1
      | other => .ret other
  | .neg _ e, part, m, st =>
    let n := st.ml.length
    (evalTL L env root e part m st).bind fun
      | (.error, st1) => .ret (.error, st1)
      | (.nomatch, st1) => .ret (.match, st1)
      | (.match, st1) => .ret (.nomatch, { st1 with ml := st1.ml.take n })
  | .mtch lno c rhs, part, m, st =>
    let (ml, failed) := matchesAppendL L env st.ml { ty := .mtch, lno := lno, part := part }
    if failed then .ret (.error, { st with ml := ml })
    else
      (evalTL L env root c part m { st with ml := ml }).bind fun
        | (.match, st1) => evalTL L env root rhs part m st1
        | other => .ret other
  | .attachment _ e, part, m, st =>
    match getAttachments m with
    | none => .ret (.error, st)
    | some parts =>
      let rec loop (ps : List Msg) (i : Nat) (st : St) : Ask (Tri × St) :=
        match ps with
        | [] => .ret (.nomatch, st)
        | p :: rest =>
          (evalTL L env root e (if part == 0 then i + 1 else part) p st).bind fun
            | (.nomatch, st1) => loop rest (i + 1) st1
            | other => .ret other
      loop parts 0 st
  | .attBlock _ blk, part, m, st =>
    match getAttachments m with
    | none => .ret (.error, st)
    | some parts =>
      let rec loopB (ps : List Msg) (i : Nat) (ev : Tri) (st : St) : Ask (Tri × St) :=
        match ps with
        | [] => .ret (ev, st)
        | p :: rest =>
          (evalTL L env root blk (if part == 0 then i + 1 else part) p st).bind fun
            | (.error, st1) => .ret (.error, st1)
            | (.match, st1) => loopB rest (i + 1) .match st1
            | (.nomatch, st1) => loopB rest (i + 1) ev st1
      loopB parts 0 .nomatch st
  | .date lno .header cmp age, part, m, st => .ret (evalL L env root (.date lno .header cmp age) part m st)
  | .date lno field cmp age, part, _, st =>
    (ask (.fileTime env.path field)).bind fun a =>
      match ansFileTime env.timeFormat field a with
      | none => .ret (.error, st)
      | some (tim, date) =>
        if !dateMatches cmp age env.now tim then .ret (.nomatch, st)
        else .ret (exprRegexecL L env .date lno part { src := [46, 42] } (ofString "Date") date st)
  | .stat lno path, part, _, st =>
    let mh : Match := { ty := .stat, lno := lno, part := part, strings := [path] }
    let (ml, failed) := matchesAppendL L env st.ml mh
    let st' : St := { st with ml := ml.dropLast }
    if failed then .ret (.error, st')
    else
      match strlcpyL L.pathMax path with
      | none => .ret (.error, st')
      | some p =>
        match interpolate ml.dropLast none p with
        | none => .ret (.error, st')
        | some ip =>
          match strlcpyL L.pathMax ip with
          | none => .ret (.error, st')
          | some ip => (ask (.isDir ip)).bind fun a => .ret (if ansIsDir a then .match else .nomatch, st')
  | .command lno argv, part, _, st =>
    let mh : Match := { ty := .command, lno := lno, part := part, strings := argv }
    let (ml, failed) := matchesAppendL L env st.ml mh
    let st' : St := { st with ml := ml.dropLast }
    if failed then .ret (.error, st')
    else
      match argv.mapM (interpolate ml.dropLast none) with
      | none => .ret (.error, st')
      | some av =>
        (ask (.command av)).bind fun a =>
          let rc := ansStatus a
          .ret (if rc == 0 then .match else if rc < 0 then .error else .nomatch, st')
  | e, part, m, st => .ret (evalL L env root e part m st)

/-- `Model.evalP` with the limits as a parameter. -/
def evalPL (L : Limits) (env : Env) (e : Expr) (m : Msg) (fl : MFlags) : Prog (Tri × St) :=
  (evalTL L env m e 0 m { ml := [], flags := fl }).toProg

/-- One message: parse, evaluate, interpolate, inspect / execute, free. -/
def processMessageL (L : Limits) (env : PEnv) (orc : EvalOracles) (expr : Expr) (md : Maildir) (name : Bytes) (st : MainSt) :
    Prog (MainSt × Maildir) :=
  match md.dirH with
  | none => pure (st, md)
  | some d =>
    match st.files.get md.path name with
    | none => pure ({ st with error := true }, md)
    | some content => do
      let pm ← messageParsePL L d md.path name content
      match pm with
      | none => pure ({ st with error := true }, md)
      | some ms =>
        let eenv : Env := {
          rx := orc.rx, command := fun _ => -1, isDir := fun _ => false, now := env.now,
          strptime := orc.strptime, zoneName := orc.zoneName, fileTime := fun _ => none,
          timeFormat := orc.timeFormat, dryrun := env.dryrun, path := ms.path }
        let ev ← evalPL L eenv expr ms.msg ms.flags
        match ev with
        | (.error, _) => do freeMsg ms; pure ({ st with error := true }, md)
        | (.nomatch, _) => do freeMsg ms; pure (st, md)
        | (.match, est) =>
          match matchesInterpolateL L eenv est.ml (partMsg ms.msg ms.parts) with
          | none => do freeMsg ms; pure ({ st with error := true }, md)
          | some (ml, msgs) =>
            let ms1 := { ms with msg := msgs 0, flags := est.flags }
            let st1 := { st with log := st.log ++ inspectLines env ml ms.path }
            if env.dryrun then do freeMsg ms1; pure (st1, md)
            else do
              let (xs, e) ← matchesExecL L env ml { src := md, chsrc := false, ms := ms1, reject := false }
              freeMsg xs.ms
              pure ({ st1 with error := st1.error || e, reject := st1.reject || xs.reject,
                               files := afterExec st1.files md.path name xs.ms }, md)

/-- `maildir_next` + `maildir_opendir` at the end of `new`: the maildir positioned on `cur`, and whether that failed. -/
def nextSubdirL (L : Limits) (md : Maildir) : Prog (Maildir × Bool) :=
  match pathjoinL L.pathMax md.root (subdirName .cur) with
  | none => pure (md, true)
  | some p => maildirOpendir { md with subdir := .cur, path := p } p

/-- `maildir_read` + `maildir_next`: the walk over `new` then `cur` (or the spool). -/
def walkL (L : Limits) (env : PEnv) (orc : EvalOracles) (expr : Expr) : Nat → Maildir → MainSt → Prog (MainSt × Maildir)
  | 0, md, st => pure ({ st with fuelOut := true }, md)
  | fuel + 1, md, st =>
    match md.dirH with
    | none => pure (st, md)
    | some d => do
      let r ← call (.readdir d)
      match r with
      | .name n =>
        if n == [46] || n == [46, 46] then walkL L env orc expr fuel md st
        else do
          let (st', md') ← processMessageL L env orc expr md n st
          walkL L env orc expr fuel md' st'
      | .eof =>
        if md.stdin then pure (st, md)
        else
          match md.subdir with
          | .cur => pure (st, md)
          | .new => do
            let (md', failed) ← nextSubdirL L md
            if failed then pure ({ st with error := true }, md') else walkL L env orc expr fuel md' st
      | _ => pure ({ st with error := true }, md)

/-- `maildir_stdin`: spool standard input into a temporary maildir. -/
def maildirStdinL (L : Limits) (env : PEnv) (input : Bytes) : Prog (Maildir × Bool × Option Bytes) := do
  let md0 : Maildir := { root := [], path := [], dirH := none, subdir := .new, walk := true, stdin := true }
  match pathjoinL L.pathMax env.tmpdir (ofString "mdsort-XXXXXXXX") with
  | none => pure (md0, true, none)
  | some tmpl =>
    let r ← call (.mkdtemp tmpl)
    match r with
    | .name root =>
      match pathjoinL L.pathMax root (subdirName .new) with
      | none => pure ({ md0 with root := root }, true, none)
      | some p =>
        let md1 := { md0 with root := root, path := p }
        let r2 ← call (.mkdir p)
        if !isOk r2 then pure (md1, true, none)
        else
          let (md2, failed) ← maildirOpendir md1 p
          if failed then pure (md2, true, none)
          else
            let g ← gennameStartL L env md2 none
            match g with
            | none => pure (md2, true, none)
            | some (fd, name) =>
              let e1 ← copyStdin fd (input.length + 2) input
              let e2 ← (if e1 then pure true else do
                let r ← call (.fsync fd)
                pure (!isOk r))
              let r3 ← call (.close fd)
              pure (md2, e2 || !isOk r3, some name)
    | _ => pure (md0, true, none)

/-- `maildir_open(path, MAILDIR_WALK, env)`: `md_root` (strlcpy), `md_path` (pathjoin), `opendir`; `none` = NULL. -/
def openMaildirL (L : Limits) (p : Bytes) : Prog (Option Maildir) :=
  match strlcpyL L.pathMax p, pathjoinL L.pathMax p (subdirName .new) with
  | some root, some np => do
    let (md, failed) ← maildirOpendir { root := root, path := np, dirH := none, subdir := .new, walk := true, stdin := false } np
    if failed then pure none else pure (some md)
  | _, _ => pure none

/-- The loop of `main` over the maildir paths of one configuration block. -/
def pathsL (L : Limits) (env : PEnv) (orc : EvalOracles) (input : Bytes) (b : ConfBlock) : List Bytes → MainSt → Prog MainSt
  | [], st => pure st
  | p :: more, st =>
    if (env.stdinMode && !isStdinPath p) || (!env.stdinMode && isStdinPath p) then pathsL L env orc input b more st
    else if isStdinPath p then do
      let (md, failed, spooled) ← maildirStdinL L env input
      if failed then
        let fo ← closeStdin (stdinFuel env) md
        pathsL L env orc input b more (orFuel { st with error := true } fo)
      else
        let st1 := match spooled with
          | some n => { st with files := st.files.put md.path n input }
          | none => st
        let (st2, md2) ← walkL L env orc b.expr (stdinFuel env) md st1
        let fo ← closeStdin (stdinFuel env) md2
        pathsL L env orc input b more (orFuel st2 fo)
    else do
      let o ← openMaildirL L p
      match o with
      | none => pathsL L env orc input b more { st with error := true }
      | some md =>
        let n := (st.files.filter fun e => e.1 == md.path || e.1 == (md.root ++ [47] ++ subdirName .cur)).length
        let (st2, md2) ← walkL L env orc b.expr (2 * n + 8 + env.extraFuel) md st
        maildirClose md2
        pathsL L env orc input b more st2

/-- The loop of `main` over the configuration blocks. -/
def blocksL (L : Limits) (env : PEnv) (orc : EvalOracles) (input : Bytes) : List ConfBlock → MainSt → Prog MainSt
  | [], st => pure st
  | b :: rest, st => do
    let st' ← pathsL L env orc input b b.paths st
    blocksL L env orc input rest st'

/-- `main` after option parsing. -/
def mainPL (L : Limits) (env : PEnv) (orc : EvalOracles) (confOk : Bool) (conf : List ConfBlock) (files : Files) (input : Bytes) :
    Prog (Nat × MainSt) := do
  let st0 : MainSt := { files := files, error := false, reject := false, log := [] }
  let finish (st : MainSt) : Nat × MainSt := (exitStatus env st, st)
  let r ← call (.fopen env.confpath)
  match r with
  | .ok h =>
    let _ ← call (.fclose h)
    if !confOk then pure (finish { st0 with error := true })
    else if env.syntaxOnly then pure (finish st0)
    else do
      let stf ← blocksL L env orc input conf st0
      pure (finish stf)
  | _ => pure (finish { st0 with error := true })


/-- `main` after `getopt`, from the text of the configuration file: `Model.mainText` with the limits as a parameter
(`expandtilde` uses a `PATH_MAX` buffer). -/
def mainTextL (L : Limits) (env : PEnv) (orc : EvalOracles) (rxOk : Pat → Bool) (defs : List (Bytes × Bytes))
    (confText : Bytes) (files : Files) (input : Bytes) : Prog (Nat × MainSt) :=
  match parseConfigL L.pathMax env.home defs rxOk confText with
  | .invalidDefs => pure (1, { files := files, error := true, reject := false, log := [] })
  | .ok blocks =>
    match confBlocksOf blocks with
    | some conf => mainPL L env orc true conf files input
    | none => mainPL L env orc false [] files input
  | .error _ => mainPL L env orc false [] files input
  | .fuel => mainPL L env orc false [] files input

end Mdsort.Model
