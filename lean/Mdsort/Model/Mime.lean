import Mdsort.Model.Header
import Mdsort.Gen.Tables

/-!
# Model of the MIME handling of message.c

`message_is_content_type`, `parseboundary`, `findboundary`, `skipline`,
`parseattachments`, `message_get_attachments`, `message_decode_body`,
`message_get_body`.  The `while (!term)` loop of `parseattachments` finds every
delimiter line twice (once as the end of a part, once as the start of the next);
here it is one step per part.  Recursion depth is bounded by the generated
`Gen.mimeDepthLimit` (`depth > 4` is an error), which is the fuel.

`findboundary` compares bytes, not lines: after a failed comparison at `beg` it
goes on with `skipline` from the byte AFTER the text it compared (`"--"`,
`"--" boundary`, `"--" boundary "--"`), not from `beg`.  `findBoundaryAux`
transcribes exactly that (structural recursion over the text, with the number of
bytes up to the next line examined).  For a boundary without a newline this is
the same as examining every line; a boundary with a newline (the Content-Type
value is RFC 2047-decoded first, `boundary="=?UTF-8?Q?a=0A?="`) makes the
difference, and the index-level transcription `Model/L0/Mime.lean` refines this
model for every boundary (`C07_L0_refines_mime_scanners`).
-/

namespace Mdsort.Model
open Mdsort

def contentTypeName : Bytes := ofString "Content-Type"
def cteName : Bytes := ofString "Content-Transfer-Encoding"

/-- `strncasecmp(s, p, strlen(p)) == 0` for a literal `p` (no NUL): the first `|p|` bytes of `s` equal `p` up to ASCII
letter case (/repo 098cbec; a shorter `s` differs at its terminator). -/
def startsWithCI (s p : Bytes) : Bool := (s.take p.length).map tolower == p.map tolower

/-- `message_is_content_type(msg, needle)`. -/
def isContentType (m : Msg) (needle : Bytes) : Bool :=
  match getHeader1 m contentTypeName with
  | none => false
  | some t =>
    startsWithCI t needle &&
      (match t.drop needle.length with
       | [] => true
       | c :: _ => c == 59)

/-- Result of `parseboundary`: 0, -1, or 1 with the boundary. -/
inductive Boundary where
  | notMultipart
  | invalid
  | ok (b : Bytes)
deriving Repr, DecidableEq

def parseBoundary (t : Bytes) : Boundary :=
  let mp := ofString "multipart/"
  if !startsWithCI t mp then .notMultipart
  else
    let s := (t.drop mp.length).dropWhile (fun c => c != 59)
    match s with
    | [] => .notMultipart
    | _ :: s1 =>
      let s2 := s1.drop (nspaces s1)
      let needle := ofString "boundary=\""
      if !startsWithCI s2 needle then .notMultipart
      else
        let s3 := s2.drop needle.length
        let b := s3.takeWhile (fun c => c != 34)
        match s3.dropWhile (fun c => c != 34) with
        | [] => .invalid                 -- no closing quote
        | _ :: _ => if b.isEmpty then .invalid else .ok b

/-- `skipline`. -/
def skipLine : Bytes → Bytes
  | [] => []
  | c :: r => if c == 10 then r else skipLine r

/-- Is the line starting here a delimiter line for `bnd`?  `some term`. -/
def delimiterLine (bnd : Bytes) (s : Bytes) : Option Bool :=
  if !startsWith s [45, 45] then none
  else
    let s1 := s.drop 2
    if !startsWith s1 bnd then none
    else
      let s2 := s1.drop bnd.length
      let term := startsWith s2 [45, 45]
      let s3 := if term then s2.drop 2 else s2
      match s3 with
      | 10 :: _ => some term
      | _ => none

/-- One round of the `for (;;)` of `findboundary` with `beg = s` that does not
`return beg`: the text `s` points at when `continue` is executed, or when the end
of the loop body is reached with `*s != '\n'`.  The comparisons advance `s`, and
the next round resumes from there - NOT from `beg`. -/
def continueAt (bnd : Bytes) (s : Bytes) : Bytes :=
  if !startsWith s [45, 45] then s                         -- strncmp(s, "--", 2) != 0: continue
  else
    let s1 := s.drop 2                                     -- s += 2
    if !startsWith s1 bnd then s1                          -- strncmp(s, boundary, len) != 0: continue
    else
      let s2 := s1.drop bnd.length                         -- s += len
      if startsWith s2 [45, 45] then s2.drop 2 else s2     -- "--": s += 2, *term = 1; then *s != '\n'

/-- Number of bytes from `beg = s` to the line the next round of the loop examines:
`continue` (at `continueAt bnd s`), then `if (skip) s = skipline(s)`. -/
def nextLineDist (bnd : Bytes) (s : Bytes) : Nat := s.length - (skipLine (continueAt bnd s)).length

/-- The `for (;;)` of `findboundary(boundary, s, &term)`: the text before the
delimiter line found, the terminator flag, and the text from the delimiter line
on; `none` is NULL.  The second argument is the number of bytes up to the next
line the loop examines (`beg`); 0 when `s` itself is examined.  A line is compared
with `"--" boundary ["--"] "\n"` (`delimiterLine`); if that fails the loop goes on
with `skipline` from the byte after the text it compared (`nextLineDist`), so a
line that begins inside the compared text - possible only when the boundary
contains a newline - is never examined. -/
def findBoundaryAux (bnd : Bytes) : Bytes → Nat → Option (Bytes × Bool × Bytes)
  | [], _ => none                                          -- *s == '\0': break, return NULL
  | c :: r, n + 1 => (findBoundaryAux bnd r n).map fun (pre, t, rest) => (c :: pre, t, rest)
  | c :: r, 0 =>
    match delimiterLine bnd (c :: r) with
    | some term => some ([], term, c :: r)                 -- return beg
    | none =>
      (findBoundaryAux bnd r (nextLineDist bnd (c :: r) - 1)).map fun (pre, t, rest) => (c :: pre, t, rest)

/-- `findboundary(boundary, s, &term)`: `skip = 0`, the text at `s` is examined first. -/
def findBoundary (bnd : Bytes) (s : Bytes) : Option (Bytes × Bool × Bytes) := findBoundaryAux bnd s 0

/-- One step per part of the `while (!term)` loop, after the opening delimiter.
`sub` is `parseattachments(attach, parent, depth + 1)`; `fuel` bounds the number
of delimiter lines by the text length. -/
def partsLoop (sub : Msg → Option (List Msg)) (bnd : Bytes) : Nat → Bytes → Option (List Msg)
  | 0, _ => none
  | fuel + 1, text =>
    match findBoundary bnd text with
    | none => none                                   -- b == NULL: term = 0, error
    | some (partText, term, fromLine) =>
      let part := parseHeaders partText
      match sub part with
      | none => none
      | some nested =>
        if term then some (part :: nested)
        else (partsLoop sub bnd fuel (skipLine fromLine)).map fun more => part :: nested ++ more

/-- `parseattachments(msg, parent, depth)` with `fuel = limit + 1 - depth`:
the parts appended to the parent's table in order (pre-order), `none` on error. -/
def parseAttachments : Nat → Msg → Option (List Msg)
  | 0, _ => none                                     -- depth > limit
  | fuel + 1, m =>
    match getHeader1 m contentTypeName with
    | none => some []
    | some t =>
      match parseBoundary t with
      | .notMultipart => some []
      | .invalid => none
      | .ok bnd =>
        match findBoundary bnd m.body with
        | none => none
        | some (_, term, fromLine) =>
          if term then some []
          else partsLoop (parseAttachments fuel) bnd (m.body.length + 1) (skipLine fromLine)

/-- `message_get_attachments`. -/
def getAttachments (m : Msg) : Option (List Msg) := parseAttachments (Gen.mimeDepthLimit + 1) m

/-- `message_decode_body(msg, attachment)`. -/
def decodeBody (part : Msg) : Option Bytes :=
  match getHeader1 part cteName with
  | some enc =>
    if strcasecmp enc (ofString "base64") == .eq then base64Decode part.body
    else if strcasecmp enc (ofString "quoted-printable") == .eq then some (qpDecode part.body)
    else some part.body
  | none => some part.body

/-- The scan of `message_get_body` for multipart/alternative: first text/plain,
else first text/html. -/
def pickAlternative : List Msg → Option Msg → Option Msg
  | [], found => found
  | a :: rest, found =>
    if isContentType a (ofString "text/plain") then some a
    else if isContentType a (ofString "text/html") then
      pickAlternative rest (match found with | none => some a | some f => some f)
    else pickAlternative rest found

/-- `message_get_body`: `none` is NULL (error). -/
def getBody (m : Msg) : Option Bytes :=
  if !isContentType m (ofString "multipart/alternative") then decodeBody m
  else
    match getAttachments m with
    | none => none
    | some parts =>
      match pickAlternative parts none with
      | none => some m.body
      | some p => decodeBody p

end Mdsort.Model
