import Mdsort.Bytes
import Mdsort.Gen.Tables
import Mdsort.Model.Header
import Mdsort.Model.Mime
import Mdsort.Model.Flags
import Mdsort.Model.Time

/-!
# Model of the evaluator: expr.c and match.c

Transcription of every `expr_eval_*`, of `matches_append/merge/find/remove`,
`match_backref`, `isbackref`, `interpolate`, `match_copy`, `match_interpolate`,
`matches_interpolate`, `matches_inspect` and `expr_inspect`.

The match list (`TAILQ`) is a `List Match`, oldest first.  `mh_msg` is the index
of the part the entry was created for (0 = the message, i + 1 = attachment i of
the flattened table).  Everything the evaluator asks the outside world is in
`Env`: the regex engine, the exit status of a command, `stat`, the current time,
`strptime` and the zone-name lookup.
-/

namespace Mdsort.Model
open Mdsort

inductive Tri | match | nomatch | error
deriving Repr, DecidableEq

/-- Pattern as configured: source text and the flags `i`, `l`, `u`. -/
structure Pat where
  src : Bytes
  icase : Bool := false
  lcase : Bool := false
  ucase : Bool := false
deriving Repr, DecidableEq

inductive DateField | header | access | modified | created
deriving Repr, DecidableEq

/-- `struct expr`.  `lno` is `ex_lno`. -/
inductive Expr where
  | block (lno : Nat) (e : Expr)
  | and (lno : Nat) (l r : Expr)
  | or (lno : Nat) (l r : Expr)
  | neg (lno : Nat) (e : Expr)
  | mtch (lno : Nat) (cond rhs : Expr)
  | all (lno : Nat)
  | attachment (lno : Nat) (e : Expr)
  | body (lno : Nat) (p : Pat)
  | date (lno : Nat) (field : DateField) (cmp : DateCmp) (age : Nat)
  | header (lno : Nat) (names : List Bytes) (p : Pat)
  | new (lno : Nat)
  | old (lno : Nat)
  | stat (lno : Nat) (path : Bytes)
  | command (lno : Nat) (argv : List Bytes)
  | move (lno : Nat) (path : Bytes)
  | flag (lno : Nat) (subdir : Bytes)
  | flags (lno : Nat) (fl : Bytes)
  | discard (lno : Nat)
  | brk (lno : Nat)
  | label (lno : Nat) (labels : List Bytes)
  | pass (lno : Nat)
  | reject (lno : Nat)
  | exec (lno : Nat) (stdin body : Bool) (argv : List Bytes)
  | attBlock (lno : Nat) (blk : Expr)
  | addHeader (lno : Nat) (key val : Bytes)
deriving Repr

/-- `enum expr_type` of the entries that can appear in a match list. -/
inductive MType
  | mtch | body | date | header | stat | command
  | move | flag | flags | discard | brk | label | pass | reject | exec | attBlock | addHeader
deriving Repr, DecidableEq

/-- Name in the generated `expr_alloc` table. -/
def MType.name : MType → String
  | .mtch => "match" | .body => "body" | .date => "date" | .header => "header" | .stat => "stat"
  | .command => "command" | .move => "move" | .flag => "flag" | .flags => "flags" | .discard => "discard"
  | .brk => "break" | .label => "label" | .pass => "pass" | .reject => "reject" | .exec => "exec"
  | .attBlock => "attachment_block" | .addHeader => "add_header"

def MType.info (t : MType) : Gen.ExprInfo :=
  match Gen.exprTable.find? (fun i => i.name == t.name) with
  | some i => i
  | none => { name := t.name, action := false, inspect := false, interpolate := false, path := false, label := none }

def MType.isAction (t : MType) : Bool := t.info.action
def MType.isInspect (t : MType) : Bool := t.info.inspect
def MType.isInterp (t : MType) : Bool := t.info.interpolate
def MType.isPath (t : MType) : Bool := t.info.path

/-- One `regmatch_t` after `match_copy`: the (case-folded) text and its offsets;
`none` offsets for an unset group (`rm_so == -1`). -/
structure Sub where
  str : Bytes
  off : Option (Nat × Nat)
deriving Repr, DecidableEq

/-- `struct match`. -/
structure Match where
  ty : MType
  lno : Nat
  part : Nat
  maildir : Bytes := []
  subdir : Bytes := []
  path : Bytes := []
  subs : List Sub := []
  key : Option Bytes := none      -- mh_key / mh_val, dry run only
  val : Option Bytes := none
  argv : List Bytes := []          -- mh_exec after interpolation
  -- what the entry was built from (mh_expr)
  strings : List Bytes := []       -- ex_strings
  hkey : Bytes := []               -- add-header key
  hval : Bytes := []               -- add-header value
  pat : Option Pat := none
  execStdin : Bool := false
  execBody : Bool := false
deriving Repr, DecidableEq

abbrev MatchList := List Match

/-- Result of the regex engine on one subject: `regexec` with `nmatch = re_nsub + 1`. -/
inductive RxRes where
  | nomatch
  | error
  | ok (groups : List (Option (Nat × Nat)))
deriving Repr, DecidableEq

/-- The three time stamps of `struct stat` a date condition can look at (`tv_sec` of each). -/
structure FileTimes where
  atime : Int                                   -- `st_atim.tv_sec`
  mtime : Int                                   -- `st_mtim.tv_sec`
  ctime : Int                                   -- `st_ctim.tv_sec`
deriving Repr, DecidableEq

/-- What the evaluator asks its environment. -/
structure Env where
  rx : Pat → Bytes → RxRes
  command : List Bytes → Int                   -- `exec(argv, -1)`: 0, > 0, or < 0
  isDir : Bytes → Bool                          -- `stat(path) == 0 && S_ISDIR`
  now : Int
  strptime : Bytes → Option (Tm × Bytes)
  zoneName : Bytes → Option Int
  fileTime : Bytes → Option FileTimes           -- `stat(path, &st)`: `none` = -1, else the three time stamps
  timeFormat : Int → Option Bytes := fun _ => none   -- `time_format(tim, buf, sizeof(buf))`: `none` = NULL
  dryrun : Bool
  path : Bytes                                  -- `message_get_path(msg)`

/-- The message under evaluation: the parsed message and, lazily, its parts. -/
structure EvalMsg where
  msg : Msg
  flags : MFlags

/-! ## match list primitives -/

/-- `matches_find(ml, type)`. -/
def matchesFind (ml : MatchList) (t : MType) : Option Match := ml.find? (·.ty == t)

/-- `matches_remove(ml, type)`: the list without that type and the number of actions left. -/
def matchesRemove (ml : MatchList) (t : MType) : MatchList × Nat :=
  let ml' := ml.filter (·.ty != t)
  (ml', (ml'.filter (·.ty.isAction)).length)

/-- Remove the first entry of type `t` (`TAILQ_REMOVE(ml, matches_find(ml, t))`). -/
def removeFirst (ml : MatchList) (t : MType) : MatchList :=
  match ml with
  | [] => []
  | m :: r => if m.ty == t then r else m :: removeFirst r t

/-- `matches_merge(ml, mh)`: the list and the (possibly amended) new entry. -/
def matchesMerge (ml : MatchList) (mh : Match) : MatchList × Match :=
  if mh.ty != .move && mh.ty != .flag then (ml, mh)
  else
    match ml.getLast? with
    | some last =>
      if last.ty == mh.ty then (ml.dropLast, mh)         -- consecutive duplicates
      else
        let other := if mh.ty == .move then MType.flag else MType.move
        match matchesFind ml other with
        | none => (ml, mh)
        | some dup =>
          let mh' := if mh.ty == .move then { mh with subdir := dup.subdir } else { mh with maildir := dup.maildir }
          (removeFirst ml other, mh')
    | none => (ml, mh)

/-- `NAME_MAX + 1` and `PATH_MAX` of the platform headers the sources are compiled against (`cc -E -dM`, regenerated into
`Gen.nameMax` / `Gen.pathMax` on every run).  The numbers themselves are written in one place only, the evaluated lemmas of
`Proofs/GenBridge.lean`, which stop checking when the platform (or a `#define` of the tree) changes the limits; the
executable model (and with it the driver of the correspondence run) follows the regenerated values. -/
def NAME_MAX1 : Nat := Gen.nameMax + 1
def PATH_MAX : Nat := Gen.pathMax

/-- `matches_append(ml, mh)`: `(list, failed)`; on failure the entry is already in the list. -/
def matchesAppend (env : Env) (ml : MatchList) (mh : Match) : MatchList × Bool :=
  let (ml1, mh1) := matchesMerge ml mh
  if !mh1.ty.isPath then (ml1 ++ [mh1], false)
  else
    let md : Option Bytes := if mh1.maildir.isEmpty then pathslice env.path PATH_MAX 0 (-2) else some mh1.maildir
    match md with
    | none => (ml1 ++ [mh1], true)
    | some maildir =>
      let mh2 := { mh1 with maildir := maildir }
      let sd : Option Bytes := if mh2.subdir.isEmpty then pathslice env.path NAME_MAX1 (-2) (-2) else some mh2.subdir
      match sd with
      | none => (ml1 ++ [mh2], true)
      | some subdir =>
        let mh3 := { mh2 with subdir := subdir }
        match pathjoin PATH_MAX maildir subdir with
        | none => (ml1 ++ [mh3], true)
        | some p => (ml1 ++ [{ mh3 with path := p }], false)

/-! ## interpolation -/

structure Backref where
  mi : Nat
  si : Nat
deriving Repr, DecidableEq

/-- `strtoul(s, &end, 10)`: value and the number of bytes consumed (0 if no digits);
`none` for a value above `INT_MAX` as tested by the caller (negative numbers wrap). -/
def strtoulDigits : Bytes → Nat → Nat → Nat × Nat
  | c :: r, acc, n => if isdigit c then strtoulDigits r (acc * 10 + (c.toNat - 48)) (n + 1) else (acc, n)
  | [], acc, n => (acc, n)

/-- The value `strtoul` returns for `-v` (LP64, `ULONG_MAX = 2^64 - 1`), filtered by the caller's `> INT_MAX` test: digits that
overflow `unsigned long` give `ULONG_MAX` (ERANGE) whatever the sign; otherwise the result is the unsigned negation `2^64 - v`,
which is a small number again for `v` just below `2^64` (`-18446744073709551615` is 1). -/
def strtoulNeg (v : Nat) : Option Nat :=
  if v == 0 then some 0
  else if v > 18446744073709551615 then none
  else if 18446744073709551616 - v > 2147483647 then none
  else some (18446744073709551616 - v)

def strtoul (s : Bytes) : Option Nat × Nat :=
  let ws := (s.takeWhile isspace).length
  let s1 := s.drop ws
  let (neg, sgn) : Bool × Nat := match s1 with
    | 45 :: _ => (true, 1)
    | 43 :: _ => (false, 1)
    | _ => (false, 0)
  let (v, n) := strtoulDigits (s1.drop sgn) 0 0
  if n == 0 then (some 0, 0)                       -- no conversion: end = nptr
  else
    let consumed := ws + sgn + n
    if neg then (strtoulNeg v, consumed)                      -- -v wraps: above INT_MAX unless v is within INT_MAX of 2^64
    else if v > 2147483647 then (none, consumed) else (some v, consumed)

/-- `isbackref(str, &br)`: `.inl n` consumed with a back-reference, `.inr false` not a
back-reference (0), `.inr true` invalid (-1). -/
def isBackref (s : Bytes) : Sum (Nat × Backref) Bool :=
  match s with
  | 92 :: d :: _ =>
    if !isdigit d then .inr false
    else
      match strtoul (s.drop 1) with
      | (none, _) => .inr true
      | (some val, n) =>
        let rest := s.drop (1 + n)
        match rest with
        | 46 :: after =>
          match strtoul after with
          | (none, _) => .inr true
          | (some v2, n2) => .inl (1 + n + 1 + n2, { mi := val, si := v2 })
        | 92 :: 46 :: _ => .inl (1 + n + 1, { mi := 0, si := val })
        | _ => .inl (1 + n, { mi := 0, si := val })
  | _ => .inr false

/-- `match_backref(mh, br)`: `before` are the entries preceding `mh` in the list. -/
def matchBackref (before : MatchList) (br : Backref) : Option Bytes :=
  -- go backwards to the MATCH sentinel of this rule
  let rev := before.reverse
  match rev.findIdx? (·.ty == .mtch) with
  | none => none
  | some k =>
    -- entries after the sentinel, in order, up to (excluding) mh
    let after := (rev.take k).reverse
    match (after.filter (·.ty.isInterp))[br.mi]? with
    | none => none
    | some mi =>
      match mi.subs[br.si]? with
      | none => none
      | some s => some s.str

/-- `ismacro(str, &macro)`: `.inl (len, name)`, `.inr false` = 0, `.inr true` = -1. -/
def isMacro (s : Bytes) : Sum (Nat × Bytes) Bool :=
  match s with
  | 36 :: 123 :: r =>
    let name := r.takeWhile (· != 125)
    if name.length == r.length then .inr true else .inl (name.length + 3, name)
  | _ => .inr false

/-- `interpolate(mh, macros, str)`; `macros = none` is the NULL list. `none` = NULL. -/
def interpolate (before : MatchList) (macros : Option (List (Bytes × Bytes))) (s : Bytes) : Option Bytes :=
  go s.length s []
where
  go : Nat → Bytes → Bytes → Option Bytes
  | 0, _, out => some out
  | fuel + 1, s, out =>
    match s with
    | [] => some out
    | c :: r =>
      match isBackref s with
      | .inr true => none
      | .inl (n, br) =>
        match matchBackref before br with
        | none => none
        | some sub => go fuel (s.drop n) (out ++ cstr sub)
      | .inr false =>
        match isMacro s with
        | .inr true => none
        | .inl (n, name) =>
          match macros with
          | none => none
          | some ms =>
            match ms.find? (·.1 == name) with
            | none => none
            | some (_, v) => go fuel (s.drop n) (out ++ v)
        | .inr false => go fuel r (out ++ [c])

/-- `match_copy`: apply the case flags to each captured text. -/
def matchCopy (p : Pat) (subject : Bytes) (groups : List (Option (Nat × Nat))) : List Sub :=
  groups.map fun g =>
    match g with
    | none => { str := [], off := none }
    | some (so, eo) =>
      let t := (subject.drop so).take (eo - so)
      let t1 := if p.lcase then t.map tolower else t
      let t2 := if p.ucase then t1.map toupper else t1
      { str := t2, off := some (so, eo) }

/-! ## evaluation -/

structure St where
  ml : MatchList
  flags : MFlags          -- `me_mflags`, mutated by `flags` actions during evaluation
deriving Repr

/-- `expr_regexec(ex, ml, msg, env, key, val)`. -/
def exprRegexec (env : Env) (ty : MType) (lno part : Nat) (p : Pat) (key val : Bytes) (st : St) : Tri × St :=
  match env.rx p val with
  | .nomatch => (.nomatch, st)
  | .error => (.error, st)
  | .ok groups =>
    let mh : Match := { ty := ty, lno := lno, part := part, subs := matchCopy p val groups, pat := some p }
    let (ml, failed) := matchesAppend env st.ml mh
    if failed then (.error, { st with ml := ml })
    else if env.dryrun then
      -- mh_key / mh_val are set on the entry just appended
      (.match, { st with ml := ml.dropLast ++ (ml.getLast?.map fun m => { m with key := some key, val := some val }).toList })
    else (.match, { st with ml := ml })

/-- `expr_match` (discard, exec, label, reject) and the entries that only append. -/
def exprAppend (env : Env) (mh : Match) (st : St) (ok : Tri) : Tri × St :=
  let (ml, failed) := matchesAppend env st.ml mh
  (if failed then .error else ok, { st with ml := ml })

/-- The part an entry refers to: the message itself or one of its attachments. -/
def partMsg (m : Msg) (parts : List Msg) : Nat → Msg
  | 0 => m
  | i + 1 => parts.getD i m

/-- `expr_eval`.  `m` is `ea_msg` (with index `part`), `root` the message whose
attachment table indexes the parts. -/
def eval (env : Env) (root : Msg) : Expr → (part : Nat) → Msg → St → Tri × St
  | .block _ e, part, m, st =>
    match eval env root e part m st with
    | (.error, st1) => (.error, st1)
    | (ev, st1) =>
      if (matchesFind st1.ml .brk).isSome then
        (.nomatch, { st1 with ml := (matchesRemove st1.ml .brk).1 })
      else if (matchesFind st1.ml .pass).isSome then
        let (ml2, n) := matchesRemove st1.ml .pass
        (if n == 0 then .nomatch else .match, { st1 with ml := ml2 })
      else (ev, st1)
  | .and _ l r, part, m, st =>
    match eval env root l part m st with
    | (.match, st1) => eval env root r part m st1
    | other => other
  | .or _ l r, part, m, st =>
    match eval env root l part m st with
    | (.nomatch, st1) => eval env root r part m st1
    | other => other
  | .neg _ e, part, m, st =>
    let n := st.ml.length
    match eval env root e part m st with
    | (.error, st1) => (.error, st1)
    | (.nomatch, st1) => (.match, st1)
    | (.match, st1) => (.nomatch, { st1 with ml := st1.ml.take n })
  | .mtch lno c rhs, part, m, st =>
    let (ml, failed) := matchesAppend env st.ml { ty := .mtch, lno := lno, part := part }
    if failed then (.error, { st with ml := ml })
    else
      match eval env root c part m { st with ml := ml } with
      | (.match, st1) => eval env root rhs part m st1
      | other => other
  | .all _, _, _, st => (.match, st)
  | .attachment _ e, part, m, st =>
    match getAttachments m with
    | none => (.error, st)
    | some parts =>
      -- parts of the root are numbered 1..; parts of a part are not addressable (index 0 of themselves)
      let rec loop (ps : List Msg) (i : Nat) (st : St) : Tri × St :=
        match ps with
        | [] => (.nomatch, st)
        | p :: rest =>
          match eval env root e (if part == 0 then i + 1 else part) p st with
          | (.nomatch, st1) => loop rest (i + 1) st1
          | other => other
      loop parts 0 st
  | .attBlock _ blk, part, m, st =>
    match getAttachments m with
    | none => (.error, st)
    | some parts =>
      let rec loopB (ps : List Msg) (i : Nat) (ev : Tri) (st : St) : Tri × St :=
        match ps with
        | [] => (ev, st)
        | p :: rest =>
          match eval env root blk (if part == 0 then i + 1 else part) p st with
          | (.error, st1) => (.error, st1)
          | (.match, st1) => loopB rest (i + 1) .match st1
          | (.nomatch, st1) => loopB rest (i + 1) ev st1
      loopB parts 0 .nomatch st
  | .body lno p, part, m, st =>
    match getBody m with
    | none => (.error, st)
    | some b => exprRegexec env .body lno part p (ofString "Body") b st
  | .date lno field cmp age, part, m, st =>
    let dt : Option (Option (Int × Bytes)) :=
      match field with
      | .header =>
        match getHeader1 m (ofString "Date") with
        | none => some none                                  -- no Date header: no match
        | some d =>
          match timeParse env.strptime env.zoneName d with
          | none => none                                     -- error
          | some t => some (some (t, d))
      | f =>
        -- `ts = &st.st_atim | &st.st_mtim | &st.st_ctim` by field, then `stat(message_get_path(msg), &st)`,
        -- `tim = ts->tv_sec`, `date = time_format(tim, ..)`; a failing `stat` / `time_format` is EXPR_ERROR
        match env.fileTime env.path with
        | none => none
        | some sb =>
          let tim : Int := match f with
            | .access => sb.atime
            | .modified => sb.mtime
            | .created => sb.ctime
            | .header => 0                                   -- UNREACHABLE (handled above)
          match env.timeFormat tim with
          | none => none
          | some s => some (some (tim, s))
    match dt with
    | none => (.error, st)
    | some none => (.nomatch, st)
    | some (some (tim, date)) =>
      if !dateMatches cmp age env.now tim then (.nomatch, st)
      else exprRegexec env .date lno part { src := [46, 42] } (ofString "Date") date st
  | .header lno names p, part, m, st =>
    let rec keys (ks : List Bytes) (st : St) : Tri × St :=
      match ks with
      | [] => (.nomatch, st)
      | k :: rest =>
        match getHeader m k with
        | none => keys rest st
        | some vals =>
          let rec values (vs : List Bytes) (st : St) : Option (Tri × St) :=
            match vs with
            | [] => none
            | v :: more =>
              match exprRegexec env .header lno part p k v st with
              | (.nomatch, st1) => values more st1
              | other => some other
          match values vals st with
          | some r => r
          | none => keys rest st
    keys names st
  | .new _, _, _, st =>
    (if pathslice env.path NAME_MAX1 (-2) (-2) == some [110, 101, 119] then .match else .nomatch, st)
  | .old _, part, _, st =>
    -- an attachment is a zeroed `struct message`: it carries no maildir flags of its own
    if flagsIsSet (if part == 0 then st.flags else MFlags.empty) 83 then (.nomatch, st)
    else (if pathslice env.path NAME_MAX1 (-2) (-2) == some [99, 117, 114] then .match else .nomatch, st)
  | .stat lno path, part, _, st =>
    let mh : Match := { ty := .stat, lno := lno, part := part, strings := [path] }
    let (ml, failed) := matchesAppend env st.ml mh
    let ev : Tri :=
      if failed then .error
      else
        match strlcpyFits PATH_MAX path with
        | none => .error
        | some p =>
          match interpolate ml.dropLast none p with
          | none => .error
          | some ip =>
            match strlcpyFits PATH_MAX ip with
            | none => .error
            | some ip => if env.isDir ip then .match else .nomatch
    (ev, { st with ml := ml.dropLast })
  | .command lno argv, part, _, st =>
    let mh : Match := { ty := .command, lno := lno, part := part, strings := argv }
    let (ml, failed) := matchesAppend env st.ml mh
    let ev : Tri :=
      if failed then .error
      else
        match argv.mapM (interpolate ml.dropLast none) with
        | none => .error
        | some av =>
          let rc := env.command av
          if rc == 0 then .match else if rc < 0 then .error else .nomatch
    (ev, { st with ml := ml.dropLast })
  | .move lno path, part, _, st =>
    match strlcpyFits PATH_MAX path with
    | none => (.error, st)
    | some p => exprAppend env { ty := .move, lno := lno, part := part, maildir := p, strings := [path] } st .match
  | .flag lno subdir, part, _, st =>
    match strlcpyFits NAME_MAX1 subdir with
    | none => (.error, st)
    | some sd => exprAppend env { ty := .flag, lno := lno, part := part, subdir := sd, strings := [subdir] } st .match
  | .flags lno fl, part, _, st =>
    -- every letter is tried; any unknown one is an error after all were applied
    let rec setAll (cs : Bytes) (mf : MFlags) (err : Bool) : MFlags × Bool :=
      match cs with
      | [] => (mf, err)
      | c :: r => match flagsSet mf c with
        | none => setAll r mf true
        | some mf' => setAll r mf' err
    let (mf, err) := setAll fl st.flags false
    if err then (.error, { st with flags := mf })
    else exprAppend env { ty := .flags, lno := lno, part := part, strings := [fl] } { st with flags := mf } .match
  | .discard lno, part, _, st => exprAppend env { ty := .discard, lno := lno, part := part } st .match
  | .brk lno, part, _, st => exprAppend env { ty := .brk, lno := lno, part := part } st .match
  | .label lno ls, part, _, st => exprAppend env { ty := .label, lno := lno, part := part, strings := ls } st .match
  | .pass lno, part, _, st => exprAppend env { ty := .pass, lno := lno, part := part } st .nomatch
  | .reject lno, part, _, st => exprAppend env { ty := .reject, lno := lno, part := part } st .match
  | .exec lno si bo argv, part, _, st =>
    exprAppend env { ty := .exec, lno := lno, part := part, strings := argv, execStdin := si, execBody := bo } st .match
  | .addHeader lno k v, part, _, st =>
    exprAppend env { ty := .addHeader, lno := lno, part := part, hkey := k, hval := v } st .match

/-! ## after evaluation: interpolation of the whole list -/

/-- The copy loop of `match_interpolate` over one existing (decoded) `X-Label` value: `'\n'` and `'\r'`
become a space (/repo 71eba6c), every other byte is copied. -/
def labelSafe (v : Bytes) : Bytes := v.map fun c => if c == 10 || c == 13 then 32 else c

/-- `match_interpolate(mh, macros)` for the entry at position `i`; the message (and its
parts, for entries created inside attachment blocks) is updated by label / add-header. -/
def matchInterpolate (macros : Option (List (Bytes × Bytes))) (ml : MatchList) (i : Nat) (mh : Match)
    (msgs : Nat → Msg) : Option (Match × Option (Nat × Msg)) :=
  let before := ml.take i
  match mh.ty with
  | .stat | .move =>
    match interpolate before macros mh.path with
    | none => none
    | some p => (strlcpyFits PATH_MAX p).map fun p => ({ mh with path := p }, none)
  | .label =>
    let m := msgs mh.part
    let existing : Bytes :=
      match getHeader m (ofString "X-Label") with
      | none => []
      | some ls => ((ls.map labelSafe).intersperse [32]).flatten
    let rec add (ss : List Bytes) (buf : Bytes) : Option Bytes :=
      match ss with
      | [] => some buf
      | s :: r =>
        match interpolate before macros s with
        | none => none
        | some v => add r ((if buf.isEmpty then buf else buf ++ [32]) ++ v)
    match add mh.strings existing with
    | none => none
    | some lab => some (mh, some (mh.part, setHeader m (ofString "X-Label") (cstr lab)))
  | .command | .exec =>
    (mh.strings.mapM (interpolate before macros)).map fun av => ({ mh with argv := av.map cstr }, none)
  | .addHeader =>
    match interpolate before macros mh.hval with
    | none => none
    | some v => some (mh, some (mh.part, setHeader (msgs mh.part) mh.hkey (cstr v)))
  | _ => some (mh, none)

/-- `matches_interpolate(ml)`: the interpolated list and the updated parts, or `none`. -/
def matchesInterpolate (env : Env) (ml : MatchList) (msgs : Nat → Msg) : Option (MatchList × (Nat → Msg)) :=
  let macros := some [(ofString "path", env.path)]
  let rec go (i : Nat) (rest : MatchList) (cur : MatchList) (msgs : Nat → Msg) : Option (MatchList × (Nat → Msg)) :=
    match rest with
    | [] => some (cur, msgs)
    | mh :: more =>
      match matchInterpolate macros cur i mh msgs with
      | none => none
      | some (mh', upd) =>
        let cur' := cur.set i mh'
        let msgs' := match upd with
          | none => msgs
          | some (k, m) => fun j => if j == k then m else msgs j
        go (i + 1) more cur' msgs'
  go 0 ml ml msgs

end Mdsort.Model
