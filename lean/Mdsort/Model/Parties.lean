import Mdsort.Model.Plan

/-!
# Several parties on ONE abstract file system (C17)

A party is a program over `Call` (`Prog Bool`, the value is its error flag) with its OWN handle
table and its own trace of calls; all parties share the directories, files, devices and
modification times of one `World` (`Shared.fs`, whose `handles`/`trace` fields are not used).
One step = the next call of one party, answered by `predict` on the shared file system as it is
at that moment and applied with `applyOk`: there are no injected faults, the "faults" a party
sees are what the other parties did in between.  A schedule is a list of party indices;
`runSched` is total and executable.

Parties are mdsort runs (`errOf (matchesExec ..)` for one message, `scanExec` for a directory
listing followed by the action list on every name found) and an external client
(`clientProg`: `rename` and `unlink` of names in the maildirs, e.g. `name -> name:2,S`).

Read from the history (`Shared.log`): which entry a call removed / bound, the commit of a copy
(`Event.commits`), the lineage of a file (`originIn`: a committed copy descends from the file it
superseded), an outright removal of a version of an initial file (`Event.destroysRoot`).
Isolation hypotheses: `Hiso` (per step: `isoStep`), `HisoExcept` (clients exempt), `HisoOwn` (the
local clause only), `HisoReaddir` / `HisoReaddirNS` (stated on what `readdir` returns).
-/

namespace Mdsort.Model
open Mdsort

/-- Local state of one party: what is left to do, its descriptor table, its calls so far. -/
structure PState where
  prog : Prog Bool
  handles : List Obj
  trace : List (Call × Res)

/-- One step of the global history, with the directory entries the call refers to resolved in
the issuing party's handle table at that moment. -/
structure Event where
  party : Nat
  call : Call
  res : Res
  src : Option (Bytes × Bytes)       -- entry a successful `renameat`/`unlinkat` removes
  dst : Option (Bytes × Bytes)       -- entry a successful `openExcl`/`renameat` binds
  srcFid : Option Nat                -- file `src` was bound to when the call was issued
  dstFid : Option Nat                -- file `dst` was bound to when the call was issued
  pending : Bool                     -- the party had created names in flight (see `inFlightH`)
  flight : List (Bytes × Bytes) := []   -- those names, as entries (directory, name)
  flightFid : Option Nat := none     -- the file the first of them was bound to
  srcRoot : Option Nat := none       -- the initial file `srcFid` descends from (see `originIn`)
  dstRoot : Option Nat := none       -- the initial file `dstFid` descends from
deriving Repr, DecidableEq

structure Shared where
  fs : World
  parties : List PState
  log : List Event

/-- The world as party `p` sees it: the shared file system with its own handle table. -/
def Shared.view (s : Shared) (p : PState) : World := { s.fs with handles := p.handles, trace := [] }

/-- Back to the shared part. -/
def World.shared (w : World) : World := { w with handles := [], trace := [] }

def callSrc (w : World) : Call → Option (Bytes × Bytes)
  | .renameat d1 n1 _ _ => (w.dirPath d1).map fun p => (p, n1)
  | .unlinkat d n => (w.dirPath d).map fun p => (p, n)
  | _ => none

def callDst (w : World) : Call → Option (Bytes × Bytes)
  | .renameat _ _ d2 n2 => (w.dirPath d2).map fun p => (p, n2)
  | .openExcl d n => (w.dirPath d).map fun p => (p, n)
  | _ => none

def World.lookupE (w : World) (e : Option (Bytes × Bytes)) : Option Nat := e.bind fun x => w.lookup x.1 x.2

/-! ## names in flight -/

/-- Effect of one call on the created names a party still has in flight. -/
def inFlightUpd (acc : List (Handle × Bytes)) : Call × Res → List (Handle × Bytes)
  | (.openExcl d n, .ok _) => acc ++ [(d, n)]
  | (.renameat _ _ d2 n2, .ok _) => acc.filter (· != (d2, n2))
  | (.unlinkat d n, r) =>
    if acc.contains (d, n) then acc.filter (· != (d, n))     -- roll-back of the created name
    else if isOk r then []                                   -- the original is gone: the copy is the message now
    else acc
  | _ => acc

/-- The names (directory handle, name) a party created with `O_CREAT|O_EXCL` and has neither
committed (a successful rename of the message onto the name, or - when the name holds a complete
copy - a successful `unlinkat` of the original) nor rolled back (`unlinkat` of the name) yet. -/
def inFlightH (tr : List (Call × Res)) : List (Handle × Bytes) := tr.foldl inFlightUpd []

def handlesDirPath (hs : List Obj) (d : Handle) : Option Bytes :=
  match hs.getD d .closed with
  | .dir p _ _ => some p
  | _ => none

/-- The same, as (directory path, name). -/
def PState.inFlight (p : PState) : List (Bytes × Bytes) :=
  (inFlightH p.trace).filterMap fun x => (handlesDirPath p.handles x.1).map fun q => (q, x.2)

/-! ## lineage: which initial file an entry descends from (read from the global history) -/

/-- The commit of a copy: a successful `unlinkat`, by a party that has a created name in flight, of an
entry other than that name (`maildir_write`: the original after the new file is complete; `maildir_move`
across devices: the source after the copy).  From then on the copy IS the message. -/
def Event.commits (e : Event) : Bool :=
  match e.call, e.src with
  | .unlinkat .., some x => isOk e.res && !e.flight.isEmpty && !e.flight.contains x
  | _, _ => false

/-- One event of the history: a committed copy inherits the origin of the file it supersedes. -/
def originStep (o : Nat → Nat) (e : Event) : Nat → Nat := fun g =>
  if e.commits && e.flightFid == some g then e.srcRoot.getD g else o g

/-- `originIn log g`: the file `g` descends from by the copy commits of `log` (itself if it is no copy). -/
def originIn (log : List Event) : Nat → Nat := log.foldl originStep id

/-! ## steps and schedules -/

/-- The world after party `p` issued call `c` and got the predicted result. -/
def stepView (s : Shared) (p : PState) (c : Call) : World :=
  (applyOk (s.view p) c (predict (s.view p) c)).getD (s.view p)

/-- The party after its call `c` (continuation `k`). -/
def stepLocal (s : Shared) (p : PState) (c : Call) (k : Res → Prog Bool) : PState :=
  { prog := k (predict (s.view p) c), handles := (stepView s p c).handles, trace := p.trace ++ [(c, predict (s.view p) c)] }

def stepEvent (s : Shared) (i : Nat) (p : PState) (c : Call) : Event :=
  let w := s.view p
  { party := i, call := c, res := predict w c, src := callSrc w c, dst := callDst w c,
    srcFid := w.lookupE (callSrc w c), dstFid := w.lookupE (callDst w c),
    pending := !(inFlightH p.trace).isEmpty,
    flight := p.inFlight, flightFid := w.lookupE p.inFlight.head?,
    srcRoot := (w.lookupE (callSrc w c)).map (originIn s.log),
    dstRoot := (w.lookupE (callDst w c)).map (originIn s.log) }

def stepCall (s : Shared) (i : Nat) (p : PState) (c : Call) (k : Res → Prog Bool) : Shared :=
  { fs := (stepView s p c).shared, parties := s.parties.set i (stepLocal s p c k), log := s.log ++ [stepEvent s i p c] }

/-- Party `i` issues its next call (nothing happens when it has finished or does not exist). -/
def stepParty (s : Shared) (i : Nat) : Shared :=
  match s.parties[i]? with
  | none => s
  | some p =>
    match p.prog with
    | .ret _ => s
    | .call c k => stepCall s i p c k

def runSched (s : Shared) : List Nat → Shared
  | [] => s
  | i :: rest => runSched (stepParty s i) rest

def PState.finished (p : PState) : Bool :=
  match p.prog with
  | .ret _ => true
  | .call .. => false

/-- The error flag of a finished party. -/
def PState.result (p : PState) : Option Bool :=
  match p.prog with
  | .ret e => some e
  | .call .. => none

/-- Every party has finished. -/
def Shared.quiescent (s : Shared) : Bool := s.parties.all (·.finished)

/-- Initial state: file system and, per party, its program and initial handle table. -/
def Shared.init (fs : World) (ps : List (Prog Bool × List Obj)) : Shared :=
  { fs := fs.shared, parties := ps.map fun x => { prog := x.1, handles := x.2, trace := [] }, log := [] }

/-! ## reading the global history -/

def Call.isRename : Call → Bool
  | .renameat .. => true
  | _ => false

/-- The call tried to remove entry `x` (rename it away or unlink it). -/
def Event.attempts (e : Event) (x : Bytes × Bytes) : Bool := e.src == some x
/-- ... and succeeded. -/
def Event.removes (e : Event) (x : Bytes × Bytes) : Bool := e.src == some x && isOk e.res
/-- The call bound entry `x` (exclusive create, or rename onto it). -/
def Event.binds (e : Event) (x : Bytes × Bytes) : Bool := e.dst == some x && isOk e.res
/-- What the loser of a race sees: the source is gone (`ENOENT`); a `renameat` may instead report a
problem with its target before looking at the source (`EXDEV`, `EBADF`). -/
def Event.lost (e : Event) : Bool :=
  e.res == .err "ENOENT" || (e.call.isRename && (e.res == .err "EXDEV" || e.res == .err "EBADF"))

/-- An entry bound to file `f` was removed outright: unlinked by a party that had no copy of its own in
flight (a `discard`, or the client's delete), or replaced by a rename onto it. -/
def Event.destroys (e : Event) (f : Nat) : Bool :=
  isOk e.res && ((!e.call.isRename && !e.pending && e.srcFid == some f) || (e.call.isRename && e.dstFid == some f && e.srcFid != some f))

/-- A version of the initial file `f0` was removed outright: its entry was unlinked by a party that had
no copy of its own in flight (a `discard`, or the client's delete), or another file was renamed onto it. -/
def Event.destroysRoot (e : Event) (f0 : Nat) : Bool :=
  isOk e.res && ((!e.call.isRename && !e.pending && e.srcRoot == some f0) ||
    (e.call.isRename && e.dstRoot == some f0 && e.srcFid != e.dstFid))

/-- The lineage read from the history of a state. -/
def Shared.origin (s : Shared) : Nat → Nat := originIn s.log

/-! ## the exactly-once check on a final state (by content, for any kind of party) -/

/-- All directory entries: (directory, name, file id). -/
def World.entries (w : World) : List (Bytes × Bytes × Nat) :=
  w.dirs.flatMap fun d => d.2.map fun e => (d.1, e.1, e.2)

def World.content (w : World) (f : Nat) : Bytes := ((w.file f).map (·.data)).getD []

/-- `c` is a stage of the message whose initial content is `c0`: a complete message with the same
body (the actions of mdsort rewrite the header block only). -/
def isStage (c0 c : Bytes) : Bool := (parseMessage c).body == (parseMessage c0).body

/-- The entries of `w` that hold a stage of the message with initial content `c0`. -/
def stageEntries (w : World) (c0 : Bytes) : List (Bytes × Bytes × Nat) :=
  w.entries.filter fun e => isStage c0 (w.content e.2.2)

/-! ## isolation (`H_iso`) -/

/-- Names in flight of the parties other than `a`. -/
def foreignInFlight (s : Shared) (a : Nat) : List (Bytes × Bytes) :=
  (s.parties.zipIdx.filter fun x => x.2 != a).flatMap fun x => x.1.inFlight

/-- Isolation of the next call of party `a`: the entry it removes (`unlinkat`, source of `renameat`)
and the entry a `renameat` replaces is not a name another party has in flight, and it does not rename
(treat as a message) a name it has in flight itself.  Nothing is asked of an exclusive create: on a
name somebody has in flight it fails with `EEXIST`. -/
def isoStep (s : Shared) (a : Nat) : Bool :=
  match s.parties[a]? with
  | none => true
  | some p =>
    match p.prog with
    | .ret _ => true
    | .call c _ =>
      let w := s.view p
      let touched := (callSrc w c).toList ++ (if c.isRename then (callDst w c).toList else [])
      touched.all (fun x => !(foreignInFlight s a).contains x) &&
        (!c.isRename || (callSrc w c).toList.all fun x => !p.inFlight.contains x)

/-- `H_iso` along a schedule. -/
def Hiso (s : Shared) : List Nat → Bool
  | [] => true
  | a :: rest => isoStep s a && Hiso (stepParty s a) rest

/-- `H_iso` asked only of the steps of the parties outside `cl` (used for the external client, whose
steps need no isolation hypothesis when it keeps to names no mdsort process generates). -/
def HisoExcept (cl : List Nat) (s : Shared) : List Nat → Bool
  | [] => true
  | a :: rest => (cl.contains a || isoStep s a) && HisoExcept cl (stepParty s a) rest

/-- `H_iso` as the task words it: no `readdir` of a party returns a name another party has in flight. -/
def isoReaddirStep (s : Shared) (a : Nat) : Bool :=
  match s.parties[a]? with
  | none => true
  | some p =>
    match p.prog with
    | .call (.readdir d) _ =>
      let w := s.view p
      match predict w (.readdir d), w.dirPath d with
      | .name n, some q => !(foreignInFlight s a).contains (q, n)
      | _, _ => true
    | _ => true

def HisoReaddir (s : Shared) : List Nat → Bool
  | [] => true
  | a :: rest => isoReaddirStep s a && HisoReaddir (stepParty s a) rest

/-- The purely local clause of `H_iso`: the next call of party `a` does not rename (treat as a message) a name
the party has in flight itself. -/
def ownStep (s : Shared) (a : Nat) : Bool :=
  match s.parties[a]? with
  | none => true
  | some p =>
    match p.prog with
    | .ret _ => true
    | .call c _ => !c.isRename || (callSrc (s.view p) c).toList.all fun x => !p.inFlight.contains x

def HisoOwn (s : Shared) : List Nat → Bool
  | [] => true
  | a :: rest => ownStep s a && HisoOwn (stepParty s a) rest

/-- Isolation stated on the results of `readdir` and on name spaces: `N i` is the set of names party `i`
can generate (`now.pid_count.host...`); no `readdir` of a party returns a name of ANOTHER party's name space. -/
def HisoReaddirNS (N : Nat → Bytes → Prop) (s : Shared) : List Nat → Prop
  | [] => True
  | a :: rest =>
    (∀ (ps : PState) (d : Handle) (k : Res → Prog Bool) (n : Bytes), s.parties[a]? = some ps → ps.prog = .call (.readdir d) k →
      predict (s.view ps) (.readdir d) = .name n → ∀ j, j ≠ a → ¬ N j n) ∧
    HisoReaddirNS N (stepParty s a) rest

/-! ## the parties -/

/-- An mdsort action-list run as a party: its value is the error flag. -/
def errOf {α} (p : Prog (α × Bool)) : Prog Bool := p.bind fun x => .ret x.2

/-- One step of the external client (a mail reader): set flags by renaming, or delete. -/
inductive ClientOp where
  | rename (d1 : Handle) (n1 : Bytes) (d2 : Handle) (n2 : Bytes)
  | unlink (d : Handle) (n : Bytes)
deriving Repr, DecidableEq

def ClientOp.call : ClientOp → Call
  | .rename d1 n1 d2 n2 => .renameat d1 n1 d2 n2
  | .unlink d n => .unlinkat d n

/-- The names the operation mentions are outside `N`. -/
def ClientOp.avoids (N : Bytes → Prop) : ClientOp → Prop
  | .rename _ n1 _ n2 => ¬ N n1 ∧ ¬ N n2
  | .unlink _ n => ¬ N n

def clientProg : List ClientOp → Prog Bool
  | [] => .ret false
  | op :: rest => .call op.call fun _ => clientProg rest

/-- An mdsort run over one directory as far as the file system is concerned: list the directory
(`maildir_walk`) and execute the action list on every name found (`matches_exec`).  What parsing
and evaluating the message yields for a name - no match, or the action list and the message
state - is the parameter `rule`; the `openat`/`read`/`close` of parsing are left out. -/
def scanExec (env : PEnv) (md : Maildir) (rule : Bytes → Option (MatchList × MsgSt)) : Nat → Bool → Prog Bool
  | 0, e => .ret e
  | fuel + 1, e =>
    match md.dirH with
    | none => .ret true
    | some d =>
      .call (.readdir d) fun r =>
        match r with
        | .name n =>
          if n == [46] || n == [46, 46] then scanExec env md rule fuel e
          else
            match rule n with
            | none => scanExec env md rule fuel e
            | some (ml, ms) =>
              (matchesExec env ml { src := md, chsrc := false, ms := ms, reject := false }).bind fun x =>
                scanExec env md rule fuel (e || x.2)
        | .eof => .ret e
        | _ => .ret true

end Mdsort.Model
