import Mdsort.Model.L0.Basic

/-!
# L0 model of libks/buffer.c (the growable byte buffer)

Every string mdsort builds piecewise goes through this buffer: interpolated strings (match.c `interpolate`, 64
bytes to start with), the `X-Label` value (match.c `match_interpolate`, 128), macro expansion (parse.y
`expandmacros`, 64), the decoders (decode.c: `strlen` of the input, 128 for an encoded word) and the whole message
(`buffer_read_fd`, 8192).  The list-level models treat it as the list of bytes appended so far; here it is what the
C code manipulates: a `malloc`ed object (`bf_ptr`, an `L0.Buf`: every write is bounds-checked), its size `bf_siz`
(`cap`) and the number of bytes in use `bf_len` (`len`).  `Proofs/L0Buffer.lean` proves that no sequence of
operations writes outside the object and that the bytes in use are the concatenation of the pieces appended, which
is the refinement the list-level models rely on.

Transcribed: `buffer_alloc`, `buffer_reserve`, `buffer_puts`, `buffer_putc`, `buffer_printf`/`buffer_vprintf`,
`buffer_release`, `buffer_str`, `buffer_get_len`, `buffer_get_size`, `buffer_read_fd`, `buffer_reset`,
`buffer_pop`.  Not modelled: allocation failure (`calloc`/`realloc` returning NULL) and `size_t` overflow
(`ULONG_MAX` bytes); `realloc` is "a new object whose first `min(old, new)` bytes are the old ones, the rest
garbage".  `vsnprintf(dst, size, fmt, ...)` is its contract on the formatted string `s` (the bytes `fmt` and its
arguments produce, given as data): with `size > 0` it writes `min(|s|, size - 1)` bytes of `s` and a NUL, and
returns `|s|`.
-/

namespace Mdsort.L0
open Mdsort

/-- `struct buffer`. -/
structure LBuf where
  /-- the object `bf_ptr` points to; the empty object stands for `NULL` (`bf_siz = 0`) -/
  store : Buf
  /-- `bf_siz` -/
  cap : Nat
  /-- `bf_len` -/
  len : Nat
deriving Repr, DecidableEq, Inhabited

/-- `realloc(ptr, n)`: a new object of `n` bytes, the first `min(old, n)` bytes copied, the rest garbage. -/
def Buf.realloc (b : Buf) (n : Nat) : Buf := ⟨(b.bytes.toList.take n ++ List.replicate (n - b.bytes.size) 0xAA).toArray⟩

/-- `memcpy(&b[off], s, |s|)`, byte by byte through the checked setter. -/
def Buf.writeAt (b : Buf) (off : Nat) : Bytes → M Buf
  | [] => .ok b
  | c :: cs =>
    match b.set off c with
    | .error e => .error e
    | .ok b' => Buf.writeAt b' (off + 1) cs

/-- `vsnprintf(&b[off], size, fmt, ...)` where `s` is the formatted string: nothing when `size = 0`, otherwise
`min(|s|, size - 1)` bytes of `s` followed by a NUL.  (The return value is `|s|`.) -/
def vsnprintf (b : Buf) (off size : Nat) (s : Bytes) : M Buf :=
  if size = 0 then .ok b
  else
    match b.writeAt off (s.take (min s.length (size - 1))) with
    | .error e => .error e
    | .ok b' => b'.set (off + min s.length (size - 1)) 0

namespace LBuf

/-- `calloc(1, sizeof(*bf))`. -/
def empty : LBuf := { store := ⟨#[]⟩, cap := 0, len := 0 }

/-- `while (newsiz < newlen) newsiz *= 2;` -/
def grow (newsiz newlen : Nat) : Nat :=
  if newsiz < newlen ∧ 0 < newsiz then grow (newsiz * 2) newlen else newsiz
termination_by newlen - newsiz
decreasing_by omega

/-- `buffer_reserve(bf, n)`: nothing when `bf_siz >= bf_len + n`; otherwise double (from 16 for an empty buffer)
until it fits and `realloc`. -/
def reserve (bf : LBuf) (n : Nat) : LBuf :=
  if bf.cap ≥ bf.len + n then bf
  else
    let newsiz := grow (if bf.cap = 0 then 16 else bf.cap) (bf.len + n)
    { bf with store := bf.store.realloc newsiz, cap := newsiz }

/-- `buffer_alloc(sizhint)`. -/
def alloc (sizhint : Nat) : LBuf := empty.reserve sizhint

/-- `buffer_puts(bf, str, len)`: returns the C return value and the buffer. -/
def puts (bf : LBuf) (s : Bytes) : M (Nat × LBuf) :=
  if s.isEmpty then .ok (0, bf)
  else
    let bf := bf.reserve s.length
    match bf.store.writeAt bf.len s with                       -- memcpy(&bf->bf_ptr[bf->bf_len], str, len)
    | .error e => .error e
    | .ok st => .ok (0, { bf with store := st, len := bf.len + s.length })

/-- `buffer_putc(bf, ch)`. -/
def putc (bf : LBuf) (c : UInt8) : M (Nat × LBuf) := bf.puts [c]

/-- `buffer_vprintf` with the two numbers the code chooses left open: `extra` = what is reserved beyond the `n`
formatted bytes (the code: 1, for the NUL `vsnprintf` writes), `guarded` = whether the second `vsnprintf` is told
the space that is really left (`bf_siz - bf_len`, the code) or the `n + 1` bytes it needs. -/
def vprintfWith (extra : Nat) (guarded : Bool) (bf : LBuf) (s : Bytes) : M (Nat × LBuf) :=
  let n := s.length                                            -- n = vsnprintf(NULL, 0, fmt, ap)
  let bf := bf.reserve (n + extra)                             -- buffer_reserve(bf, n + 1)
  let avail := bf.cap - bf.len                                 -- len = bf->bf_siz - bf->bf_len
  match vsnprintf bf.store bf.len (if guarded then avail else n + 1) s with
  | .error e => .error e
  | .ok st =>
    if n ≥ avail then .ok (1, { bf with store := st })         -- if (n < 0 || (size_t)n >= len) error = 1
    else .ok (0, { bf with store := st, len := bf.len + n })   -- bf->bf_len += n

/-- `buffer_vprintf(bf, fmt, ap)` / `buffer_printf(bf, fmt, ...)` as in libks/buffer.c; `s` = the formatted string. -/
def vprintf (bf : LBuf) (s : Bytes) : M (Nat × LBuf) := vprintfWith 1 true bf s

/-- `buffer_release(bf)`: the storage, and the buffer left behind. -/
def release (bf : LBuf) : Buf × LBuf := (bf.store, empty)

/-- `buffer_str(bf)`: terminate unless the last byte in use is a NUL already, then release. -/
def str (bf : LBuf) : M (Buf × LBuf) :=
  if bf.len = 0 then
    match bf.putc 0 with
    | .error e => .error e
    | .ok (_, bf') => .ok bf'.release
  else
    match bf.store.get? (bf.len - 1) with                      -- bf->bf_ptr[bf->bf_len - 1] != '\0'
    | .error e => .error e
    | .ok c =>
      if c != 0 then
        match bf.putc 0 with
        | .error e => .error e
        | .ok (_, bf') => .ok bf'.release
      else .ok bf.release

/-- `buffer_get_len`, `buffer_get_size`. -/
def getLen (bf : LBuf) : Nat := bf.len
def getSize (bf : LBuf) : Nat := bf.cap

/-- `buffer_reset`, `buffer_pop(bf, n)` (not called by mdsort). -/
def reset (bf : LBuf) : LBuf := { bf with len := 0 }
def pop (bf : LBuf) (n : Nat) : Nat × LBuf := (min n bf.len, { bf with len := bf.len - min n bf.len })

/-- The loop of `buffer_read_fd`: `read(fd, &bf_ptr[bf_len], bf_siz - bf_len)` delivers a non-empty prefix of what
is left of the file (`short`: an upper bound on the size of each of the first reads, for short reads; after that
full reads), `bf_len += n`, `buffer_reserve(bf, bf_siz / 2)`; a result of 0 ends the loop. -/
def readLoop (bf : LBuf) (data : Bytes) (short : List Nat) : M LBuf :=
  let room := bf.cap - bf.len
  let n := min (min room data.length) (match short with | [] => data.length | k :: _ => k + 1)
  if h : n = 0 then .ok bf                                      -- if (n == 0) break;
  else
    match bf.store.writeAt bf.len (data.take n) with            -- the kernel stores n bytes at &bf_ptr[bf_len]
    | .error e => .error e
    | .ok st =>
      let bf1 := { bf with store := st, len := bf.len + n }
      readLoop (bf1.reserve (bf1.cap / 2)) (data.drop n) short.tail
termination_by data.length
decreasing_by simp only [List.length_drop]; omega

/-- `buffer_read_fd(fd)` on a descriptor that delivers `data`. -/
def readFd (data : Bytes) (short : List Nat) : M LBuf := readLoop (alloc (1 <<< 13)) data short

/-- The bytes in use. -/
def contents (bf : LBuf) : Bytes := bf.store.bytes.toList.take bf.len

end LBuf

/-- One appending operation of the buffer interface. -/
inductive BufOp where
  | puts (s : Bytes)
  | putc (c : UInt8)
  | printf (s : Bytes)       -- `buffer_printf(bf, fmt, ...)` whose format and arguments produce `s`
deriving Repr, DecidableEq

/-- What the operation is meant to append. -/
def BufOp.piece : BufOp → Bytes
  | .puts s => s
  | .putc c => [c]
  | .printf s => s

namespace LBuf

def step (bf : LBuf) : BufOp → M (Nat × LBuf)
  | .puts s => bf.puts s
  | .putc c => bf.putc c
  | .printf s => bf.vprintf s

/-- A sequence of operations: the final buffer and the return values. -/
def run (bf : LBuf) : List BufOp → M (LBuf × List Nat)
  | [] => .ok (bf, [])
  | op :: ops =>
    match bf.step op with
    | .error e => .error e
    | .ok (rc, bf') =>
      match run bf' ops with
      | .error e => .error e
      | .ok (bf'', rcs) => .ok (bf'', rc :: rcs)

/-- The same with `buffer_vprintf` replaced by a variant (`extra`, `guarded`), for the two "what if" statements. -/
def stepWith (extra : Nat) (guarded : Bool) (bf : LBuf) : BufOp → M (Nat × LBuf)
  | .puts s => bf.puts s
  | .putc c => bf.putc c
  | .printf s => bf.vprintfWith extra guarded s

def runWith (extra : Nat) (guarded : Bool) (bf : LBuf) : List BufOp → M (LBuf × List Nat)
  | [] => .ok (bf, [])
  | op :: ops =>
    match bf.stepWith extra guarded op with
    | .error e => .error e
    | .ok (rc, bf') =>
      match runWith extra guarded bf' ops with
      | .error e => .error e
      | .ok (bf'', rcs) => .ok (bf'', rc :: rcs)

end LBuf

end Mdsort.L0
